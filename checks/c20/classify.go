package c20

import (
	"fmt"
	"regexp"
	"regexp/syntax"
	"sort"
	"strings"
	"unicode/utf16"
	"unicode/utf8"

	"github.com/dop251/goja/parser"
)

// ---------- which engine backs new RegExp(p, f)? ----------
//
// Replicates the decision of goja.compileRegexp with the public parser.TransformRegExp (the real
// translation code) and Go's regexp.Compile: the pattern is pre-processed (astral literals <-> \u
// surrogate escapes), translated, wrapped in (?msi:...) and compiled; any failure means regexp2 only.
// (Cross-checked against regexpPattern.regexpWrapper != nil through repo_hook/verif_c20.go.)

func predictRE2(p, f string) bool {
	unicode := strings.Contains(f, "u")
	dotAll := strings.Contains(f, "s")
	if unicode {
		p = convertRegexpToUnicode(p)
	} else {
		p = convertRegexpToUtf16(p)
	}
	re2, err := parser.TransformRegExp(p, dotAll, unicode)
	if err != nil {
		return false
	}
	fl := ""
	if strings.Contains(f, "m") {
		fl += "m"
	}
	if dotAll {
		fl += "s"
	}
	if strings.Contains(f, "i") {
		fl += "i"
	}
	if fl != "" {
		re2 = fmt.Sprintf("(?%s:%s)", fl, re2)
	}
	_, err = regexp.Compile(re2)
	return err == nil
}

func decodeHex(s string) (int, bool) {
	v := 0
	for i := 0; i < len(s); i++ {
		c := s[i]
		var n byte
		switch {
		case '0' <= c && c <= '9':
			n = c - '0'
		case 'a' <= c && c <= 'f':
			n = c - 'a' + 10
		case 'A' <= c && c <= 'F':
			n = c - 'A' + 10
		default:
			return 0, false
		}
		v = v*16 + int(n)
	}
	return v, true
}

// same algorithm as goja.convertRegexpToUnicode (valid \uD8xx\uDCxx escape pairs -> the astral rune)
func convertRegexpToUnicode(p string) string {
	var sb strings.Builder
	pos := 0
	for i := 0; i < len(p)-11; {
		r, size := utf8.DecodeRuneInString(p[i:])
		if r == '\\' {
			i++
			if p[i] == 'u' && p[i+5] == '\\' && p[i+6] == 'u' {
				if first, ok := decodeHex(p[i+1 : i+5]); ok && first >= 0xd800 && first < 0xdc00 {
					if second, ok := decodeHex(p[i+7 : i+11]); ok && second >= 0xdc00 && second < 0xe000 {
						sb.WriteString(p[pos : i-1])
						sb.WriteRune(utf16.DecodeRune(rune(first), rune(second)))
						i += 11
						pos = i
						continue
					}
				}
			}
			i++
		} else {
			i += size
		}
	}
	if pos > 0 {
		sb.WriteString(p[pos:])
		return sb.String()
	}
	return p
}

// same algorithm as goja.convertRegexpToUtf16 (astral literal -> \uD8xx\uDCxx)
func convertRegexpToUtf16(p string) string {
	var sb strings.Builder
	pos := 0
	var prev rune
	for i := 0; i < len(p); {
		r, size := utf8.DecodeRuneInString(p[i:])
		if r > 0xFFFF {
			sb.WriteString(p[pos:i])
			if prev == '\\' {
				sb.WriteRune('\\')
			}
			a, b := utf16.EncodeRune(r)
			fmt.Fprintf(&sb, `\u%04x\u%04x`, a, b)
			pos = i + size
		}
		i += size
		prev = r
	}
	if pos > 0 {
		sb.WriteString(p[pos:])
		return sb.String()
	}
	return p
}

// ---------- feature extraction for signatures ----------

// patternFeatures returns the sorted set of syntactic feature names used by p.
func patternFeatures(p string) []string {
	set := map[string]bool{}
	rs := []rune(p)
	for i := 0; i < len(rs); i++ {
		c := rs[i]
		switch {
		case c == '\\' && i+1 < len(rs):
			i++
			switch e := rs[i]; e {
			case 'd', 'D':
				set[`\d`] = true
			case 'w', 'W':
				set[`\w`] = true
			case 's', 'S':
				set[`\s`] = true
			case 'b', 'B':
				set[`\b`] = true
			case 'u':
				if i+1 < len(rs) && rs[i+1] == '{' {
					set[`\u{}`] = true
				} else if i+4 < len(rs) {
					v, _ := decodeHex(string(rs[i+1 : i+5]))
					if v >= 0xd800 && v < 0xe000 {
						set[`\uSurrogate`] = true
					} else {
						set[`\uXXXX`] = true
					}
					i += 4
				}
			default:
				set["esc"] = true
			}
		case c == '.':
			set["dot"] = true
		case c == '[':
			j := i + 1
			for j < len(rs) && rs[j] != ']' {
				if rs[j] == '\\' {
					j++
				}
				j++
			}
			body := string(rs[i+1 : min(j, len(rs))])
			switch {
			case body == "":
				set["[]"] = true
			case body == "^":
				set["[^]"] = true
			case strings.HasPrefix(body, "^"):
				set["negclass"] = true
			default:
				set["class"] = true
			}
			if strings.Contains(body, `\`) {
				set["class-escape"] = true
				for _, e := range []string{"w", "d", "s"} {
					if strings.Contains(body, `\`+e) || strings.Contains(body, `\`+strings.ToUpper(e)) {
						set[`\`+e] = true
					}
				}
			}
			for _, x := range body {
				if x > 0xffff {
					set["class-astral"] = true
				}
			}
			i = j
		case c == '^' || c == '$':
			set["anchor"] = true
		case c == '(':
			if strings.HasPrefix(string(rs[i:]), "(?<") {
				set["named-group"] = true
			} else if strings.HasPrefix(string(rs[i:]), "(?:") {
				set["nc-group"] = true
			} else {
				set["group"] = true
			}
		case c == '|':
			set["alt"] = true
		case c == '*' || c == '+' || c == '{':
			set["quant"] = true
			if j := strings.IndexRune(string(rs[i:]), '}'); c == '{' && j > 0 {
				i += j
			}
			if i+1 < len(rs) && rs[i+1] == '?' {
				set["lazy"] = true
				i++
			}
		case c == '?':
			if i > 0 && (rs[i-1] == '(') {
				break
			}
			set["quant"] = true
			if i+1 < len(rs) && rs[i+1] == '?' {
				set["lazy"] = true
				i++
			}
		case c > 0xffff:
			set["astral-literal"] = true
		case c > 127:
			set["bmp-literal"] = true
		case c >= 'A' && c <= 'Z' || c >= 'a' && c <= 'z':
			set["literal"] = true
		}
	}
	var res []string
	for k := range set {
		res = append(res, k)
	}
	sort.Strings(res)
	return res
}

func subjectClasses(s *subject) []string {
	set := map[string]bool{}
	u := s.units
	for i := 0; i < len(u); i++ {
		c := u[i]
		switch {
		case c >= 0xd800 && c < 0xdc00 && i+1 < len(u) && u[i+1] >= 0xdc00 && u[i+1] < 0xe000:
			set["astral"] = true
			i++
		case c >= 0xd800 && c < 0xdc00:
			set["lonehi"] = true
		case c >= 0xdc00 && c < 0xe000:
			set["lonelo"] = true
		case c == '\n':
			set["LF"] = true
		case c == '\r':
			set["CR"] = true
		case c == 0x2028:
			set["LS"] = true
		case c == 0x17f:
			set["longs"] = true
		case c == 0x212a:
			set["kelvin"] = true
		case c > 127:
			set["bmp"] = true
		case c >= 'A' && c <= 'Z':
			set["upper"] = true
		default:
			set["ascii"] = true
		}
	}
	var res []string
	for k := range set {
		res = append(res, k)
	}
	sort.Strings(res)
	return res
}

func flagClass(f string) string {
	// canonical order, only the letters present
	s := ""
	for _, c := range flagLetters {
		if strings.ContainsRune(f, c) {
			s += string(c)
		}
	}
	if s == "" {
		return "-"
	}
	return s
}

func classifyCtor(p, f, errA, errB string) (sig, what string) {
	return "construct|accept-mismatch|" + strings.Join(patternFeatures(p), ",") + "|" + flagClass(f),
		fmt.Sprintf("new RegExp(%q, %q) -> %s but new RegExp(%q, %q) -> %s (both must be accepted or both rejected)", p, f, orOK(errA), p+"(?=)", f, orOK(errB))
}

func orOK(e string) string {
	if e == "" {
		return "ok"
	}
	return "throws " + e
}

// classify turns one mismatch into a (signature, description) pair.
func classify(p, f string, s *subject, patch int, b *bad) (sig, what string) {
	pf := strings.Join(patternFeatures(p), ",")
	sc := strings.Join(subjectClasses(s), ",")
	pair := side(b.V1, p, f, patch)
	if b.V2 != "" {
		pair += "~" + side(b.V2, p, f, patch)
	}
	sig = fmt.Sprintf("%s|%s|%s|flags=%s|pattern=%s|subject=%s", b.Kind, b.Op, pair, flagClass(f), pf, sc)
	if rs := rootCause(p, f, s, patch, b); rs != "" {
		sig = rs
	}
	what = fmt.Sprintf("/%s/%s on \"%s\" (lastIndex %d, runtime kind %d): %s %s: %s = %s", p, f, s.String(), b.K, patch, b.Kind, b.Op, b.V1, b.D1)
	if b.V2 != "" {
		what += fmt.Sprintf(" but %s = %s", b.V2, b.D2)
	}
	return
}

// side describes a variant by the code path and engine it exercises: fast|generic - re2|rx2
func side(v, p, f string, patch int) string {
	if v == "partner/g" {
		return "global-partner"
	}
	if v == "pristine" || strings.HasPrefix(v, "patched") {
		return v
	}
	r := "generic"
	if variantFast(v, patch) {
		r = "fast"
	}
	if variantEngine(v, p, f) == "re2" {
		return r + "-re2"
	}
	return r + "-rx2"
}

// variant attributes: which engine backs the object (at lastIndex 0) and whether the optimised path is available
func variantEngine(v, p, f string) string {
	if strings.HasPrefix(v, "B/") || !predictRE2(p, f) {
		return "regexp2"
	}
	return "re2"
}

func variantFast(v string, patch int) bool {
	return (strings.HasSuffix(v, "/plain") || strings.HasSuffix(v, "/symbols-patched")) && patch != 1
}

func has(list []string, x string) bool {
	for _, y := range list {
		if x == y {
			return true
		}
	}
	return false
}

func validUTF16(s *subject) bool {
	u := s.units
	for i := 0; i < len(u); i++ {
		switch {
		case u[i] >= 0xd800 && u[i] < 0xdc00:
			if i+1 >= len(u) || u[i+1] < 0xdc00 || u[i+1] >= 0xe000 {
				return false
			}
			i++
		case u[i] >= 0xdc00 && u[i] < 0xe000:
			return false
		}
	}
	return true
}

func asciiOnly(s *subject) bool {
	for _, u := range s.units {
		if u >= 0x80 {
			return false
		}
	}
	return true
}

var reMatchStr = regexp.MustCompile(`<([^,<>]*),`)
var reFnCall = regexp.MustCompile(`\("((?:[^"\\]|\\.)*)"`)
var reGroups = regexp.MustCompile(`\{[^{}]*\}`)

// nMatches counts the matches reported by a dump of a global match / replace operation.
func nMatches(op, d string) int {
	switch op {
	case "replaceStr":
		return len(reMatchStr.FindAllString(d, -1))
	case "replaceFn":
		return strings.Count(d, "(\"")
	case "match":
		n := 0
		fmt.Sscanf(d, "%d[", &n)
		return n
	}
	return -1
}

// nPieces is the length of the array returned by split (first number of the dump).
func nPieces(d string) int {
	n := -1
	fmt.Sscanf(d, "%d[", &n)
	return n
}

// nullable reports whether the pattern can match the empty string, decided on the syntax tree of the
// translated pattern (Go regexp/syntax); false for patterns Go regexp cannot parse.
func nullable(p, f string) bool {
	unicode := strings.Contains(f, "u")
	pp := p
	if unicode {
		pp = convertRegexpToUnicode(p)
	} else {
		pp = convertRegexpToUtf16(p)
	}
	re2, err := parser.TransformRegExp(pp, strings.Contains(f, "s"), unicode)
	if err != nil {
		return false
	}
	re, err := syntax.Parse(re2, syntax.Perl)
	if err != nil {
		return false
	}
	return canBeEmpty(re)
}

func canBeEmpty(re *syntax.Regexp) bool {
	switch re.Op {
	case syntax.OpEmptyMatch, syntax.OpBeginLine, syntax.OpEndLine, syntax.OpBeginText, syntax.OpEndText,
		syntax.OpWordBoundary, syntax.OpNoWordBoundary, syntax.OpStar, syntax.OpQuest:
		return true
	case syntax.OpPlus, syntax.OpCapture:
		return canBeEmpty(re.Sub[0])
	case syntax.OpRepeat:
		return re.Min == 0 || canBeEmpty(re.Sub[0])
	case syntax.OpConcat:
		for _, s := range re.Sub {
			if !canBeEmpty(s) {
				return false
			}
		}
		return true
	case syntax.OpAlternate:
		for _, s := range re.Sub {
			if canBeEmpty(s) {
				return true
			}
		}
		return false
	case syntax.OpLiteral:
		return len(re.Rune) == 0
	}
	return false
}

// optionalQuant: the pattern contains a quantifier that allows zero repetitions
func optionalQuant(p string) bool {
	for i := 0; i < len(p); i++ {
		switch p[i] {
		case '\\':
			i++
		case '*':
			return true
		case '?':
			if i > 0 && p[i-1] != '(' && p[i-1] != '*' && p[i-1] != '+' && p[i-1] != '}' {
				return true
			}
		}
	}
	return false
}

// quantifiedNullableCapture: the pattern contains a capturing group whose body can match the empty string and
// that is itself quantified with * + or {..}, e.g. (a*)* or (?<n>a|)+
func quantifiedNullableCapture(p, f string) bool {
	var stack []int
	for i := 0; i < len(p); i++ {
		switch p[i] {
		case '\\':
			i++
		case '[':
			for i++; i < len(p) && p[i] != ']'; i++ {
				if p[i] == '\\' {
					i++
				}
			}
		case '(':
			stack = append(stack, i)
		case ')':
			if len(stack) == 0 {
				return false
			}
			open := stack[len(stack)-1]
			stack = stack[:len(stack)-1]
			if i+1 >= len(p) || !strings.ContainsRune("*+{", rune(p[i+1])) {
				continue
			}
			body := p[open+1 : i]
			switch {
			case strings.HasPrefix(body, "?:"):
				continue // non-capturing
			case strings.HasPrefix(body, "?<"):
				body = body[strings.IndexByte(body, '>')+1:]
			}
			if body == "" || nullable(body, f) {
				return true
			}
		}
	}
	return false
}

var reNamedField = regexp.MustCompile(`<([^,<>]*,[^,<>]*,[^,<>]*),(?:\$<a>|[^,<>]*),`)

// stripNamedField blanks the $<a> field of every "<$&,$1,$2,$<a>,prefix,suffix>" segment of a replaceStr dump, so
// that two dumps that differ only in the named-group substitution compare equal.
func stripNamedField(d string) string { return reNamedField.ReplaceAllString(d, "<$1,,") }

var (
	reStrPrefix = regexp.MustCompile(`<[^,<>]*,[^,<>]*,[^,<>]*,(?:\$<a>|[^,<>]*),([^,<>]*),`)
	reFnOffset  = regexp.MustCompile(`,(\d+)[){]`)
)

// replacedBeyondStart: the (single) replacement reported by a replace dump happened at an index > 0, i.e. text
// precedes the match (replaceStr: the $` field is not empty; replaceFn: the offset argument is not 0).
func replacedBeyondStart(op, d string) bool {
	if op == "replaceStr" {
		m := reStrPrefix.FindStringSubmatch(d)
		return m != nil && m[1] != ""
	}
	m := reFnOffset.FindStringSubmatch(d)
	return m != nil && m[1] != "0"
}

func stripGroups(d string) string {
	d = reGroups.ReplaceAllString(d, "")
	return strings.ReplaceAll(d, "]-", "]")
}

// rootCause maps a mismatch to the signature of an identified defect of the pinned tree ("" = unclassified,
// which is reported as a new VIOLATION with a fine-grained signature). Path-level rules check the shape of the
// two dumps (which side has more matches / pieces); engine-level rules are keyed on the pattern features and
// subject classes that trigger the disagreement between Go regexp and regexp2.
func rootCause(p, f string, s *subject, patch int, b *bad) string {
	pf := patternFeatures(p)
	sc := subjectClasses(s)
	fl := func(c string) bool { return strings.Contains(f, c) }
	isReplace := b.Op == "replaceStr" || b.Op == "replaceFn"
	s1, s2 := side(b.V1, p, f, patch), side(b.V2, p, f, patch)
	if b.Op == "split" || b.Op == "matchAll" {
		// these operations work on a fresh object made by the species constructor: an own exec of the receiver is not copied
		s1, s2 = strings.Replace(s1, "generic", "fast", 1), strings.Replace(s2, "generic", "fast", 1)
		if strings.HasSuffix(b.V1, "/subclass") || patch == 1 {
			s1 = side(b.V1, p, f, 1)
		}
		if strings.HasSuffix(b.V2, "/subclass") || strings.HasSuffix(b.V2, "/proto-patched") || patch == 1 {
			s2 = side(b.V2, p, f, 1)
		}
	}
	one := func(x string) bool { return (s1 == x) != (s2 == x) } // exactly one side is x
	fast1, fast2 := strings.HasPrefix(s1, "fast"), strings.HasPrefix(s2, "fast")
	oneFast := fast1 != fast2
	n1, n2 := nMatches(b.Op, b.D1), nMatches(b.Op, b.D2)
	// nOf(x): number of matches reported by the side named x / by the other side
	nOf := func(x string) (int, int) {
		if s1 == x {
			return n1, n2
		}
		return n2, n1
	}
	nFast, nSlow := n1, n2
	if fast2 && !fast1 {
		nFast, nSlow = n2, n1
	}
	switch {
	case b.Kind == "noexec" && b.Op == "test":
		return "generic-path|test|user exec not called"
	case b.Kind == "panic" && isReplace && fl("y") && !fl("g") && b.K > len(s.units):
		return "panic|replace|sticky lastIndex beyond the subject reaches the engine (Go panic in regexp2)"
	case b.Kind != "diff":
		return ""
	}
	// ---- disagreements between the two engine libraries whose trigger (feature x subject class) is unambiguous
	switch {
	case has(pf, "dot") && !fl("s") && has(sc, "LS"):
		return "engine|dot|regexp2 dot matches U+2028"
	case has(pf, `\b`) && (has(sc, "bmp") || has(sc, "longs") || has(sc, "kelvin")):
		return `engine|\b|regexp2 word boundary counts non-ASCII letters as word characters`
	case has(pf, `\w`) && fl("i") && (has(sc, "longs") || has(sc, "kelvin")):
		return `engine|\w+i|U+017F and U+212A are word characters for re2 but not for regexp2`
	}
	// ---- path-level defects (shape-checked)
	switch {
	case has(pf, "named-group") && fl("u") && !asciiOnly(s) && (strings.HasSuffix(s1, "re2") || strings.HasSuffix(s2, "re2")) &&
		(stripGroups(b.D1) == stripGroups(b.D2) || b.Op == "replaceStr" && stripNamedField(b.D1) == stripNamedField(b.D2)):
		return "engine|named groups|re2+u flag+non-ASCII subject: groups missing from the match result"
	case isReplace && fl("u") && !fl("g") && !asciiOnly(s) && (one("fast-rx2") || b.K > 0 && oneFast) && n1 != n2 && max(n1, n2) > 1:
		return "fast-path|replace|regexp2+u flag+non-ASCII subject: non-global replace replaces every match"
	case isReplace && fl("y") && !fl("g") && !asciiOnly(s) && one("fast-re2") && b.K == 0 && n1+n2 == 1 && replacedBeyondStart(b.Op, b.D1+b.D2):
		return "fast-path|replace|re2+sticky+non-ASCII subject: sticky ignored at lastIndex 0"
	case (isReplace || b.Op == "match") && fl("g") && fl("y") && oneFast && nFast < nSlow && nullable(p, f):
		return "fast-path|global+sticky match/replace|iteration over empty matches differs from the exec loop"
	case (isReplace || b.Op == "match") && fl("g") && one("fast-re2") && nullable(p, f):
		if a, o := nOf("fast-re2"); a < o {
			return "fast-path|global match/replace|re2 FindAll skips an empty match adjacent to the previous match"
		}
	case b.Op == "split" && (s1 == "fast-rx2" || s2 == "fast-rx2" || oneFast && !asciiOnly(s) && (!fl("u") || !validUTF16(s))) && nullable(p, f) && nPieces(b.D1) != nPieces(b.D2):
		return "fast-path|split|regexp2 iteration: an empty match adjacent to the previous match yields an extra empty piece"
	}
	// ---- remaining disagreements between the two engine libraries (feature-keyed)
	switch {
	case !fl("u") && (has(pf, "astral-literal") || has(pf, `\uSurrogate`)) && (has(sc, "astral") || has(sc, "lonehi") || has(sc, "lonelo")) && len(pf) > 1:
		return "engine|surrogate literal (no u flag)|regexp2 misses a multi-unit literal containing a surrogate code unit that follows a non-literal atom"
	case quantifiedNullableCapture(p, f):
		return "engine|quantified capturing group with nullable body|capture of the last iteration differs (re2: last non-empty iteration, regexp2: the empty one)"
	case has(pf, "negclass") && (has(pf, "alt") || optionalQuant(p)):
		return "engine|negated class after an optional atom or in an alternation|regexp2 uses a wrong leading-character set (match missed or not leftmost)"
	case has(pf, "quant") && has(pf, `\b`) && !nullable(p, f):
		return `engine|quantified atom followed by \b or \B|regexp2 does not backtrack into the loop`
	}
	return ""
}
