package c20

// harnessJS is loaded into every runtime. It builds the variant objects of one (pattern, flags) pair and
// runs the operation suite on one subject from every start position, comparing the structural dumps of
// all variants against the reference variant inside JS (so that only one Go<->JS crossing per
// (pattern, flags, subject) is needed).
//
// PATCH (set before loading) selects the runtime kind:
//
//	0 pristine RegExp.prototype (fast paths available)
//	1 RegExp.prototype.exec, the flags getter and Symbol.match/matchAll/replace/search/split replaced by
//	  functions that delegate to the originals (every regexp of that runtime is on the generic path)
//	2 only the flags getter and the Symbol.* methods replaced (exec untouched)
const harnessJS = `
(function(G){
"use strict";
var PATCH = G.PATCH|0;
var oexec = RegExp.prototype.exec;
var execLog = 0;
var oflags = Object.getOwnPropertyDescriptor(RegExp.prototype, "flags").get;
if (PATCH === 1 || PATCH === 2) {
  Object.defineProperty(RegExp.prototype, "flags", {get: function(){ return oflags.call(this); }, configurable: true});
  ["match","matchAll","replace","search","split"].forEach(function(n){
    var sym = Symbol[n], orig = RegExp.prototype[sym];
    RegExp.prototype[sym] = function(a, b){ return arguments.length > 1 ? orig.call(this, a, b) : orig.call(this, a); };
  });
}
if (PATCH === 1) {
  RegExp.prototype.exec = function(s){ execLog++; return oexec.call(this, s); };
}
class SubRx extends RegExp {
  exec(s){ execLog++; return super.exec(s); }
  get flags(){ return super.flags; }
}

function q(x){ return x === undefined ? "u" : '"' + x + '"'; }

function isIdx(ix, s){ return typeof ix === "number" && ix === Math.floor(ix) && ix >= 0 && ix <= s.length; }

function fm(m, s){
  if (m === null) return "null";
  if (typeof m !== "object") return "!!notobject";
  var o = m.index + ":" + m.length + "[";
  for (var i = 0; i < m.length; i++) o += (i ? "," : "") + q(m[i]);
  o += "]";
  var g = m.groups;
  if (g === undefined) o += "-"; else { o += "{"; for (var k in g) o += k + "=" + q(g[k]) + ";"; o += "}"; }
  if (m.input !== s) o += "!!input";
  var ix = m.index;
  if (!isIdx(ix, s) || typeof m[0] !== "string" || s.substr(ix, m[0].length) !== m[0]) o += "!!index";
  for (i = 1; i < m.length; i++) if (m[i] !== undefined && (typeof m[i] !== "string" || s.indexOf(m[i]) < 0)) o += "!!capture";
  return o;
}

function li(r, s){
  var v = r.lastIndex;
  return "@" + v + (typeof v === "number" && v === Math.floor(v) && v >= 0 ? "" : "!!lastIndex");
}

// operation suite; every op starts from lastIndex = k
var OPS = {
  exec: function(r, s, k, V){
    r.lastIndex = k;
    var o = "", n = 0, m;
    if (!V.gy) { m = r.exec(s); return fm(m, s) + li(r, s); }
    // lastIndex evolution under g / y: the standard manual loop
    for (;;) {
      m = r.exec(s);
      o += fm(m, s) + li(r, s);
      if (m !== null && r.lastIndex > s.length) o += "!!lastIndex";
      if (m === null || ++n > s.length + 2) break;
      if (m[0] === "") r.lastIndex++;
      o += ";";
    }
    return o;
  },
  test: function(r, s, k, V){
    r.lastIndex = k;
    var t = r.test(s);
    return t + li(r, s);
  },
  match: function(r, s, k, V){
    r.lastIndex = k;
    var m = s.match(r);
    if (m === null) return "null" + li(r, s);
    if (V.g) {
      var o = m.length + "[";
      for (var i = 0; i < m.length; i++) o += (i ? "," : "") + q(m[i]);
      return o + "]" + li(r, s);
    }
    return fm(m, s) + li(r, s);
  },
  matchAll: function(r, s, k, V){
    r.lastIndex = k;
    var it = V.g ? s.matchAll(r) : r[Symbol.matchAll](s);
    var o = "", n = 0;
    for (;;) {
      var x = it.next();
      if (x.done) break;
      o += fm(x.value, s) + ";";
      if (++n > s.length + 3) { o += "!!endless"; break; }
    }
    return o + li(r, s);
  },
  replaceStr: function(r, s, k, V){
    r.lastIndex = k;
    var x = s.replace(r, "<$&,$1,$2,$<a>,$` + "`" + `,$'>");
    return q(x) + li(r, s);
  },
  replaceFn: function(r, s, k, V){
    r.lastIndex = k;
    var o = "";
    var x = s.replace(r, function(){
      var n = arguments.length, a = arguments, j;
      // arguments: match, captures..., offset, string[, groups]
      var hasG = typeof a[n-1] === "object";
      var end = hasG ? n - 3 : n - 2;
      o += "(";
      for (j = 0; j < end; j++) o += q(a[j]) + ",";
      var off = a[end];
      o += off;
      if (!isIdx(off, s) || s.substr(off, a[0].length) !== a[0]) o += "!!offset";
      if (a[end+1] !== s) o += "!!string";
      if (hasG) { o += "{"; for (var kk in a[n-1]) o += kk + "=" + q(a[n-1][kk]) + ";"; o += "}"; }
      o += ")";
      return "#";
    });
    return o + q(x) + li(r, s);
  },
  search: function(r, s, k, V){
    r.lastIndex = k;
    var x = s.search(r);
    return x + ((x === -1 || isIdx(x, s)) ? "" : "!!index") + li(r, s);
  },
  split: function(r, s, k, V){
    r.lastIndex = k;
    var a = s.split(r), o = a.length + "[";
    for (var i = 0; i < a.length; i++) o += (i ? "," : "") + q(a[i]);
    o += "]";
    var b = s.split(r, 2);
    o += b.length + "[";
    for (i = 0; i < b.length; i++) o += (i ? "," : "") + q(b[i]);
    return o + "]" + li(r, s);
  }
};
var OPNAMES = ["exec","test","match","matchAll","replaceStr","replaceFn","search","split"];
// ops whose generic path must call the (own / patched) exec of the receiver at least once
var MUSTLOG = {exec:1, test:1, match:1, replaceStr:1, replaceFn:1, search:1};

function esc(s){
  var o = "";
  for (var i = 0; i < s.length; i++) {
    var c = s.charCodeAt(i);
    if (c >= 32 && c < 127 && c !== 92) o += s[i];
    else if (c === 92) o += "\\\\";
    else o += "\\u" + ("0000" + c.toString(16)).slice(-4);
  }
  return o;
}

function mkOne(P, F, kind){
  var r;
  switch (kind) {
  case "plain": return new RegExp(P, F);
  case "ownexec":
    r = new RegExp(P, F);
    r.exec = function(s){ execLog++; return oexec.call(this, s); };
    return r;
  case "subclass": return new SubRx(P, F);
  }
}

// make(P, F, kinds) -> {err: name|null, V: {...}}
G.make = function(P, F, wantB, kinds){
  var V = {P: P, F: F, vs: [], names: [], logs: []};
  var errA = null, errB = null, a, b;
  try { a = new RegExp(P, F); } catch (e) { errA = (e && e.name) || String(e); }
  if (wantB) { try { b = new RegExp(P + "(?=)", F); } catch (e) { errB = (e && e.name) || String(e); } }
  V.errA = errA; V.errB = wantB ? errB : errA;
  if (errA !== null || (wantB && errB !== null)) return V;
  var fl = a.flags;
  V.flags = fl;
  V.g = fl.indexOf("g") >= 0; V.y = fl.indexOf("y") >= 0; V.u = fl.indexOf("u") >= 0;
  V.gy = V.g || V.y;
  V.source = a.source;
  var generic = PATCH === 1;
  // kinds: "A/plain", "B/ownexec", ... (A = P, B = P(?=)); the first one is the reference variant
  for (var i = 0; i < kinds.length; i++) {
    var kd = kinds[i], isB = kd.charAt(0) === "B", k2 = kd.slice(2);
    if (isB && !wantB) continue;
    V.vs.push(mkOne(isB ? P + "(?=)" : P, F, k2)); V.names.push(kd); V.logs.push(generic || k2 !== "plain");
  }
  // sticky partner: P with y replaced by g (metamorphic relation sticky == global filtered on index == lastIndex)
  if (V.y && !V.g) V.partner = new RegExp(P, fl.replace("y", "") + "g");
  return V;
};

function runOp(name, r, s, k, V){
  try { return OPS[name](r, s, k, V); }
  catch (e) { return "throw:" + ((e && e.name) || String(e)); }
}

// go(V, s, ops, allStarts, onlyK) -> dump of the reference variant; lastBads = JSON list of mismatches (one per kind/op/variant pair) or ""
G.go = function(V, s, ops, allStarts, onlyK, beyond){
  var L = s.length;
  var out = "";
  var maxk = !allStarts ? 0 : V.gy ? L + 1 : 1;
  var mink = 0;
  if (onlyK !== undefined && onlyK >= 0) { mink = maxk = onlyK; }
  var onlyTwo = PATCH !== 0; // patched-prototype runtimes differ from the pristine one only in the gates: starts 0 and 1
  var bads = [], seen = {};
  function bad(kind, op, k, v1, v2, d1, d2){
    var key = kind + "|" + op + "|" + v1 + "|" + v2;
    if (seen[key] || bads.length >= 24) return;
    seen[key] = 1;
    bads.push({kind: kind, op: op, k: k, v1: v1, v2: v2, d1: esc(d1), d2: esc(d2)});
  }
  for (var k = mink; k <= maxk; k++) {
    for (var oi = 0; oi < ops.length; oi++) {
      var name = ops[oi];
      if (name === "split" && k > 1) continue; // split never reads lastIndex: starts 0 and 1 suffice
      // a sticky non-global replace from lastIndex > length hands an out-of-range start to regexp2 on the pinned tree:
      // Go panic for most patterns (listed finding, reached by the corpus) but an endless native loop for some (/$^/y),
      // which nothing can interrupt; the rings leave this cell out unless asked (beyond).
      if (!beyond && k > L && V.y && !V.g && (name === "replaceStr" || name === "replaceFn")) continue;
      var ref = null;
      for (var vi = 0; vi < V.vs.length; vi++) {
        var before = execLog;
        if (onlyTwo && k > 1) continue;
        G.lastStep = name + "," + k + "," + V.names[vi];
        var d = runOp(name, V.vs[vi], s, k, V);
        var logged = execLog - before;
        if (vi === 0) { ref = d; out += d + "|"; }
        else if (d !== ref) bad("diff", name, k, V.names[0], V.names[vi], ref, d);
        if (d.indexOf("!!") >= 0) bad("invariant", name, k, V.names[vi], "", d, "");
        if (d.indexOf("throw:") === 0) bad("throw", name, k, V.names[vi], "", d, "");
        else if (V.logs[vi] && MUSTLOG[name] && logged === 0) bad("noexec", name, k, V.names[vi], "", d, "");
      }
    }
    if (V.partner) {
      // sticky exec at k == global exec at k filtered to index === k
      var y = V.vs[0], g = V.partner, my, mg;
      try {
        y.lastIndex = k; my = oexec.call(y, s); var ly = y.lastIndex;
        g.lastIndex = k; mg = oexec.call(g, s);
        var exp = (mg !== null && mg.index === k) ? fm(mg, s) + "@" + g.lastIndex : "null@0";
        var got = fm(my, s) + "@" + ly;
        if (exp !== got) bad("sticky-vs-global", "exec", k, V.names[0], "partner/g", got, exp);
      } catch (e) { bad("throw", "exec", k, "partner", "", String(e), ""); }
    }
  }
  G.lastBads = bads.length ? JSON.stringify(bads) : "";
  return out;
};

G.mkSubj = function(units){ return String.fromCharCode.apply(null, units); };
G.esc = esc;
})(this);
`
