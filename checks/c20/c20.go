package c20

import (
	"encoding/json"
	"fmt"
	"hash/fnv"
	"os"
	"runtime/debug"
	"runtime/pprof"
	"strconv"
	"strings"
	"sync"

	"verif/core"

	"github.com/dop251/goja"
)

func init() {
	core.Register(&core.Check{
		ID:    "C20",
		Level: "exploration",
		Rule: "bounded-exhaustive product: every pattern of weight <= W over the atom alphabet of its ring (atoms, assertions, 8 quantifiers, 3 group kinds, alternation incl. empty alternatives) " +
			"x every flag string of the ring x every subject of <= N symbols over the ring's subject alphabet x every start position 0..len+1 (g/y) x the operation suite, each on the variants " +
			"A=P, B=P(?=) x {pristine, own exec, subclass, patched prototype}. An evaluation is one (pattern, flags, subject) triple (all starts, operations and variants). " +
			"A (pattern, flags) pair is non-trivial when A is really backed by Go regexp (translation + compile succeed, replicated from compileRegexp and cross-checked against the engine through the c20 hook in development) while B is backed by regexp2, and at least one subject produced a match; distinct by construction.",
		Run:    run,
		Replay: replay,
	})
}

// Case is the replayable description of one failing evaluation.
type Case struct {
	Ring    string   `json:"ring"`
	Pattern string   `json:"pattern"`
	Flags   string   `json:"flags"`
	Subject []uint16 `json:"subject_utf16"`
	Shown   string   `json:"subject"`
	Patch   int      `json:"runtime_patch"`
	Kinds   []string `json:"kinds"`
	Ops     []string `json:"ops"`
	WantB   bool     `json:"with_lookahead_variant"`
	Starts  bool     `json:"all_starts"`
	Invalid bool     `json:"pattern_must_be_rejected,omitempty"`
	Detail  *bad     `json:"detail,omitempty"`
}

type bad struct {
	Kind string `json:"kind"`
	Op   string `json:"op"`
	K    int    `json:"k"`
	V1   string `json:"v1"`
	V2   string `json:"v2"`
	D1   string `json:"d1"`
	D2   string `json:"d2"`
}

type ring struct {
	name     string
	patterns []string
	flags    []string
	subjects []subject
	ops      []string
	kinds    []string
	patches  []int // runtime kinds to run (0 always first)
	wantB    bool
	starts   bool // true: every start position 0..len+1 (g/y; 0 and 1 otherwise); false: lastIndex 0 only
	invalid  bool // the patterns of this ring are syntactically invalid: the constructor must throw SyntaxError
}

var allOps = []string{"exec", "test", "match", "matchAll", "replaceStr", "replaceFn", "search", "split"}

// env is one worker's set of runtimes.
type env struct {
	rts [3]*jsrt
}

type jsrt struct {
	patch int
	r     *goja.Runtime
	make_ goja.Callable
	go_   goja.Callable
	mk    goja.Callable
	subj  map[string]goja.Value
	opsV  map[string]goja.Value
}

var harnessPrg = goja.MustCompile("c20-harness.js", harnessJS, false)

func newJSRT(patch int) *jsrt {
	t := &jsrt{patch: patch, r: goja.New(), subj: map[string]goja.Value{}, opsV: map[string]goja.Value{}}
	t.r.Set("PATCH", patch)
	if _, err := t.r.RunProgram(harnessPrg); err != nil {
		panic("c20 harness: " + err.Error())
	}
	get := func(n string) goja.Callable {
		f, ok := goja.AssertFunction(t.r.Get(n))
		if !ok {
			panic("c20 harness: no " + n)
		}
		return f
	}
	t.make_, t.go_, t.mk = get("make"), get("go"), get("mkSubj")
	return t
}

func (t *jsrt) subject(s subject) goja.Value {
	key := string(utf16Key(s.units))
	if v, ok := t.subj[key]; ok {
		return v
	}
	arr := make([]interface{}, len(s.units))
	for i, u := range s.units {
		arr[i] = int(u)
	}
	v, err := t.mk(goja.Undefined(), t.r.ToValue(arr))
	if err != nil {
		panic(err)
	}
	t.subj[key] = v
	return v
}

func (e *env) rt(patch int) *jsrt {
	if e.rts[patch] == nil {
		e.rts[patch] = newJSRT(patch)
	}
	return e.rts[patch]
}

type made struct {
	v          goja.Value
	errA, errB string // "" = compiled
}

func strOrEmpty(v goja.Value) string {
	if v == nil || goja.IsNull(v) || goja.IsUndefined(v) {
		return ""
	}
	return v.String()
}

func (t *jsrt) build(p, f string, wantB bool, kinds []string) (m made, err error) {
	defer func() {
		if x := recover(); x != nil {
			err = fmt.Errorf("Go panic: %v", x)
		}
	}()
	kv, e := t.r.RunString("(" + mustJSON(kinds) + ")")
	if e != nil {
		return m, e
	}
	v, e := t.make_(goja.Undefined(), t.r.ToValue(p), t.r.ToValue(f), t.r.ToValue(wantB), kv)
	if e != nil {
		return m, e
	}
	o := v.ToObject(t.r)
	m.v = v
	m.errA, m.errB = strOrEmpty(o.Get("errA")), strOrEmpty(o.Get("errB"))
	return m, nil
}

func (t *jsrt) run(m made, s subject, ops []string, starts bool, onlyK int) (out goja.Value, err error) {
	defer func() {
		if x := recover(); x != nil {
			err = fmt.Errorf("Go panic: %v", x)
		}
	}()
	key := strings.Join(ops, ",")
	ov, ok := t.opsV[key]
	if !ok {
		ov, err = t.r.RunString("(" + mustJSON(ops) + ")")
		if err != nil {
			return nil, err
		}
		t.opsV[key] = ov
	}
	return t.go_(goja.Undefined(), m.v, t.subject(s), ov, t.r.ToValue(starts), t.r.ToValue(onlyK))
}

func mustJSON(v interface{}) string {
	b, err := json.Marshal(v)
	if err != nil {
		panic(err)
	}
	return string(b)
}

func hash64(s string) uint64 {
	h := fnv.New64a()
	h.Write([]byte(s))
	return h.Sum64()
}

// evalPF runs one (pattern, flags) pair of a ring over all subjects. It returns whether any subject matched.
func evalPF(r *core.Run, e *env, rg *ring, p, f string) (matched bool) {
	report := func(patch int, s *subject, b *bad, sig, what string) {
		if dumpFile != nil {
			dumpMismatch(sig, what)
		}
		c := Case{Ring: rg.name, Pattern: p, Flags: f, Patch: patch, Kinds: rg.kinds, Ops: rg.ops, WantB: rg.wantB, Starts: rg.starts, Invalid: rg.invalid, Detail: b}
		if s != nil {
			c.Subject, c.Shown = s.units, s.String()
		}
		r.Violation(sig, what, c)
	}
	var mades [3]made
	for _, patch := range rg.patches {
		t := e.rt(patch)
		kinds := rg.kinds
		if patch != 0 {
			kinds = patchKinds1
		}
		m, err := t.build(p, f, rg.wantB, kinds)
		if err != nil {
			e.rts[patch] = nil
			report(patch, nil, nil, "construct|"+classifyErr(err), fmt.Sprintf("new RegExp(%q, %q) fails with a non-JS error: %v", p, f, err))
			return
		}
		mades[patch] = m
	}
	m0 := mades[0]
	// constructor oracle: only SyntaxError may be thrown, and P is rejected iff P(?=) is rejected
	for _, en := range []string{m0.errA, m0.errB} {
		if en != "" && en != "SyntaxError" {
			report(0, nil, nil, "construct|throws-"+en, fmt.Sprintf("new RegExp(%q, %q) throws %s instead of SyntaxError", p, f, en))
		}
	}
	if !validFlags(f) {
		if m0.errA == "" {
			report(0, nil, nil, "construct|flags|"+invalidFlagClass(f)+" accepted", fmt.Sprintf("new RegExp(%q, %q) does not throw SyntaxError", p, f))
		}
		r.Outcome("ctor-flags:" + m0.errA)
		return
	}
	if rg.invalid {
		if m0.errA == "" {
			report(0, nil, nil, "construct|invalid pattern accepted|"+invalidPatternClass[p], fmt.Sprintf("new RegExp(%q, %q) does not throw SyntaxError", p, f))
		}
		r.Outcome("ctor-invalid:" + m0.errA)
		return
	}
	if (m0.errA == "") != (m0.errB == "") {
		sig, what := classifyCtor(p, f, m0.errA, m0.errB)
		report(0, nil, nil, sig, what)
	}
	if m0.errA != "" || m0.errB != "" {
		r.Outcome("ctor:" + m0.errA + "/" + m0.errB)
		return
	}
	for si := range rg.subjects {
		s := &rg.subjects[si]
		if r.Expired() {
			return
		}
		r.Eval(1)
		var out0 goja.Value
		for _, patch := range rg.patches {
			t := e.rt(patch)
			out, err := t.run(mades[patch], *s, rg.ops, rg.starts, -1)
			if err != nil {
				op, k, vn := "?", -1, "?"
				if ls := strings.Split(strOrEmpty(t.r.Get("lastStep")), ","); len(ls) == 3 {
					op, vn = ls[0], ls[2]
					k, _ = strconv.Atoi(ls[1])
				}
				e.rts[patch] = nil
				b := &bad{Kind: "panic", Op: op, K: k, V1: vn, D1: err.Error()}
				sig, what := classify(p, f, s, patch, b)
				report(patch, s, b, sig, what)
				// rebuild the variants on a fresh runtime and go on with the next subject
				kinds := rg.kinds
				if patch != 0 {
					kinds = patchKinds1
				}
				m, err := e.rt(patch).build(p, f, rg.wantB, kinds)
				if err != nil {
					return
				}
				mades[patch] = m
				continue
			}
			str := out.String()
			if strings.HasPrefix(str, "\x01") {
				var bads []bad
				if err := json.Unmarshal([]byte(str[1:]), &bads); err != nil {
					panic("c20: bad harness output: " + err.Error())
				}
				for i := range bads {
					sig, what := classify(p, f, s, patch, &bads[i])
					report(patch, s, &bads[i], sig, what)
				}
				continue
			}
			if patch == 0 {
				out0 = out
				first := str
				if i := strings.IndexByte(str, '|'); i >= 0 {
					first = str[:i]
				}
				if !strings.HasPrefix(first, "null") {
					matched = true
				}
				r.OutcomeH(hash64(first))
			} else if out0 != nil && !out0.StrictEquals(out) {
				b := &bad{Kind: "diff-runtime", Op: firstDiffOp(out0.String(), str, rg.ops), V1: "pristine", V2: fmt.Sprintf("patched%d", patch), D1: out0.String(), D2: str}
				sig, what := classify(p, f, s, patch, b)
				report(patch, s, b, sig, what)
			}
		}
	}
	return
}

// development aid: C20_DUMP=<file> appends up to 3 mismatches per signature, uncapped in the number of signatures
var (
	dumpFile *os.File
	dumpMu   sync.Mutex
	dumpSeen = map[string]int{}
)

func dumpMismatch(sig, what string) {
	dumpMu.Lock()
	defer dumpMu.Unlock()
	dumpSeen[sig]++
	if dumpSeen[sig] <= 3 {
		b, _ := json.Marshal(map[string]string{"sig": sig, "what": what})
		dumpFile.Write(append(b, '\n'))
	}
}

// firstDiffOp locates the operation of the first differing segment of two reference dumps.
func firstDiffOp(a, b string, ops []string) string {
	as, bs := strings.Split(a, "|"), strings.Split(b, "|")
	for i := 0; i < len(as) && i < len(bs); i++ {
		if as[i] != bs[i] {
			return ops[i%len(ops)]
		}
	}
	return "?"
}

func classifyErr(err error) string {
	s := err.Error()
	if len(s) > 80 {
		s = s[:80]
	}
	return s
}

var (
	opsEngine   = []string{"exec", "test", "match", "replaceFn", "search", "split"}
	opsIter     = []string{"exec", "replaceFn", "split"}
	kindsAll    = []string{"A/plain", "B/plain", "A/ownexec", "B/ownexec", "A/subclass", "B/subclass"}
	kindsQuick  = []string{"A/plain", "B/plain", "A/ownexec", "A/subclass"}
	kindsPath   = []string{"A/plain", "B/plain", "A/ownexec", "B/ownexec"}
	kindsPlain  = []string{"A/plain", "B/plain"}
	kindsAOnly  = []string{"A/plain"}
	patchKinds1 = []string{"A/plain", "B/plain"} // variants built on the patched-prototype runtimes
)

// atoms that matter for the path / lastIndex protocol rings: widths 0, 1 and 2 code units, surrogate halves, named group
var pathPatterns = []string{"a", ".", "\U0001F600", `\uDE00`, "$", "a*", "(?<a>a)|b", `\W??`}
var pathPatternsT = []string{"a", ".", "[^a]", "\U0001F600", `\uD83D`, `\uDE00`, "[^]", "^", "$", `\b`, `\B`, "a*", "(?<a>a)|b", `\W??`}

func buildRings(r *core.Run) []*ring {
	ext1 := allPatterns(1, atomsExt)
	ext2 := allPatterns(2, atomsExt)
	core3 := allPatterns(3, atomsCore)
	all := allSymbolIdx()
	pathSyms := []int{0, 1, 3, 8, 9, 10, 11}  // a b \n é astral loneHi loneLo
	pathSymsQ := []int{0, 8, 9, 10, 11}       // a é astral loneHi loneLo
	engSyms := []int{0, 2, 3, 5, 6, 8, 9, 10} // a A \n U+2028 ſ é astral loneHi
	coreSyms := []int{0, 3, 9, 10}            // a \n astral loneHi
	var rings []*ring
	// R0: flag strings. every valid subset, every ordering of <=3 letters, every invalid string of <=3 letters over gimsuy+x
	fl := append(append(flagSubsets(), validPermutedFlags()...), invalidFlags()...)
	rings = append(rings, &ring{name: "R0-flags", patterns: []string{"a", "(?<a>a)|b"}, flags: fl,
		subjects: allSubjects(1, []int{0, 9}), ops: allOps, kinds: kindsPlain, patches: []int{0}, wantB: true, starts: true})
	// R0b: syntactically invalid patterns
	var inv []string
	for _, ip := range invalidPatterns {
		inv = append(inv, ip[0])
	}
	rings = append(rings, &ring{name: "R0b-invalid-patterns", patterns: inv, flags: []string{"", "u", "g", "iy"},
		subjects: allSubjects(0, nil), ops: allOps, kinds: kindsPlain, patches: []int{0}, invalid: true})
	if r.Quick() {
		// R1a: paths and lastIndex protocol: variants and runtime kinds, every start position, every operation
		rings = append(rings, &ring{name: "R1a-paths", patterns: pathPatterns, flags: flagSubsetsOf("guy"),
			subjects: allSubjects(2, pathSymsQ), ops: allOps, kinds: kindsQuick, patches: []int{0, 1, 2}, wantB: true, starts: true})
		// R1b: engine semantics. weight-1 patterns x all subsets of imsu x full subject alphabet
		rings = append(rings, &ring{name: "R1b-engine-w1", patterns: ext1, flags: flagSubsetsOf("imsu"),
			subjects: allSubjects(2, all), ops: opsEngine, kinds: kindsPlain, patches: []int{0}, wantB: true})
		// R2: engine semantics, weight-2 patterns, global iteration
		rings = append(rings, &ring{name: "R2-engine-w2", patterns: ext2, flags: []string{"g", "gi", "gu"},
			subjects: allSubjects(2, engSyms), ops: opsIter, kinds: kindsPlain, patches: []int{0}, wantB: true})
		// R3: weight-3 patterns over the core alphabet
		rings = append(rings, &ring{name: "R3-engine-w3", patterns: core3, flags: []string{"g", "gu"},
			subjects: allSubjects(2, coreSyms), ops: opsIter, kinds: kindsPlain, patches: []int{0}, wantB: true})
		return rings
	}
	pathFlagsT := append(flagSubsetsOf("guy"), "ims", "gims", "imsy", "gimsy", "imsu", "gimsu", "imsuy", "gimsuy")
	rings = append(rings, &ring{name: "T1a-paths-w1", patterns: ext1, flags: pathFlagsT,
		subjects: allSubjects(2, pathSyms), ops: allOps, kinds: kindsAll, patches: []int{0, 1, 2}, wantB: true, starts: true})
	rings = append(rings, &ring{name: "T1c-paths-deep-subjects", patterns: pathPatternsT, flags: flagSubsetsOf("guy"),
		subjects: allSubjects(3, pathSymsQ), ops: allOps, kinds: kindsQuick, patches: []int{0}, wantB: true, starts: true})
	rings = append(rings, &ring{name: "T1b-engine-w1", patterns: ext1, flags: flagSubsetsOf("imsu"),
		subjects: allSubjects(3, all), ops: opsEngine, kinds: kindsPlain, patches: []int{0}, wantB: true})
	rings = append(rings, &ring{name: "T2a-paths-w2", patterns: allPatterns(2, atomsSmall), flags: append(flagSubsetsOf("guy"), "gimsuy"),
		subjects: allSubjects(2, pathSymsQ), ops: allOps, kinds: kindsPath, patches: []int{0}, wantB: true, starts: true})
	rings = append(rings, &ring{name: "T2b-engine-w2", patterns: ext2, flags: []string{"g", "gi", "gu", "giu", "gm", "gs", "gms", "gimsu"},
		subjects: allSubjects(2, all), ops: opsIter, kinds: kindsPlain, patches: []int{0}, wantB: true})
	rings = append(rings, &ring{name: "T3-engine-w3", patterns: core3, flags: []string{"g", "gu"},
		subjects: allSubjects(3, coreSyms), ops: opsIter, kinds: kindsPlain, patches: []int{0}, wantB: true})
	rings = append(rings, &ring{name: "T4-engine-w4", patterns: allPatterns(4, atomsSmall), flags: []string{"g", "gu"},
		subjects: allSubjects(2, coreSyms), ops: opsIter, kinds: kindsPlain, patches: []int{0}, wantB: true})
	return rings
}

func run(r *core.Run) {
	gcp := 250
	if v, err := strconv.Atoi(os.Getenv("C20_GC")); err == nil {
		gcp = v
	}
	defer debug.SetGCPercent(debug.SetGCPercent(gcp))
	rings := buildRings(r)
	if fn := os.Getenv("C20_CPUPROFILE"); fn != "" { // development aid
		f, _ := os.Create(fn)
		pprof.StartCPUProfile(f)
		defer pprof.StopCPUProfile()
	}
	if fn := os.Getenv("C20_DUMP"); fn != "" {
		dumpFile, _ = os.Create(fn)
		defer dumpFile.Close()
	}
	if sel := os.Getenv("C20_RINGS"); sel != "" { // development aid: run only the named rings
		var keep []*ring
		for _, rg := range rings {
			if strings.Contains(","+sel+",", ","+rg.name+",") {
				keep = append(keep, rg)
			}
		}
		rings = keep
		r.Assume("C20_RINGS=" + sel + " (partial run)")
	}
	envs := make([]*env, r.Workers)
	for i := range envs {
		envs[i] = &env{}
	}
	complete := true
	var done []string
	for _, rg := range rings {
		nf := int64(len(rg.flags))
		n := int64(len(rg.patterns)) * nf
		var nt, re2n, rx2n int64
		type cnt struct{ nt, re2, rx2 int64 }
		cnts := make([]cnt, r.Workers)
		ok := r.Parallel(n, 8, func(w int, lo, hi int64) {
			e := envs[w]
			for i := lo; i < hi; i++ {
				p, f := rg.patterns[i/nf], rg.flags[i%nf]
				matched := evalPF(r, e, rg, p, f)
				re2 := predictRE2(p, f)
				if re2 {
					cnts[w].re2++
					if matched {
						cnts[w].nt++
					}
				} else {
					cnts[w].rx2++
				}
				if r.WantSample(i) {
					r.Sample(map[string]interface{}{"ring": rg.name, "pattern": p, "flags": f, "engine_A": map[bool]string{true: "regexp(RE2)", false: "regexp2"}[re2], "matched_some_subject": matched, "subjects": len(rg.subjects)})
				}
			}
		})
		for _, c := range cnts {
			nt += c.nt
			re2n += c.re2
			rx2n += c.rx2
		}
		r.NontrivialN(nt)
		r.Add("pattern_flag_pairs", n)
		r.Add("pairs_A_on_re2", re2n)
		r.Add("pairs_A_on_regexp2_only", rx2n)
		r.Set("ring_"+rg.name, map[string]interface{}{"patterns": len(rg.patterns), "flag_strings": len(rg.flags), "subjects": len(rg.subjects), "ops": rg.ops, "variants": rg.kinds, "runtime_kinds": rg.patches, "all_starts": rg.starts, "completed": ok})
		if !ok {
			complete = false
			break
		}
		done = append(done, rg.name)
	}
	r.Set("bounds_completed", done)
	r.Exhaustive(complete)
}

func replay(r *core.Run, raw json.RawMessage) {
	var c Case
	if err := json.Unmarshal(raw, &c); err != nil {
		panic(err)
	}
	rg := &ring{name: c.Ring, patterns: []string{c.Pattern}, flags: []string{c.Flags}, ops: c.Ops, kinds: c.Kinds, patches: []int{0}, wantB: c.WantB, starts: c.Starts, invalid: c.Invalid}
	if c.Patch != 0 {
		rg.patches = []int{0, c.Patch}
	}
	if c.Subject != nil || c.Shown != "" || c.Detail != nil {
		rg.subjects = []subject{{units: c.Subject}}
	}
	evalPF(r, &env{}, rg, c.Pattern, c.Flags)
}
