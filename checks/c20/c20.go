package c20

import (
	"encoding/json"
	"fmt"
	"hash/fnv"
	"os"
	"runtime/debug"
	"runtime/pprof"
	"strconv"
	"strings"
	"sync"
	"sync/atomic"
	"time"

	"verif/core"

	"github.com/dop251/goja"
)

func init() {
	core.Register(&core.Check{
		ID:    "C20",
		Level: "exploration",
		Rule: "bounded-exhaustive product per ring: every pattern of weight <= W over the ring's atom alphabet (atoms, assertions, 8 greedy/lazy quantifiers, 3 group kinds, alternation incl. empty alternatives) " +
			"x every flag string of the ring x every subject of <= N symbols over the ring's subject alphabet x every start position 0..len+1 (g/y), through exec/test/match/matchAll/replace(string, function)/search/split " +
			"on the variants A=P, B=P(?=) x {pristine, own exec, subclass} and on patched-prototype runtimes (ring sizes under coverage.ring_*). An evaluation is one (pattern, flags, subject) triple (all starts, operations, variants). " +
			"A (pattern, flags) pair is non-trivial when A is really backed by Go regexp (decision of compileRegexp replicated with parser.TransformRegExp + regexp.Compile and cross-checked against the engine through the c20 hook) while B is backed by regexp2 - both engines ran on the same inputs - and at least one subject matched; distinct by construction.",
		Run:    run,
		Replay: replay,
	})
}

// Case is the replayable description of one failing evaluation.
type Case struct {
	Ring    string   `json:"ring"`
	Pattern string   `json:"pattern"`
	Flags   string   `json:"flags"`
	Subject []uint16 `json:"subject_utf16"`
	Shown   string   `json:"subject"`
	Patch   int      `json:"runtime_patch"`
	Kinds   []string `json:"kinds"`
	Ops     []string `json:"ops"`
	WantB   bool     `json:"with_lookahead_variant"`
	Starts  bool     `json:"all_starts"`
	Invalid bool     `json:"pattern_must_be_rejected,omitempty"`
	Beyond  bool     `json:"include_sticky_replace_beyond_subject,omitempty"`
	Detail  *bad     `json:"detail,omitempty"`
}

type bad struct {
	Kind string `json:"kind"`
	Op   string `json:"op"`
	K    int    `json:"k"`
	V1   string `json:"v1"`
	V2   string `json:"v2"`
	D1   string `json:"d1"`
	D2   string `json:"d2"`
}

type ring struct {
	name     string
	patterns []string
	flags    []string
	subjects []subject
	ops      []string
	kinds    []string
	patches  []int // runtime kinds to run (0 always first)
	wantB    bool
	starts   bool // true: every start position 0..len+1 (g/y; 0 and 1 otherwise); false: lastIndex 0 only
	invalid  bool // the patterns of this ring are syntactically invalid: the constructor must throw SyntaxError
	beyond   bool // include sticky non-global replace from lastIndex > length (can loop forever in regexp2 on the pinned tree)
}

var allOps = []string{"exec", "test", "match", "matchAll", "replaceStr", "replaceFn", "search", "split"}

// env is one worker's set of runtimes.
type env struct {
	rts [3]*jsrt
	cur atomic.Pointer[inFlight] // the JS call in progress (read by the hang watchdog)
}

// inFlight describes the harness call a worker is executing.
type inFlight struct {
	rg      *ring
	p, f    string
	s       *subject
	patch   int
	started time.Time
}

type jsrt struct {
	patch int
	r     *goja.Runtime
	make_ goja.Callable
	go_   goja.Callable
	mk    goja.Callable
	subj  map[string]goja.Value
	opsV  map[string]goja.Value
}

var harnessPrg = goja.MustCompile("c20-harness.js", harnessJS, false)

func newJSRT(patch int) *jsrt {
	t := &jsrt{patch: patch, r: goja.New(), subj: map[string]goja.Value{}, opsV: map[string]goja.Value{}}
	t.r.Set("PATCH", patch)
	if _, err := t.r.RunProgram(harnessPrg); err != nil {
		panic("c20 harness: " + err.Error())
	}
	get := func(n string) goja.Callable {
		f, ok := goja.AssertFunction(t.r.Get(n))
		if !ok {
			panic("c20 harness: no " + n)
		}
		return f
	}
	t.make_, t.go_, t.mk = get("make"), get("go"), get("mkSubj")
	return t
}

func (t *jsrt) subject(s subject) goja.Value {
	key := string(utf16Key(s.units))
	if v, ok := t.subj[key]; ok {
		return v
	}
	arr := make([]interface{}, len(s.units))
	for i, u := range s.units {
		arr[i] = int(u)
	}
	v, err := t.mk(goja.Undefined(), t.r.ToValue(arr))
	if err != nil {
		panic(err)
	}
	t.subj[key] = v
	return v
}

func (e *env) rt(patch int) *jsrt {
	if e.rts[patch] == nil {
		e.rts[patch] = newJSRT(patch)
	}
	return e.rts[patch]
}

type made struct {
	v          goja.Value
	errA, errB string // "" = compiled
}

func strOrEmpty(v goja.Value) string {
	if v == nil || goja.IsNull(v) || goja.IsUndefined(v) {
		return ""
	}
	return v.String()
}

func (t *jsrt) build(p, f string, wantB bool, kinds []string) (m made, err error) {
	defer func() {
		if x := recover(); x != nil {
			err = fmt.Errorf("Go panic: %v", x)
		}
	}()
	kv, e := t.r.RunString("(" + mustJSON(kinds) + ")")
	if e != nil {
		return m, e
	}
	v, e := t.make_(goja.Undefined(), t.r.ToValue(p), t.r.ToValue(f), t.r.ToValue(wantB), kv)
	if e != nil {
		return m, e
	}
	o := v.ToObject(t.r)
	m.v = v
	m.errA, m.errB = strOrEmpty(o.Get("errA")), strOrEmpty(o.Get("errB"))
	return m, nil
}

func (t *jsrt) run(m made, s subject, ops []string, starts bool, onlyK int, beyond bool) (out goja.Value, err error) {
	defer func() {
		if x := recover(); x != nil {
			err = fmt.Errorf("Go panic: %v", x)
		}
	}()
	key := strings.Join(ops, ",")
	ov, ok := t.opsV[key]
	if !ok {
		ov, err = t.r.RunString("(" + mustJSON(ops) + ")")
		if err != nil {
			return nil, err
		}
		t.opsV[key] = ov
	}
	return t.go_(goja.Undefined(), m.v, t.subject(s), ov, t.r.ToValue(starts), t.r.ToValue(onlyK), t.r.ToValue(beyond))
}

func mustJSON(v interface{}) string {
	b, err := json.Marshal(v)
	if err != nil {
		panic(err)
	}
	return string(b)
}

func hash64(s string) uint64 {
	h := fnv.New64a()
	h.Write([]byte(s))
	return h.Sum64()
}

// evalPF runs one (pattern, flags) pair of a ring over all subjects. It returns whether any subject matched.
// reporter is the part of *core.Run that one evaluation needs (also implemented by the collector used to
// re-confirm a failing case on fresh state).
type reporter interface {
	Violation(sig, what string, c interface{})
	IsKnown(sig string) bool
	Eval(n int64)
	Outcome(key string)
	OutcomeH(h uint64)
	Expired() bool
}

type collector struct{ sigs map[string]int }

func (c *collector) Violation(sig, what string, _ interface{}) { c.sigs[sig]++ }
func (c *collector) IsKnown(string) bool                       { return true }
func (c *collector) Eval(int64)                                {}
func (c *collector) Outcome(string)                            {}
func (c *collector) OutcomeH(uint64)                           {}
func (c *collector) Expired() bool                             { return false }

var confirmed sync.Map // signature -> bool (reproduced 5x on fresh runtimes)

// confirm re-runs one failing (pattern, flags, subject) evaluation five times on fresh runtimes and reports
// whether the same signature is produced every time.
func confirm(rg *ring, p, f string, s *subject, sig string) bool {
	if v, ok := confirmed.Load(sig); ok {
		return v.(bool)
	}
	one := *rg
	one.patterns, one.flags = []string{p}, []string{f}
	one.subjects = nil
	if s != nil {
		one.subjects = []subject{*s}
	}
	ok := true
	for i := 0; i < 5 && ok; i++ {
		c := &collector{sigs: map[string]int{}}
		evalPF(c, &env{}, &one, p, f)
		ok = c.sigs[sig] > 0
	}
	confirmed.Store(sig, ok)
	return ok
}

func evalPF(r reporter, e *env, rg *ring, p, f string) (matched bool) {
	report := func(patch int, s *subject, b *bad, sig, what string) {
		if dumpFile != nil {
			dumpMismatch(sig, what)
		}
		c := Case{Ring: rg.name, Pattern: p, Flags: f, Patch: patch, Kinds: rg.kinds, Ops: rg.ops, WantB: rg.wantB, Starts: rg.starts, Invalid: rg.invalid, Beyond: rg.beyond, Detail: b}
		if s != nil {
			c.Subject, c.Shown = s.units, s.String()
		}
		if !r.IsKnown(sig) && !confirm(rg, p, f, s, sig) {
			sig, what = "flaky|"+sig, "NOT reproduced 5x on fresh runtimes: "+what
		}
		r.Violation(sig, what, c)
	}
	var mades [3]made
	for _, patch := range rg.patches {
		t := e.rt(patch)
		kinds := rg.kinds
		if patch != 0 {
			kinds = patchKinds1
		}
		m, err := t.build(p, f, rg.wantB, kinds)
		if err != nil {
			e.rts[patch] = nil
			report(patch, nil, nil, "construct|"+classifyErr(err), fmt.Sprintf("new RegExp(%q, %q) fails with a non-JS error: %v", p, f, err))
			return
		}
		mades[patch] = m
	}
	m0 := mades[0]
	// constructor oracle: only SyntaxError may be thrown, and P is rejected iff P(?=) is rejected
	for _, en := range []string{m0.errA, m0.errB} {
		if en != "" && en != "SyntaxError" {
			report(0, nil, nil, "construct|throws-"+en, fmt.Sprintf("new RegExp(%q, %q) throws %s instead of SyntaxError", p, f, en))
		}
	}
	if !validFlags(f) {
		if m0.errA == "" {
			report(0, nil, nil, "construct|flags|"+invalidFlagClass(f)+" accepted", fmt.Sprintf("new RegExp(%q, %q) does not throw SyntaxError", p, f))
		}
		r.Outcome("ctor-flags:" + m0.errA)
		return
	}
	if rg.invalid {
		if m0.errA == "" {
			report(0, nil, nil, "construct|invalid pattern accepted|"+invalidPatternClass[p], fmt.Sprintf("new RegExp(%q, %q) does not throw SyntaxError", p, f))
		}
		r.Outcome("ctor-invalid:" + m0.errA)
		return
	}
	if (m0.errA == "") != (m0.errB == "") {
		sig, what := classifyCtor(p, f, m0.errA, m0.errB)
		report(0, nil, nil, sig, what)
	}
	if m0.errA != "" || m0.errB != "" {
		r.Outcome("ctor:" + m0.errA + "/" + m0.errB)
		return
	}
	for si := range rg.subjects {
		s := &rg.subjects[si]
		if r.Expired() {
			return
		}
		r.Eval(1)
		var out0 goja.Value
		for _, patch := range rg.patches {
			t := e.rt(patch)
			e.cur.Store(&inFlight{rg: rg, p: p, f: f, s: s, patch: patch, started: time.Now()})
			out, err := t.run(mades[patch], *s, rg.ops, rg.starts, -1, rg.beyond)
			e.cur.Store(nil)
			if err != nil {
				op, k, vn := "?", -1, "?"
				if ls := strings.Split(strOrEmpty(t.r.Get("lastStep")), ","); len(ls) == 3 {
					op, vn = ls[0], ls[2]
					k, _ = strconv.Atoi(ls[1])
				}
				e.rts[patch] = nil
				b := &bad{Kind: "panic", Op: op, K: k, V1: vn, D1: err.Error()}
				sig, what := classify(p, f, s, patch, b)
				report(patch, s, b, sig, what)
				// rebuild the variants on a fresh runtime and go on with the next subject
				kinds := rg.kinds
				if patch != 0 {
					kinds = patchKinds1
				}
				m, err := e.rt(patch).build(p, f, rg.wantB, kinds)
				if err != nil {
					return
				}
				mades[patch] = m
				continue
			}
			str := out.String()
			if bj := strOrEmpty(t.r.Get("lastBads")); bj != "" {
				var bads []bad
				if err := json.Unmarshal([]byte(bj), &bads); err != nil {
					panic("c20: bad harness output: " + err.Error())
				}
				for i := range bads {
					sig, what := classify(p, f, s, patch, &bads[i])
					report(patch, s, &bads[i], sig, what)
				}
			}
			if patch == 0 {
				out0 = out
				first := str
				if i := strings.IndexByte(str, '|'); i >= 0 {
					first = str[:i]
				}
				if !strings.HasPrefix(first, "null") {
					matched = true
				}
				r.OutcomeH(hash64(first))
			} else if out0 != nil {
				// the patched-prototype runtimes run start positions 0 and 1 only: their dump must be a prefix of the pristine one
				u0, u1 := goja.VerifUnits(out0), goja.VerifUnits(out)
				same := len(u1) <= len(u0)
				for i := 0; same && i < len(u1); i++ {
					same = u0[i] == u1[i]
				}
				if !same {
					// locate the first differing (start, operation) segment and classify it like an in-runtime difference
					s0, s1 := strings.Split(out0.String(), "|"), strings.Split(str, "|")
					k, op, d0, d1 := -1, "?", "", ""
					for i := 0; i < len(s1); i++ {
						if i >= len(s0) || s0[i] != s1[i] {
							k, op, d1 = i/len(rg.ops), rg.ops[i%len(rg.ops)], s1[i]
							if i < len(s0) {
								d0 = s0[i]
							}
							break
						}
					}
					v2 := "A/proto-patched"
					if patch == 2 {
						v2 = "A/symbols-patched"
					}
					b := &bad{Kind: "diff", Op: op, K: k, V1: "A/plain", V2: v2, D1: d0, D2: d1}
					sig, what := classify(p, f, s, 0, b)
					report(patch, s, b, sig, what)
				}
			}
		}
	}
	return
}

// development aid: C20_DUMP=<file> appends up to 3 mismatches per signature, uncapped in the number of signatures
var (
	dumpFile *os.File
	dumpMu   sync.Mutex
	dumpSeen = map[string]int{}
)

func dumpMismatch(sig, what string) {
	dumpMu.Lock()
	defer dumpMu.Unlock()
	dumpSeen[sig]++
	if dumpSeen[sig] <= 3 {
		b, _ := json.Marshal(map[string]string{"sig": sig, "what": what})
		dumpFile.Write(append(b, '\n'))
	}
}

func classifyErr(err error) string {
	s := err.Error()
	if len(s) > 80 {
		s = s[:80]
	}
	return s
}

var (
	opsEngine   = []string{"exec", "test", "match", "replaceFn", "search", "split"}
	opsIter     = []string{"exec", "replaceFn", "split"}
	kindsAll    = []string{"A/plain", "B/plain", "A/ownexec", "B/ownexec", "A/subclass", "B/subclass"}
	kindsQuick  = []string{"A/plain", "B/plain", "A/ownexec", "A/subclass"}
	kindsPath   = []string{"A/plain", "B/plain", "A/ownexec", "B/ownexec"}
	kindsPlain  = []string{"A/plain", "B/plain"}
	kindsAOnly  = []string{"A/plain"}
	patchKinds1 = []string{"A/plain", "B/plain"} // variants built on the patched-prototype runtimes
)

// atoms that matter for the path / lastIndex protocol rings: widths 0, 1 and 2 code units, surrogate halves, named group
var pathPatternsT = []string{"a", ".", "[^a]", "\U0001F600", `\uD83D`, `\uDE00`, "[^]", "^", "$", `\b`, `\B`, "a*", "(?<a>a)|b", `\W??`}

// corpus: the minimal failing input of every listed finding (plus the inputs that caught the mutants during
// development), evaluated before the rings so that every known signature is reached deterministically.
type corpusCase struct {
	p, f    string
	subj    []uint16
	paths   bool // true: all variants, runtime kinds, operations and start positions; false: A/B plain, engine operations, start 0
	invalid bool
}

var corpus = []corpusCase{
	{p: "a", f: "uu"}, // construct|flags|duplicate flag u accepted
	{p: "(?<a>x)(?<a>y)", f: "", invalid: true},       // construct|invalid pattern accepted|duplicate group name
	{p: "^*", f: "", invalid: true},                   // construct|invalid pattern accepted|quantified assertion
	{p: `\b`, f: "", subj: []uint16{0xe9}},            // engine|\b
	{p: `\W`, f: "i", subj: []uint16{0x17f}},          // engine|\w+i
	{p: ".", f: "", subj: []uint16{0x2028}},           // engine|dot
	{p: "(?<a>a)", f: "u", subj: []uint16{'a', 0xe9}}, // engine|named groups
	{p: "a|[^a]", f: "g", subj: []uint16{'a'}},        // engine|negated class ...
	{p: "a*[^a]", f: "g", subj: []uint16{'a', '\n'}},
	{p: `\W+\B`, f: "g", subj: []uint16{0xd83d, 0xde00, 'a'}},       // engine|quantified atom followed by \b or \B
	{p: ".\U0001F600", f: "g", subj: []uint16{'A', 0xd83d, 0xde00}}, // engine|surrogate literal
	{p: "(a*)*", f: "g", subj: []uint16{'a'}},                       // engine|quantified capturing group with nullable body
	{p: "a*", f: "g", subj: []uint16{'a'}, paths: true},             // fast-path|global match/replace
	{p: `\b`, f: "gy", subj: []uint16{'a'}, paths: true},            // fast-path|global+sticky
	{p: "a", f: "y", subj: []uint16{0xe9, 'a'}, paths: true},        // fast-path|replace|re2+sticky
	{p: ".", f: "u", subj: []uint16{'a', 0xe9}, paths: true},        // fast-path|replace|regexp2+u (limit)
	{p: ".", f: "uy", subj: []uint16{'a', 0xe9, 'a'}, paths: true},
	{p: "a*", f: "", subj: []uint16{'a', 'b'}, paths: true}, // fast-path|split
	{p: "a", f: "", subj: []uint16{'a'}, paths: true},       // generic-path|test
	{p: "$", f: "y", subj: []uint16{}, paths: true},         // panic|replace
	{p: "\U0001F600", f: "gu", subj: []uint16{'a', 0xd83d, 0xde00, 0xd83d, 0xde00}, paths: true},
	{p: "", f: "gu", subj: []uint16{0xd83d, 0xde00, 'a'}, paths: true},
}

func runCorpus(r *core.Run, envs []*env) bool {
	ok, _ := parallelWatched(r, envs, int64(len(corpus)), 1, func(w int, lo, hi int64) {
		for i := lo; i < hi; i++ {
			c := corpus[i]
			rg := &ring{name: "corpus", patterns: []string{c.p}, flags: []string{c.f}, subjects: []subject{{units: c.subj}},
				ops: opsEngine, kinds: kindsPlain, patches: []int{0}, wantB: true, invalid: c.invalid}
			if c.paths {
				rg.ops, rg.kinds, rg.patches, rg.starts, rg.beyond = allOps, kindsAll, []int{0, 1, 2}, true, true
			}
			evalPF(r, envs[w], rg, c.p, c.f)
		}
	})
	r.Set("corpus_cases", len(corpus))
	return ok
}

func buildRings(r *core.Run) []*ring {
	ext1 := allPatterns(1, atomsExt)
	ext2 := allPatterns(2, atomsExt)
	core3 := allPatterns(3, atomsCore)
	all := allSymbolIdx()
	pathSyms := []int{0, 1, 3, 8, 9, 10, 11}  // a b \n é astral loneHi loneLo
	pathSymsQ := []int{0, 8, 9, 10, 11}       // a é astral loneHi loneLo
	engSyms := []int{0, 2, 3, 5, 6, 8, 9, 10} // a A \n U+2028 ſ é astral loneHi
	coreSyms := []int{0, 3, 9, 10}            // a \n astral loneHi
	var rings []*ring
	// R0: flag strings. every valid subset, every ordering of <=3 letters, every invalid string of <=3 letters over gimsuy+x
	fl := append(append(flagSubsets(), validPermutedFlags()...), invalidFlags()...)
	rings = append(rings, &ring{name: "R0-flags", patterns: []string{"a", "(?<a>a)|b"}, flags: fl,
		subjects: allSubjects(1, []int{0, 9}), ops: allOps, kinds: kindsPlain, patches: []int{0}, wantB: true, starts: true})
	// R0b: syntactically invalid patterns
	var inv []string
	for _, ip := range invalidPatterns {
		inv = append(inv, ip[0])
	}
	rings = append(rings, &ring{name: "R0b-invalid-patterns", patterns: inv, flags: []string{"", "u", "g", "iy"},
		subjects: allSubjects(0, nil), ops: allOps, kinds: kindsPlain, patches: []int{0}, invalid: true})
	if r.Quick() {
		// R1a: paths and lastIndex protocol: variants and runtime kinds, every start position, every operation
		rings = append(rings, &ring{name: "R1a-paths", patterns: pathPatternsT, flags: append(flagSubsetsOf("guy"), "gimsuy"),
			subjects: allSubjects(2, pathSymsQ), ops: allOps, kinds: kindsQuick, patches: []int{0, 1, 2}, wantB: true, starts: true})
		// R1b: engine semantics. weight-1 patterns x all subsets of imsu x full subject alphabet
		rings = append(rings, &ring{name: "R1b-engine-w1", patterns: ext1, flags: flagSubsetsOf("imsu"),
			subjects: allSubjects(2, all), ops: opsEngine, kinds: kindsPlain, patches: []int{0}, wantB: true})
		// R2: engine semantics, weight-2 patterns, global iteration
		rings = append(rings, &ring{name: "R2-engine-w2", patterns: ext2, flags: []string{"g", "gi", "gu"},
			subjects: allSubjects(2, engSyms), ops: opsIter, kinds: kindsPlain, patches: []int{0}, wantB: true})
		// R3: weight-3 patterns over the core alphabet
		rings = append(rings, &ring{name: "R3-engine-w3", patterns: core3, flags: []string{"g", "gu"},
			subjects: allSubjects(2, coreSyms), ops: opsIter, kinds: kindsPlain, patches: []int{0}, wantB: true})
		return rings
	}
	// i is left to the engine rings except for one full flag string: regexp2 needs ~50 ms to compile a negated escape
	// (\D \W \S) under IgnoreCase, and the path rings recompile on every split / matchAll / species construction
	pathFlagsT := append(flagSubsetsOf("guy"), "ms", "gms", "msy", "gmsy", "msu", "gmsu", "msuy", "gimsuy")
	rings = append(rings, &ring{name: "T1a-paths-w1", patterns: ext1, flags: pathFlagsT,
		subjects: allSubjects(2, pathSyms), ops: allOps, kinds: kindsAll, patches: []int{0, 1, 2}, wantB: true, starts: true})
	rings = append(rings, &ring{name: "T1c-paths-deep-subjects", patterns: pathPatternsT, flags: flagSubsetsOf("guy"),
		subjects: allSubjects(3, pathSymsQ), ops: allOps, kinds: kindsQuick, patches: []int{0}, wantB: true, starts: true})
	rings = append(rings, &ring{name: "T1b-engine-w1", patterns: ext1, flags: flagSubsetsOf("imsu"),
		subjects: allSubjects(3, all), ops: opsEngine, kinds: kindsPlain, patches: []int{0}, wantB: true})
	rings = append(rings, &ring{name: "T2a-paths-w2", patterns: allPatterns(2, atomsSmall), flags: append(flagSubsetsOf("guy"), "gimsuy"),
		subjects: allSubjects(2, pathSymsQ), ops: allOps, kinds: kindsPath, patches: []int{0}, wantB: true, starts: true})
	rings = append(rings, &ring{name: "T2b-engine-w2", patterns: ext2, flags: []string{"g", "gi", "gu", "giu", "gm", "gs", "gms", "gimsu"},
		subjects: allSubjects(2, all), ops: opsIter, kinds: kindsPlain, patches: []int{0}, wantB: true})
	rings = append(rings, &ring{name: "T3-engine-w3", patterns: core3, flags: []string{"g", "gu"},
		subjects: allSubjects(3, coreSyms), ops: opsIter, kinds: kindsPlain, patches: []int{0}, wantB: true})
	rings = append(rings, &ring{name: "T4-engine-w4", patterns: allPatterns(4, atomsSmall), flags: []string{"g", "gu"},
		subjects: allSubjects(2, coreSyms), ops: opsIter, kinds: kindsPlain, patches: []int{0}, wantB: true})
	return rings
}

func run(r *core.Run) {
	gcp := 250
	if v, err := strconv.Atoi(os.Getenv("C20_GC")); err == nil {
		gcp = v
	}
	defer debug.SetGCPercent(debug.SetGCPercent(gcp))
	rings := buildRings(r)
	if os.Getenv("C20_BEYOND") != "" { // once the replace defect is fixed: include the excluded cell in every ring
		for _, rg := range rings {
			rg.beyond = true
		}
		r.Assume("C20_BEYOND set: sticky replace from lastIndex > length included in the rings")
	}
	if fn := os.Getenv("C20_CPUPROFILE"); fn != "" { // development aid
		f, _ := os.Create(fn)
		pprof.StartCPUProfile(f)
		defer pprof.StopCPUProfile()
	}
	if fn := os.Getenv("C20_DUMP"); fn != "" {
		dumpFile, _ = os.Create(fn)
		defer dumpFile.Close()
	}
	if sel := os.Getenv("C20_RINGS"); sel != "" { // development aid: run only the named rings
		var keep []*ring
		for _, rg := range rings {
			if strings.Contains(","+sel+",", ","+rg.name+",") {
				keep = append(keep, rg)
			}
		}
		rings = keep
		r.Assume("C20_RINGS=" + sel + " (partial run)")
	}
	r.Assume("which engine backs an object is decided by a replica of goja.compileRegexp (parser.TransformRegExp + regexp.Compile); cross-checked offline on all ring patterns through repo_hook/verif_c20.go")
	r.Assume("sticky non-global replace from lastIndex > length is left out of the rings (known finding: panic / endless native loop in regexp2) and covered by the corpus only")
	envs := make([]*env, r.Workers)
	for i := range envs {
		envs[i] = &env{}
	}
	complete := true
	if sel := os.Getenv("C20_RINGS"); sel == "" || strings.Contains(","+sel+",", ",corpus,") {
		if !runCorpus(r, envs) {
			complete = false
			rings = nil
		}
	}
	var done []string
	for _, rg := range rings {
		nf := int64(len(rg.flags))
		n := int64(len(rg.patterns)) * nf
		var nt, re2n, rx2n int64
		type cnt struct{ nt, re2, rx2 int64 }
		cnts := make([]cnt, r.Workers)
		ok, hung := parallelWatched(r, envs, n, 8, func(w int, lo, hi int64) {
			e := envs[w]
			for i := lo; i < hi && !aborted.Load(); i++ {
				p, f := rg.patterns[i/nf], rg.flags[i%nf]
				matched := evalPF(r, e, rg, p, f)
				re2 := predictRE2(p, f)
				if re2 {
					cnts[w].re2++
					if matched {
						cnts[w].nt++
					}
				} else {
					cnts[w].rx2++
				}
				if r.WantSample(i) {
					r.Sample(map[string]interface{}{"ring": rg.name, "pattern": p, "flags": f, "engine_A": map[bool]string{true: "regexp(RE2)", false: "regexp2"}[re2], "matched_some_subject": matched, "subjects": len(rg.subjects)})
				}
			}
		})
		for _, c := range cnts {
			nt += c.nt
			re2n += c.re2
			rx2n += c.rx2
		}
		r.NontrivialN(nt)
		r.Add("pattern_flag_pairs", n)
		r.Add("pairs_A_on_re2", re2n)
		r.Add("pairs_A_on_regexp2_only", rx2n)
		r.Set("ring_"+rg.name, map[string]interface{}{"patterns": len(rg.patterns), "flag_strings": len(rg.flags), "subjects": len(rg.subjects), "ops": rg.ops, "variants": rg.kinds, "runtime_kinds": rg.patches, "all_starts": rg.starts, "completed": ok})
		if hung {
			r.Set("hang_detected", true)
		}
		if !ok {
			complete = false
			break
		}
		done = append(done, rg.name)
	}
	r.Set("bounds_completed", done)
	r.Exhaustive(complete)
}

const hangLimit = 40 * time.Second

var aborted atomic.Bool

// parallelWatched is r.Parallel plus a watchdog: a harness call that does not return within hangLimit (the engine
// loops natively, where no VM step hook can interrupt it) is reported as a violation, the other workers are told to
// stop and the run ends (the stuck goroutine is abandoned; the process exits after the report is written).
func parallelWatched(r *core.Run, envs []*env, n, chunk int64, fn func(worker int, lo, hi int64)) (complete, hung bool) {
	var next atomic.Int64
	var wg sync.WaitGroup
	var cut atomic.Bool
	for w := 0; w < r.Workers; w++ {
		wg.Add(1)
		go func(w int) {
			defer wg.Done()
			for !aborted.Load() {
				lo := next.Add(chunk) - chunk
				if lo >= n {
					return
				}
				if r.Expired() {
					cut.Store(true)
					return
				}
				fn(w, lo, min(lo+chunk, n))
			}
		}(w)
	}
	done := make(chan struct{})
	go func() { wg.Wait(); close(done) }()
	tick := time.NewTicker(time.Second)
	defer tick.Stop()
	for {
		select {
		case <-done:
			return !cut.Load() && !aborted.Load() && !r.Capped(), false
		case <-tick.C:
			for _, e := range envs {
				c := e.cur.Load()
				if c == nil || time.Since(c.started) < hangLimit {
					continue
				}
				aborted.Store(true)
				cs := Case{Ring: c.rg.name, Pattern: c.p, Flags: c.f, Patch: c.patch, Kinds: c.rg.kinds, Ops: c.rg.ops, WantB: c.rg.wantB, Starts: c.rg.starts, Beyond: c.rg.beyond,
					Subject: c.s.units, Shown: c.s.String()}
				step := "?"
				func() {
					defer func() { recover() }()
					step = strOrEmpty(e.rts[c.patch].r.Get("lastStep")) // racy read of a runtime that is stuck in native code; best effort
				}()
				r.Violation("hang|"+strings.Join(patternFeatures(c.p), ",")+"|flags="+flagClass(c.f),
					fmt.Sprintf("/%s/%s on \"%s\" (runtime kind %d): the operation suite does not return within %v (last step: %s)", c.p, c.f, c.s.String(), c.patch, hangLimit, step), cs)
				// give the healthy workers a moment to leave their current case, then abandon the stuck one
				select {
				case <-done:
				case <-time.After(5 * time.Second):
				}
				return false, true
			}
		}
	}
}

func replay(r *core.Run, raw json.RawMessage) {
	var c Case
	if err := json.Unmarshal(raw, &c); err != nil {
		panic(err)
	}
	rg := &ring{name: c.Ring, patterns: []string{c.Pattern}, flags: []string{c.Flags}, ops: c.Ops, kinds: c.Kinds, patches: []int{0}, wantB: c.WantB, starts: c.Starts, invalid: c.Invalid, beyond: c.Beyond}
	if c.Patch != 0 {
		rg.patches = []int{0, c.Patch}
	}
	if c.Subject != nil || c.Shown != "" || c.Detail != nil {
		rg.subjects = []subject{{units: c.Subject}}
	}
	evalPF(r, &env{}, rg, c.Pattern, c.Flags)
}
