// Package c20 decides property C20 (RegExp results are independent of engine and fast path; indices are UTF-16
// exact) by bounded-exhaustive differential enumeration: every pattern of a weight bound over a small atom
// alphabet x every flag string x every subject of a few symbols (ASCII, line terminators, case-folding oddities,
// BMP, astral pair, lone surrogates) x every start position is run through exec, test, match, matchAll, replace,
// search and split on variants of the same regular expression that exercise Go regexp vs regexp2 (P vs P(?=), and
// the lazily built regexp2 of the same object for lastIndex > 0) and the optimised vs the generic protocol path
// (own exec, subclass, patched prototype); the structural dumps of all variants must be identical.
// See NOTES.md for rings, oracle, findings and mutants.
package c20
