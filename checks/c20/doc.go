// Package c20 holds the check for property C20.
package c20
