//go:build verif && c20hook

package goja

// Verification hook for property C20 (add-only, read-only): which regular-expression engines back a
// RegExp object right now.
//
// re2: the Go regexp (linear-time) wrapper exists, i.e. the translation of the pattern succeeded at
// construction; regexp2: the backtracking wrapper exists (built at construction when the translation
// failed, or lazily on the first match that starts at lastIndex > 0 / on a findAll that cannot use Go regexp).
func VerifRegexpEngines(o *Object) (re2, regexp2, ok bool) {
	rx, isRx := o.self.(*regexpObject)
	if !isRx || rx.pattern == nil {
		return false, false, false
	}
	return rx.pattern.regexpWrapper != nil, rx.pattern.regexp2Wrapper != nil, true
}
