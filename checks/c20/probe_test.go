package c20

import (
	"fmt"
	"os"
	"testing"

	"github.com/dop251/goja"
)

func TestProbe(t *testing.T) {
	src, _ := os.ReadFile(os.Getenv("C20_JS"))
	r := goja.New()
	r.Set("print", func(a ...interface{}) { fmt.Println(a...) })
	v, err := r.RunString(string(src))
	fmt.Println("=>", v, err)
}
