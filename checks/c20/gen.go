package c20

import (
	"sort"
	"strings"
)

// ---------- pattern enumeration ----------
//
// A pattern is built from atoms; its weight is the number of grammar nodes:
//   atom / assertion            1
//   quantifier on atom or group +1
//   group (any kind)            +1
//   alternation bar             +1   (an alternative may be empty)
//   concatenation               free
// allPatterns(w, atoms) returns every pattern of weight exactly w, simplest first (deterministic order).

type atomSet struct {
	quantifiable []string // atoms that may take a quantifier
	assertions   []string // ^ $ \b \B (never quantified: quantified assertions are a syntax error in ES)
}

var quantifiers = []string{"*", "+", "?", "{1,2}", "*?", "+?", "??", "{1,2}?"}

// groups: capturing, non-capturing, named (the name is made unique afterwards)
var groupOpen = []string{"(", "(?:", "(?<@>"}

// extended alphabet (weights 1-2)
var atomsExt = atomSet{
	quantifiable: []string{
		"a", "b", ".", "[ab]", "[^a]", "[a-c]", `\d`, `\w`, `\s`, `\D`, `\W`, `\S`,
		"A", "s", "k", `\n`, "é", `\u00e9`, "\U0001F600", `\uD83D\uDE00`, `\u{1F600}`, `\uD83D`, `\uDE00`,
		"[^]", "[]", "[\U0001F600]", `[\s\S]`, `[^\W]`, `[\d]`, "ſ", "K", `\x61`,
	},
	assertions: []string{"^", "$", `\b`, `\B`},
}

// core alphabet (weight 3)
var atomsCore = atomSet{
	quantifiable: []string{"a", "b", ".", "[ab]", "[^a]", `\d`, `\w`, `\s`, `\W`, "\U0001F600"},
	assertions:   []string{"^", "$", `\b`, `\B`},
}

// small alphabet (weight 4 and more)
var atomsSmall = atomSet{
	quantifiable: []string{"a", ".", "[^a]", `\w`, "\U0001F600"},
	assertions:   []string{"^", "$", `\b`},
}

type patGen struct {
	as   atomSet
	term map[int][]string
	seq  map[int][]string
	alt  map[int][]string
	base map[int][]string // quantifiable things: atoms and groups
}

func newPatGen(as atomSet) *patGen {
	return &patGen{as: as, term: map[int][]string{}, seq: map[int][]string{}, alt: map[int][]string{}, base: map[int][]string{}}
}

func (g *patGen) bases(w int) []string {
	if w < 1 {
		return nil
	}
	if r, ok := g.base[w]; ok {
		return r
	}
	var res []string
	if w == 1 {
		res = append(res, g.as.quantifiable...)
	} else {
		for _, open := range groupOpen {
			for _, in := range g.alts(w - 1) {
				res = append(res, open+in+")")
			}
		}
	}
	g.base[w] = res
	return res
}

func (g *patGen) terms(w int) []string {
	if w < 1 {
		return nil
	}
	if r, ok := g.term[w]; ok {
		return r
	}
	var res []string
	res = append(res, g.bases(w)...)
	if w == 1 {
		res = append(res, g.as.assertions...)
	}
	for _, b := range g.bases(w - 1) {
		for _, q := range quantifiers {
			res = append(res, b+q)
		}
	}
	g.term[w] = res
	return res
}

func (g *patGen) seqs(w int) []string {
	if w < 1 {
		return nil
	}
	if r, ok := g.seq[w]; ok {
		return r
	}
	var res []string
	res = append(res, g.terms(w)...)
	for i := 1; i < w; i++ {
		for _, t := range g.terms(i) {
			for _, s := range g.seqs(w - i) {
				res = append(res, t+s)
			}
		}
	}
	g.seq[w] = res
	return res
}

// alts(w): alternations of total weight w (a bar costs 1; an alternative may be empty = weight 0)
func (g *patGen) alts(w int) []string {
	if w < 1 {
		return nil
	}
	if r, ok := g.alt[w]; ok {
		return r
	}
	var res []string
	res = append(res, g.seqs(w)...)
	// first alternative of weight i (0 = empty), bar, rest of weight w-1-i (0 = empty)
	for i := 0; i <= w-1; i++ {
		var firsts []string
		if i == 0 {
			firsts = []string{""}
		} else {
			firsts = g.seqs(i)
		}
		rest := w - 1 - i
		var rests []string
		if rest == 0 {
			rests = []string{""}
		} else {
			rests = g.alts(rest)
		}
		for _, f := range firsts {
			for _, r := range rests {
				if f == "" && r == "" {
					continue
				}
				res = append(res, f+"|"+r)
			}
		}
	}
	g.alt[w] = res
	return res
}

// uniqueNames replaces the group-name placeholder "@" by a, b, c ... in order of appearance.
func uniqueNames(p string) string {
	if !strings.Contains(p, "(?<@>") {
		return p
	}
	var sb strings.Builder
	n := 0
	for {
		i := strings.Index(p, "(?<@>")
		if i < 0 {
			break
		}
		sb.WriteString(p[:i])
		sb.WriteString("(?<")
		sb.WriteByte(byte('a' + n))
		sb.WriteString(">")
		n++
		p = p[i+5:]
	}
	sb.WriteString(p)
	return sb.String()
}

func allPatterns(w int, as atomSet) []string {
	g := newPatGen(as)
	src := g.alts(w)
	res := make([]string, len(src))
	for i, p := range src {
		res[i] = uniqueNames(p)
	}
	return res
}

// ---------- flags ----------

const flagLetters = "gimsuy"

// flagSubsets returns all 64 subsets of gimsuy in canonical letter order, ordered by size then mask.
func flagSubsets() []string {
	var res []string
	for m := 0; m < 64; m++ {
		s := ""
		for i := 0; i < 6; i++ {
			if m&(1<<i) != 0 {
				s += string(flagLetters[i])
			}
		}
		res = append(res, s)
	}
	sort.SliceStable(res, func(i, j int) bool { return len(res[i]) < len(res[j]) })
	return res
}

// flagSubsetsOf returns all subsets of the given letters.
func flagSubsetsOf(letters string) []string {
	var res []string
	n := len(letters)
	for m := 0; m < 1<<n; m++ {
		s := ""
		for i := 0; i < n; i++ {
			if m&(1<<i) != 0 {
				s += string(letters[i])
			}
		}
		res = append(res, s)
	}
	sort.SliceStable(res, func(i, j int) bool { return len(res[i]) < len(res[j]) })
	return res
}

// invalidFlags: every flag string of length <= 3 over gimsuy + {x} that contains a duplicate or the
// unknown letter, plus all permutations-with-duplicates of length 2.
func invalidFlags() []string {
	letters := flagLetters + "x"
	var res []string
	var rec func(cur string, n int)
	rec = func(cur string, n int) {
		if len(cur) > 0 {
			bad := strings.Contains(cur, "x")
			for i := 0; i < len(cur) && !bad; i++ {
				if strings.Count(cur, string(cur[i])) > 1 {
					bad = true
				}
			}
			if bad {
				res = append(res, cur)
			}
		}
		if n == 0 {
			return
		}
		for i := 0; i < len(letters); i++ {
			rec(cur+string(letters[i]), n-1)
		}
	}
	rec("", 3)
	sort.SliceStable(res, func(i, j int) bool { return len(res[i]) < len(res[j]) })
	return res
}

// validPermutedFlags: all orderings of every 2- and 3-letter subset (order of letters must not matter).
func validPermutedFlags() []string {
	var res []string
	var rec func(cur string, n int)
	rec = func(cur string, n int) {
		if len(cur) >= 2 {
			res = append(res, cur)
		}
		if n == 0 {
			return
		}
		for i := 0; i < len(flagLetters); i++ {
			if !strings.Contains(cur, string(flagLetters[i])) {
				rec(cur+string(flagLetters[i]), n-1)
			}
		}
	}
	rec("", 3)
	return res
}

// ---------- subjects ----------

type symbol struct {
	name  string
	units []uint16
	class string // a coarse class used in signatures
}

var subjectSymbols = []symbol{
	{"a", []uint16{'a'}, "ascii"},
	{"b", []uint16{'b'}, "ascii"},
	{"A", []uint16{'A'}, "upper"},
	{"\\n", []uint16{'\n'}, "LF"},
	{"\\r", []uint16{'\r'}, "CR"},
	{"U+2028", []uint16{0x2028}, "LS"},
	{"U+017F", []uint16{0x017f}, "longs"},
	{"U+212A", []uint16{0x212a}, "kelvin"},
	{"U+00E9", []uint16{0xe9}, "bmp"},
	{"U+1F600", []uint16{0xd83d, 0xde00}, "astral"},
	{"loneHi", []uint16{0xd83d}, "lonehi"},
	{"loneLo", []uint16{0xde00}, "lonelo"},
}

type subject struct {
	units []uint16
	syms  []int // one of the symbol sequences producing these units (the first = simplest)
}

func (s subject) String() string {
	var sb strings.Builder
	for _, u := range s.units {
		if u >= 32 && u < 127 && u != '\\' {
			sb.WriteByte(byte(u))
		} else {
			const hex = "0123456789abcdef"
			sb.WriteString(`\u`)
			sb.WriteByte(hex[u>>12])
			sb.WriteByte(hex[(u>>8)&15])
			sb.WriteByte(hex[(u>>4)&15])
			sb.WriteByte(hex[u&15])
		}
	}
	return sb.String()
}

// allSubjects returns every subject of at most maxSyms symbols over alphabet (indices into subjectSymbols),
// shortest first, de-duplicated by code-unit content (loneHi+loneLo == astral pair).
func allSubjects(maxSyms int, alphabet []int) []subject {
	var res []subject
	seen := map[string]bool{}
	var cur []int
	var rec func(n int)
	emit := func() {
		var u []uint16
		for _, si := range cur {
			u = append(u, subjectSymbols[si].units...)
		}
		key := string(utf16Key(u))
		if seen[key] {
			return
		}
		seen[key] = true
		res = append(res, subject{units: u, syms: append([]int(nil), cur...)})
	}
	for l := 0; l <= maxSyms; l++ {
		rec = func(n int) {
			if n == 0 {
				emit()
				return
			}
			for _, si := range alphabet {
				cur = append(cur, si)
				rec(n - 1)
				cur = cur[:len(cur)-1]
			}
		}
		rec(l)
	}
	return res
}

func utf16Key(u []uint16) []byte {
	b := make([]byte, 0, len(u)*2)
	for _, x := range u {
		b = append(b, byte(x>>8), byte(x))
	}
	return b
}

func allSymbolIdx() []int {
	r := make([]int, len(subjectSymbols))
	for i := range r {
		r[i] = i
	}
	return r
}

func validFlags(f string) bool {
	for i := 0; i < len(f); i++ {
		if !strings.Contains(flagLetters, string(f[i])) || strings.Count(f, string(f[i])) > 1 {
			return false
		}
	}
	return true
}

// invalidFlagClass names the first offending letter of an invalid flag string.
func invalidFlagClass(f string) string {
	for i := 0; i < len(f); i++ {
		if !strings.Contains(flagLetters, string(f[i])) {
			return "unknown flag " + string(f[i])
		}
		if strings.Count(f, string(f[i])) > 1 {
			return "duplicate flag " + string(f[i])
		}
	}
	return "?"
}

// invalidPatterns: patterns that are SyntaxErrors in ECMAScript with and without the u flag
// (ECMA-262 22.2.1 incl. Annex B.1.2), with the class used in the signature.
var invalidPatterns = [][2]string{
	{"(", "unterminated group"},
	{"(a", "unterminated group"},
	{"(?:a", "unterminated group"},
	{")", "unmatched )"},
	{"a)", "unmatched )"},
	{"[", "unterminated class"},
	{"[a", "unterminated class"},
	{"*", "nothing to repeat"},
	{"+a", "nothing to repeat"},
	{"?", "nothing to repeat"},
	{"a|*", "nothing to repeat"},
	{"(*)", "nothing to repeat"},
	{"a**", "nothing to repeat"},
	{"a+*", "nothing to repeat"},
	{"a???", "nothing to repeat"},
	{"a{1,2}{3}", "nothing to repeat"},
	{"^*", "quantified assertion"},
	{"$+", "quantified assertion"},
	{`\b?`, "quantified assertion"},
	{`\B{1,2}`, "quantified assertion"},
	{"a{2,1}", "quantifier range out of order"},
	{"[b-a]", "class range out of order"},
	{"(?<a>x)(?<a>y)", "duplicate group name"},
	{"(?<1a>x)", "invalid group name"},
	{"(?<a", "invalid group name"},
	{"(?a)", "invalid group"},
	{"\\", "trailing backslash"},
	{"a\\", "trailing backslash"},
}

var invalidPatternClass = func() map[string]string {
	m := map[string]string{}
	for _, ip := range invalidPatterns {
		m[ip[0]] = ip[1]
	}
	return m
}()
