//go:build verif && c20hook

package c20

// Cross-validation of predictRE2 (the replica of goja.compileRegexp's engine decision used by the check)
// against the real engine through repo_hook/verif_c20.go. Run in a worktree that contains the hook file:
//
//	go test -tags 'verif c20hook' -modfile=<go.mod pointing at the worktree> ./checks/c20/ -run TestEnginePrediction

import (
	"testing"

	"github.com/dop251/goja"
)

func TestEnginePrediction(t *testing.T) {
	r := goja.New()
	ctor, _ := goja.AssertFunction(r.Get("RegExp"))
	_ = ctor
	var pats []string
	pats = append(pats, allPatterns(1, atomsExt)...)
	pats = append(pats, allPatterns(2, atomsExt)...)
	pats = append(pats, allPatterns(3, atomsCore)...)
	pats = append(pats, allPatterns(4, atomsSmall)...)
	flags := flagSubsets()
	n, re2n, lazy := 0, 0, 0
	for pi, p := range pats {
		fl := flags
		if pi > 2000 {
			fl = []string{"", "g", "u", "gimsuy"}
		}
		for _, f := range fl {
			for _, suffix := range []string{"", "(?=)"} {
				o, err := r.New(r.Get("RegExp"), r.ToValue(p+suffix), r.ToValue(f))
				if err != nil {
					continue
				}
				re2, rx2, ok := goja.VerifRegexpEngines(o)
				if !ok {
					t.Fatalf("not a regexp object: %q", p)
				}
				n++
				want := predictRE2(p+suffix, f)
				if re2 != want {
					t.Errorf("/%s/%s: predicted re2=%v, engine has re2=%v", p+suffix, f, want, re2)
				}
				if re2 == rx2 {
					t.Errorf("/%s/%s: fresh object has re2=%v regexp2=%v (exactly one expected)", p+suffix, f, re2, rx2)
				}
				if suffix == "(?=)" && re2 {
					t.Errorf("/%s/%s: the lookahead variant is backed by Go regexp", p+suffix, f)
				}
				if re2 {
					re2n++
					// a match from lastIndex > 0 must build the backtracking engine lazily on the same object
					if f == "g" {
						o.Set("lastIndex", 1)
						exec, _ := goja.AssertFunction(o.Get("exec"))
						exec(o, r.ToValue("aaa"))
						_, rx2b, _ := goja.VerifRegexpEngines(o)
						if !rx2b {
							t.Errorf("/%s/%s: exec from lastIndex 1 did not build regexp2", p, f)
						}
						lazy++
					}
				}
			}
		}
	}
	t.Logf("%d objects checked, %d backed by Go regexp, %d lazily built regexp2", n, re2n, lazy)
}
