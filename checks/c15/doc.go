// Package c15 holds the check for property C15.
package c15
