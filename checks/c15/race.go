package c15

import (
	"bytes"
	"encoding/json"
	"fmt"
	"os"
	"os/exec"
	"path/filepath"
	"strings"

	"verif/core"
)

// racePart: supplementary passes under the Go race detector (free-running + HB-free serial hand-off).
func racePart(r *core.Run, bs *builds) bool {
	<-bs.race
	if bs.raceErr != nil {
		r.Violation("harness|race-build", "cannot build the race-detector harnesses: "+bs.raceErr.Error(), Case{Part: "race"})
		return false
	}
	// (a) every schedule up to the preemption bound, hand-offs invisible to the race detector
	ok := true
	for b := 0; b <= r.Pick(1, 2); b++ {
		if !runRaceSched(r, filepath.Join(bs.raceDir, "c15sched"), []string{"--raw", "--bound", fmt.Sprint(b), "--budget", fmt.Sprint(r.Pick(25, 300))}) {
			ok = false
			break
		}
		r.Set("race_sched_bound_completed", b)
	}
	// (b) free-running + serial passes
	bin := filepath.Join(bs.raceDir, "c15race")
	var out, errb bytes.Buffer
	cmd := exec.Command(bin, "--iters", fmt.Sprint(r.Pick(200, 3000)))
	cmd.Env = append(os.Environ(), "GORACE=halt_on_error=1 exitcode=66")
	cmd.Stdout, cmd.Stderr = &out, &errb
	err := cmd.Run()
	r.Eval(1)
	if strings.Contains(errb.String(), "DATA RACE") {
		r.Violation("race|"+raceSite(errb.String()), "the race detector reports a data race between the interrupting and the running goroutine:\n"+firstN(errb.String(), 3000), Case{Part: "race"})
		return true
	}
	if err != nil {
		r.Violation("harness|race-run", fmt.Sprintf("race harness failed: %v\n%s", err, firstN(errb.String(), 2000)), Case{Part: "race"})
		return false
	}
	r.Set("race_pass", "free-running + HB-free serial passes under -race: no report; "+strings.TrimSpace(out.String()))
	return ok
}

// runRaceSched runs the schedule harness built with -race in raw hand-off mode: the race detector then judges
// every explored schedule with only the engine's own synchronisation as happens-before edges.
func runRaceSched(r *core.Run, bin string, args []string) bool {
	var out, errb bytes.Buffer
	cmd := exec.Command(bin, args...)
	cmd.Env = append(os.Environ(), "GORACE=halt_on_error=1 exitcode=66", "GOMAXPROCS=2")
	cmd.Stdout, cmd.Stderr = &out, &errb
	err := cmd.Run()
	if strings.Contains(errb.String(), "DATA RACE") {
		sc, sched := lastSchedule(errb.String())
		r.Violation("race-sched|"+raceSite(errb.String()), "the race detector reports a data race in an explored schedule (hand-offs carry no happens-before):\n"+firstN(raceReport(errb.String()), 3000),
			Case{Part: "sched-race", Scenario: sc, Schedule: sched})
		return false
	}
	var s schedSummary
	if err != nil || json.Unmarshal(out.Bytes(), &s) != nil {
		r.Violation("harness|race-sched-run", fmt.Sprintf("race schedule harness failed: %v\n%s", err, firstN(errb.String(), 2000)), Case{Part: "sched-race"})
		return false
	}
	r.Transitions(s.Points)
	r.Traces(s.Execs)
	r.Eval(s.Execs)
	r.Add("schedules_explored_under_race_detector", s.Execs)
	for _, v := range s.Violations {
		r.Violation("sched|"+v.Scenario+"|"+v.Sig, v.What, Case{Part: "sched-race", Scenario: v.Scenario, Schedule: v.Schedule})
	}
	return s.Exhausted
}

// the harness prints "SCHEDULE <scenario> <choices>" before every execution in raw mode
func lastSchedule(stderr string) (string, []int) {
	idx := strings.LastIndex(stderr[:strings.Index(stderr, "DATA RACE")], "SCHEDULE ")
	if idx < 0 {
		return "", nil
	}
	line := stderr[idx:]
	if k := strings.IndexByte(line, '\n'); k >= 0 {
		line = line[:k]
	}
	f := strings.Fields(line)
	if len(f) < 2 {
		return "", nil
	}
	var ch []int
	if len(f) > 2 {
		json.Unmarshal([]byte("["+f[2]+"]"), &ch)
	}
	return f[1], ch
}

func raceReport(stderr string) string {
	if i := strings.Index(stderr, "WARNING: DATA RACE"); i >= 0 {
		return stderr[i:]
	}
	return stderr
}

func firstN(s string, n int) string {
	if len(s) > n {
		return s[:n]
	}
	return s
}

// raceSite extracts the two goja functions named first in the two stacks of a race report.
func raceSite(rep string) string {
	var sites []string
	lines := strings.Split(rep, "\n")
	for i, l := range lines {
		if strings.HasPrefix(l, "Write at") || strings.HasPrefix(l, "Read at") || strings.HasPrefix(l, "Previous write at") || strings.HasPrefix(l, "Previous read at") {
			for _, m := range lines[i+1:] {
				m = strings.TrimSpace(m)
				if strings.HasPrefix(m, "github.com/dop251/goja") {
					if k := strings.LastIndexByte(m, '('); k > 0 {
						m = m[:k]
					}
					sites = append(sites, strings.TrimPrefix(m, "github.com/dop251/goja"))
					break
				}
				if m == "" {
					break
				}
			}
		}
		if len(sites) == 2 {
			break
		}
	}
	return strings.Join(sites, "~")
}
