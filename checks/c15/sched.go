package c15

import (
	"bytes"
	"encoding/json"
	"fmt"
	"os"
	"os/exec"
	"path/filepath"
	"strings"
	"time"

	"verif/core"
	"verif/lib/shimbuild"
)

type schedViolation struct {
	Scenario string   `json:"scenario"`
	Sig      string   `json:"sig"`
	What     string   `json:"what"`
	Schedule []int    `json:"schedule"`
	Trace    []string `json:"trace,omitempty"`
}

type schedSummary struct {
	Instrumented bool             `json:"instrumented"`
	Execs        int64            `json:"execs"`
	Points       int64            `json:"points"`
	MaxPreempt   int              `json:"max_preemptions_seen"`
	Bound        int              `json:"bound"`
	Exhausted    bool             `json:"exhausted"`
	Outcomes     []string         `json:"outcomes"`
	Violations   []schedViolation `json:"violations"`
	Scenarios    []string         `json:"scenarios"`
	Sample       interface{}      `json:"sample"`
}

type builds struct {
	sched, race       chan struct{}
	schedDir, raceDir string
	schedErr, raceErr error
}

// startBuilds compiles (in the background) the schedule harness with the sync/atomic shim overlay, and the same
// harness plus the free-running harness with the overlay AND the race detector.
func startBuilds() *builds {
	b := &builds{sched: make(chan struct{}), race: make(chan struct{})}
	go func() {
		b.schedDir, b.schedErr = shimbuild.BuildWithShim("c15sched", []string{"vm.go"}, []string{"./cmd/c15sched"})
		close(b.sched)
		b.raceDir, b.raceErr = shimbuild.BuildWithShim("c15race", []string{"vm.go"}, []string{"./cmd/c15sched", "./cmd/c15race"}, "-race")
		close(b.race)
	}()
	return b
}

func (b *builds) cleanup() {
	<-b.race
	os.RemoveAll(b.schedDir)
	os.RemoveAll(b.raceDir)
}

func schedPart(r *core.Run, bs *builds) bool {
	<-bs.sched
	bin, err := filepath.Join(bs.schedDir, "c15sched"), bs.schedErr
	if err != nil {
		r.Violation("harness|sched-build", "cannot build the schedule-exploration harness: "+err.Error(), Case{Part: "sched"})
		return false
	}
	complete := true
	// iterative preemption bound
	maxBound := r.Pick(2, 3)
	for b := 0; b <= maxBound; b++ {
		// build time of the helper binaries is not charged to the exploration: every bound gets at least 15 s
		left := int(time.Until(r.Deadline).Seconds()) - 25 // keep time for the race passes
		if left < 15 {
			left = 15
		}
		var out bytes.Buffer
		cmd := exec.Command(bin, "--bound", fmt.Sprint(b), "--budget", fmt.Sprint(left))
		cmd.Stdout = &out
		cmd.Stderr = os.Stderr
		cmd.Env = append(os.Environ(), "GOMAXPROCS=2")
		if err := cmd.Run(); err != nil {
			r.Violation("harness|sched-run", fmt.Sprintf("schedule harness failed: %v", err), Case{Part: "sched"})
			return false
		}
		var s schedSummary
		if err := json.Unmarshal(out.Bytes(), &s); err != nil {
			r.Violation("harness|sched-output", "bad harness output: "+err.Error(), Case{Part: "sched"})
			return false
		}
		if !s.Instrumented {
			r.Violation("harness|sched-vacuous", "no scheduling point inside goja was hit: the overlay did not instrument vm.go", Case{Part: "sched"})
			return false
		}
		r.Transitions(s.Points)
		r.Traces(s.Execs)
		r.Eval(s.Execs)
		r.Add("schedules_explored", s.Execs)
		for _, o := range s.Outcomes {
			r.Outcome("sched|" + o)
		}
		if s.Sample != nil {
			r.Sample(map[string]interface{}{"part": "sched", "bound": b, "sample": s.Sample})
		}
		for _, v := range s.Violations {
			r.Violation("sched|"+v.Scenario+"|"+v.Sig, v.What, Case{Part: "sched", Scenario: v.Scenario, Schedule: v.Schedule, Detail: strings.Join(v.Trace, " ; ")})
		}
		if !s.Exhausted {
			complete = false
			r.Set("sched_bound_completed", b-1)
			break
		}
		r.Set("sched_bound_completed", b)
		r.Set("sched_scenarios", s.Scenarios)
	}
	return complete
}

func replayOther(r *core.Run, c Case) {
	bs := startBuilds()
	defer bs.cleanup()
	switch c.Part {
	case "sched", "sched-race":
		<-bs.sched
		<-bs.race
		if bs.schedErr != nil || bs.raceErr != nil {
			r.Violation("harness|sched-build", fmt.Sprint(bs.schedErr, bs.raceErr), c)
			return
		}
		ch := strings.Trim(strings.ReplaceAll(fmt.Sprint(c.Schedule), " ", ","), "[]")
		if c.Part == "sched-race" {
			runRaceSched(r, filepath.Join(bs.raceDir, "c15sched"), []string{"--raw", "--replay", c.Scenario + ":" + ch})
			return
		}
		out, err := exec.Command(filepath.Join(bs.schedDir, "c15sched"), "--replay", c.Scenario+":"+ch).Output()
		var s schedSummary
		if err != nil || json.Unmarshal(out, &s) != nil {
			r.Violation("harness|sched-run", fmt.Sprint(err), c)
			return
		}
		for _, v := range s.Violations {
			r.Violation("sched|"+v.Scenario+"|"+v.Sig, v.What, c)
		}
	case "race":
		racePart(r, bs)
	}
}
