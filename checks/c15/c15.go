// Package c15 decides C15 (an interrupt from any goroutine at any moment stops the script promptly and cleanly).
//
// Part 1 (this file): deterministic sweep — for every program shape x entry kind, Interrupt(v) is delivered from a
// second goroutine at EVERY VM-instruction boundary and at every host-native entry of the execution, in several
// variants (single, double, cleared before it is seen, delivered while idle, idle + ClearInterrupt).
// Part 2 (sched.go): all interleavings of the real Interrupt/ClearInterrupt code against the real run loop under a
// cooperative scheduler (sync and sync/atomic of vm.go routed through a shim by a build overlay), preemption-bounded.
// Part 3 (race.go): supplementary free-running and HB-free serial passes under the Go race detector.
package c15

import (
	"encoding/json"
	"fmt"
	"strings"

	"verif/core"
	"verif/lib/shapes"

	"github.com/dop251/goja"
)

func init() {
	core.Register(&core.Check{
		ID:    "C15",
		Level: "model_checking",
		Rule: "states = (shape, entry, variant, delivery position) configurations of the deterministic sweep: every VM-instruction boundary and every host-native entry of every shape x entry kind x variant is a delivery position; " +
			"transitions = schedule steps explored by the cooperative scheduler over the real Interrupt/ClearInterrupt/run-loop code (all interleavings up to the reported preemption bound); " +
			"a delivery position is non-trivial when the interrupt really ended the call (InterruptedError returned) with script frames pending",
		Run:      run,
		Replay:   replay,
		Prebuild: func() { startBuilds().cleanup() },
	})
}

// shapes only C15 uses (the catalogue in lib/shapes is shared with C03)
var extraShapes = []shapes.Shape{
	{Name: "ignoredcallable", Src: `function main(){ log('ic0'); try { callbackIgnore(function(){ log('ic1'); for (var i=0;i<3;i++){ log('ic2') } }) } finally { log('finally-ic') } log('ic3'); return 'ic' }`},
	{Name: "ignorednested", Src: `function main(){ log('in0'); runNestedIgnore("log('in1'); for (var i=0;i<3;i++){ log('in2') }"); log('in3'); for (var j=0;j<2;j++){ log('in4') } return 'in' }`},
	{Name: "ignoredtwice", Src: `function main(){ callbackIgnore(function(){ callbackIgnore(function(){ log('it1'); log('it2') }); log('it3') }); log('it4'); return 'it' }`},
}

func shapeNames() []string {
	var res []string
	for _, s := range shapes.Catalogue {
		res = append(res, s.Name)
	}
	for _, s := range extraShapes {
		res = append(res, s.Name)
	}
	return res
}

type Case struct {
	Part     string `json:"part"`
	Shape    string `json:"shape,omitempty"`
	Entry    string `json:"entry,omitempty"`
	Variant  string `json:"variant,omitempty"`
	Pos      int    `json:"pos,omitempty"` // delivery position: k-th VM instruction (kind step) or k-th native entry (kind native)
	PosKind  string `json:"pos_kind,omitempty"`
	Schedule []int  `json:"schedule,omitempty"`
	Scenario string `json:"scenario,omitempty"`
	Detail   string `json:"detail,omitempty"`
}

type failure struct{ sig, what string }

var variants = []string{"single", "double", "cleared", "late-second"}

// maximum number of VM instructions tolerated between delivery and the return of the outermost call
// ("within a bounded number of VM instructions"); the largest distance observed is reported in the evidence.
const promptBound = 128

type baseline struct {
	log    []string
	val    string
	err    string
	steps  int
	nats   int
	idle   goja.VerifIdleState
	probeC string
	probeR string
}

const probeSrc = `function __probe(){ try { throw 7 } catch (e) { let z = e; return [z, new Error('p').stack.split('\n').length, typeof log, (function(){ return arguments.length })(1,2)].join() } }`

var probeRun = goja.MustCompile("probe_run.js", "__probe()", false)

type env struct {
	*shapes.Env
	steps   int
	nats    int
	onStep  func()
	onNat   func()
	probeFn goja.Callable
}

func newEnv() *env {
	e := &env{Env: shapes.New()}
	goja.VerifSetStepHook(e.R, func(*goja.Runtime) {
		e.steps++
		if e.onStep != nil {
			e.onStep()
		}
	})
	e.OnNative = func(string) {
		e.nats++
		if e.onNat != nil {
			e.onNat()
		}
	}
	// natives that do NOT propagate the error of a nested call (a host may ignore or replace it): the interrupt
	// must then hit the enclosing script again, with the same value
	e.R.Set("callbackIgnore", func(call goja.FunctionCall) goja.Value {
		e.nats++
		if e.onNat != nil {
			e.onNat()
		}
		if fn, ok := goja.AssertFunction(call.Argument(0)); ok {
			fn(goja.Undefined())
		}
		return goja.Undefined()
	})
	e.R.Set("runNestedIgnore", func(call goja.FunctionCall) goja.Value {
		e.nats++
		if e.onNat != nil {
			e.onNat()
		}
		e.R.RunString(call.Argument(0).String())
		return goja.Undefined()
	})
	for _, s := range extraShapes {
		e.AddShape(s)
	}
	if _, err := e.R.RunString(probeSrc); err != nil {
		panic(err)
	}
	e.probeFn, _ = goja.AssertFunction(e.R.Get("__probe"))
	return e
}

func (e *env) probe() (viaCall, viaRun string) {
	defer func() {
		if x := recover(); x != nil {
			viaCall += fmt.Sprintf("|panic:%v", x)
		}
	}()
	v, err := e.probeFn(goja.Undefined())
	viaCall = fmt.Sprint(v, "/", err)
	v, err = e.R.RunProgram(probeRun)
	viaRun = fmt.Sprint(v, "/", err)
	return
}

func valStr(v goja.Value) string {
	if v == nil {
		return "<nil>"
	}
	return v.String()
}

func errStr(err error) string {
	if err == nil {
		return ""
	}
	return fmt.Sprintf("%T:%v", err, err)
}

func idleOf(r *goja.Runtime) goja.VerifIdleState {
	st := goja.VerifIdle(r)
	st.PC = 0
	return st
}

func (e *env) reset() {
	e.Log = e.Log[:0]
	e.steps, e.nats = 0, 0
	e.onStep, e.onNat = nil, nil
}

func (e *env) base(shape, entry string) baseline {
	e.reset()
	v, err := e.Enter(entry, shape)
	b := baseline{log: append([]string{}, e.Log...), val: valStr(v), err: errStr(err), steps: e.steps, nats: e.nats, idle: idleOf(e.R)}
	b.probeC, b.probeR = e.probe()
	return b
}

// interrupter is the second goroutine: it performs Interrupt/ClearInterrupt calls on request.
type interrupter struct {
	req  chan func()
	done chan struct{}
}

func newInterrupter() *interrupter {
	it := &interrupter{req: make(chan func()), done: make(chan struct{})}
	go func() {
		for f := range it.req {
			f()
			it.done <- struct{}{}
		}
	}()
	return it
}
func (it *interrupter) do(f func()) { it.req <- f; <-it.done }
func (it *interrupter) stop()       { close(it.req) }

// runCase delivers the interrupt of the given variant at position pos and evaluates the oracle.
func runCase(e *env, it *interrupter, b *baseline, c Case) (fails []failure, fired bool, dist int) {
	add := func(sig, what string) { fails = append(fails, failure{sig, what}) }
	e.reset()
	delivered := false
	logAt, stepsAt := 0, 0
	deliver := func() {
		delivered = true
		logAt, stepsAt = len(e.Log), e.steps
		switch c.Variant {
		case "single", "late-second":
			it.do(func() { e.R.Interrupt("v1") })
		case "double":
			it.do(func() { e.R.Interrupt("v1") })
			it.do(func() { e.R.Interrupt("v2") })
		case "cleared":
			it.do(func() { e.R.Interrupt("v1") })
			it.do(func() { e.R.ClearInterrupt() })
		}
	}
	if c.PosKind == "step" {
		e.onStep = func() {
			if e.steps == c.Pos && !delivered {
				deliver()
			}
		}
	} else {
		e.onNat = func() {
			if e.nats == c.Pos && !delivered {
				deliver()
			}
		}
	}
	var v goja.Value
	var err error
	var pan interface{}
	func() {
		defer func() { pan = recover() }()
		v, err = e.Enter(c.Entry, c.Shape)
	}()
	e.onStep, e.onNat = nil, nil
	if pan != nil {
		add("panic|"+c.Variant+"|"+norm(fmt.Sprint(pan)), fmt.Sprintf("a Go panic escaped the interrupted call: %v", pan))
		return
	}
	if !delivered {
		add("harness|not-delivered", "delivery position not reached (execution is not deterministic?)")
		return
	}
	if c.Variant == "cleared" {
		// the flag was cleared before the run loop could see it: the run must complete exactly as the baseline
		if errStr(err) != b.err || valStr(v) != b.val || !eq(e.Log, b.log) {
			add("cleared|run-differs", fmt.Sprintf("Interrupt immediately followed by ClearInterrupt changed the run: val=%s err=%s log=%v (baseline val=%s err=%s log=%v)", valStr(v), errStr(err), e.Log, b.val, b.err, b.log))
		}
		return
	}
	ie, ok := err.(*goja.InterruptedError)
	if !ok {
		// the interrupt may legitimately arrive after the last poll of the outermost call (then the call completes
		// normally and the flag stays set for the next call); that is only acceptable if nothing ran after delivery.
		if e.steps-stepsAt > 0 || len(e.Log) > logAt {
			add("missed|"+c.PosKind, fmt.Sprintf("call did not return InterruptedError although %d instructions / %d log entries ran after delivery: val=%s err=%s", e.steps-stepsAt, len(e.Log)-logAt, valStr(v), errStr(err)))
		}
		e.R.ClearInterrupt()
		return
	}
	fired = true
	dist = e.steps - stepsAt
	want := "v1"
	if c.Variant == "double" {
		want = "v2"
	}
	if got := fmt.Sprint(ie.Value()); got != want {
		add("value|"+c.Variant, fmt.Sprintf("InterruptedError carries %q, want %q", got, want))
	}
	if len(e.Log) != logAt {
		extra := e.Log[logAt:]
		add("ran-after|"+classifyTags(extra), fmt.Sprintf("script code ran after the interrupt was delivered: %v", extra))
	}
	if dist > promptBound {
		add("slow|"+c.PosKind, fmt.Sprintf("%d VM instructions executed after delivery (bound %d)", dist, promptBound))
	}
	// afterwards: idle, jobs dropped, reusable
	after := idleOf(e.R)
	if after != b.idle {
		add("idle|"+idleDiff(b.idle, after), fmt.Sprintf("runtime not idle after the interrupted call: %+v (baseline %+v)", after, b.idle))
	}
	if c.Variant == "late-second" {
		// a second interrupt that arrives while idle must hit the next call immediately
		it.do(func() { e.R.Interrupt("v3") })
		n0, l0 := e.steps, len(e.Log)
		_, err2 := e.Enter(c.Entry, c.Shape)
		ie2, ok := err2.(*goja.InterruptedError)
		if !ok || fmt.Sprint(ie2.Value()) != "v3" {
			add("idle-interrupt|not-immediate", fmt.Sprintf("interrupt delivered while idle: next call returned %s", errStr(err2)))
		} else if len(e.Log) != l0 || e.steps-n0 > promptBound {
			add("idle-interrupt|ran", fmt.Sprintf("interrupt delivered while idle: next call ran %d instructions, log %v", e.steps-n0, e.Log[l0:]))
		}
		if st := idleOf(e.R); st != b.idle {
			add("idle|after-idle-interrupt|"+idleDiff(b.idle, st), fmt.Sprintf("runtime not idle after an idle-interrupted call: %+v", st))
		}
	}
	l1 := len(e.Log)
	pc, pr := e.probe()
	if len(e.Log) != l1 {
		add("jobs-not-dropped", fmt.Sprintf("code of the interrupted run executed during the next call: %v", e.Log[l1:]))
	}
	if pc != b.probeC || pr != b.probeR {
		add("probe|"+probeDiff(b, pc, pr), fmt.Sprintf("probe after the interrupted call: call=%q run=%q (fresh: call=%q run=%q)", pc, pr, b.probeC, b.probeR))
	}
	// reusable: the same shape runs again exactly as the baseline
	e.reset()
	var v2 goja.Value
	var err2 error
	func() {
		defer func() { pan = recover() }()
		v2, err2 = e.Enter(c.Entry, c.Shape)
	}()
	if pan != nil {
		add("reuse|panic|"+norm(fmt.Sprint(pan)), fmt.Sprintf("re-running the shape after the interrupt panics: %v", pan))
	} else if errStr(err2) != b.err || valStr(v2) != b.val || !eq(e.Log, b.log) {
		add("reuse|differs", fmt.Sprintf("re-running the shape after the interrupt: val=%s err=%s log=%v (baseline val=%s err=%s log=%v)", valStr(v2), errStr(err2), e.Log, b.val, b.err, b.log))
	}
	return
}

func probeDiff(b *baseline, pc, pr string) string {
	var d []string
	if pc != b.probeC {
		d = append(d, "callable")
	}
	if pr != b.probeR {
		d = append(d, "run")
	}
	return strings.Join(d, ",")
}

func classifyTags(tags []string) string {
	kinds := map[string]bool{}
	for _, t := range tags {
		switch {
		case strings.HasPrefix(t, "catch"):
			kinds["catch"] = true
		case strings.HasPrefix(t, "finally"):
			kinds["finally"] = true
		case strings.HasPrefix(t, "ret"):
			kinds["iterator-return"] = true
		default:
			kinds["code"] = true
		}
	}
	var ks []string
	for _, k := range []string{"catch", "finally", "iterator-return", "code"} {
		if kinds[k] {
			ks = append(ks, k)
		}
	}
	return strings.Join(ks, "+")
}

func norm(s string) string {
	if len(s) > 120 {
		s = s[:120]
	}
	return s
}

func eq(a, b []string) bool {
	if len(a) != len(b) {
		return false
	}
	for i := range a {
		if a[i] != b[i] {
			return false
		}
	}
	return true
}

func idleDiff(a, b goja.VerifIdleState) string {
	var d []string
	f := func(n string, x, y interface{}) {
		if x != y {
			d = append(d, n)
		}
	}
	f("sp", a.SP, b.SP)
	f("sb", a.SB, b.SB)
	f("args", a.Args, b.Args)
	f("prg", a.PrgNil, b.PrgNil)
	f("callStack", a.CallStack, b.CallStack)
	f("tryStack", a.TryStack, b.TryStack)
	f("iterStack", a.IterStack, b.IterStack)
	f("refStack", a.RefStack, b.RefStack)
	f("stash", a.StashGlobal, b.StashGlobal)
	f("privEnv", a.PrivEnvNil, b.PrivEnvNil)
	f("jobs", a.Jobs, b.Jobs)
	f("interrupted", a.Interrupted, b.Interrupted)
	f("toStringStack", a.ToStringStack, b.ToStringStack)
	f("asyncRunner", a.AsyncRunnerNil, b.AsyncRunnerNil)
	f("newTarget", a.NewTargetNil, b.NewTargetNil)
	return strings.Join(d, ",")
}

// frameContext tells, for signature purposes, in what kind of code the delivery position lies.
func confirm(c Case, sig string) bool {
	for i := 0; i < 5; i++ {
		e := newEnv()
		it := newInterrupter()
		b := e.base(c.Shape, c.Entry)
		fails, _, _ := runCase(e, it, &b, c)
		it.stop()
		found := false
		for _, f := range fails {
			if f.sig == sig {
				found = true
			}
		}
		if !found {
			return false
		}
	}
	return true
}

func sweep(r *core.Run) bool {
	type job struct {
		shape, entry string
	}
	var jobs []job
	for _, name := range shapeNames() {
		for _, en := range shapes.Entries {
			jobs = append(jobs, job{name, en})
		}
	}
	maxDist := make([]int, len(jobs))
	ok := r.Parallel(int64(len(jobs)), 1, func(w int, lo, hi int64) {
		it := newInterrupter()
		defer it.stop()
		for ji := lo; ji < hi; ji++ {
			j := jobs[ji]
			e := newEnv()
			b := e.base(j.shape, j.entry)
			// determinism of the harness itself: a second baseline must be identical
			if b2 := e.base(j.shape, j.entry); !eq(b.log, b2.log) || b.steps != b2.steps || b.val != b2.val || b.err != b2.err || b.idle != b2.idle {
				r.Violation("harness|baseline-unstable|"+j.shape, fmt.Sprintf("shape %s/%s is not repeatable on one runtime: %v/%d vs %v/%d", j.shape, j.entry, b.log, b.steps, b2.log, b2.steps), Case{Part: "sweep", Shape: j.shape, Entry: j.entry})
				continue
			}
			r.Outcome("baseline|" + j.shape + "|" + b.val + "|" + b.err)
			for _, variant := range variants {
				for _, kind := range []string{"step", "native"} {
					n := b.steps
					if kind == "native" {
						n = b.nats
					}
					for pos := 1; pos <= n; pos++ {
						c := Case{Part: "sweep", Shape: j.shape, Entry: j.entry, Variant: variant, Pos: pos, PosKind: kind}
						fails, fired, dist := runCase(e, it, &b, c)
						r.States(1)
						r.Eval(1)
						if fired {
							r.NontrivialN(1)
							if dist > maxDist[ji] {
								maxDist[ji] = dist
							}
						}
						r.Outcome(fmt.Sprintf("%s|fired=%v|fails=%d", variant, fired, len(fails)))
						if pos == n/2 && variant == "single" && kind == "step" {
							r.Sample(map[string]interface{}{"case": c, "log_before_delivery": append([]string{}, e.Log...), "baseline_log": b.log, "instructions": b.steps})
						}
						if len(fails) > 0 {
							for _, f := range fails {
								sig := f.sig + "|" + j.shape + "/" + j.entry
								if strings.HasPrefix(f.sig, "harness|") || confirm(c, f.sig) {
									c2 := c
									c2.Detail = f.what
									r.Violation(sig, f.what, c2)
								} else {
									r.Violation("nondeterministic|"+sig, "failure did not reproduce 5/5 on fresh runtimes: "+f.what, c)
								}
							}
							// do not trust this runtime any more
							e = newEnv()
							b = e.base(j.shape, j.entry)
						}
					}
				}
			}
		}
	})
	md := 0
	for _, d := range maxDist {
		if d > md {
			md = d
		}
	}
	r.Set("max_instructions_after_delivery", md)
	r.Set("sweep", fmt.Sprintf("%d shapes x %d entry kinds x %d variants x every instruction boundary and native entry", len(shapeNames()), len(shapes.Entries), len(variants)))
	return ok
}

func run(r *core.Run) {
	r.Assume("'promptly' is counted in VM instructions through the verifStep hook (bound 128); time spent inside Go natives is outside the property (documented: Interrupt does not interrupt native functions)")
	r.Assume("schedule exploration is sequentially consistent at the hooked sync/atomic operations; weaker memory orderings are only addressed by the supplementary race-detector passes")
	// build the two helper binaries while the sweep runs
	builds := startBuilds()
	defer builds.cleanup()
	complete := sweep(r)
	complete = schedPart(r, builds) && complete
	complete = racePart(r, builds) && complete
	r.Exhaustive(complete)
}

func replay(r *core.Run, raw json.RawMessage) {
	var c Case
	if err := json.Unmarshal(raw, &c); err != nil {
		r.Violation("replay|bad", err.Error(), nil)
		return
	}
	r.Eval(1)
	switch c.Part {
	case "sweep":
		e := newEnv()
		it := newInterrupter()
		defer it.stop()
		b := e.base(c.Shape, c.Entry)
		fails, _, _ := runCase(e, it, &b, c)
		for _, f := range fails {
			r.Violation(f.sig+"|"+c.Shape+"/"+c.Entry, f.what, c)
		}
	default:
		replayOther(r, c)
	}
}
