package c09

import (
	"encoding/json"
	"fmt"
	"github.com/dop251/goja"
	"os"
	"testing"
)

// Development aid: C09_JS=<file> go test -tags verif -run TestProbe ./checks/c09/ runs a script on goja with the prelude loaded.
func TestProbe(t *testing.T) {
	fn := os.Getenv("C09_JS")
	if fn == "" {
		t.Skip("set C09_JS")
	}
	src, err := os.ReadFile(fn)
	if err != nil {
		t.Fatal(err)
	}
	e := newEngine()
	e.limit = 100000
	v, err := e.rt.RunString(string(src))
	fmt.Println("result:", v, "err:", err)
	for _, l := range e.log {
		fmt.Println("  log:", l)
	}
	fmt.Printf("idle: %+v\n", e.idleFault())
}

func TestProbeIdle(t *testing.T) {
	fn := os.Getenv("C09_JS")
	if fn == "" {
		t.Skip("set C09_JS")
	}
	src, _ := os.ReadFile(fn)
	e := newEngine()
	for i := 0; i < 4; i++ {
		_, err := e.rt.RunString(string(src))
		fmt.Printf("err=%v idle=%+v\n", err, goja.VerifIdle(e.rt))
	}
	self, _ := e.genStart()
	for i := 0; i < 4; i++ {
		res, _, ft := e.genStep(self, 7, 0, 1)
		fmt.Printf("res=%s ft=%v idle=%+v\n", res, ft, goja.VerifIdle(e.rt))
		self, _ = e.genStart()
	}
}

// C09_JS=<file defining G> C09_HIST='[[ctx,op,v],...]' : runs the history through runh from Go (one script run)
// and then call by call.
func TestProbeHist(t *testing.T) {
	fn := os.Getenv("C09_JS")
	if fn == "" || os.Getenv("C09_HIST") == "" {
		t.Skip("set C09_JS and C09_HIST")
	}
	src, _ := os.ReadFile(fn)
	var raw [][3]int
	if err := json.Unmarshal([]byte(os.Getenv("C09_HIST")), &raw); err != nil {
		t.Fatal(err)
	}
	hist := make([]Step, len(raw))
	for i, r := range raw {
		hist[i] = Step{Ctx: r[0], Op: r[1], V: r[2]}
	}
	e := newEngine()
	if err := e.define(string(src), false); err != nil {
		t.Fatal(err)
	}
	res, logs, ft := e.genRunAll(hist)
	fmt.Println("one run:", res, logs, ft, e.idleFault())
	e = newEngine()
	e.define(string(src), false)
	self, _ := e.genStart()
	for _, st := range hist {
		r, lg, ft := e.genStep(self, st.Ctx, st.Op, st.V)
		fmt.Println("step:", r, lg, ft)
	}
	fmt.Println(e.idleFault())
}
