package c09

import (
	"fmt"
	"github.com/dop251/goja"
	"os"
	"testing"
)

// Development aid: C09_JS=<file> go test -tags verif -run TestProbe ./checks/c09/ runs a script on goja with the prelude loaded.
func TestProbe(t *testing.T) {
	fn := os.Getenv("C09_JS")
	if fn == "" {
		t.Skip("set C09_JS")
	}
	src, err := os.ReadFile(fn)
	if err != nil {
		t.Fatal(err)
	}
	e := newEngine()
	e.limit = 100000
	v, err := e.rt.RunString(string(src))
	fmt.Println("result:", v, "err:", err)
	for _, l := range e.log {
		fmt.Println("  log:", l)
	}
	fmt.Printf("idle: %+v\n", e.idleFault())
}

func TestProbeIdle(t *testing.T) {
	fn := os.Getenv("C09_JS")
	if fn == "" {
		t.Skip("set C09_JS")
	}
	src, _ := os.ReadFile(fn)
	e := newEngine()
	for i := 0; i < 4; i++ {
		_, err := e.rt.RunString(string(src))
		fmt.Printf("err=%v idle=%+v\n", err, goja.VerifIdle(e.rt))
	}
	self, _ := e.genStart()
	for i := 0; i < 4; i++ {
		res, _, ft := e.genStep(self, 7, 0, 1)
		fmt.Printf("res=%s ft=%v idle=%+v\n", res, ft, goja.VerifIdle(e.rt))
		self, _ = e.genStart()
	}
}
