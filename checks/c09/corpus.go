package c09

import (
	"verif/core"
	gm "verif/ref/genmodel"
)

// Corpus is the fixed set of bodies with rich live state at their suspension points; the full product of
// {next, throw, return} x driver contexts is explored on them.
func Corpus() []Case {
	y := func(k int) *gm.N { return gm.Y(gm.NumN(k)) }
	var res []Case
	add := func(name string, cap bool, body ...*gm.N) {
		body = append(body, endLog()...)
		res = append(res, Case{"corpus: " + name, &gm.Program{Body: body, Cap: cap}})
	}
	both := func(name string, mk func() []*gm.N) {
		add(name, false, mk()...)
		add(name+" [captured]", true, mk()...)
	}
	both("partial call + template + array", func() []*gm.N {
		return gm.L(gm.St(gm.AsgN("a", gm.CallN("f", gm.NumN(1), y(1), gm.E(gm.Tmpl, y(2), v("b")), gm.E(gm.Arr, v("p"), y(3))))))
	})
	both("try/catch/finally around partial expression", func() []*gm.N {
		return gm.L(gm.TryN(
			gm.L(gm.St(gm.AsgN("a", gm.ES(gm.Bin, "+", gm.ES(gm.Bin, "+", v("b"), y(1)), y(2))))),
			gm.L(lgE(), gm.St(gm.AsgN("b", y(3)))),
			gm.L(gm.LgS("F"), gm.St(gm.ES(gm.OpAsg, "b", y(71)))), gm.HasCatch|gm.HasFinally))
	})
	both("nested try-finally in for-of over inner generator", func() []*gm.N {
		return gm.L(gm.TryN(
			gm.L(gm.ForOfN(gm.GI(1), gm.L(gm.TryN(gm.L(gm.St(gm.AsgN("a", gm.CallN("f", v("x"), y(1))))), nil, gm.L(gm.LgS("f1"), gm.St(y(2))), gm.HasFinally)))),
			nil, gm.L(gm.LgS("f2"), gm.St(gm.AsgN("b", y(3)))), gm.HasFinally))
	})
	both("yield* inner2 inside try-finally inside for", func() []*gm.N {
		return gm.L(gm.Loop(gm.For, 2, gm.L(gm.TryN(gm.L(gm.St(gm.AsgN("a", gm.ES(gm.Bin, "+", v("i"), gm.YS(gm.GI(2)))))), nil, gm.L(gm.St(gm.Lg(v("i")))), gm.HasFinally))))
	})
	both("yield* instrumented iterator in call argument", func() []*gm.N {
		return gm.L(gm.St(gm.AsgN("a", gm.CallN("f", gm.CallN("inc"), gm.YS(gm.It(gm.ItHasThrow|gm.ItHasReturn)), y(2)))))
	})
	both("destructuring with member targets over iterator inside with", func() []*gm.N {
		return gm.L(&gm.N{K: gm.With, A: gm.L(
			gm.St(gm.E(gm.WAsg, gm.E(gm.DsM, y(1), y(2), gm.It(gm.ItHasReturn)))),
			gm.St(gm.Lg(gm.E(gm.WGet))))})
	})
	both("arguments aliasing + closure mutation across yields", func() []*gm.N {
		return gm.L(
			gm.St(&gm.N{K: gm.ArgSet, I: 0, X: []*gm.N{y(1)}}),
			gm.St(gm.AsgN("a", gm.E(gm.Arr, v("p"), gm.CallN("inc"), y(2), gm.CallN("seth", y(3)), gm.CallN("inc"), &gm.N{K: gm.Args, I: 0}))))
	})
	both("re-entrancy from body and from delegate", func() []*gm.N {
		return gm.L(gm.TryN(gm.L(gm.St(gm.AsgN("a", gm.SelfN("next", y(1))))), gm.L(lgE()), nil, gm.HasCatch),
			gm.St(gm.AsgN("b", gm.YS(gm.It(gm.ItReent|gm.ItHasReturn|gm.ItHasThrow)))))
	})
	both("return/throw yield in nested finally", func() []*gm.N {
		return gm.L(gm.TryN(gm.L(gm.TryN(gm.L(gm.RetN(y(1))), nil, gm.L(gm.St(gm.AsgN("b", y(2)))), gm.HasFinally)),
			gm.L(lgE(), gm.ThrN(y(3))), gm.L(gm.LgS("F")), gm.HasCatch|gm.HasFinally))
	})
	both("labelled continue out of for-of over iterator with pending yield", func() []*gm.N {
		return gm.L(gm.Loop(gm.While, 2, gm.L(gm.ForOfN(gm.It(gm.ItHasReturn), gm.L(
			gm.IfN(y(1), gm.L(&gm.N{K: gm.Cont, S: "L1"}), gm.L(gm.St(gm.AsgN("a", gm.ES(gm.Bin, "+", v("x"), y(2)))))))))).WithLabel("L1"))
	})
	both("switch + block-scoped captured let + computed key", func() []*gm.N {
		return gm.L(&gm.N{K: gm.Sw, X: []*gm.N{y(1)},
			A: gm.L(&gm.N{K: gm.Blk, F: 1, A: gm.L(gm.St(gm.AsgN("a", gm.ObjN(y(2), gm.CallN("gz"), gm.KeyN("k"), y(3)))))}),
			B: gm.L(gm.St(gm.AsgN("b", y(2))), &gm.N{K: gm.Brk}),
			C: gm.L(gm.LgS("sd"))})
	})
	both("spread of generator + new + method call", func() []*gm.N {
		return gm.L(gm.St(gm.AsgN("a", gm.ES(gm.New, "Pt", gm.ES(gm.MCall, "m", v("o"), y(1), gm.E(gm.Arr, gm.E(gm.Spread, gm.GI(3)), y(2))), y(3)))))
	})
	both("for-of over an iterator whose return() result is not an object, inside a catch block", func() []*gm.N {
		return gm.L(gm.TryN(gm.L(gm.ThrN(gm.NumN(5))),
			gm.L(gm.ForOfN(gm.It(gm.ItHasReturn|gm.ItRetPrim), gm.L(gm.St(gm.AsgN("a", y(1)))))), nil, gm.HasCatch))
	})
	both("for-of over an iterator whose return() throws, inside a finally block", func() []*gm.N {
		return gm.L(gm.TryN(gm.L(gm.LgS("T")), nil,
			gm.L(gm.ForOfN(gm.It(gm.ItHasReturn|gm.ItRetThrow), gm.L(gm.St(gm.AsgN("a", y(1))))), gm.St(gm.AsgN("b", y(2)))), gm.HasFinally))
	})
	return res
}

// productCase explores, for one corpus body, every history of length <= maxLen over ops x contexts.
func (w *worker) productCase(c Case, maxLen int) {
	r := w.r
	if stopEarly(r) {
		return
	}
	traces, nodes, unsup := modelTraces(c.Prog, maxLen)
	if unsup != "" {
		r.Add("model_unsupported_bodies", 1)
		return
	}
	_ = nodes
	src := c.Prog.JS(false)
	nctx := len(ctxNames)
	for _, tr := range traces {
		// all context assignments for this op history
		total := 1
		for range tr {
			total *= nctx
		}
		for a := 0; a < total; a++ {
			if a&63 == 0 && r.Expired() {
				return
			}
			h := make([]Step, len(tr))
			copy(h, tr)
			x := a
			oneRun := true // unless a call is issued from Go: then one script run per call
			for i := range h {
				h[i].Ctx = x % nctx
				x /= nctx
				if h[i].Ctx == ctxGo {
					oneRun = false
				}
			}
			n, vc, class := w.runGenHistory(c, src, h, stackCaps[a%len(stackCaps)], oneRun)
			r.Transitions(int64(n))
			r.States(1)
			if vc != nil {
				w.report(class, vc)
				continue
			}
			r.Traces(1)
			if nontrivial(h) {
				r.NontrivialN(1)
			}
		}
	}
}

var _ = core.Root
