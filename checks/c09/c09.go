// Package c09 decides C09 ("generators and async functions resume faithfully under any driver call sequence")
// by bounded-exhaustive enumeration of generator bodies (grammar.go) x driver histories over
// {next(v), throw(e), return(v)} x driver contexts, executed in lock-step on goja and on the reference model
// ref/genmodel (the ECMA-262 generator state machine as a coroutine); the same bodies rendered as async
// functions are driven by settling the awaited promises in every order and compared with the model's
// promise-reaction semantics.
package c09

import (
	"encoding/json"
	"fmt"
	"os"
	"reflect"
	"regexp"
	"runtime/debug"
	"runtime/pprof"
	"strings"

	"verif/core"
	gm "verif/ref/genmodel"

	"github.com/dop251/goja"
)

func init() {
	core.Register(&core.Check{
		ID:    "C09",
		Level: "model_checking",
		Rule: "every generator body of the grammar in checks/c09/grammar.go within the reported bounds (statement-context paths x expression contexts x hole fillers x tails, each with register- and heap-allocated locals), by index; " +
			"x every history over {next(v), throw(e), return(v)} up to the reported length (pruned one call after completion) x every driver-context schedule (part 'sched') resp. every assignment of driver contexts to the calls (part 'product', fixed corpus); " +
			"the async rendering of every body x every order of resolving/rejecting its awaited promises, draining after each settlement or once at the end. " +
			"state = (body, history prefix) reached, transition = one driver call executed on goja and on the model and compared (result rendering + side-effect log), trace = a maximal history that agreed at every step. " +
			"A case is non-trivial when the body was suspended at least once with the history containing a throw() or return() or a non-top-level driver context.",
		Run:    run,
		Replay: replay,
	})
}

// ---- histories ----

// Step is one driver call.
type Step struct {
	Op  int      `json:"op"`           // 0 next, 1 throw, 2 return; async: 0 resolve, 1 reject
	K   int      `json:"k"`            // async: the deferred promise
	V   int      `json:"v"`            // the value sent
	Ctx int      `json:"ctx"`          // driver context (index into ctxNames)
	Res string   `json:"res"`          // model: rendering of the result
	Log []string `json:"log"`          // model: log lines of this step
	At  string   `json:"at,omitempty"` // model: where the generator was suspended when the call arrived
}

func (s Step) String() string {
	return fmt.Sprintf("%s(%d)@%s", gm.OpNames[s.Op], s.V, ctxName(s.Ctx))
}

var ctxNames = append(append([]string{}, gm.CtxNames...), "go")

func ctxName(i int) string { return ctxNames[i] }

var ctxGo = len(gm.CtxNames)

func sentValue(i, op int) int { return 10*(i+1) + op }

// modelTraces enumerates the history tree of p up to length maxLen on the model: every maximal history
// (length maxLen, or cut one call after the generator completed) with the expected result and log of each
// step. nodes counts the distinct prefixes.
func modelTraces(p *gm.Program, maxLen int) (traces [][]Step, nodes int, unsup string) {
	var rec func(prefix []int)
	rec = func(prefix []int) {
		for op := 0; op < 3 && unsup == ""; op++ {
			h := append(append([]int{}, prefix...), op)
			m := gm.NewGenMachine(p)
			tr := make([]Step, len(h))
			doneBefore := false
			for i, o := range h {
				doneBefore = m.Done()
				at := m.Where()
				res, lg, err := m.Step(o, float64(sentValue(i, o)))
				if err != nil {
					unsup = err.Msg
					break
				}
				tr[i] = Step{Op: o, V: sentValue(i, o), Res: res, Log: append([]string{}, lg...), At: at}
			}
			m.Close()
			if unsup != "" {
				return
			}
			nodes++
			if len(h) == maxLen || doneBefore {
				traces = append(traces, tr)
			} else {
				rec(h)
			}
		}
	}
	rec(nil)
	return
}

// ---- engine side ----

type engine struct {
	rt      *goja.Runtime
	log     []string
	start   goja.Callable
	step    goja.Callable
	str     goja.Callable
	astart  goja.Callable
	settle  goja.Callable
	batch   goja.Callable
	runh    goja.Callable
	steps   uint64
	limit   uint64
	tripped bool
	maxSeen uint64
	idle0   goja.VerifIdleState
	cur     string // source currently defined as G
	async   bool
}

var preludePrg = goja.MustCompile("prelude.js", gm.Prelude()+batchJS, false)

const batchJS = `
function batch(l) { for (var i = 0; i < l.length; i++) settle(l[i][0], l[i][1], l[i][2]); }
`

func newEngine() *engine {
	e := &engine{rt: goja.New(), limit: 8000}
	// no enumerated case nests deeper than ~20 frames: runaway recursion is reported as a stack overflow
	// long before it becomes expensive
	e.rt.SetMaxCallStackSize(100)
	e.rt.Set("log", func(s string) { e.log = append(e.log, s) })
	if _, err := e.rt.RunProgram(preludePrg); err != nil {
		panic(err)
	}
	get := func(n string) goja.Callable {
		f, ok := goja.AssertFunction(e.rt.Get(n))
		if !ok {
			panic("prelude: " + n)
		}
		return f
	}
	e.start, e.step, e.str, e.astart, e.settle, e.batch = get("start"), get("step"), get("str"), get("astart"), get("settle"), get("batch")
	e.runh = get("runh")
	goja.VerifSetStepHook(e.rt, func(r *goja.Runtime) {
		e.steps++
		if e.steps > e.limit && !e.tripped {
			e.tripped = true
			r.Interrupt("c09: instruction budget")
		}
	})
	e.idle0 = goja.VerifIdle(e.rt)
	return e
}

// define makes src the current G. The error is a compile / run error of the definition.
func (e *engine) define(src string, async bool) error {
	if e.cur == src {
		return nil
	}
	e.cur = ""
	_, err := e.rt.RunString(src)
	if err == nil {
		e.cur = src
		e.async = async
	}
	return err
}

// fault describes an engine-level failure (Go panic, interrupt for non-termination, bad idle state).
type fault struct{ kind, detail string }

// guard runs f, converting Go panics into faults.
func (e *engine) guard(f func()) (ft *fault) {
	e.steps = 0
	defer func() {
		if x := recover(); x != nil {
			ft = &fault{"go-panic", panicClass(fmt.Sprint(x))}
		}
	}()
	f()
	if e.steps > e.maxSeen {
		e.maxSeen = e.steps
	}
	return nil
}

var reAddr = regexp.MustCompile(`0x[0-9a-f]+|\[\d+\]|\d+`)

func panicClass(s string) string {
	if len(s) > 160 {
		s = s[:160]
	}
	return reAddr.ReplaceAllString(s, "#")
}

func (e *engine) takeLog() []string {
	l := e.log
	e.log = nil
	return l
}

func (e *engine) errString(err error) string {
	switch x := err.(type) {
	case *goja.Exception:
		s, err2 := e.str(goja.Undefined(), x.Value())
		if err2 != nil {
			return "!?"
		}
		return "!" + s.String()
	case *goja.InterruptedError:
		return "!!interrupted"
	case *goja.StackOverflowError:
		return "!!stack-overflow"
	}
	return "!!" + err.Error()
}

// genStart is start(): self = G(7, 8).
func (e *engine) genStart() (self *goja.Object, ft *fault) {
	ft = e.guard(func() {
		v, err := e.start(goja.Undefined())
		if err != nil {
			ft = &fault{"start-failed", e.errString(err)}
			return
		}
		self = v.ToObject(e.rt)
	})
	return
}

var opMethod = []string{"next", "throw", "return"}

// genStep performs one driver call in context ctx and renders the outcome.
func (e *engine) genStep(self *goja.Object, ctx, op, v int) (res string, log []string, ft *fault) {
	ft = e.guard(func() {
		if ctx == ctxGo {
			m, ok := goja.AssertFunction(self.Get(opMethod[op]))
			if !ok {
				res = "!!no method"
				return
			}
			r, err := m(self, e.rt.ToValue(v))
			if err != nil {
				res = e.errString(err)
				return
			}
			s, err := e.str(goja.Undefined(), r)
			if err != nil {
				res = e.errString(err)
				return
			}
			res = s.String()
			return
		}
		r, err := e.step(goja.Undefined(), e.rt.ToValue(ctx), e.rt.ToValue(op), e.rt.ToValue(v))
		if err != nil {
			res = e.errString(err)
			return
		}
		res = r.String()
	})
	if ft == nil && e.tripped {
		ft = &fault{"non-termination", "instruction budget exceeded"}
	}
	return res, e.takeLog(), ft
}

// genRunAll performs start() and the whole history inside one script run (the VM stacks stay warm between
// the calls); the per-call results and logs are recovered from the "#" markers.
func (e *engine) genRunAll(hist []Step) (res []string, logs [][]string, ft *fault) {
	list := make([]interface{}, len(hist))
	for i, st := range hist {
		list[i] = []interface{}{st.Ctx, st.Op, st.V}
	}
	e.limit *= uint64(len(hist) + 1)
	ft = e.guard(func() {
		if _, err := e.runh(goja.Undefined(), e.rt.ToValue(list)); err != nil {
			ft = &fault{"host-call-failed", e.errString(err)}
		}
	})
	e.limit /= uint64(len(hist) + 1)
	if ft == nil && e.tripped {
		ft = &fault{"non-termination", "instruction budget exceeded"}
	}
	var cur []string
	for _, l := range e.takeLog() {
		if strings.HasPrefix(l, "#") {
			res = append(res, l[1:])
			logs = append(logs, cur)
			cur = nil
			continue
		}
		cur = append(cur, l)
	}
	if len(res) < len(hist) {
		// the run was cut short: the remaining log belongs to the call that did not return
		res = append(res, "")
		logs = append(logs, cur)
	}
	return
}

// idleFault compares the VM's idle state with the one right after loading the prelude.
func (e *engine) idleFault() *fault {
	s := goja.VerifIdle(e.rt)
	// the program counter / program / argument count of an idle VM carry no meaning
	s.PC, s.PrgNil, s.Args = e.idle0.PC, e.idle0.PrgNil, e.idle0.Args
	if s != e.idle0 {
		return &fault{"vm-not-idle", idleDiff(e.idle0, s)}
	}
	return nil
}

func idleDiff(a, b goja.VerifIdleState) string {
	va, vb := reflect.ValueOf(a), reflect.ValueOf(b)
	var parts []string
	for i := 0; i < va.NumField(); i++ {
		if va.Field(i).Interface() != vb.Field(i).Interface() {
			parts = append(parts, va.Type().Field(i).Name)
		}
	}
	return strings.Join(parts, ",")
}

// ---- worker ----

type worker struct {
	r       *core.Run
	eng     *engine
	sigs    map[string]string // (part, body, class) -> signature of the minimised case
	maxSeen uint64
}

func (w *worker) engine() *engine {
	if w.eng == nil {
		w.eng = newEngine()
	}
	return w.eng
}

func (w *worker) discard() {
	if w.eng != nil && w.eng.maxSeen > w.maxSeen {
		w.maxSeen = w.eng.maxSeen
	}
	w.eng = nil
}

// Violation case as stored in replay files.
type VCase struct {
	Part    string      `json:"part"` // gen | async
	Name    string      `json:"name"`
	Prog    *gm.Program `json:"prog"`
	Src     string      `json:"src"`
	History []Step      `json:"history"` // with the model's expectations
	Batch   bool        `json:"batch,omitempty"`
	Caps    int         `json:"stack_caps"`               // capacity given to the VM's auxiliary stacks before the history starts
	OneRun  bool        `json:"one_script_run,omitempty"` // start() and all calls inside one script run
	At      int         `json:"at"`                       // index of the diverging step (-1: start)
	GotRes  string      `json:"got_res"`
	GotLog  []string    `json:"got_log"`
	Fault   string      `json:"fault,omitempty"`
	// the minimised form the signature was built from
	MinSrc     string `json:"min_body,omitempty"`
	MinHistory []Step `json:"min_history,omitempty"`
}

func eqStrings(a, b []string) bool {
	if len(a) != len(b) {
		return false
	}
	for i := range a {
		if a[i] != b[i] {
			return false
		}
	}
	return true
}

// runGenHistory executes one maximal history on the engine in lock-step with the model's expectations.
// It returns the number of transitions executed and a non-nil violation case on the first divergence.
func (w *worker) runGenHistory(c Case, src string, hist []Step, caps int, oneRun bool) (n int, vc *VCase, class string) {
	e := w.engine()
	mk := func(at int, res string, lg []string, ft *fault) *VCase {
		v := &VCase{Part: "gen", Name: c.Name, Prog: c.Prog, Src: src, History: hist, At: at, GotRes: res, GotLog: lg, Caps: caps, OneRun: oneRun}
		if ft != nil {
			v.Fault = ft.kind + ": " + ft.detail
		}
		return v
	}
	if err := e.define(src, false); err != nil {
		w.discard()
		return 0, mk(-1, err.Error(), nil, nil), "define failed: " + errClass(err)
	}
	setStackCaps(e.rt, caps)
	if oneRun {
		res, logs, ft := e.genRunAll(hist)
		for i := range res {
			n++
			st := hist[i]
			if i == len(res)-1 && ft != nil {
				w.discard()
				return n, mk(i, res[i], logs[i], ft), "fault:" + ft.kind + ":" + ft.detail
			}
			if res[i] != st.Res || !eqStrings(logs[i], st.Log) {
				w.discard()
				return n, mk(i, res[i], logs[i], nil), diffClass(st.Res, res[i], st.Log, logs[i])
			}
		}
		if ft == nil {
			ft = e.idleFault()
		}
		if ft != nil {
			w.discard()
			return n, mk(len(hist)-1, "", nil, ft), "fault:" + ft.kind + ":" + ft.detail
		}
		return n, nil, ""
	}
	self, ft := e.genStart()
	if ft != nil {
		w.discard()
		return 0, mk(-1, "", nil, ft), "start failed: " + ft.kind + ": " + ft.detail
	}
	for i, st := range hist {
		res, lg, ft := e.genStep(self, st.Ctx, st.Op, st.V)
		n++
		if ft != nil {
			w.discard()
			return n, mk(i, res, lg, ft), "fault:" + ft.kind + ":" + ft.detail
		}
		if res != st.Res || !eqStrings(lg, st.Log) {
			// the engine state may be corrupt: do not reuse it
			w.discard()
			return n, mk(i, res, lg, nil), diffClass(st.Res, res, st.Log, lg)
		}
	}
	if ft := e.idleFault(); ft != nil {
		w.discard()
		return n, mk(len(hist)-1, "", nil, ft), "fault:" + ft.kind + ":" + ft.detail
	}
	return n, nil, ""
}

func errClass(err error) string {
	s := err.Error()
	if i := strings.Index(s, ":"); i > 0 {
		s = s[:i]
	}
	return panicClass(s)
}

// resKind abstracts a result rendering: value/done shape or thrown class.
func resKind(s string) string {
	switch {
	case s == "":
		return "nothing (the call did not return)"
	case strings.HasPrefix(s, "!!"):
		return s
	case strings.HasPrefix(s, "!"):
		t := s[1:]
		if t == "TypeError" || t == "ReferenceError" || t == "RangeError" || t == "SyntaxError" || t == "Error" {
			return "throws " + t
		}
		return "throws value"
	case strings.HasSuffix(s, "done:true}"):
		return "done"
	case strings.HasSuffix(s, "done:false}"):
		return "yield"
	}
	return "other-object"
}

// diffClass classifies how the engine's step outcome deviates from the model's.
func diffClass(expRes, gotRes string, expLog, gotLog []string) string {
	ek, gk := resKind(expRes), resKind(gotRes)
	if ek != gk {
		return "result: expected " + ek + ", got " + gk
	}
	if !eqStrings(expLog, gotLog) {
		i := 0
		for i < len(expLog) && i < len(gotLog) && expLog[i] == gotLog[i] {
			i++
		}
		el, gl := "<none>", "<none>"
		if i < len(expLog) {
			el = logKind(expLog[i])
		}
		if i < len(gotLog) {
			gl = logKind(gotLog[i])
		}
		if el == gl {
			return "log: different " + el
		}
		return "log: expected " + el + ", got " + gl
	}
	return "result: different value of " + ek
}

var reLogHead = regexp.MustCompile(`^[A-Za-z.!]+`)

func logKind(s string) string {
	h := reLogHead.FindString(s)
	if h == "" {
		return "?"
	}
	return h
}

func bodyClass(name string) string { return strings.TrimSuffix(name, " [captured]") }

// ---- run ----

// stackCaps are the capacities the VM's auxiliary stacks are given before a history starts (see wb.go):
// 0 = a fresh runtime, 64 = warm (no re-allocation during the history); which schedule gets which capacity
// rotates with the body index.
var stackCaps = []int{0, 3, 5, 6, 7, 64}

type schedule struct {
	name   string
	ctx    []int // by step index (cyclic)
	oneRun bool  // the whole history inside one script run (warm VM stacks) instead of one run per call
}

func schedules(thorough bool) []schedule {
	s := []schedule{
		{"top / from Go", []int{0, ctxGo}, false},
		{"ascending depth", []int{0, 1, 2, 3}, true},
		{"descending depth", []int{3, 2, 1, 0}, false},
		{"iter/ref/try stacks", []int{4, 5, 8, 6, 7}, true},
		{"nested generators", []int{7, 6, 0, 7, 6}, true},
	}
	if thorough {
		s = append(s, schedule{"alternating deep/top", []int{3, 0}, true}, schedule{"alternating top/gen-finally", []int{0, 6}, false},
			schedule{"with/for-of alternating", []int{5, 4}, true}, schedule{"go/deep", []int{ctxGo, 3, ctxGo, 7}, false})
	}
	return s
}

func nontrivial(hist []Step) bool {
	susp := false
	other := false
	for _, s := range hist {
		if resKind(s.Res) == "yield" {
			susp = true
		}
		if s.Op != 0 || s.Ctx != 0 {
			other = true
		}
	}
	return susp && other
}

func run(r *core.Run) {
	debug.SetGCPercent(400)
	if pf := os.Getenv("C09_PROF"); pf != "" {
		if f, err := os.Create(pf); err == nil {
			pprof.StartCPUProfile(f)
			defer pprof.StopCPUProfile()
		}
	}
	only := os.Getenv("C09_ONLY")
	workers := make([]*worker, r.Workers)
	for i := range workers {
		workers[i] = &worker{r: r}
	}
	r.Assume("the reference model ref/genmodel implements ECMA-262 for the mini-language (cross-checked against V8 on all quick-tier bodies during development, see NOTES.md)")
	r.Assume("error objects are compared by class (TypeError, ReferenceError, …), not by message")
	r.Set("contexts", ctxNames)

	filter := func(gens []CaseGen, skip map[string]bool) []CaseGen {
		var f []CaseGen
		for _, g := range gens {
			if (only == "" || strings.Contains(g.Name, only)) && !skip[g.Name] {
				f = append(f, g)
			}
		}
		return f
	}
	complete := true
	var stages []string
	// the attribution cache of a worker is keyed by body: clearing it between stages keeps the result
	// independent of which worker happens to process a body
	reset := func() {
		for _, w := range workers {
			w.sigs = nil
		}
	}
	stage := func(name string, ok bool) bool {
		reset()
		if ok {
			stages = append(stages, name)
			r.Set("stages_completed", stages)
		} else {
			complete = false
		}
		return ok
	}
	genStage := func(name string, gens []CaseGen, histLen int, scheds []schedule) bool {
		return stage(fmt.Sprintf("%s: %d bodies x all histories <= %d x %d driver schedules", name, len(gens), histLen, len(scheds)),
			r.Parallel(int64(len(gens)), 4, func(wi int, lo, hi int64) {
				for i := lo; i < hi; i++ {
					workers[wi].genCase(gens[i].Case(), i, histLen, scheds)
				}
			}))
	}
	asyncStage := func(name string, gens []CaseGen) bool {
		return stage(fmt.Sprintf("%s: %d bodies as async functions x all settlement orders of their <= 3 awaited promises x {drain after each, one drain}", name, len(gens)),
			r.Parallel(int64(len(gens)), 8, func(wi int, lo, hi int64) {
				for i := lo; i < hi; i++ {
					workers[wi].asyncCase(gens[i].Case(), i)
				}
			}))
	}
	productStage := func(corpus []Case, n int) bool {
		return stage(fmt.Sprintf("product: %d corpus bodies x (3 ops x %d driver contexts)^<=%d", len(corpus), len(ctxNames), n),
			r.Parallel(int64(len(corpus)), 1, func(wi int, lo, hi int64) {
				for i := lo; i < hi; i++ {
					workers[wi].productCase(corpus[i], n)
				}
			}))
	}

	// stage 0: regression corpus (the minimal inputs of the listed findings)
	runRegress(r, &worker{r: r})

	qb := quickBounds()
	quick := filter(Enumerate(qb), nil)
	r.Set("bodies_quick_bounds", len(quick))
	r.Set("quick_bounds", boundsText(qb))
	scheds := schedules(false)
	corpus := Corpus()
	histLen := 4
	if s := os.Getenv("C09_HISTLEN"); s != "" {
		fmt.Sscan(s, &histLen)
	}
	ok := genStage("gen/quick bounds", quick, histLen, scheds) &&
		asyncStage("async/quick bounds", quick) &&
		productStage(corpus, 3)
	if r.Thorough() && ok {
		tb := thoroughBounds()
		seen := map[string]bool{}
		for _, g := range quick {
			seen[g.Name] = true
		}
		deep := filter(Enumerate(tb), seen)
		r.Set("bodies_thorough_bounds", len(deep)+len(quick))
		r.Set("thorough_bounds", boundsText(tb))
		_ = genStage("gen/quick bounds", quick, 5, scheds) &&
			asyncStage("async/thorough bounds", deep) &&
			genStage("gen/thorough bounds", deep, 4, schedules(true)[3:7]) &&
			productStage(corpus, 4) &&
			genStage("gen/quick bounds", quick, 6, scheds[:2])
	}
	var maxInstr uint64
	for _, w := range workers {
		w.discard()
		if w.maxSeen > maxInstr {
			maxInstr = w.maxSeen
		}
	}
	r.Set("max_vm_instructions_per_driver_call", maxInstr)
	r.Exhaustive(complete)
}

// stopEarly (development aid, C09_STOP=1): stop exploring once a violation has been recorded.
func stopEarly(r *core.Run) bool { return os.Getenv("C09_STOP") != "" && r.ViolationCount() > 0 }

// genCase: model traces once, then every schedule in lock-step.
func (w *worker) genCase(c Case, idx int64, histLen int, scheds []schedule) {
	r := w.r
	if stopEarly(r) {
		return
	}
	traces, nodes, unsup := modelTraces(c.Prog, histLen)
	if unsup != "" {
		r.Add("model_unsupported_bodies", 1)
		return
	}
	r.States(int64(nodes) + 1)
	r.Eval(1)
	src := c.Prog.JS(false)
	for si, sc := range scheds {
		if r.Expired() {
			return
		}
		for ti, tr := range traces {
			h := make([]Step, len(tr))
			copy(h, tr)
			for i := range h {
				// the cyclic context list starts at an offset that rotates with the body index
				h[i].Ctx = sc.ctx[(i+int(idx))%len(sc.ctx)]
			}
			caps := stackCaps[(si+int(idx))%len(stackCaps)]
			n, vc, class := w.runGenHistory(c, src, h, caps, sc.oneRun)
			r.Transitions(int64(n))
			if vc != nil {
				w.report(class, vc)
				continue
			}
			r.Traces(1)
			if nontrivial(h) {
				r.NontrivialN(1)
			}
			r.OutcomeH(core.HashString(h[len(h)-1].Res))
			if si == 0 && ti == len(traces)-1 && r.WantSample(idx) {
				r.Sample(map[string]interface{}{"body": c.Name, "src": src, "history": histString(h), "results": histResults(h)})
			}
		}
	}
}

func histString(h []Step) string {
	parts := make([]string, len(h))
	for i, s := range h {
		parts[i] = s.String()
	}
	return strings.Join(parts, " ")
}

func histResults(h []Step) []string {
	parts := make([]string, len(h))
	for i, s := range h {
		parts[i] = s.Res
	}
	return parts
}

// expectGen fills in the model's expectations for one history; ok=false if the model does not support it.
func expectGen(p *gm.Program, hist []Step) (h []Step, ok bool) {
	m := gm.NewGenMachine(p)
	defer m.Close()
	h = make([]Step, len(hist))
	for i, st := range hist {
		at := m.Where()
		res, lg, err := m.Step(st.Op, float64(st.V))
		if err != nil {
			return nil, false
		}
		h[i] = Step{Op: st.Op, V: st.V, Ctx: st.Ctx, Res: res, Log: append([]string{}, lg...), At: at}
	}
	return h, true
}

// failsAs runs (p, hist) on a fresh engine against a fresh model and returns the failure class ("" = passes).
func failsAs(part string, name string, p *gm.Program, hist []Step, batch, oneRun bool, caps int) (class string, out *VCase) {
	w := &worker{}
	c := Case{Name: name, Prog: p}
	switch part {
	case "gen":
		h, ok := expectGen(p, hist)
		if !ok {
			return "", nil
		}
		_, out, class = w.runGenHistory(c, p.JS(false), h, caps, oneRun)
	case "async":
		exp, unsup := modelAsync(p, hist, batch)
		if unsup != "" {
			return "", nil
		}
		_, out, class = w.runAsyncHistory(c, p.JS(true), exp, batch, caps)
	}
	if out == nil {
		return "", nil
	}
	return class, out
}

// Root-cause attribution. A failing case is re-run with one property of the case knocked out at a time; the
// first knock-out that makes it pass names the trigger:
//
//	reentrant-delegate   the instrumented iterators no longer call self.next() from inside their next()
//	register-locals      the locals a, b, p, q are captured by a closure (heap-allocated instead of registers)
//	stack-capacity       the VM's auxiliary stacks are pre-grown (no re-allocation during the history)
//
// otherwise, if an earlier return() of the history left the generator suspended (inside a finally block),
// the trigger is "after-return-suspended-in-finally"; if a throw() arrived while the generator was suspended
// in the finally block of a try statement that has a catch clause, it is "throw-into-finally-of-try-with-catch";
// if a return() closed an iterator whose return() threw, it is "return-closes-throwing-iterator";
// otherwise the case is minimised (shrink.go) and the minimal body and history are the trigger. signature = part | trigger | diverging call | class.
func signatureOf(vc *VCase, class string) (sig string, minProg *gm.Program, minHist []Step) {
	hist := vc.History
	if vc.Part == "gen" && vc.At >= 0 && vc.At+1 < len(hist) {
		hist = hist[:vc.At+1]
	}
	if vc.At < 0 {
		return vc.Part + "|" + class, vc.Prog, hist
	}
	passes := func(p *gm.Program, caps int) bool {
		c, _ := failsAs(vc.Part, vc.Name, p, hist, vc.Batch, vc.OneRun, caps)
		return c == ""
	}
	what := ""
	if vc.Part == "gen" {
		what = gm.OpNames[hist[vc.At].Op]
	} else {
		what = asyncWhat(hist, vc.At, vc.Batch)
	}
	trigger := ""
	if reent := clearReent(vc.Prog); reent != nil && passes(reent, vc.Caps) {
		trigger = "reentrant-delegate"
	}
	if trigger == "" && !vc.Prog.Cap {
		q := cloneProg(vc.Prog)
		q.Cap = true
		if passes(q, vc.Caps) {
			trigger = "register-locals"
		}
	}
	if trigger == "" && vc.Caps != 64 && passes(vc.Prog, 64) {
		trigger = "stack-capacity"
	}
	if trigger == "" && vc.Part == "gen" && returnSuspendedBefore(hist, vc.At) {
		trigger = "after-return-suspended-in-finally"
	}
	if trigger == "" && vc.Part == "gen" && returnClosedThrowingIterator(hist, vc.At) {
		trigger = "return-closes-throwing-iterator"
	}
	if trigger == "" && vc.Part == "gen" && thrownIntoFinallyWithCatch(hist, vc.At) {
		trigger = "throw-into-finally-of-try-with-catch"
	}
	if trigger != "" {
		return vc.Part + "|" + trigger + "|" + what + "|" + coarseClass(class), nil, nil
	}
	caps := vc.Caps
	if c, _ := failsAs(vc.Part, vc.Name, vc.Prog, hist, vc.Batch, vc.OneRun, 0); c == class {
		caps = 0 // also fails on a fresh runtime: the canonical form
	}
	fails := func(p *gm.Program, h []Step) bool {
		c, _ := failsAs(vc.Part, vc.Name, p, h, vc.Batch, vc.OneRun, caps)
		return c == class
	}
	minProg, minHist = shrink(vc.Prog, hist, vc.Part == "async", fails, 600)
	if vc.Part == "gen" {
		ht := histText(minHist)
		if vc.OneRun {
			ht += " [one script run]"
		}
		ht += fmt.Sprintf(" [stack caps %d]", caps)
		sig = "gen|" + bodyText(minProg, false) + "|" + ht + "|" + class
	} else {
		sig = "async|" + bodyText(minProg, true) + "|" + asyncHistText(minHist, vc.Batch) + fmt.Sprintf(" [stack caps %d]", caps) + "|" + class
	}
	return
}

// coarseClass: the symptoms of one defect vary with the enumerated case (a stray write lands in a different
// slot, ...), so the signatures attributed to a trigger carry only the kind of symptom.
func coarseClass(class string) string {
	switch {
	case strings.HasPrefix(class, "fault:go-panic"):
		return "go-panic"
	case strings.HasPrefix(class, "fault:vm-not-idle"):
		return "vm-not-idle"
	case strings.HasPrefix(class, "fault:"):
		return strings.SplitN(class[len("fault:"):], ":", 2)[0]
	case strings.Contains(class, "!!stack-overflow"):
		return "stack-overflow"
	case strings.Contains(class, "the call did not return"):
		return "call did not return"
	}
	return "wrong result or log"
}

// clearReent returns a copy of p whose instrumented iterators lack the re-entrancy flag (nil if none has it).
func clearReent(p *gm.Program) *gm.Program {
	q := cloneProg(p)
	found := false
	gm.Walk(q.Body, func(n *gm.N) {
		if n.K == gm.Iter && n.I&gm.ItReent != 0 {
			n.I &^= gm.ItReent
			found = true
		}
	})
	if !found {
		return nil
	}
	return q
}

// returnSuspendedBefore: an earlier return() of the history did not complete the generator.
func returnSuspendedBefore(hist []Step, at int) bool {
	for i := 0; i < at && i < len(hist); i++ {
		if hist[i].Op == gm.OpReturn && resKind(hist[i].Res) == "yield" {
			return true
		}
	}
	return false
}

// returnClosedThrowingIterator: a return() of the history closed an instrumented iterator (for-of, destructuring)
// whose return() threw or returned a non-object, so that - per the model - the return() call itself throws.
func returnClosedThrowingIterator(hist []Step, at int) bool {
	for i := 0; i <= at && i < len(hist); i++ {
		if hist[i].Op != gm.OpReturn || !strings.HasPrefix(hist[i].Res, "!") {
			continue
		}
		for _, l := range hist[i].Log {
			if strings.HasPrefix(l, "it.return(") {
				return true
			}
		}
	}
	return false
}

// thrownIntoFinallyWithCatch: a throw() of the history arrived while the generator was suspended inside the
// finally block of a try statement that also has a catch clause.
func thrownIntoFinallyWithCatch(hist []Step, at int) bool {
	for i := 0; i <= at && i < len(hist); i++ {
		if hist[i].Op == gm.OpThrow && strings.Contains(hist[i].At, "try.finally(c)") {
			return true
		}
	}
	return false
}

func asyncWhat(h []Step, at int, batch bool) string {
	if at == 0 {
		return "start"
	}
	if batch {
		return "batch"
	}
	if h[at].Op == 1 {
		return "reject"
	}
	return "resolve"
}

// report confirms the failing case 5 times on fresh engines, minimises it and records it. The minimisation is
// cached per (body, class): the other histories of the same body failing the same way share the signature.
func (w *worker) report(class string, vc *VCase) {
	key := vc.Part + "|" + vc.Name + "|" + class
	if vc.At >= 0 && vc.Part == "gen" {
		key += fmt.Sprintf("|%d|%v|%v|%v", vc.History[vc.At].Op, returnSuspendedBefore(vc.History, vc.At), thrownIntoFinallyWithCatch(vc.History, vc.At), returnClosedThrowingIterator(vc.History, vc.At))
	}
	if sig, ok := w.sigs[key]; ok {
		w.r.Violation(sig, describe(vc), vc)
		return
	}
	for i := 0; i < 5; i++ {
		c2, _ := failsAs(vc.Part, vc.Name, vc.Prog, vc.History, vc.Batch, vc.OneRun, vc.Caps)
		if c2 != class {
			if c2 == "" {
				c2 = "passes"
			}
			w.r.Violation("flaky|"+key, "the case does not fail identically on a fresh engine (got: "+c2+")", vc)
			return
		}
	}
	sig, mp, mh := signatureOf(vc, class)
	if w.sigs == nil {
		w.sigs = map[string]string{}
	}
	w.sigs[key] = sig
	if mp != nil {
		vc.MinSrc = bodyText(mp, vc.Part == "async")
		vc.MinHistory = mh
	}
	w.r.Violation(sig, describe(vc), vc)
}

func describe(vc *VCase) string {
	var sb strings.Builder
	fmt.Fprintf(&sb, "%s body %q: ", vc.Part, vc.Name)
	if vc.At < 0 {
		fmt.Fprintf(&sb, "definition/start failed: %s %s", vc.GotRes, vc.Fault)
		return sb.String()
	}
	if vc.Part == "gen" {
		fmt.Fprintf(&sb, "history %s diverges at call %d: ", histString(vc.History), vc.At+1)
	} else {
		fmt.Fprintf(&sb, "settlement order %s (batch=%v) diverges at step %d: ", asyncHistString(vc.History), vc.Batch, vc.At+1)
	}
	st := vc.History[vc.At]
	if vc.Fault != "" {
		fmt.Fprintf(&sb, "%s; ", vc.Fault)
	}
	fmt.Fprintf(&sb, "expected %s log %v, got %s log %v", st.Res, st.Log, vc.GotRes, vc.GotLog)
	s := sb.String()
	if len(s) > 700 {
		s = s[:700] + "…"
	}
	return s
}

func replay(r *core.Run, raw json.RawMessage) {
	var vc VCase
	if err := json.Unmarshal(raw, &vc); err != nil {
		r.Violation("replay|bad-case", err.Error(), nil)
		return
	}
	class, out := failsAs(vc.Part, vc.Name, vc.Prog, vc.History, vc.Batch, vc.OneRun, vc.Caps)
	if out != nil {
		sig, mp, mh := signatureOf(out, class)
		if mp != nil {
			out.MinSrc = bodyText(mp, vc.Part == "async")
			out.MinHistory = mh
		}
		r.Violation(sig, describe(out), out)
	}
}
