// Package c09 holds the check for property C09.
package c09
