package c09

import (
	"encoding/json"
	"fmt"
	"os"
	"os/exec"
	"strings"
	"testing"

	gm "verif/ref/genmodel"
)

// Development aid (not part of the check): cross-validates the reference model against V8.
// Run with  C09_NODE=1 go test -tags verif -run TestModelAgainstNode ./checks/c09/  (needs `node` in PATH).
// C09_NODE_TIER=thorough uses the thorough bounds, C09_NODE_LEN sets the history length (default 3).

type nodeStep struct {
	R string   `json:"r"`
	L []string `json:"l"`
}

func runNode(t *testing.T, js string) []byte {
	f, err := os.CreateTemp("", "c09-node-*.js")
	if err != nil {
		t.Fatal(err)
	}
	defer os.Remove(f.Name())
	f.WriteString(js)
	f.Close()
	out, err := exec.Command("node", "--stack-size=4000", f.Name()).Output()
	if err != nil {
		if ee, ok := err.(*exec.ExitError); ok {
			t.Fatalf("node failed: %v\n%s", err, ee.Stderr)
		}
		t.Fatal(err)
	}
	return out
}

func nodeCases() ([]Case, int) {
	b := quickBounds()
	if os.Getenv("C09_NODE_TIER") == "thorough" {
		b = thoroughBounds()
	}
	n := 3
	if s := os.Getenv("C09_NODE_LEN"); s != "" {
		fmt.Sscan(s, &n)
	}
	cases := Corpus()
	for _, g := range Enumerate(b) {
		cases = append(cases, g.Case())
	}
	if only := os.Getenv("C09_ONLY"); only != "" {
		var f []Case
		for _, c := range cases {
			if strings.Contains(c.Name, only) {
				f = append(f, c)
			}
		}
		cases = f
	}
	return cases, n
}

func TestModelAgainstNode(t *testing.T) {
	if os.Getenv("C09_NODE") == "" {
		t.Skip("set C09_NODE=1")
	}
	cases, maxLen := nodeCases()
	const batch = 400
	bad := 0
	unsupN := 0
	for lo := 0; lo < len(cases) && bad < 20; lo += batch {
		hi := lo + batch
		if hi > len(cases) {
			hi = len(cases)
		}
		var sb strings.Builder
		sb.WriteString("var __log = []; function log(s) { __log.push(s); }\n")
		sb.WriteString(gm.Prelude())
		sb.WriteString("var out = [];\nfunction runH(hs) { var res = []; for (var i = 0; i < hs.length; i++) { start(); var tr = []; for (var j = 0; j < hs[i].length; j++) { __log = []; var r = step(0, hs[i][j][0], hs[i][j][1]); tr.push({r: r, l: __log}); } res.push(tr); } return res; }\n")
		var all [][][]Step
		var idx []int
		for i := lo; i < hi; i++ {
			traces, _, unsup := modelTraces(cases[i].Prog, maxLen)
			if unsup != "" {
				unsupN++
				continue
			}
			hs := make([][][2]int, len(traces))
			for ti, tr := range traces {
				for _, st := range tr {
					hs[ti] = append(hs[ti], [2]int{st.Op, st.V})
				}
			}
			hj, _ := json.Marshal(hs)
			fmt.Fprintf(&sb, "try { %s\nout.push(runH(%s)); } catch (e) { out.push(\"ERR \" + e); }\n", cases[i].Prog.JS(false), hj)
			all = append(all, traces)
			idx = append(idx, i)
		}
		sb.WriteString("console.log(JSON.stringify(out));\n")
		raw := runNode(t, sb.String())
		var out []json.RawMessage
		if err := json.Unmarshal(raw, &out); err != nil {
			t.Fatalf("bad node output: %v", err)
		}
		for k, o := range out {
			c := cases[idx[k]]
			var got [][]nodeStep
			if err := json.Unmarshal(o, &got); err != nil {
				t.Errorf("%s: node: %s\n%s", c.Name, o, c.Prog.JS(false))
				bad++
				continue
			}
			for ti, tr := range all[k] {
				for si, st := range tr {
					g := got[ti][si]
					if g.R != st.Res || !eqStrings(g.L, st.Log) {
						t.Errorf("%s\n%shistory %s step %d:\n model: %s %q\n node:  %s %q", c.Name, c.Prog.JS(false), histString(tr), si+1, st.Res, st.Log, g.R, g.L)
						bad++
						goto next
					}
				}
			}
		next:
		}
	}
	t.Logf("%d bodies, %d unsupported by the model", len(cases), unsupN)
}

func TestAsyncModelAgainstNode(t *testing.T) {
	if os.Getenv("C09_NODE") == "" {
		t.Skip("set C09_NODE=1")
	}
	cases, _ := nodeCases()
	const batch = 300
	bad := 0
	unsupN := 0
	for lo := 0; lo < len(cases) && bad < 20; lo += batch {
		hi := lo + batch
		if hi > len(cases) {
			hi = len(cases)
		}
		var sb strings.Builder
		sb.WriteString("var __log = []; function log(s) { __log.push(s); }\n")
		sb.WriteString(gm.Prelude())
		// the job queue drains between macrotasks: every step is its own setImmediate
		sb.WriteString(`var out = [], work = [];
process.on("unhandledRejection", function() {});
function drainThen(f) { setImmediate(f); }
function runOne(def, h, batch, done) {
	var logs = [];
	def();
	__log = []; astart();
	drainThen(function() {
		logs.push(__log);
		var i = 1;
		if (batch) {
			if (h.length > 1) { __log = []; for (; i < h.length; i++) settle(h[i][0], h[i][1], h[i][2]); drainThen(function() { logs.push(__log); done(logs); }); }
			else done(logs);
			return;
		}
		(function next() {
			if (i >= h.length) { done(logs); return; }
			__log = []; settle(h[i][0], h[i][1], h[i][2]); i++;
			drainThen(function() { logs.push(__log); next(); });
		})();
	});
}
function runAll(k) {
	if (k >= work.length) { console.log(JSON.stringify(out)); return; }
	var w = work[k];
	try { runOne(w[0], w[1], w[2], function(logs) { out.push(logs); runAll(k + 1); }); } catch (e) { out.push("ERR " + e); runAll(k + 1); }
}
`)
		type exp struct {
			c     Case
			h     []Step
			batch bool
			src   string
		}
		var exps []exp
		for i := lo; i < hi; i++ {
			c := cases[i]
			ids := deferredIDs(c.Prog)
			src := c.Prog.JS(true)
			for _, b := range []bool{false, true} {
				for _, h := range asyncHistories(ids) {
					if b && len(h) < 3 {
						continue
					}
					e, unsup := modelAsync(c.Prog, h, b)
					if unsup != "" {
						unsupN++
						break
					}
					hl := make([][3]interface{}, len(h))
					for j, st := range h {
						hl[j] = [3]interface{}{st.K, st.Op == 1, st.V}
					}
					hj, _ := json.Marshal(hl)
					fmt.Fprintf(&sb, "work.push([function() { %s }, %s, %v]);\n", src, hj, b)
					exps = append(exps, exp{c, e, b, src})
				}
			}
		}
		sb.WriteString("runAll(0);\n")
		raw := runNode(t, sb.String())
		var out []json.RawMessage
		if err := json.Unmarshal(raw, &out); err != nil {
			t.Fatalf("bad node output: %v\n%s", err, raw[:min(len(raw), 300)])
		}
		lastBad := ""
		for k, o := range out {
			e := exps[k]
			var got [][]string
			if err := json.Unmarshal(o, &got); err != nil {
				t.Errorf("%s: node: %s\n%s", e.c.Name, o, e.src)
				bad++
				continue
			}
			// model steps with logs: in batch mode only step 0 and the last
			var want [][]string
			for si, st := range e.h {
				if e.batch && si != 0 && si != len(e.h)-1 {
					continue
				}
				want = append(want, st.Log)
			}
			for si := range want {
				if si >= len(got) || !eqStrings(got[si], want[si]) {
					if lastBad != e.c.Name {
						var g []string
						if si < len(got) {
							g = got[si]
						}
						t.Errorf("%s\n%ssettlements %s batch=%v step %d:\n model: %q\n node:  %q", e.c.Name, e.src, asyncHistString(e.h), e.batch, si, want[si], g)
						bad++
						lastBad = e.c.Name
					}
					break
				}
			}
		}
	}
	t.Logf("%d bodies, %d unsupported by the model", len(cases), unsupN)
}
