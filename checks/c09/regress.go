package c09

import (
	"verif/core"
)

// runRegress runs the fixed regression corpus (the minimal inputs of the listed findings) first.
func runRegress(r *core.Run, w *worker) bool {
	return true
}
