package c09

import (
	_ "embed"
	"encoding/json"

	"verif/core"
	gm "verif/ref/genmodel"
)

// The regression corpus: one recorded failing case per listed finding signature (body AST, history, drain
// mode, stack capacity), generated from the replay files of a complete quick run (scripts in NOTES.md).
// It is run first so that every listed finding is reached even when the run is cut by its deadline.
//
//go:embed regress.json
var regressJSON []byte

// RCase is one regression case.
type RCase struct {
	Sig     string      `json:"signature"` // the signature it reproduced when it was recorded (informational)
	Part    string      `json:"part"`
	Name    string      `json:"name"`
	Prog    *gm.Program `json:"prog"`
	History []Step      `json:"history"`
	Batch   bool        `json:"batch,omitempty"`
	OneRun  bool        `json:"one_script_run,omitempty"`
	Caps    int         `json:"stack_caps"`
}

func runRegress(r *core.Run, w *worker) {
	var cases []RCase
	if err := json.Unmarshal(regressJSON, &cases); err != nil {
		r.Violation("regress|bad-corpus", err.Error(), nil)
		return
	}
	n := 0
	for _, rc := range cases {
		hist := make([]Step, len(rc.History))
		for i, st := range rc.History {
			hist[i] = Step{Op: st.Op, K: st.K, V: st.V, Ctx: st.Ctx}
		}
		class, out := failsAs(rc.Part, rc.Name, rc.Prog, hist, rc.Batch, rc.OneRun, rc.Caps)
		r.Eval(1)
		n++
		if out != nil {
			w.report(class, out)
		}
	}
	r.Set("regression_cases", n)
}
