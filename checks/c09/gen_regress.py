#!/usr/bin/env python3
"""Regenerates checks/c09/regress.json and findings.d/C09.jsonl skeleton from the replay files of a COMPLETE
quick run on the tree whose findings are to be listed:  bin/check C09 ; checks/c09/gen_regress.py
(only signatures that are not yet listed show up as replay files: run it with an empty findings.d/C09.jsonl
to regenerate everything, or with --append after a run that printed VIOLATION lines for further symptoms of the
listed defects). Prints the signatures; the 'what' texts of findings.d are maintained by hand in
FINDING_TEXT below."""
import json, glob, sys, os
root = "/verif"
cases = []
if "--append" in sys.argv:
    cases = json.load(open(root + "/checks/c09/regress.json"))
have = {c["signature"] for c in cases}
for f in sorted(glob.glob(root + "/replays/C09/*.json")):
    v = json.load(open(f))
    c = v["case"]
    if c is None or v["signature"] in have:
        continue
    hist = [{"op": s["op"], "k": s.get("k", 0), "v": s["v"], "ctx": s.get("ctx", 0)} for s in c["history"]]
    cases.append({"signature": v["signature"], "part": c["part"], "name": c["name"], "prog": c["prog"], "history": hist,
                  "batch": c.get("batch", False), "one_script_run": c.get("one_script_run", False), "stack_caps": c.get("stack_caps", 0)})
cases.sort(key=lambda c: c["signature"])
json.dump(cases, open(root + "/checks/c09/regress.json", "w"), separators=(",", ":"))
FINDING_TEXT = {
 "return-closes-throwing-iterator": "C09-4 return() whose iterator close throws leaves the VM unwound half-way: it.return(v) on a generator suspended inside a for-of loop (or array destructuring) that sits in a catch or finally block (a spent try frame lies above the loop), when the iterator's return() throws or returns a non-object: enterNextFinallyFrame raises the exception with vm.throw() outside any protected region, generatorObject._return never pops the frames pushed by enterNext(): the caller does not get the exception (Go nil-pointer panic out of the host call, or the call 'does not return' and the call/try stacks keep 2 frames; later calls fail), e.g. `function* g(){ try { throw 0 } catch (e) { for (var x of {[Symbol.iterator](){return this}, next(){return {done:false}}, return(){ return 7 }}) yield 1 } }; it = g(); it.next(); it.return(5)` must throw a TypeError to the caller. Fix: proposed-fixes/C09-return-iterator-close-throws.diff (apply after C09-return-stale-tryframe-after-iterator-close.diff)",
 "reentrant-delegate": "C09-1 re-entrancy during yield*: a next()/throw()/return() on a generator issued from inside the [Symbol.iterator]/next/throw/return method of the iterator it is delegating to with yield* is not rejected with a TypeError (generatorObject.state stays suspendedYield while the yield* loop runs): the call re-enters the delegate recursively until the call stack overflows, e.g. `function* g(){ yield* {[Symbol.iterator](){return this}, next(){ try { self.next() } catch (e) {} return {value:1,done:false} }} }; self = g(); self.next()`. Fix: proposed-fixes/C09-reentrancy-during-yield-star.diff",
 "register-locals": "C09-2 stack references not rebased on resume: inside `with`, an assignment / compound assignment / destructuring whose target is a register-allocated local and whose right-hand side suspends (yield, yield*, await) keeps a reference into vm.stack at an ABSOLUTE index (resolveMixedStack) in the saved refStack; vm.resume does not rebase it, so when the generator is resumed at another stack depth (always for async functions) the value lands in a foreign stack slot: the local keeps its old value, a later access throws ReferenceError/TypeError or the host panics with 'index out of range', e.g. `function* g(){ let a = 0; with ({}) { a = yield 1 } return a }; it = g(); it.next(); (function(){ var pad; return it.next(5) })()` returns {value:0,done:true}. Fix: proposed-fixes/C09-rebase-stack-references-on-resume.diff",
 "stack-capacity": "C09-3 stale *tryFrame after closing iterators: generator.enterNextFinallyFrame (gen.return) - and vm.handleThrow (gen.throw, reported by C08) - keep a pointer into vm.tryStack across vm.restoreStacks(), which closes the pending for-of/destructuring iterators and thereby pushes try frames; when that append re-allocates the try stack (depends on its current capacity: fresh runtime, call depth of the driver) the updates of the frame are lost: after it.return(v) the finally block runs and execution then continues AFTER the try statement ({value:...,done:false} or code after the loop runs) resp. the thrown exception is lost, e.g. on a fresh runtime `function* g(){ try { for (var x of [1,2]) yield x } finally {} log('after') }; it = g(); it.next(); (function(){ let z; try { return it.return(5) } finally { z++ } })()` logs 'after' and yields {value:undefined,done:true}. Fix: proposed-fixes/C09-return-stale-tryframe-after-iterator-close.diff (+ proposed-fixes/C08-stale-tryframe-after-iterator-close.diff for the throw path)",
 "after-return-suspended-in-finally": "known from C08 (signature 'events @ gen-return@1 > try{@}finally-throw > yield'): after it.return(v) has entered a finally block that yields, the following throw()/next()/return() misbehaves because enterNextFinallyFrame marked the finally frame as a panic marker: the exception is not delivered to the caller / the call does not return / Go nil-pointer panic / frames are left on the call and try stacks, e.g. `function* g(){ try { yield 1 } finally { yield 2 } }; it = g(); it.next(); it.return(5); it.throw(7)`. Fix: proposed-fixes/C08-generator-return-throw-in-finally.diff",
 "throw-into-finally-of-try-with-catch": "known from C08 (signature 'events @ gen-drain > try{@}catch-finally-throw > normal'): it.throw(e) while the generator is suspended at a yield inside the finally block of a try/catch/finally statement is caught by the statement's own catch clause (the finally block then runs a second time) instead of propagating, e.g. `function* g(){ try {} catch (e) { log('caught') } finally { yield 1 } }; it = g(); it.next(); it.throw(7)` logs 'caught' and yields again. Fix: proposed-fixes/C08-finally-throw-caught-by-own-catch.diff",
}
out = open(root + "/findings.d/C09.jsonl", "w")
for c in cases:
    sig = c["signature"]
    trig = sig.split("|")[1]
    txt = FINDING_TEXT.get(trig)
    if txt is None:
        print("NO TEXT FOR", sig, file=sys.stderr)
        continue
    out.write(json.dumps({"property": "C09", "signature": sig, "what": txt + " [symptom: " + "|".join(sig.split("|")[2:]) + "]"}) + "\n")
    print(sig)
out.close()
print(len(cases), "cases", file=sys.stderr)
