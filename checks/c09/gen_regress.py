#!/usr/bin/env python3
"""Regenerates checks/c09/regress.json and findings.d/C09.jsonl skeleton from the replay files of a COMPLETE
quick run on the tree whose findings are to be listed:  bin/check C09 ; checks/c09/gen_regress.py
(only signatures that are not yet listed show up as replay files, so run it with an empty findings.d/C09.jsonl
to regenerate everything). Prints the signatures; the 'what' texts of findings.d are maintained by hand in
FINDING_TEXT below."""
import json, glob, sys, os
root = "/verif"
cases = []
for f in sorted(glob.glob(root + "/replays/C09/*.json")):
    v = json.load(open(f))
    c = v["case"]
    if c is None:
        continue
    hist = [{"op": s["op"], "k": s.get("k", 0), "v": s["v"], "ctx": s.get("ctx", 0)} for s in c["history"]]
    cases.append({"signature": v["signature"], "part": c["part"], "name": c["name"], "prog": c["prog"], "history": hist,
                  "batch": c.get("batch", False), "one_script_run": c.get("one_script_run", False), "stack_caps": c.get("stack_caps", 0)})
cases.sort(key=lambda c: c["signature"])
json.dump(cases, open(root + "/checks/c09/regress.json", "w"), separators=(",", ":"))
for c in cases:
    print(c["signature"])
print(len(cases), "cases", file=sys.stderr)
