package c09

import (
	"fmt"
	"strings"

	gm "verif/ref/genmodel"

	"github.com/dop251/goja"
)

// Async part: the body is rendered as an async function (yield E -> await df(E), where df(1..3) are deferred
// promises; yield* E -> await E resp. a call of the async twin of a library generator). A history is a
// sequence of settlements (k, resolve|reject, v) of distinct deferred promises; after each settlement (or,
// in batch mode, once after all of them) the job queue is drained and the log delta is compared with the
// model (Await = PromiseResolve + PerformPromiseThen on a FIFO job queue). A chain of four reactions queued
// with every settlement makes the tick at which each continuation runs observable.

func asyncHistString(h []Step) string {
	parts := make([]string, len(h))
	for i, s := range h {
		if i == 0 {
			parts[i] = "start"
			continue
		}
		op := "resolve"
		if s.Op == 1 {
			op = "reject"
		}
		parts[i] = fmt.Sprintf("%s(P%d,%d)", op, s.K, s.V)
	}
	return strings.Join(parts, " ")
}

// deferredIDs lists the deferred promises (1..3) the body can await.
func deferredIDs(p *gm.Program) []int {
	seen := map[int]bool{}
	gm.Walk(p.Body, func(n *gm.N) {
		if n.K == gm.Yield && len(n.X) == 1 && n.X[0].K == gm.Num && n.X[0].I >= 1 && n.X[0].I <= 3 {
			seen[n.X[0].I] = true
		}
		if n.K == gm.Prom {
			seen[n.I] = true
		}
	})
	var ids []int
	for k := 1; k <= 3; k++ {
		if seen[k] {
			ids = append(ids, k)
		}
	}
	return ids
}

func asyncValue(i, k, op int) int { return 100*i + 10*k + op }

// asyncHistories enumerates all maximal settlement orders: every permutation of the ids x resolve/reject.
// Step 0 of each history is the start.
func asyncHistories(ids []int) [][]Step {
	var res [][]Step
	var rec func(h []Step, used int)
	rec = func(h []Step, used int) {
		if len(h)-1 == len(ids) {
			res = append(res, append([]Step{}, h...))
			return
		}
		for j, k := range ids {
			if used&(1<<j) != 0 {
				continue
			}
			for op := 0; op < 2; op++ {
				rec(append(h, Step{Op: op, K: k, V: asyncValue(len(h), k, op)}), used|1<<j)
			}
		}
	}
	rec([]Step{{}}, 0)
	return res
}

// modelAsync fills in the model's expectations. In batch mode all settlements are one step.
func modelAsync(p *gm.Program, h []Step, batch bool) (out []Step, unsup string) {
	m := gm.NewAsyncMachine(p)
	defer m.Close()
	out = make([]Step, 0, len(h))
	lg, err := m.Start()
	if err != nil {
		return nil, err.Msg
	}
	out = append(out, Step{Log: append([]string{}, lg...)})
	var acc []string
	for _, st := range h[1:] {
		lg, err := m.Settle(st.K, st.Op == 1, float64(st.V), !batch)
		if err != nil {
			return nil, err.Msg
		}
		if batch {
			acc = append(acc, lg...)
			out = append(out, Step{Op: st.Op, K: st.K, V: st.V})
			continue
		}
		out = append(out, Step{Op: st.Op, K: st.K, V: st.V, Log: append([]string{}, lg...)})
	}
	if batch && len(h) > 1 {
		lg, err := m.DrainNow()
		if err != nil {
			return nil, err.Msg
		}
		out[len(out)-1].Log = append(acc, lg...)
	}
	return out, ""
}

// runAsyncHistory executes the history on the engine, comparing the log after every drain.
func (w *worker) runAsyncHistory(c Case, src string, h []Step, batch bool, caps int) (n int, vc *VCase, class string) {
	e := w.engine()
	mk := func(at int, lg []string, ft *fault) *VCase {
		v := &VCase{Part: "async", Name: c.Name, Prog: c.Prog, Src: src, History: h, At: at, GotLog: lg, Batch: batch, Caps: caps}
		if ft != nil {
			v.Fault = ft.kind + ": " + ft.detail
		}
		return v
	}
	if err := e.define(src, true); err != nil {
		w.discard()
		return 0, mk(-1, []string{err.Error()}, nil), "define failed: " + errClass(err)
	}
	call := func(f func() error) (lg []string, ft *fault) {
		ft = e.guard(func() {
			if err := f(); err != nil {
				ft = &fault{"host-call-failed", e.errString(err)}
			}
		})
		if ft == nil && e.tripped {
			ft = &fault{"non-termination", "instruction budget exceeded"}
		}
		if ft == nil {
			ft = e.idleFault()
		}
		return e.takeLog(), ft
	}
	check := func(at int, lg []string, ft *fault) (*VCase, string) {
		if ft != nil {
			w.discard()
			return mk(at, lg, ft), "fault:" + ft.kind + ":" + ft.detail
		}
		if !eqStrings(lg, h[at].Log) {
			w.discard()
			return mk(at, lg, nil), diffClass("", "", h[at].Log, lg)
		}
		return nil, ""
	}
	setStackCaps(e.rt, caps)
	lg, ft := call(func() error { _, err := e.astart(goja.Undefined()); return err })
	n++
	if vc, sig := check(0, lg, ft); vc != nil {
		return n, vc, sig
	}
	if batch {
		if len(h) == 1 {
			return n, nil, ""
		}
		list := make([]interface{}, 0, len(h)-1)
		for _, st := range h[1:] {
			list = append(list, []interface{}{st.K, st.Op == 1, st.V})
		}
		lg, ft := call(func() error { _, err := e.batch(goja.Undefined(), e.rt.ToValue(list)); return err })
		n++
		vc, sig := check(len(h)-1, lg, ft)
		return n, vc, sig
	}
	for i := 1; i < len(h); i++ {
		st := h[i]
		lg, ft := call(func() error {
			_, err := e.settle(goja.Undefined(), e.rt.ToValue(st.K), e.rt.ToValue(st.Op == 1), e.rt.ToValue(st.V))
			return err
		})
		n++
		if vc, sig := check(i, lg, ft); vc != nil {
			return n, vc, sig
		}
	}
	return n, nil, ""
}

// asyncCase runs all settlement orders of one body, in both drain modes and all function kinds.
func (w *worker) asyncCase(c Case, idx int64) {
	r := w.r
	if stopEarly(r) {
		return
	}
	ids := deferredIDs(c.Prog)
	hists := asyncHistories(ids)
	kinds := []int{c.Prog.Kind}
	if c.Prog.Kind == gm.KindDecl && !c.Prog.Uses(gm.Args, gm.ArgSet, gm.ArgLen) && !c.Prog.Cap {
		kinds = append(kinds, gm.KindArrow)
	}
	for _, kind := range kinds {
		p := *c.Prog
		p.Kind = kind
		cc := Case{Name: c.Name, Prog: &p}
		if kind == gm.KindArrow {
			cc.Name += " [arrow]"
		}
		src := p.JS(true)
		for _, batch := range []bool{false, true} {
			for hi, h := range hists {
				if r.Expired() {
					return
				}
				if batch && len(h) < 3 {
					continue // one settlement: identical to the non-batch run
				}
				exp, unsup := modelAsync(&p, h, batch)
				if unsup != "" {
					r.Add("model_unsupported_async", 1)
					break
				}
				n, vc, class := w.runAsyncHistory(cc, src, exp, batch, stackCaps[(hi+int(idx))%len(stackCaps)])
				r.Transitions(int64(n))
				if !batch {
					r.States(int64(len(h)))
				}
				if vc != nil {
					w.report(class, vc)
					continue
				}
				r.Traces(1)
				r.Add("async_histories", 1)
				if len(h) > 1 {
					r.NontrivialN(1)
				}
				r.OutcomeH(core64(exp))
				if hi == len(hists)-1 && !batch && kind == c.Prog.Kind && idx%512 == 0 {
					r.Sample(map[string]interface{}{"body": cc.Name, "async_src": src, "settlements": asyncHistString(exp), "log": allLogs(exp)})
				}
			}
		}
	}
}

func allLogs(h []Step) []string {
	var l []string
	for _, s := range h {
		l = append(l, s.Log...)
	}
	return l
}

func core64(h []Step) uint64 {
	var hsh uint64 = 1469598103934665603
	for _, s := range h {
		for _, l := range s.Log {
			for i := 0; i < len(l); i++ {
				hsh = (hsh ^ uint64(l[i])) * 1099511628211
			}
			hsh = (hsh ^ 0xff) * 1099511628211
		}
	}
	return hsh
}
