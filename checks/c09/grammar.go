package c09

import (
	"fmt"

	gm "verif/ref/genmodel"
)

// The body grammar.
//
//	Body   := SCtx[ SCtx[ ... Stmt(X) Tail ... ] ]  EndLog           (0..3 nested statement contexts)
//	Stmt   := a = X; | return X; | throw X; | if (X) … | switch (X) … | for (let x of [X]) …
//	X      := ECtx(H1, H2) | ECtx(ECtx(H1, H2), H3) | H                (expression contexts with holes)
//	H      := yield k | yield | yield yield k | yield* <iterable> | k*100 | self.op(k*100)
//	Tail   := ε | b = yield 90; | return 91; | throw 92; | break; | continue;
//
// Every production is a Go AST constructor (ref/genmodel); the enumeration is the ordered product of the
// alternatives, simplest first, and every body is addressed by its index in that order.

// Case is one enumerated body.
type Case struct {
	Name string      `json:"name"`
	Prog *gm.Program `json:"prog"`
}

// CaseGen builds one enumerated body on demand (the thorough enumeration is too large to keep as ASTs).
type CaseGen struct {
	Name string
	Mk   func() *gm.Program
}

func (g CaseGen) Case() Case { return Case{g.Name, g.Mk()} }

// ---- hole fillers ----

type hole struct {
	name string
	mk   func(k int) *gm.N
	yld  bool
}

func hY() hole { return hole{"y", func(k int) *gm.N { return gm.Y(gm.NumN(k)) }, true} }
func hC() hole { return hole{"c", func(k int) *gm.N { return gm.NumN(k * 100) }, false} }
func hY0() hole {
	return hole{"y0", func(k int) *gm.N { return gm.Y() }, true}
}
func hYY() hole {
	return hole{"yy", func(k int) *gm.N { return gm.Y(gm.Y(gm.NumN(k))) }, true}
}
func hYSG(i int) hole {
	return hole{fmt.Sprintf("y*inner%d", i), func(k int) *gm.N { return gm.YS(gm.GI(i)) }, true}
}
func hYSIt(fl int) hole {
	return hole{fmt.Sprintf("y*it%d", fl), func(k int) *gm.N { return gm.YS(gm.It(fl)) }, true}
}
func hYSArr() hole {
	return hole{"y*arr", func(k int) *gm.N { return gm.YS(gm.E(gm.Arr, gm.NumN(k), gm.NumN(k+10))) }, true}
}
func hYSBad() hole { // yield* over a non-iterable
	return hole{"y*num", func(k int) *gm.N { return gm.YS(gm.NumN(k)) }, true}
}
func hProm() hole { // async rendering: the deferred promise itself (returned / awaited without df)
	return hole{"dfp", func(k int) *gm.N { return &gm.N{K: gm.Prom, I: k} }, false}
}
func hYProm() hole {
	return hole{"y(dfp)", func(k int) *gm.N { return gm.Y(&gm.N{K: gm.Prom, I: k + 1}) }, true}
}
func hSelf(op string) hole {
	return hole{"self." + op, func(k int) *gm.N { return gm.SelfN(op, gm.NumN(k*100)) }, false}
}
func hSelfY(op string) hole {
	return hole{"self." + op + "(y)", func(k int) *gm.N { return gm.SelfN(op, gm.Y(gm.NumN(k))) }, true}
}

// iterator flag sets used for yield* / for-of / destructuring
var itFlags = []int{
	0,
	gm.ItHasReturn,
	gm.ItHasThrow | gm.ItHasReturn,
	gm.ItHasThrow | gm.ItThrowDone,
	gm.ItHasReturn | gm.ItRetPrim,
	gm.ItHasReturn | gm.ItRetNotDone,
	gm.ItHasReturn | gm.ItRetThrow,
	gm.ItHasThrow | gm.ItHasReturn | gm.ItReent,
	gm.ItNextPrim | gm.ItHasReturn,
	gm.ItNextThrow | gm.ItHasReturn,
}

// ---- expression contexts ----

type ectx struct {
	name  string
	holes int
	mk    func(h ...*gm.N) *gm.N
}

func v(s string) *gm.N { return gm.VarN(s) }

func ectxs() []ectx {
	return []ectx{
		{"add", 2, func(h ...*gm.N) *gm.N { return gm.ES(gm.Bin, "+", h[0], h[1]) }},
		{"call", 2, func(h ...*gm.N) *gm.N { return gm.CallN("f", h[0], h[1]) }},
		{"arr", 2, func(h ...*gm.N) *gm.N { return gm.E(gm.Arr, h[0], h[1]) }},
		{"callspread", 2, func(h ...*gm.N) *gm.N {
			return gm.CallN("f", gm.E(gm.Spread, gm.E(gm.Arr, h[0])), h[1])
		}},
		{"tmpl", 2, func(h ...*gm.N) *gm.N { return gm.E(gm.Tmpl, h[0], h[1]) }},
		{"ckey", 2, func(h ...*gm.N) *gm.N { return gm.ObjN(h[0], h[1]) }},
		{"obj", 2, func(h ...*gm.N) *gm.N { return gm.ObjN(gm.KeyN("k"), h[0], gm.KeyN("m"), h[1]) }},
		{"dsa", 2, func(h ...*gm.N) *gm.N { return gm.E(gm.DsA, h[0], h[1], gm.E(gm.Arr)) }},
		{"dso", 2, func(h ...*gm.N) *gm.N { return gm.E(gm.DsO, h[0], h[1], gm.ObjN()) }},
		{"dsm", 2, func(h ...*gm.N) *gm.N { return gm.E(gm.DsM, h[0], h[1], gm.E(gm.Arr, gm.NumN(5), gm.NumN(6))) }},
		{"dsm-it", 2, func(h ...*gm.N) *gm.N { return gm.E(gm.DsM, h[0], h[1], gm.It(gm.ItHasReturn)) }},
		{"dsa-gen", 2, func(h ...*gm.N) *gm.N {
			return gm.E(gm.DsA, h[0], h[1], gm.E(gm.Arr, gm.E(gm.Undef), gm.E(gm.Spread, gm.GI(1))))
		}},
		{"cond", 2, func(h ...*gm.N) *gm.N { return gm.E(gm.Cond, h[0], h[1], gm.NumN(0)) }},
		{"setm", 2, func(h ...*gm.N) *gm.N { return gm.E(gm.SetM, v("o"), h[0], h[1]) }},
		{"and", 2, func(h ...*gm.N) *gm.N { return gm.ES(gm.Logic, "&&", h[0], h[1]) }},
		{"or", 2, func(h ...*gm.N) *gm.N { return gm.ES(gm.Logic, "||", h[0], h[1]) }},
		{"nullish", 2, func(h ...*gm.N) *gm.N { return gm.ES(gm.Logic, "??", h[0], h[1]) }},
		{"mcall", 2, func(h ...*gm.N) *gm.N { return gm.ES(gm.MCall, "m", v("o"), h[0], h[1]) }},
		{"new", 2, func(h ...*gm.N) *gm.N { return gm.ES(gm.New, "Pt", h[0], h[1]) }},
		{"comma", 2, func(h ...*gm.N) *gm.N { return gm.ES(gm.Bin, ",", h[0], h[1]) }},
		{"tag", 2, func(h ...*gm.N) *gm.N { return gm.E(gm.Tag, h[0], h[1]) }},
		{"opasg", 2, func(h ...*gm.N) *gm.N {
			return gm.ES(gm.Bin, "+", gm.ES(gm.OpAsg, "a", h[0]), gm.ES(gm.OpAsg, "b", h[1]))
		}},
		{"args", 2, func(h ...*gm.N) *gm.N {
			return gm.E(gm.Arr, &gm.N{K: gm.ArgSet, I: 0, X: []*gm.N{h[0]}}, v("p"), h[1], &gm.N{K: gm.Args, I: 0}, &gm.N{K: gm.ArgLen})
		}},
		{"closure", 2, func(h ...*gm.N) *gm.N {
			return gm.CallN("f", gm.CallN("inc"), h[0], gm.CallN("seth", h[1]), gm.CallN("inc"), gm.CallN("geth"))
		}},
		{"arrspread", 2, func(h ...*gm.N) *gm.N {
			return gm.E(gm.Arr, gm.E(gm.Spread, gm.GI(3)), h[0], gm.E(gm.Spread, gm.E(gm.Arr, h[1])))
		}},
		{"eq", 2, func(h ...*gm.N) *gm.N { return gm.ES(gm.Bin, "===", h[0], h[1]) }},
		{"getm", 2, func(h ...*gm.N) *gm.N {
			return gm.E(gm.GetM, gm.ObjN(gm.KeyN("k"), h[0], gm.KeyN("m"), gm.NumN(9)), h[1])
		}},
		// a value-discarding position (left operand of a comma) inside a partially built array literal
		{"discard-in-arr", 2, func(h ...*gm.N) *gm.N {
			return gm.E(gm.Arr, gm.NumN(1), gm.ES(gm.Bin, ",", h[0], gm.NumN(2)), h[1])
		}},
		{"typeof", 1, func(h ...*gm.N) *gm.N { return gm.E(gm.TypeOf, h[0]) }},
		{"not", 1, func(h ...*gm.N) *gm.N { return gm.E(gm.Not, h[0]) }},
		{"asg-b", 1, func(h ...*gm.N) *gm.N { return gm.AsgN("b", h[0]) }},
		{"self.next()", 1, func(h ...*gm.N) *gm.N { return gm.SelfN("next", h[0]) }},
		{"self.throw()", 1, func(h ...*gm.N) *gm.N { return gm.SelfN("throw", h[0]) }},
		{"self.return()", 1, func(h ...*gm.N) *gm.N { return gm.SelfN("return", h[0]) }},
	}
}

// ex is one enumerated expression.
type ex struct {
	name string
	mk   func() *gm.N
}

// fills2 lists the hole assignments of a two-hole context: yields left / right / both, and the special fillers.
func fills2(rich bool) [][2]hole {
	res := [][2]hole{{hY(), hY()}, {hY(), hC()}, {hC(), hY()}}
	if rich {
		res = append(res, [2]hole{hY0(), hY0()}, [2]hole{hYY(), hC()}, [2]hole{hC(), hYY()},
			[2]hole{hYSG(1), hY()}, [2]hole{hY(), hYSG(1)}, [2]hole{hYSG(2), hC()}, [2]hole{hC(), hYSG(3)},
			[2]hole{hYSArr(), hY()}, [2]hole{hY(), hYSArr()},
			[2]hole{hYSIt(gm.ItHasThrow | gm.ItHasReturn), hY()}, [2]hole{hC(), hYSIt(gm.ItHasReturn)},
			[2]hole{hYSIt(gm.ItHasThrow | gm.ItThrowDone), hC()},
			[2]hole{hSelf("next"), hY()}, [2]hole{hY(), hSelf("return")})
	}
	return res
}

// exprs enumerates the expressions: depth 1 = one context over hole fillers; depth 2 = a context whose
// first or second hole is itself a (core) context.
func exprs(depth int, rich bool) []ex {
	var res []ex
	// single fillers first
	for _, h := range []hole{hY(), hY0(), hYY(), hYSG(1), hYSG(2), hYSG(3), hYSArr(), hYSBad(), hProm(), hYProm()} {
		h := h
		res = append(res, ex{h.name, func() *gm.N { return h.mk(1) }})
	}
	for _, fl := range itFlags {
		h := hYSIt(fl)
		res = append(res, ex{h.name, func() *gm.N { return h.mk(1) }})
	}
	for _, op := range []string{"next", "throw", "return"} {
		h := hSelf(op)
		res = append(res, ex{h.name, func() *gm.N { return h.mk(1) }})
	}
	cs := ectxs()
	for ci, c := range cs {
		c := c
		if c.holes == 1 {
			for _, h := range []hole{hY(), hY0()} {
				h := h
				res = append(res, ex{c.name + "(" + h.name + ")", func() *gm.N { return c.mk(h.mk(1)) }})
			}
			continue
		}
		for _, f := range fills2(rich && (ci < 3 || c.name == "discard-in-arr")) {
			f := f
			res = append(res, ex{c.name + "(" + f[0].name + "," + f[1].name + ")", func() *gm.N { return c.mk(f[0].mk(1), f[1].mk(2)) }})
		}
	}
	if depth >= 2 {
		inner := []int{0, 1, 2, 4, 5, 7, 12, 13, 17} // add call arr tmpl ckey dsa cond setm mcall
		for _, c := range cs {
			c := c
			if c.holes != 2 {
				continue
			}
			for _, ii := range inner {
				ic := cs[ii]
				// inner context in the first hole: ic(y1,y2) then y3; inner context in the second hole: y1 then ic(y2,y3)
				res = append(res, ex{c.name + "(" + ic.name + "(y,y),y)", func() *gm.N {
					return c.mk(ic.mk(hY().mk(1), hY().mk(2)), hY().mk(3))
				}})
				res = append(res, ex{c.name + "(y," + ic.name + "(y,y))", func() *gm.N {
					return c.mk(hY().mk(1), ic.mk(hY().mk(2), hY().mk(3)))
				}})
			}
		}
	}
	return res
}

// ---- statements holding an expression ----

type sform struct {
	name string
	mk   func(x *gm.N) []*gm.N
}

func sforms() []sform {
	return []sform{
		{"a=", func(x *gm.N) []*gm.N { return gm.L(gm.St(gm.AsgN("a", x))) }},
		{"return", func(x *gm.N) []*gm.N { return gm.L(gm.RetN(x)) }},
		{"throw", func(x *gm.N) []*gm.N { return gm.L(gm.ThrN(x)) }},
		{"if", func(x *gm.N) []*gm.N { return gm.L(gm.IfN(x, gm.L(gm.LgS("T")), gm.L(gm.LgS("E")))) }},
		{"switch", func(x *gm.N) []*gm.N {
			return gm.L(&gm.N{K: gm.Sw, X: []*gm.N{x}, A: gm.L(gm.LgS("s1")), B: gm.L(gm.LgS("s2"), &gm.N{K: gm.Brk}), C: gm.L(gm.LgS("sd"))})
		}},
		{"forof-head", func(x *gm.N) []*gm.N {
			return gm.L(gm.ForOfN(gm.E(gm.Arr, x, gm.NumN(2)), gm.L(gm.St(gm.Lg(v("x"))))))
		}},
		{"expr", func(x *gm.N) []*gm.N { return gm.L(gm.St(x)) }},
	}
}

// ---- statement contexts ----

type sctx struct {
	name string
	loop bool // break / continue are legal directly inside
	mk   func(in []*gm.N) []*gm.N
}

func lgE() *gm.N { return gm.St(gm.Lg(v("e"))) }

func sctxs() []sctx {
	try := func(a, b, c []*gm.N, f int) []*gm.N { return gm.L(gm.TryN(a, b, c, f)) }
	return []sctx{
		{"try-catch", false, func(in []*gm.N) []*gm.N { return try(in, gm.L(lgE()), nil, gm.HasCatch) }},
		{"try-finally", false, func(in []*gm.N) []*gm.N { return try(in, nil, gm.L(gm.LgS("F")), gm.HasFinally) }},
		{"try-catch-finally+yields", false, func(in []*gm.N) []*gm.N {
			return try(in, gm.L(lgE(), gm.St(gm.AsgN("b", gm.Y(gm.NumN(71))))),
				gm.L(gm.LgS("F"), gm.St(gm.AsgN("b", gm.Y(gm.NumN(72)))), gm.St(gm.Lg(v("b")))), gm.HasCatch|gm.HasFinally)
		}},
		{"in-catch", false, func(in []*gm.N) []*gm.N {
			return try(gm.L(gm.ThrN(gm.NumN(5))), append(in, lgE()), nil, gm.HasCatch)
		}},
		{"in-finally", false, func(in []*gm.N) []*gm.N { return try(gm.L(gm.LgS("T")), nil, in, gm.HasFinally) }},
		{"in-finally-after-return", false, func(in []*gm.N) []*gm.N {
			return try(gm.L(gm.RetN(gm.NumN(6))), nil, in, gm.HasFinally)
		}},
		{"in-finally-after-throw", false, func(in []*gm.N) []*gm.N {
			return try(gm.L(gm.ThrN(gm.NumN(7))), nil, in, gm.HasFinally)
		}},
		{"for", true, func(in []*gm.N) []*gm.N { return gm.L(gm.Loop(gm.For, 2, in)) }},
		{"for-of-array", true, func(in []*gm.N) []*gm.N {
			return gm.L(gm.ForOfN(gm.E(gm.Arr, gm.NumN(1), gm.NumN(2)), in))
		}},
		{"for-of-inner1", true, func(in []*gm.N) []*gm.N {
			return gm.L(gm.ForOfN(gm.GI(1), append(gm.L(gm.St(gm.Lg(v("x")))), in...)))
		}},
		{"for-of-it-return", true, func(in []*gm.N) []*gm.N { return gm.L(gm.ForOfN(gm.It(gm.ItHasReturn), in)) }},
		{"with", false, func(in []*gm.N) []*gm.N {
			return gm.L(&gm.N{K: gm.With, A: append(in, gm.St(gm.E(gm.WAsg, gm.Y(gm.NumN(73)))), gm.St(gm.Lg(gm.E(gm.WGet))))})
		}},
		{"labelled-block", false, func(in []*gm.N) []*gm.N {
			return gm.L(&gm.N{K: gm.Lbl, S: "L9", A: append(in, &gm.N{K: gm.Brk, S: "L9"}, gm.LgS("unreachable"))})
		}},
		// the contexts below are used at depth 1 always and at depth >= 2 only in the thorough tier
		{"while", true, func(in []*gm.N) []*gm.N { return gm.L(gm.Loop(gm.While, 2, in)) }},
		{"do-while", true, func(in []*gm.N) []*gm.N { return gm.L(gm.Loop(gm.DoWhile, 2, in)) }},
		{"for-in", true, func(in []*gm.N) []*gm.N { return gm.L(gm.Loop(gm.ForIn, 0, in)) }},
		{"for-of-inner2", true, func(in []*gm.N) []*gm.N { return gm.L(gm.ForOfN(gm.GI(2), in)) }},
		{"for-of-it-retprim", true, func(in []*gm.N) []*gm.N {
			return gm.L(gm.ForOfN(gm.It(gm.ItHasReturn|gm.ItRetPrim), in))
		}},
		{"for-of-it-retthrow", true, func(in []*gm.N) []*gm.N {
			return gm.L(gm.ForOfN(gm.It(gm.ItHasReturn|gm.ItRetThrow), in))
		}},
		{"switch", false, func(in []*gm.N) []*gm.N {
			return gm.L(&gm.N{K: gm.Sw, X: []*gm.N{gm.NumN(1)}, A: in, B: gm.L(gm.LgS("s2"), &gm.N{K: gm.Brk}), C: gm.L(gm.LgS("sd"))})
		}},
		{"block-captured-let", false, func(in []*gm.N) []*gm.N {
			return gm.L(&gm.N{K: gm.Blk, F: 1, A: append(in, gm.St(gm.Lg(gm.CallN("gz"))))})
		}},
		{"if-yield", false, func(in []*gm.N) []*gm.N { return gm.L(gm.IfN(gm.Y(gm.NumN(74)), in, gm.L(gm.LgS("else")))) }},
		{"for-of-head-yield", true, func(in []*gm.N) []*gm.N {
			return gm.L(gm.ForOfN(gm.E(gm.Arr, gm.Y(gm.NumN(75)), gm.NumN(2)), in))
		}},
		{"labelled-for-continue", true, func(in []*gm.N) []*gm.N {
			return gm.L(gm.Loop(gm.For, 2, gm.L(gm.ForOfN(gm.GI(1), append(in, &gm.N{K: gm.Cont, S: "L8"})))).WithLabel("L8"))
		}},
	}
}

const nSingleFillers = 23 // exprs() lists the single hole fillers first

const nCoreSctx = 13 // the first nCoreSctx statement contexts compose at depth >= 2 in the quick tier

type tail struct {
	name     string
	needLoop bool
	mk       func() []*gm.N
}

func tails() []tail {
	return []tail{
		{"", false, func() []*gm.N { return nil }},
		{"yield", false, func() []*gm.N { return gm.L(gm.St(gm.AsgN("b", gm.Y(gm.NumN(90))))) }},
		{"return", false, func() []*gm.N { return gm.L(gm.RetN(gm.NumN(91))) }},
		{"throw", false, func() []*gm.N { return gm.L(gm.ThrN(gm.NumN(92))) }},
		{"break", true, func() []*gm.N { return gm.L(&gm.N{K: gm.Brk}) }},
		{"continue", true, func() []*gm.N { return gm.L(&gm.N{K: gm.Cont}) }},
	}
}

func endLog() []*gm.N {
	return gm.L(gm.St(gm.Lg(gm.E(gm.Arr, v("a"), v("b"), v("p"), v("q"), v("c"), gm.CallN("geth")))), gm.RetN(v("a")))
}

// wrap nests the statement list in the contexts path (outermost first) and appends the end log.
func wrap(path []sctx, in []*gm.N) []*gm.N {
	for i := len(path) - 1; i >= 0; i-- {
		in = path[i].mk(in)
		// make the labels of this level unique (the contexts use the fixed names L8 / L9)
		suffix := fmt.Sprintf("_%d", i)
		gm.Walk(in, func(n *gm.N) {
			if n.S == "L8" || n.S == "L9" {
				n.S += suffix
			}
		})
	}
	return append(in, endLog()...)
}

func pathName(path []sctx) string {
	s := ""
	for _, c := range path {
		s += c.name + " > "
	}
	return s
}

// paths enumerates the statement-context paths of exactly depth d over the first n contexts.
func paths(d, n int) [][]sctx {
	cs := sctxs()[:n]
	res := [][]sctx{{}}
	for i := 0; i < d; i++ {
		var next [][]sctx
		for _, p := range res {
			for _, c := range cs {
				np := append(append([]sctx{}, p...), c)
				next = append(next, np)
			}
		}
		res = next
	}
	return res
}

func inLoop(path []sctx) bool { return len(path) > 0 && path[len(path)-1].loop }

// coreStmts are the statements placed in the innermost position of the control-flow part.
func coreStmts() []ex {
	return []ex{
		{"a=yield", func() *gm.N { return gm.Y(gm.NumN(1)) }},
		{"a=f(yield,yield)", func() *gm.N { return gm.CallN("f", gm.Y(gm.NumN(1)), gm.Y(gm.NumN(2))) }},
		{"a=yield*inner1", func() *gm.N { return gm.YS(gm.GI(1)) }},
		{"a=yield*it(throw,return)", func() *gm.N { return gm.YS(gm.It(gm.ItHasThrow | gm.ItHasReturn)) }},
		{"a=yield*inner2", func() *gm.N { return gm.YS(gm.GI(2)) }},
		{"a=[o[yield],o[yield]]=it", func() *gm.N {
			return gm.E(gm.DsM, gm.Y(gm.NumN(1)), gm.Y(gm.NumN(2)), gm.It(gm.ItHasReturn))
		}},
	}
}

// Bounds of the body enumeration for one tier.
type Bounds struct {
	ExprDepth   int  // nesting of expression contexts
	Rich        bool // special hole fillers
	ExprSDepth  int  // statement-context depth around the expression part
	CtlSDepth   int  // statement-context depth of the control-flow part
	CtlAllDepth int  // up to this depth the control-flow part uses all contexts, above only the core ones
	CtlStmts    int  // number of core statements used in the control-flow part
}

// Enumerate lists all bodies within the bounds, simplest first. Each body is emitted with Cap=false and
// Cap=true; the function-kind variant (method) is added for the bodies without statement context.
func Enumerate(b Bounds) []CaseGen {
	var res []CaseGen
	add := func(name string, body func() []*gm.N) {
		res = append(res, CaseGen{name, func() *gm.Program { return &gm.Program{Body: body()} }})
		res = append(res, CaseGen{name + " [captured]", func() *gm.Program { return &gm.Program{Body: body(), Cap: true} }})
	}
	all := sctxs()
	// expression part
	xsAll := exprs(b.ExprDepth, b.Rich)
	forms := sforms()
	for d := 0; d <= b.ExprSDepth; d++ {
		n := len(all)
		xs := xsAll
		if d >= 2 {
			n = nCoreSctx
			xs = exprs(1, b.Rich) // nested expression contexts only below <= 1 statement context
		}
		for _, p := range paths(d, n) {
			p := p
			for _, x := range xs {
				x := x
				add("expr: "+pathName(p)+"a="+x.name, func() []*gm.N { return wrap(p, forms[0].mk(x.mk())) })
			}
			if d == 0 {
				for _, x := range xs {
					x := x
					res = append(res, CaseGen{"expr: method " + x.name, func() *gm.Program {
						return &gm.Program{Body: wrap(p, forms[0].mk(x.mk())), Kind: gm.KindMethod}
					}})
				}
			}
			if d <= 1 {
				for _, fm := range forms[1:] {
					fm := fm
					// the other statement forms hold the single hole fillers: the statement form `X;`
					// (value discarded) all of them, the others the first ten
					n := 10
					if fm.name == "expr" {
						n = nSingleFillers
					}
					for _, x := range xs[:n] {
						x := x
						add("expr: "+pathName(p)+fm.name+" "+x.name, func() []*gm.N { return wrap(p, fm.mk(x.mk())) })
					}
				}
			}
		}
	}
	// control-flow part
	core := coreStmts()[:b.CtlStmts]
	for d := 1; d <= b.CtlSDepth; d++ {
		n := nCoreSctx
		if d <= b.CtlAllDepth {
			n = len(all)
		}
		for _, p := range paths(d, n) {
			p := p
			for _, t := range tails() {
				t := t
				if t.needLoop && !inLoop(p) {
					continue
				}
				if d == 1 && t.name == "" {
					continue // already in the expression part
				}
				for _, x := range core {
					x := x
					nm := "ctl: " + pathName(p) + x.name
					if t.name != "" {
						nm += "; " + t.name
					}
					add(nm, func() []*gm.N { return wrap(p, append(forms[0].mk(x.mk()), t.mk()...)) })
				}
			}
		}
	}
	return res
}

func quickBounds() Bounds {
	return Bounds{ExprDepth: 1, Rich: true, ExprSDepth: 1, CtlSDepth: 2, CtlAllDepth: 1, CtlStmts: 4}
}

func thoroughBounds() Bounds {
	return Bounds{ExprDepth: 2, Rich: true, ExprSDepth: 2, CtlSDepth: 3, CtlAllDepth: 2, CtlStmts: 6}
}

// boundsText describes bounds for the evidence file.
func boundsText(b Bounds) string {
	return fmt.Sprintf("expression contexts nested <= %d, statement contexts <= %d around expressions, <= %d in the control-flow part (all %d contexts up to depth %d, the %d core ones above), %d core statements",
		b.ExprDepth, b.ExprSDepth, b.CtlSDepth, len(sctxs()), b.CtlAllDepth, nCoreSctx, b.CtlStmts)
}
