package c09

import (
	"fmt"
	"reflect"
	"unsafe"

	"github.com/dop251/goja"
)

// White-box helper (reflect/unsafe, no hook in /repo needed): re-allocates the auxiliary stacks of an IDLE VM
// (try / iterator / reference / call stack and the value stack) with a chosen capacity. The VM keeps pointers
// into these slices across calls that run script code; whether such a pointer goes stale depends on whether
// an append re-allocates in between, i.e. on the capacity the stack happens to have. Starting a history
// from capacity 0 (a fresh runtime), 3, 5, 6, 7 puts the re-allocation points at every depth 1..8.
// The contents are untouched: all these stacks are empty when the VM is idle.

var vmStackFields = []string{"tryStack", "iterStack", "refStack", "callStack", "stack"}

func vmOf(rt *goja.Runtime) reflect.Value {
	f := reflect.ValueOf(rt).Elem().FieldByName("vm")
	if !f.IsValid() || f.Kind() != reflect.Ptr {
		panic("c09: goja.Runtime has no field vm *vm any more (wb.go needs an update)")
	}
	return reflect.NewAt(f.Type(), unsafe.Pointer(f.UnsafeAddr())).Elem().Elem()
}

// setStackCaps gives every auxiliary stack of the idle VM length 0 and capacity n (n = 0: nil, as in a new runtime).
func setStackCaps(rt *goja.Runtime, n int) {
	vm := vmOf(rt)
	for _, name := range vmStackFields {
		f := vm.FieldByName(name)
		if !f.IsValid() || f.Kind() != reflect.Slice {
			panic(fmt.Sprintf("c09: goja vm has no slice field %s any more (wb.go needs an update)", name))
		}
		w := reflect.NewAt(f.Type(), unsafe.Pointer(f.UnsafeAddr())).Elem()
		if w.Len() != 0 && name != "stack" {
			panic(fmt.Sprintf("c09: vm.%s is not empty on an idle VM (len %d)", name, w.Len()))
		}
		if n == 0 {
			w.Set(reflect.Zero(f.Type()))
		} else {
			w.Set(reflect.MakeSlice(f.Type(), 0, n))
		}
	}
}
