package c09

import (
	"fmt"
	"strings"

	gm "verif/ref/genmodel"
)

// Failure classification by minimisation. A diverging case is shrunk greedily (delete a statement, hoist the
// body of a compound statement, replace an expression by an operand or by 0, drop a driver call, move a
// driver call to the top-level context) as long as it keeps failing with the same class; the signature is
// made of the minimal body, the minimal history and the class. It therefore names what specifically fails
// and is the same for all the enumerated cases that fail for the same reason.

type site struct {
	list *[]*gm.N
	i    int
	stmt bool
}

func collectSites(list *[]*gm.N, stmt bool, out *[]site) {
	for i := range *list {
		n := (*list)[i]
		if n == nil {
			continue
		}
		*out = append(*out, site{list, i, stmt})
		collectSites(&n.X, false, out)
		collectSites(&n.A, true, out)
		collectSites(&n.B, true, out)
		collectSites(&n.C, true, out)
	}
}

// editsAt returns the number of edits available at a site.
func editsAt(s site) int {
	n := (*s.list)[s.i]
	if s.stmt {
		k := 1 // delete
		for _, l := range [][]*gm.N{n.A, n.B, n.C} {
			if len(l) > 0 {
				k++
			}
		}
		return k
	}
	if n.K == gm.Key {
		return 0
	}
	k := 0
	if n.K != gm.Num || n.I != 0 {
		k++
	}
	if simplerYield(n) {
		k++
	}
	for _, x := range n.X {
		if x.K != gm.Key && x.K != gm.Spread {
			k++
		}
	}
	return k
}

func applyEdit(s site, e int) {
	n := (*s.list)[s.i]
	if s.stmt {
		var repl []*gm.N
		if e > 0 {
			k := 0
			for _, l := range [][]*gm.N{n.A, n.B, n.C} {
				if len(l) > 0 {
					k++
					if k == e {
						repl = l
					}
				}
			}
		}
		nl := append([]*gm.N{}, (*s.list)[:s.i]...)
		nl = append(nl, repl...)
		nl = append(nl, (*s.list)[s.i+1:]...)
		*s.list = nl
		return
	}
	if n.K != gm.Num || n.I != 0 {
		if e == 0 {
			(*s.list)[s.i] = gm.NumN(0)
			return
		}
		e--
	}
	if simplerYield(n) {
		if e == 0 {
			(*s.list)[s.i] = gm.Y()
			return
		}
		e--
	}
	for _, x := range n.X {
		if x.K != gm.Key && x.K != gm.Spread {
			if e == 0 {
				(*s.list)[s.i] = x
				return
			}
			e--
		}
	}
}

// simplerYield: a yield* or a yield with an operand can be tried as a bare `yield`.
func simplerYield(n *gm.N) bool {
	return n.K == gm.YStar || n.K == gm.Yield && len(n.X) == 1
}

// fails reports whether (p, hist) still fails with class.
type failFn func(p *gm.Program, hist []Step) bool

func cloneProg(p *gm.Program) *gm.Program {
	return &gm.Program{Body: gm.CloneList(p.Body), Cap: p.Cap, Kind: p.Kind}
}

// shrink minimises program and history; budget bounds the number of trial runs.
func shrink(p *gm.Program, hist []Step, async bool, fails failFn, budget int) (*gm.Program, []Step) {
	try := func(q *gm.Program, h []Step) bool {
		if budget <= 0 {
			return false
		}
		budget--
		ok := false
		func() {
			defer func() {
				if x := recover(); x != nil {
					ok = false // the printer / model rejected a malformed candidate
				}
			}()
			ok = fails(q, h)
		}()
		return ok
	}
	// history first: it makes every later trial cheaper
	shrinkHist := func() {
		for changed := true; changed; {
			changed = false
			lo := 0
			if async {
				lo = 1 // step 0 is the start
			}
			for i := len(hist) - 1; i >= lo; i-- {
				h := append(append([]Step{}, hist[:i]...), hist[i+1:]...)
				if len(h) > lo-1 && len(h) > 0 && try(p, h) {
					hist = h
					changed = true
				}
			}
			for i := range hist {
				if hist[i].Ctx != 0 {
					h := append([]Step{}, hist...)
					h[i].Ctx = 0
					if try(p, h) {
						hist = h
						changed = true
					} else if hist[i].Ctx != 1 {
						h = append([]Step{}, hist...)
						h[i].Ctx = 1
						if try(p, h) {
							hist = h
							changed = true
						}
					}
				}
			}
		}
	}
	shrinkHist()
	if p.Cap {
		q := cloneProg(p)
		q.Cap = false
		if try(q, hist) {
			p = q
		}
	}
	if p.Kind != gm.KindDecl {
		q := cloneProg(p)
		q.Kind = gm.KindDecl
		if try(q, hist) {
			p = q
		}
	}
	for changed := true; changed && budget > 0; {
		changed = false
		var sites []site
		probe := cloneProg(p)
		collectSites(&probe.Body, true, &sites)
	scan:
		for si := range sites {
			for e := 0; e < editsAt(sites[si]); e++ {
				q := cloneProg(p)
				var qs []site
				collectSites(&q.Body, true, &qs)
				applyEdit(qs[si], e)
				// the simpler body may need fewer driver calls: also try it with one call removed
				hs := [][]Step{hist}
				lo := 0
				if async {
					lo = 1
				}
				for i := len(hist) - 1; i >= lo && len(hist) > 1; i-- {
					hs = append(hs, append(append([]Step{}, hist[:i]...), hist[i+1:]...))
				}
				for _, h := range hs {
					if try(q, h) {
						p, hist = q, h
						changed = true
						break scan
					}
				}
			}
		}
	}
	shrinkHist()
	return p, hist
}

// bodyText renders a (minimal) body on one line.
func bodyText(p *gm.Program, async bool) string {
	s := gm.PrintList(p.Body, async)
	s = strings.Join(strings.Fields(s), " ")
	if p.Cap {
		s = "[captured locals] " + s
	}
	switch p.Kind {
	case gm.KindMethod:
		s = "[method] " + s
	case gm.KindArrow:
		s = "[arrow] " + s
	}
	return s
}

func histText(h []Step) string {
	parts := make([]string, len(h))
	for i, s := range h {
		parts[i] = gm.OpNames[s.Op]
		if s.Ctx != 0 {
			parts[i] += "@" + ctxName(s.Ctx)
		}
	}
	return strings.Join(parts, " ")
}

func asyncHistText(h []Step, batch bool) string {
	var parts []string
	for i, s := range h {
		if i == 0 {
			continue
		}
		op := "resolve"
		if s.Op == 1 {
			op = "reject"
		}
		parts = append(parts, fmt.Sprintf("%s(P%d)", op, s.K))
	}
	t := strings.Join(parts, " ")
	if t == "" {
		t = "start"
	}
	if batch {
		t += " [one drain]"
	}
	return t
}
