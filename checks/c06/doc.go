// Package c06 holds the check for property C06.
package c06
