package c06

import (
	"fmt"
	"strings"

	"verif/ref/strmodel"

	"github.com/dop251/goja"
)

// observable: a JS predicate over two strings a, b. same must hold when a and b have equal code units,
// diff (if not empty) must hold when they differ.
type observable struct {
	name, same, diff string
	lite             bool // also part of the reduced set used for pairs of equal representation tags
}

var observables = []observable{
	{"===", "a===b", "!(a===b)", true},
	{"!==", "!(a!==b)", "a!==b", false},
	{"==", "a==b", "!(a==b)", false},
	{"Object.is", "Object.is(a,b)", "!Object.is(a,b)", false},
	{"switch", "(function(){switch(a){case b:return true}return false})()", "(function(){switch(a){case b:return false}return true})()", false},
	{"<", "!(a<b)&&!(b<a)&&!(a>b)&&!(b>a)", "(a<b)!==(b<a)&&(a>b)===(b<a)", true},
	{"<-order", "true", "(a<b)===lt&&(b>a)===lt", true}, // lt: the model's code-unit order
	{"<=", "a<=b&&b<=a&&a>=b&&b>=a", "(a<=b)!==(b<=a)&&(a>=b)===(b<=a)", false},
	{"localeCompare", "a.localeCompare(b)===0", "", false},
	{"Map.get", "new Map([[a,1]]).get(b)===1", "new Map([[a,1]]).get(b)===undefined", true},
	{"Map.size", "new Map([[a,1],[b,2]]).size===1", "new Map([[a,1],[b,2]]).size===2", false},
	{"Set.has", "new Set([a]).has(b)", "!new Set([a]).has(b)", false},
	{"property", "({[a]:1})[b]===1", "", false},
	{"hasOwnProperty", "Object.prototype.hasOwnProperty.call({[a]:1},b)", "!Object.prototype.hasOwnProperty.call({[a]:1},b)", true},
	{"Object.keys", "Object.keys({[a]:1,[b]:2}).length===1", "Object.keys({[a]:1,[b]:2}).length===2", false},
	{"includes", "[a].includes(b)", "![a].includes(b)", false},
	{"Array.indexOf", "[a].indexOf(b)===0", "[a].indexOf(b)===-1", false},
	{"length", "a.length===b.length", "", true},
	{"charCodeAt", "(function(){for(var i=0;i<a.length;i++)if(a.charCodeAt(i)!==b.charCodeAt(i))return false;return true})()", "", false},
	{"codePoints", "(function(){var p=[...a],q=[...b];if(p.length!==q.length)return false;for(var i=0;i<p.length;i++)if(p[i].codePointAt(0)!==q[i].codePointAt(0))return false;return true})()", "", false},
	{"search", "a.startsWith(b)&&a.endsWith(b)&&a.includes(b)&&a.indexOf(b)===0&&a.lastIndexOf(b)===0", "!(a.startsWith(b)&&b.startsWith(a))", false},
}

// Go-API observables (index continues after the JS ones)
var goObservables = []string{"Go:SameAs", "Go:StrictEquals", "Go:Equals", "Go:CompareTo", "Go:Export", "Go:String"}

func (w *wctx) compileObservables() {
	var ms, md, ls, ld strings.Builder
	ms.WriteString("(function(a,b,lt){var m=0;")
	md.WriteString("(function(a,b,lt){var m=0;")
	ls.WriteString("(function(a,b,lt){var m=0;")
	ld.WriteString("(function(a,b,lt){var m=0;")
	for i, o := range observables {
		if o.lite {
			fmt.Fprintf(&ls, "if(!(%s))m|=%d;", o.same, 1<<i)
			if o.diff != "" {
				fmt.Fprintf(&ld, "if(!(%s))m|=%d;", o.diff, 1<<i)
			}
		}
		w.obsSame = append(w.obsSame, mustFn(w.vm, "(function(a,b,lt){return "+o.same+"})"))
		fmt.Fprintf(&ms, "if(!(%s))m|=%d;", o.same, 1<<i)
		if o.diff != "" {
			w.obsDiff = append(w.obsDiff, mustFn(w.vm, "(function(a,b,lt){return "+o.diff+"})"))
			fmt.Fprintf(&md, "if(!(%s))m|=%d;", o.diff, 1<<i)
		} else {
			w.obsDiff = append(w.obsDiff, nil)
		}
	}
	ms.WriteString("return m})")
	md.WriteString("return m})")
	ls.WriteString("return m})")
	ld.WriteString("return m})")
	w.maskSame = mustFn(w.vm, ms.String())
	w.maskDiff = mustFn(w.vm, md.String())
	w.liteSame = mustFn(w.vm, ls.String())
	w.liteDiff = mustFn(w.vm, ld.String())
}

type pairFail struct {
	sig, what, obs string
	same           bool
}

// fresh returns a value in state st: the cached one if the representation is immutable. A lazily scanned
// imported string changes when it is first observed, so it is produced anew: its whole internal state is the
// Go string (valid UTF-8, checked when the state was recorded) plus "not scanned", which ToValue reproduces
// exactly for more than 16 bytes; shorter ones (JSON.stringify results) re-evaluate the witness tree.
func (w *wctx) fresh(st *state) goja.Value {
	if st.val != nil {
		return st.val
	}
	if len(st.goStr) > 16 {
		return w.vm.ToValue(st.goStr)
	}
	v, rk, _, ok := w.pure(st.wit)
	if !ok || rk != strmodel.String {
		panic("c06: witness of a state no longer evaluates: " + st.wit.String())
	}
	return v
}

func mutable(st *state) bool { return st.val == nil }

func goObserve(i int, a, b goja.Value, same bool, cmp int, wellFormed bool, model S) bool {
	as, bs := a.(goja.String), b.(goja.String)
	switch goObservables[i] {
	case "Go:SameAs":
		return a.SameAs(b) == same
	case "Go:StrictEquals":
		return a.StrictEquals(b) == same
	case "Go:Equals":
		return a.Equals(b) == same
	case "Go:CompareTo":
		c := as.CompareTo(bs)
		return sign(c) == cmp
	case "Go:Export":
		if !same {
			return true
		}
		ea, ok1 := a.Export().(string)
		eb, ok2 := b.Export().(string)
		if !ok1 || !ok2 || ea != eb {
			return false
		}
		if wellFormed {
			g, _ := strmodel.ToGo(model)
			return ea == g
		}
		return true
	case "Go:String":
		if !same {
			return true
		}
		if a.String() != b.String() {
			return false
		}
		if wellFormed {
			g, _ := strmodel.ToGo(model)
			return a.String() == g
		}
		return true
	}
	panic("unknown go observable")
}

func sign(c int) int {
	switch {
	case c < 0:
		return -1
	case c > 0:
		return 1
	}
	return 0
}

func toBool(v goja.Value, err error) bool { return err == nil && v != nil && v.ToBoolean() }

// comparePair evaluates every observable on the ordered pair (sa, sb). same: the two states have equal
// code units; otherwise cmp is the model's code-unit order of sa vs sb. It returns the failures and the
// number of observations made.
func (w *wctx) comparePair(sa, sb *state, same bool, cmp int, full bool) (fails []pairFail, n int64) {
	rel := "same-content:" + contentClass(sa.units)
	if !same {
		rel = "different-content:" + relation(sa.units, sb.units)
	}
	report := func(obs string, detail string) {
		fails = append(fails, pairFail{
			sig:  fmt.Sprintf("pair|%s|%s~%s|%s", obs, sa.tag, sb.tag, rel),
			what: fmt.Sprintf("observable %s on a=%s [%s] and b=%s [%s] (%s)%s", obs, showUnits(sa.units), sa.tag, showUnits(sb.units), sb.tag, rel, detail),
			obs:  obs, same: same})
	}
	wellFormed := !strmodel.HasLone(sa.units)
	ltv := w.vm.ToValue(cmp < 0)
	if !mutable(sa) && !mutable(sb) {
		a, b := sa.val, sb.val
		f := w.maskSame
		switch {
		case full && !same:
			f = w.maskDiff
		case !full && same:
			f = w.liteSame
		case !full && !same:
			f = w.liteDiff
		}
		v, err := f(goja.Undefined(), a, b, ltv)
		for _, o := range observables {
			if full || o.lite {
				n++
			}
		}
		if err != nil {
			report("exception", ": "+err.Error())
		} else if m := v.ToInteger(); m != 0 {
			for i, o := range observables {
				if m&(1<<i) != 0 {
					report(o.name, "")
				}
			}
		}
		for i := range goObservables {
			n++
			if !goObserve(i, a, b, same, cmp, wellFormed, sa.units) {
				report(goObservables[i], "")
			}
		}
		return
	}
	// at least one side is a lazily scanned imported string: every observable gets fresh values, so each
	// of them is the FIRST operation applied to the unscanned string.
	for i, o := range observables {
		f := w.obsSame[i]
		if !same {
			f = w.obsDiff[i]
		}
		if f == nil || (!full && !o.lite) {
			continue
		}
		n++
		if !toBool(f(goja.Undefined(), w.fresh(sa), w.fresh(sb), ltv)) {
			report(o.name, " (first observation of the unscanned string)")
		}
	}
	for i := range goObservables {
		n++
		if !goObserve(i, w.fresh(sa), w.fresh(sb), same, cmp, wellFormed, sa.units) {
			report(goObservables[i], " (first observation of the unscanned string)")
		}
	}
	return
}

func relation(a, b S) string {
	short, long := a, b
	if len(a) > len(b) {
		short, long = b, a
	}
	if len(short) < len(long) && strmodel.Equal(short, long[:len(short)]) {
		return "proper-prefix"
	}
	if len(a) == len(b) {
		return "same-length"
	}
	return "other"
}
