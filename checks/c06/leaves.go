package c06

import (
	"fmt"
	"strings"

	"verif/ref/strmodel"
)

type S = strmodel.S

// leaf is one string of the leaf alphabet.
type leaf struct {
	name  string // readable name
	units S
	arg   bool // member of the reduced argument pool A used for the side operands at depth >= 2
	tmpl  bool // member of the replacement-template pool Z
	zOnly bool // only ever used as a replacement template ($-patterns)
}

// The small pools used for the side operands in the restricted levels: (leaf name, representation tag).
var smallA = [][2]string{{"empty", "ascii"}, {"a", "ascii"}, {"e-acute", "utf16"}, {"lone-hi", "utf16"}, {"e-acute*9", "imported:unscanned"}}
var smallZ = [][2]string{{"empty", "ascii"}, {"e-acute", "utf16"}, {"$&$&", "ascii"}}

func rep(u S, n int) S {
	res := S{}
	for i := 0; i < n; i++ {
		res = append(res, u...)
	}
	return res
}

func cat(parts ...S) S { return strmodel.Concat(parts...) }

const (
	hi  = 0xD801 // lone high surrogate; hi+lo = U+10428 DESERET SMALL LETTER LONG I (upper-case U+10400)
	lo  = 0xDC28
	ohm = 0x2126 // OHM SIGN: NFC -> U+03A9, toLowerCase -> U+03C9
)

// The alphabet, simplest first. 1-3 unit strings over {a, A, é, ß, ǆ, Ω, U+FFFF, astral pair, lone high,
// lone low, low+high, NBSP, BOM}, ASCII white space, a decomposed é, then strings longer than 16 UTF-8 bytes
// (the ToValue threshold for lazily scanned imported strings), then $-templates for the replace family.
var leaves = []leaf{
	{name: "empty", units: S{}, arg: true, tmpl: true},
	{name: "a", units: S{'a'}, arg: true, tmpl: true},
	{name: "A", units: S{'A'}},
	{name: "e-acute", units: S{0xE9}, arg: true, tmpl: true},
	{name: "sharp-s", units: S{0xDF}},
	{name: "dz-caron", units: S{0x1C6}},
	{name: "ohm", units: S{ohm}},
	{name: "U+FFFF", units: S{0xFFFF}},
	{name: "astral", units: S{hi, lo}, arg: true},
	{name: "lone-hi", units: S{hi}, arg: true},
	{name: "lone-lo", units: S{lo}, arg: true, tmpl: true},
	{name: "lo+hi", units: S{lo, hi}},
	{name: "NBSP", units: S{0xA0}, arg: true},
	{name: "BOM", units: S{0xFEFF}},
	{name: "aA", units: S{'a', 'A'}},
	{name: "a+e-acute", units: S{'a', 0xE9}, arg: true},
	{name: "e-acute+a", units: S{0xE9, 'a'}},
	{name: "a+hi", units: S{'a', hi}},
	{name: "lo+a", units: S{lo, 'a'}},
	{name: "hi+astral", units: S{hi, hi, lo}},
	{name: "astral+lo", units: S{hi, lo, lo}},
	{name: "TAB-a-LF", units: S{'\t', 'a', '\n'}},
	{name: "NBSP-a-BOM", units: S{0xA0, 'a', 0xFEFF}},
	{name: "aaa", units: S{'a', 'a', 'a'}},
	{name: "e+combining-acute", units: S{'e', 0x301}},
	// > 16 UTF-8 bytes
	{name: "a*17", units: rep(S{'a'}, 17), arg: true},
	{name: "e-acute*9", units: rep(S{0xE9}, 9), arg: true},
	{name: "a*16+e-acute", units: cat(rep(S{'a'}, 16), S{0xE9})},
	{name: "astral*5", units: rep(S{hi, lo}, 5)},
	{name: "NBSP+a*15+BOM", units: cat(S{0xA0}, rep(S{'a'}, 15), S{0xFEFF})},
	{name: "TAB+a*16+LF", units: cat(S{'\t'}, rep(S{'a'}, 16), S{'\n'})},
	// replacement templates
	{name: "$&$&", units: strmodel.FromGo("$&$&"), tmpl: true, zOnly: true},
	{name: "$'$`", units: strmodel.FromGo("$'$`"), tmpl: true, zOnly: true},
	{name: "$2$1", units: strmodel.FromGo("$2$1"), tmpl: true, zOnly: true},
	{name: "$$", units: strmodel.FromGo("$$"), tmpl: true, zOnly: true},
}

// jsLiteral renders units as a JS string literal; raw=true writes well-formed non-ASCII text as raw
// UTF-8 source characters, otherwise everything outside printable ASCII is a \uXXXX escape.
func jsLiteral(u S, raw bool) string {
	var sb strings.Builder
	sb.WriteByte('"')
	if raw {
		for _, r := range strmodel.CodePoints(u) {
			switch {
			case r == '"' || r == '\\':
				sb.WriteByte('\\')
				sb.WriteRune(r)
			case r < 0x20 || r == 0x2028 || r == 0x2029:
				fmt.Fprintf(&sb, "\\u%04x", r)
			default:
				sb.WriteRune(r)
			}
		}
	} else {
		for _, c := range u {
			switch {
			case c == '"' || c == '\\':
				sb.WriteByte('\\')
				sb.WriteByte(byte(c))
			case c >= 0x20 && c < 0x7F:
				sb.WriteByte(byte(c))
			default:
				fmt.Fprintf(&sb, "\\u%04x", c)
			}
		}
	}
	sb.WriteByte('"')
	return sb.String()
}

// showUnits renders units for messages: printable ASCII as is, everything else as \uXXXX.
func showUnits(u S) string {
	s := jsLiteral(u, false)
	if len(s) > 140 {
		s = s[:137] + `..."`
	}
	return s
}

// contentClass names the "hardest" kind of code unit present (used in signatures).
func contentClass(vals ...S) string {
	best := 0
	for _, u := range vals {
		c := 0
		switch {
		case strmodel.HasLone(u):
			c = 4
		default:
			for _, x := range u {
				switch {
				case strmodel.IsHigh(x) || strmodel.IsLow(x):
					c = max(c, 3)
				case x >= 0x100:
					c = max(c, 2)
				case x >= 0x80:
					c = max(c, 1)
				}
			}
		}
		best = max(best, c)
	}
	return [...]string{"ascii", "latin1", "bmp", "astral", "lone-surrogate"}[best]
}
