// Package c06 decides C06 (strings with equal UTF-16 content are indistinguishable, whatever their origin) by
// bounded-exhaustive enumeration of string-producing expression trees that are evaluated in lock-step on goja
// and on the []uint16 reference model verif/ref/strmodel, followed by an exhaustive pairwise comparison of all
// internal representations that were reached for every distinct string content.
package c06

import (
	"encoding/json"
	"fmt"
	"os"
	"os/exec"
	"runtime/debug"
	"runtime/pprof"
	"sort"
	"strings"
	"sync"
	"sync/atomic"
	"syscall"
	"time"

	"verif/core"
	"verif/ref/strmodel"

	"github.com/dop251/goja"
)

func init() {
	if p := os.Getenv("VERIF_C06_PROBE"); p != "" {
		probeChild(p)
	}
	core.Register(&core.Check{
		ID:    "C06",
		Level: "exploration",
		Rule: "Enumeration by index, no sampling. depth0: every alphabet string x every construction route. depth1-full: every operation variant x ALL depth-0 representation states in every operand position (templates of the replace family: depth-0 states + $-templates). depth2-restricted: every 'deep' operation variant (all unary non-regexp variants and a fixed subset of the binary/ternary/regexp ones) with one operand (position 1 or 2) ranging over ALL representation states first reached at depth 1 whose length is <= 24 code units, the other operands over the small pools. thorough adds depth2-full (all variants, every operand position, the large pools A and Z) and depth3-restricted (as depth2-restricted over the depth-2 states; judged against the model only). " +
			"A representation state is (internal representation tag, code units); operations only see that state of their operands, so each state is expanded once (witness = the first tree reaching it in enumeration order). Every tree is judged against strmodel: result kind, code units, representation normal form. After every recording stage, for every distinct content (group) all ordered pairs of reached representation states are compared through every observable (a lazily scanned imported string is produced afresh for every single observation), and every group is compared with its successor in code-unit order and with its one-unit-shorter prefix (equal tags: reduced observable set). " +
			"distinct_nontrivial counts the groups (distinct contents) for which at least 2 internal representations were reached and compared pairwise; groups are distinct by construction.",
		Run:    run,
		Replay: replay,
	})
}

// state is one internal representation state of a string: (representation tag, code units).
type state struct {
	tag   string
	units S
	wit   *tree
	level int        // depth of the witness tree
	stage int        // stage that reached the state first
	idx   int64      // enumeration index of the witness inside its stage (smallest wins: deterministic)
	val   goja.Value // cached value when the representation is immutable (everything except imported:unscanned)
	goStr string     // imported:unscanned only: the Go string held by the value (= UTF-8 of units)
}

// stage is one enumeration pass. restricted: only the "deep" operation variants, side operands from the small
// pools, no frontier in the third operand position. record: newly reached states are kept (for the pair
// phase and as the frontier of the next depth).
type stage struct {
	name       string
	depth      int
	restricted bool
	record     bool
	no         int
}

// maxStates bounds the memory of the state table (thorough tier); beyond it new states are not recorded and
// the run is reported as not exhaustive.
const maxStates = 6_000_000

type group struct {
	units  S
	states []*state
	dirty  bool // gained a state since the last pair phase
}

type checker struct {
	r      *core.Run
	ws     []*wctx
	states map[string]*state // by stateKey
	groups map[string]*group // by unitsKey
	level0 []*state          // all level-0 states except template-only leaves
	tmpl0  []*state          // level-0 states of the template-only leaves
	poolA  []*state
	poolZ  []*state
	smallA []*state
	smallZ []*state

	stateCapHit atomic.Bool
	cut         atomic.Bool // the soft deadline stopped a stage
	sink        sink
	hangRA      bool // the replaceAll("")-on-UTF-16 hang is present: that class is excluded from the enumeration
	aborted     atomic.Bool

	slots []slot // watchdog
}

// slot is what one worker is currently evaluating (read by the watchdog only when seq stopped moving).
type slot struct {
	seq    atomic.Uint64
	active atomic.Bool
	t      *tree
	op     *op
	args   [3]*state
	_      [64]byte
}

func run(r *core.Run) {
	if pf := os.Getenv("VERIF_C06_PROF"); pf != "" {
		f, _ := os.Create(pf)
		pprof.StartCPUProfile(f)
		defer pprof.StopCPUProfile()
		defer func() {
			f2, _ := os.Create(pf + ".allocs")
			pprof.Lookup("allocs").WriteTo(f2, 0)
			f2.Close()
		}()
	}
	if os.Getenv("VERIF_C06_OPTIMES") != "" {
		opTimes, opCounts = make([]atomic.Int64, len(ops)), make([]atomic.Int64, len(ops))
		defer dumpOpTimes()
	}
	if v := os.Getenv("VERIF_C06_GOGC"); v != "" { // diagnostic only
		gcp := 100
		fmt.Sscan(v, &gcp)
		debug.SetGCPercent(gcp)
	}
	c := &checker{r: r, states: map[string]*state{}, groups: map[string]*group{}}
	c.ws = make([]*wctx, r.Workers)
	for i := range c.ws {
		c.ws[i] = newWctx()
	}
	c.slots = make([]slot, r.Workers)
	r.Assume("Go strings passed to ToValue / Object.Set / StringBuilder.WriteUTF8String are valid UTF-8 (documented caveat); trees whose model value has a lone surrogate are not sent through those routes")
	r.Assume("JSON.parse of text containing or denoting a lone surrogate is excluded (README: JSON.parse works in UTF-8)")
	r.Assume("Export()/String() of a string with lone surrogates is lossy by nature: only equality of the exported Go strings of equal-content values is demanded")
	r.Assume("case mapping / normalisation tables of golang.org/x/text are trusted (the model applies them to well-formed runs only)")
	r.Assume("operations depend only on the representation state (tag, code units) of their operands, so expanding one witness per state covers all trees reaching that state")

	// stages, in this order (a run that hits its budget has still completed a prefix of them)
	stages := []stage{
		{name: "depth0", depth: 0, record: true},
		{name: "depth1-full", depth: 1, record: true},
		{name: "depth2-restricted", depth: 2, restricted: true, record: true},
	}
	if r.Thorough() {
		stages = append(stages,
			stage{name: "depth2-full", depth: 2, record: true},
			stage{name: "depth3-restricted", depth: 3, restricted: true, record: false})
	}
	if v := os.Getenv("VERIF_C06_STAGES"); v != "" { // diagnostic only
		n := len(stages)
		fmt.Sscan(v, &n)
		stages = stages[:min(n, len(stages))]
	}
	r.Set("op_variants", len(ops))
	r.Set("alphabet_strings", len(leaves))

	c.hangProbe()
	if !c.corpus() {
		return
	}
	complete := true
	var completed []string
	for i := range stages {
		st := &stages[i]
		st.no = i
		if r.Expired() || c.cut.Load() {
			complete = false
			break
		}
		t0, c0 := time.Now(), cpuSeconds()
		ok := c.level(st)
		r.Set(st.name+"_seconds", time.Since(t0).Seconds())
		r.Set(st.name+"_cpu_seconds", cpuSeconds()-c0)
		t0, c0 = time.Now(), cpuSeconds()
		if c.aborted.Load() {
			return
		}
		if !ok {
			complete = false
			break
		}
		if st.record {
			pok := c.pairPhase(st.name)
			r.Set(st.name+"_pairs_seconds", time.Since(t0).Seconds())
			r.Set(st.name+"_pairs_cpu_seconds", cpuSeconds()-c0)
			if c.aborted.Load() {
				return
			}
			if !pok {
				complete = false
				break
			}
		}
		completed = append(completed, st.name)
		r.Set("bounds_completed", strings.Join(completed, ", "))
	}
	if c.stateCapHit.Load() {
		complete = false
		r.Set("state_cap_hit", true)
	}
	if c.cut.Load() {
		complete = false
		r.Set("budget_cut", fmt.Sprintf("work distribution stopped %v before the deadline", softMargin))
	}
	nt := int64(0)
	reprs := map[string]int64{}
	for _, g := range c.groups {
		if len(g.states) >= 2 && !g.dirty { // dirty: a state was added whose pairs were not compared (run cut)
			nt++
		}
		for _, s := range g.states {
			reprs[s.tag]++
		}
	}
	r.NontrivialN(nt)
	r.Set("groups", len(c.groups))
	r.Set("representation_states", len(c.states))
	r.Set("states_by_representation", reprs)
	r.Exhaustive(complete)
}

// cpuSeconds is the process CPU time (user+sys); reported for information only, nothing depends on it.
func cpuSeconds() float64 {
	var ru syscall.Rusage
	if syscall.Getrusage(syscall.RUSAGE_SELF, &ru) != nil {
		return 0
	}
	return float64(ru.Utime.Sec+ru.Stime.Sec) + float64(ru.Utime.Usec+ru.Stime.Usec)/1e6
}

// ---------- watchdog-guarded parallel section ----------

const hangLimit = 10 * time.Second

// softMargin: see guarded.
const softMargin = 4 * time.Second

// maxExpandLen: results longer than this many code units are judged and take part in the pair phase but are
// not expanded further (the leaf alphabet's longest string has 19 units).
const maxExpandLen = 24

// guarded runs r.Parallel and returns early (aborted) when one worker sits on a single case for longer
// than hangLimit: the operation is then a non-terminating native loop, which no deadline can interrupt.
func (c *checker) guarded(n, chunk int64, what string, fn func(worker int, lo, hi int64)) bool {
	// stop handing out work a little before core's deadline so that the bookkeeping after the last chunk
	// (flush, counters, evidence) still fits into the budget
	soft := c.r.Deadline.Add(-softMargin)
	doneCh := make(chan bool, 1)
	go func() {
		ok := c.r.Parallel(n, chunk, func(worker int, lo, hi int64) {
			if time.Now().After(soft) {
				c.cut.Store(true)
				return
			}
			fn(worker, lo, hi)
		})
		doneCh <- ok && !c.cut.Load()
	}()
	last := make([]uint64, len(c.slots))
	since := make([]time.Time, len(c.slots))
	now := time.Now()
	for i := range since {
		since[i] = now
	}
	tick := time.NewTicker(250 * time.Millisecond)
	defer tick.Stop()
	for {
		select {
		case ok := <-doneCh:
			return ok
		case now := <-tick.C:
			for i := range c.slots {
				sl := &c.slots[i]
				s := sl.seq.Load()
				if s != last[i] || !sl.active.Load() {
					last[i], since[i] = s, now
					continue
				}
				if now.Sub(since[i]) > hangLimit {
					t := sl.t
					if t == nil && sl.op != nil {
						t = &tree{op: sl.op}
						for p := 0; p < sl.op.arity; p++ {
							t.args = append(t.args, sl.args[p].wit)
						}
					}
					if t == nil {
						last[i], since[i] = s, now
						continue
					}
					// a starved worker on a busy machine looks the same: only believe a hang that reproduces
					// twice in a child process evaluating nothing but this tree
					if probe(t) != "hang" || probe(t) != "hang" {
						last[i], since[i] = s, time.Now()
						continue
					}
					c.r.Violation("hang|"+opClassOf(t), fmt.Sprintf("%s: evaluation of %s does not terminate (confirmed twice in a child process; the run was aborted)", what, t.String()),
						map[string]interface{}{"kind": "tree", "tree": t, "hang": true})
					c.aborted.Store(true)
					return false
				}
			}
		}
	}
}

func (c *checker) begin(worker int, t *tree) {
	sl := &c.slots[worker]
	sl.t, sl.op = t, nil
	sl.active.Store(true)
	sl.seq.Add(1)
}
func (c *checker) end(worker int) { sl := &c.slots[worker]; sl.active.Store(false); sl.seq.Add(1) }

// ---------- known hang: replaceAll("") on a UTF-16 string ----------

func leafByName(name, form string) *tree {
	for i, l := range leaves {
		if l.name == name {
			return &tree{leaf: i, form: form}
		}
	}
	panic("no leaf " + name)
}

func T(opName string, args ...*tree) *tree {
	o := opByName[opName]
	if o == nil {
		panic("no op " + opName)
	}
	return &tree{op: o, args: args}
}

// hangProbe evaluates `"é".replaceAll("", "a")` in a child process: on the pinned tree this never returns
// (unicodeString.index reports a match beyond the end of the string, String.prototype.replaceAll loops and
// allocates for ever), which cannot be interrupted in-process.
func (c *checker) hangProbe() {
	t := T("x.replaceAll(y,z)", leafByName("e-acute", "lit"), leafByName("empty", "lit"), leafByName("a", "lit"))
	res := make(chan string, 2)
	for i := 0; i < 2; i++ { // a hang must reproduce: two children, side by side
		go func() { res <- probe(t) }()
	}
	r1, r2 := <-res, <-res
	hang := r1 == "hang" && r2 == "hang"
	c.hangRA = hang
	c.r.Eval(1)
	if hang {
		c.r.Violation("replaceAll|empty-search-on-utf16-receiver->hang",
			`"é".replaceAll("", "a") never returns (unbounded allocation), whereas "e".replaceAll("", "a") is "aea": unicodeString.index returns start for an empty needle even when start > length`,
			map[string]interface{}{"kind": "tree", "tree": t, "hang": true, "signature": "replaceAll|empty-search-on-utf16-receiver->hang"})
		c.r.Set("excluded_class", `replaceAll with an empty search string on a receiver stored as UTF-16 (known hang), skipped cases counted in "skipped_known_hang"`)
	}
}

// probe evaluates one tree in a child process and returns "ok", "fail:<signature>", "hang" or "error".
// "hang" is decided on the CHILD'S CPU TIME (and memory), not on wall-clock time: on a busy machine a
// healthy child may be starved for a long time, but only a non-terminating evaluation burns CPU without end.
func probe(t *tree) string {
	b, _ := json.Marshal(t)
	cmd := exec.Command(os.Args[0])
	cmd.Env = append(os.Environ(), "VERIF_C06_PROBE="+string(b))
	out := &limitedBuf{}
	cmd.Stdout = out
	if err := cmd.Start(); err != nil {
		return "error"
	}
	done := make(chan error, 1)
	go func() { done <- cmd.Wait() }()
	tick := time.NewTicker(100 * time.Millisecond)
	defer tick.Stop()
	start := time.Now()
	for {
		select {
		case <-done:
			return string(out.b)
		case <-tick.C:
			cpu, rss := procUsage(cmd.Process.Pid)
			if cpu > probeCPULimit || rss > probeRSSLimit {
				cmd.Process.Kill()
				<-done
				return "hang"
			}
			if time.Since(start) > probeWallLimit {
				cmd.Process.Kill()
				<-done
				return "error"
			}
		}
	}
}

// procUsage reads CPU seconds (user+sys) and resident bytes of a process from /proc.
func procUsage(pid int) (cpu float64, rss int64) {
	data, err := os.ReadFile(fmt.Sprintf("/proc/%d/stat", pid))
	if err != nil {
		return 0, 0
	}
	s := string(data)
	i := strings.LastIndexByte(s, ')') // the command name may contain spaces
	if i < 0 {
		return 0, 0
	}
	f := strings.Fields(s[i+1:]) // f[0] is field 3 (state)
	if len(f) < 22 {
		return 0, 0
	}
	var ut, st, pages int64
	fmt.Sscan(f[11], &ut)
	fmt.Sscan(f[12], &st)
	fmt.Sscan(f[21], &pages)
	return float64(ut+st) / 100, pages * int64(os.Getpagesize())
}

// A single tree evaluates in well under a millisecond and the child needs ~0.1 CPU-seconds to start.
const (
	probeCPULimit  = 3.0     // CPU seconds
	probeRSSLimit  = 2 << 30 // bytes
	probeWallLimit = 5 * time.Minute
)

type limitedBuf struct{ b []byte }

func (l *limitedBuf) Write(p []byte) (int, error) {
	if len(l.b) < 1<<16 {
		l.b = append(l.b, p...)
	}
	return len(p), nil
}

func probeChild(p string) {
	var j treeJSON
	if err := json.Unmarshal([]byte(p), &j); err != nil {
		fmt.Print("error")
		os.Exit(0)
	}
	t, err := treeFromJSON(&j)
	if err != nil {
		fmt.Print("error")
		os.Exit(0)
	}
	w := newWctx()
	_, f, _ := w.evalTree(t)
	if f != nil {
		fmt.Print("fail:" + f.sig)
	} else {
		fmt.Print("ok")
	}
	os.Exit(0)
}

// skipKnownHang: the class excluded from the enumeration while the hang is present.
func (c *checker) skipKnownHang(o *op, real []*state) bool {
	if !c.hangRA || (o.class != "replaceAll" && o.class != "replaceAll(fn)") {
		return false
	}
	return len(real[1].units) == 0 && !strmodel.IsASCII(real[0].units)
}

// ---------- regression corpus (run first) ----------

func corpusTrees() []*tree {
	hiL := func() *tree { return leafByName("lone-hi", "lit") }
	loL := func() *tree { return leafByName("lone-lo", "fromCharCode") }
	var res []*tree
	for _, o := range []string{"x.toLowerCase()", "x.toUpperCase()", "x.normalize()", `x.normalize("NFD")`, `x.normalize("NFKC")`, `x.normalize("NFKD")`,
		"x.trim()", "x.trimStart()", "x.trimEnd()"} {
		res = append(res, T(o, hiL()), T(o, loL()), T(o, leafByName("a+hi", "lit")), T(o, leafByName("lo+hi", "go:StringFromUTF16")))
	}
	return res
}

func (c *checker) corpus() bool {
	w := c.ws[0]
	for i, t := range corpusTrees() {
		c.r.Eval(1)
		_, f, _ := w.evalTree(t)
		if f != nil {
			c.reportTree(t, f, int64(i))
		}
	}
	c.flush()
	return true
}

// confirm re-evaluates t five times on fresh runtimes; the failure must reproduce with the same signature.
func confirm(t *tree, sig string) bool {
	for i := 0; i < 5; i++ {
		w := newWctx()
		_, f, _ := w.evalTree(t)
		if f == nil || f.sig != sig {
			return false
		}
	}
	return true
}

// Failures are collected per signature and flushed after every phase: the case that is kept for a
// signature is the one with the smallest enumeration order (so the reported example is the simplest one and
// the same on every run, whatever the worker scheduling), and it is re-run 5x on fresh runtimes first.
type pending struct {
	sig, what string
	order     int64
	count     int64
	payload   interface{}
	confirm   func() bool
}

type sink struct {
	mu sync.Mutex
	m  map[string]*pending
}

func (s *sink) add(sig, what string, order int64, payload interface{}, confirm func() bool) {
	s.mu.Lock()
	defer s.mu.Unlock()
	if s.m == nil {
		s.m = map[string]*pending{}
	}
	p := s.m[sig]
	if p == nil {
		s.m[sig] = &pending{sig: sig, what: what, order: order, count: 1, payload: payload, confirm: confirm}
		return
	}
	p.count++
	if order < p.order {
		p.what, p.order, p.payload, p.confirm = what, order, payload, confirm
	}
}

var confirmed = map[string]bool{} // signature -> reproduced 5x (decided once per signature)

func (c *checker) flush() {
	c.sink.mu.Lock()
	m := c.sink.m
	c.sink.m = nil
	c.sink.mu.Unlock()
	sigs := make([]string, 0, len(m))
	for k := range m {
		sigs = append(sigs, k)
	}
	sort.Strings(sigs)
	for _, k := range sigs {
		p := m[k]
		ok, seen := confirmed[k]
		if !seen {
			ok = p.confirm == nil || p.confirm()
			confirmed[k] = ok
		}
		sig, what := p.sig, p.what
		if !ok {
			sig, what = "flaky|"+sig, "not reproducible 5x on fresh runtimes: "+what
		}
		for i := int64(0); i < p.count; i++ {
			c.r.Violation(sig, what, p.payload)
		}
	}
}

func (c *checker) reportTree(t *tree, f *fail, order int64) {
	c.sink.add(f.sig, f.what, order, map[string]interface{}{"kind": "tree", "tree": t, "text": t.String()}, func() bool { return confirm(t, f.sig) })
}

// ---------- level enumeration ----------

// diagnostic: per-op wall time (VERIF_C06_OPTIMES=1)
var opTimes, opCounts []atomic.Int64

func dumpOpTimes() {
	type e struct {
		name string
		t, n int64
	}
	var es []e
	for i, o := range ops {
		es = append(es, e{o.name, opTimes[i].Load(), opCounts[i].Load()})
	}
	sort.Slice(es, func(i, j int) bool { return es[i].t > es[j].t })
	for _, x := range es[:25] {
		fmt.Fprintf(os.Stderr, "%8.2fs %9d %7.1fus  %s\n", float64(x.t)/1e9, x.n, float64(x.t)/1e3/float64(max(x.n, 1)), x.name)
	}
}

type block struct {
	op    *op
	pools [][]*state
	size  int64
	off   int64
}

func (c *checker) level(sg *stage) bool {
	d := sg.depth
	if d == 0 {
		return c.level0run()
	}
	var frontier []*state
	for _, s := range c.states {
		if s.level == d-1 && (d == 1 || len(s.units) <= maxExpandLen) {
			frontier = append(frontier, s)
		}
	}
	sort.Slice(frontier, func(i, j int) bool {
		if frontier[i].stage != frontier[j].stage {
			return frontier[i].stage < frontier[j].stage
		}
		return frontier[i].idx < frontier[j].idx
	})
	if v := os.Getenv("VERIF_C06_FRONTIER_MOD"); v != "" && d >= 2 { // diagnostic only (smoke tests of the deep stages)
		k := 1
		fmt.Sscan(v, &k)
		var sub []*state
		for i, s := range frontier {
			if i%max(k, 1) == 0 {
				sub = append(sub, s)
			}
		}
		frontier = sub
		c.stateCapHit.Store(true) // such a run is never reported as exhaustive
	}
	if os.Getenv("VERIF_C06_HIST") != "" {
		hist := map[int]int{}
		for _, s := range frontier {
			hist[len(s.units)/4*4]++
		}
		fmt.Fprintln(os.Stderr, "frontier length histogram (bucket of 4):", hist)
	}
	var blocks []*block
	var total int64
	addBlock := func(o *op, pools [][]*state) {
		b := &block{op: o, pools: pools, size: 1, off: total}
		for _, p := range pools {
			b.size *= int64(len(p))
		}
		if b.size == 0 {
			return
		}
		total += b.size
		blocks = append(blocks, b)
	}
	restricted, record := sg.restricted, sg.record
	for _, o := range ops {
		if d == 1 {
			pools := make([][]*state, o.arity)
			for p := range pools {
				pools[p] = frontier
				if p == o.tmplPos {
					pools[p] = append(append([]*state{}, frontier...), c.tmpl0...)
				}
			}
			addBlock(o, pools)
			continue
		}
		if restricted && !o.deep {
			continue
		}
		pa, pz := c.poolA, c.poolZ
		if restricted {
			pa, pz = c.smallA, c.smallZ
		}
		for fp := 0; fp < o.arity; fp++ {
			if restricted && fp == 2 {
				continue
			}
			pools := make([][]*state, o.arity)
			for p := range pools {
				switch {
				case p == fp:
					pools[p] = frontier
				case p == o.tmplPos:
					pools[p] = pz
				default:
					pools[p] = pa
				}
			}
			addBlock(o, pools)
		}
	}
	c.r.Set(sg.name+"_trees", total)
	c.r.Set(sg.name+"_frontier_states", len(frontier))
	nStatesBefore := int64(len(c.states))
	var nNew atomic.Int64

	locals := make([]map[string]*state, c.r.Workers)
	for i := range locals {
		locals[i] = map[string]*state{}
	}
	var evals, skipped, excluded, nonString atomic.Int64
	ok := c.guarded(total, 1024, sg.name, func(worker int, lo, hi int64) {
		w := c.ws[worker]
		sl := &c.slots[worker]
		local := locals[worker]
		bi := sort.Search(len(blocks), func(i int) bool { return blocks[i].off+blocks[i].size > lo })
		operands := make([]*state, 3)
		real := make([]goja.Value, 3)
		model := make([]S, 3)
		var ne, ns, nx, nn int64
		for idx := lo; idx < hi; idx++ {
			for idx >= blocks[bi].off+blocks[bi].size {
				bi++
			}
			b := blocks[bi]
			rem := idx - b.off
			n := b.op.arity
			for p := n - 1; p >= 0; p-- {
				l := int64(len(b.pools[p]))
				operands[p] = b.pools[p][rem%l]
				rem /= l
			}
			args := operands[:n]
			if c.skipKnownHang(b.op, args) {
				ns++
				continue
			}
			var t *tree
			mk := func() *tree {
				if t == nil {
					t = &tree{op: b.op, args: make([]*tree, n)}
					for p := range args {
						t.args[p] = args[p].wit
					}
				}
				return t
			}
			for p, s := range args {
				model[p] = s.units
				real[p] = w.fresh(s)
			}
			sl.t, sl.op = nil, b.op
			copy(sl.args[:], args)
			sl.active.Store(true)
			sl.seq.Add(1)
			var t0 time.Time
			if opTimes != nil {
				t0 = time.Now()
			}
			res := w.applyOp(b.op, real[:n], model[:n])
			sl.active.Store(false)
			if opTimes != nil {
				opTimes[b.op.id].Add(int64(time.Since(t0)))
				opCounts[b.op.id].Add(1)
			}
			ne++
			if res.mk == strmodel.Excluded {
				nx++
				continue
			}
			if f := judge(b.op, b.op.name, b.op.class, model[:n], &res); f != nil {
				f.node = mk()
				c.reportTree(mk(), f, idx)
				continue
			}
			if res.rk != strmodel.String {
				nn++
				continue
			}
			if idx&(idx-1) == 0 {
				c.r.Sample(map[string]interface{}{"tree": mk().String(), "result": showUnits(res.units), "representation": res.tag})
			}
			if !record {
				continue
			}
			key := stateKey(res.tag, res.units)
			if _, known := c.states[key]; known {
				continue
			}
			if s, seen := local[key]; seen && s.idx <= idx {
				continue
			}
			if !seenLocal(local, key) && nStatesBefore+nNew.Add(1) > maxStates {
				c.stateCapHit.Store(true)
				continue
			}
			st := &state{tag: res.tag, units: res.units, wit: mk(), level: d, stage: sg.no, idx: idx}
			if !c.fillState(st, res.real) {
				continue
			}
			local[key] = st
		}
		evals.Add(ne)
		skipped.Add(ns)
		excluded.Add(nx)
		nonString.Add(nn)
	})
	c.r.Eval(evals.Load())
	c.r.Add("skipped_known_hang", skipped.Load())
	c.r.Add("excluded_documented", excluded.Load())
	c.r.Add("non_string_results_agreeing", nonString.Load())
	if c.aborted.Load() {
		return false
	}
	c.flush()
	if !ok {
		return false // cut by the budget: the partial state table of this stage is not used
	}
	c.merge(locals)
	return ok
}

// fillState completes a newly reached state from the value that reached it. For a lazily scanned imported
// string the Go string it holds must be the UTF-8 encoding of its code units (the value is then fully
// determined by that string); anything else is reported.
func (c *checker) fillState(st *state, v goja.Value) bool {
	if st.tag != "imported:unscanned" {
		st.val = v
		return true
	}
	g, ok := strmodel.ToGo(st.units)
	if e, isStr := v.Export().(string); !ok || !isStr || e != g {
		c.r.Violation("repr|"+opClassOf(st.wit)+"|imported-go-string-is-not-utf8-of-units",
			fmt.Sprintf("%s yields an imported string whose Go string %q is not the UTF-8 encoding of its code units %s", st.wit.String(), v.Export(), showUnits(st.units)),
			map[string]interface{}{"kind": "tree", "tree": st.wit, "text": st.wit.String()})
		return false
	}
	st.goStr = g
	return true
}

func opClassOf(t *tree) string {
	if t.op == nil {
		return "leaf:" + t.form
	}
	return t.op.class
}

func seenLocal(m map[string]*state, k string) bool { _, ok := m[k]; return ok }

func (c *checker) merge(locals []map[string]*state) {
	for _, l := range locals {
		for k, s := range l {
			if old, ok := c.states[k]; ok && (old.stage < s.stage || (old.stage == s.stage && old.idx <= s.idx)) {
				continue
			}
			c.states[k] = s
		}
	}
	// rebuild group membership for new states
	for k, s := range c.states {
		_ = k
		gk := unitsKey(s.units)
		g := c.groups[gk]
		if g == nil {
			g = &group{units: s.units}
			c.groups[gk] = g
			c.r.OutcomeH(core.HashString(gk))
		}
		has := false
		for i, m := range g.states {
			if m.tag == s.tag {
				has = true
				g.states[i] = s
			}
		}
		if !has {
			g.states = append(g.states, s)
			g.dirty = true
			sort.Slice(g.states, func(i, j int) bool { return g.states[i].tag < g.states[j].tag })
		}
	}
}

// level0run evaluates every alphabet string through every construction route.
func (c *checker) level0run() bool {
	w := c.ws[0]
	local := map[string]*state{}
	var idx int64
	for li, l := range leaves {
		for _, form := range leafForms {
			t := &tree{leaf: li, form: form}
			idx++
			res, f, ok := w.evalTree(t)
			if f != nil {
				c.r.Eval(1)
				c.reportTree(t, f, idx)
				continue
			}
			if !ok {
				continue
			}
			c.r.Eval(1)
			if c.r.WantSample(idx) {
				c.r.Sample(map[string]interface{}{"tree": t.String(), "result": showUnits(res.units), "representation": res.tag})
			}
			key := stateKey(res.tag, res.units)
			if l.zOnly {
				key = "tmpl\x00" + key
			}
			if _, seen := local[key]; seen {
				continue
			}
			st := &state{tag: res.tag, units: res.units, wit: t, level: 0, idx: idx}
			if !c.fillState(st, res.real) {
				continue
			}
			local[key] = st
			if l.zOnly {
				c.tmpl0 = append(c.tmpl0, st)
				c.poolZ = append(c.poolZ, st)
				continue
			}
			c.level0 = append(c.level0, st)
			if l.arg {
				c.poolA = append(c.poolA, st)
			}
			if l.tmpl {
				c.poolZ = append(c.poolZ, st)
			}
		}
	}
	for k, s := range local {
		if len(k) > 5 && k[:5] == "tmpl\x00" {
			delete(local, k)
			_ = s
		}
	}
	pick := func(list [][2]string, from []*state) (res []*state) {
		for _, e := range list {
			ok := false
			for _, st := range from {
				if leaves[st.wit.leaf].name == e[0] && st.tag == e[1] {
					res = append(res, st)
					ok = true
				}
			}
			if !ok {
				panic("c06: small pool entry not reached: " + e[0] + " " + e[1])
			}
		}
		return
	}
	c.smallA = pick(smallA, c.level0)
	c.smallZ = pick(smallZ, c.poolZ)
	c.flush()
	c.merge([]map[string]*state{local})
	c.r.Set("pool_A_small", len(c.smallA))
	c.r.Set("pool_Z_small", len(c.smallZ))
	c.r.Set("level0_states", len(c.level0))
	c.r.Set("pool_A", len(c.poolA))
	c.r.Set("pool_Z", len(c.poolZ))
	return true
}

// ---------- pair phase ----------

type pairCase struct {
	Kind string `json:"kind"`
	Obs  string `json:"observable"`
	Same bool   `json:"same_content"`
	A    *tree  `json:"a"`
	B    *tree  `json:"b"`
	Text string `json:"text"`
}

func (c *checker) pairPhase(d string) bool {
	// (a) inside every group that gained a state: all ordered pairs (including a state with itself)
	var todo []*group
	for _, g := range c.groups {
		if g.dirty {
			todo = append(todo, g)
		}
	}
	sort.Slice(todo, func(i, j int) bool { return strmodel.Compare(todo[i].units, todo[j].units) < 0 })
	var obsN atomic.Int64
	ok := c.guarded(int64(len(todo)), 64, "pair phase after "+d, func(worker int, lo, hi int64) {
		w := c.ws[worker]
		var n int64
		for i := lo; i < hi; i++ {
			g := todo[i]
			for _, sa := range g.states {
				for _, sb := range g.states {
					if sa == sb && !mutable(sa) {
						continue // the very same immutable Go value on both sides shows nothing
					}
					c.begin(worker, sa.wit)
					fails, k := w.comparePair(sa, sb, true, 0, sa.tag != sb.tag)
					c.end(worker)
					n += k
					for _, f := range fails {
						c.reportPair(sa, sb, f, i)
					}
				}
			}
			if i < 3 || (len(g.states) >= 3 && c.r.WantSample(i)) {
				var reps []string
				for _, s := range g.states {
					reps = append(reps, s.tag+" via "+s.wit.String())
				}
				c.r.Sample(map[string]interface{}{"group": showUnits(g.units), "representations_compared_pairwise": reps})
			}
		}
		obsN.Add(n)
	})
	c.flush()
	if !ok || c.aborted.Load() {
		c.r.Eval(obsN.Load())
		return false
	}
	for _, g := range todo {
		g.dirty = false
	}
	// (b) different contents: neighbours in code-unit order and the one-unit-shorter prefix
	all := make([]*group, 0, len(c.groups))
	for _, g := range c.groups {
		all = append(all, g)
	}
	sort.Slice(all, func(i, j int) bool { return strmodel.Compare(all[i].units, all[j].units) < 0 })
	ok = c.guarded(int64(len(all)), 64, "order phase after "+d, func(worker int, lo, hi int64) {
		w := c.ws[worker]
		var n int64
		cmpGroups := func(ga, gb *group, order int64) {
			cmp := strmodel.Compare(ga.units, gb.units)
			for _, sa := range ga.states {
				for _, sb := range gb.states {
					for dir := 0; dir < 2; dir++ {
						if dir == 1 && sa.tag == sb.tag && !mutable(sa) {
							break // equal representations: the operators are evaluated in both orders inside one observation
						}
						x, y, cm := sa, sb, cmp
						if dir == 1 {
							x, y, cm = sb, sa, -cmp
						}
						c.begin(worker, x.wit)
						fails, k := w.comparePair(x, y, false, cm, false)
						c.end(worker)
						n += k
						for _, f := range fails {
							c.reportPair(x, y, f, order)
						}
					}
				}
			}
		}
		for i := lo; i < hi; i++ {
			g := all[i]
			if i+1 < int64(len(all)) {
				cmpGroups(g, all[i+1], i)
			}
			if len(g.units) > 0 {
				if p := c.groups[unitsKey(g.units[:len(g.units)-1])]; p != nil && (i == 0 || p != all[i-1]) {
					cmpGroups(p, g, i)
				}
			}
		}
		obsN.Add(n)
	})
	c.flush()
	c.r.Eval(obsN.Load())
	c.r.Add("pair_observations", obsN.Load())
	return ok && !c.aborted.Load()
}

func (c *checker) reportPair(sa, sb *state, f pairFail, order int64) {
	pc := pairCase{Kind: "pair", Obs: f.obs, Same: f.same, A: sa.wit, B: sb.wit, Text: "a = " + sa.wit.String() + " ; b = " + sb.wit.String()}
	c.sink.add(f.sig, f.what, order, pc, func() bool {
		for i := 0; i < 5; i++ {
			if len(replayPair(newWctx(), &pc, f.sig)) == 0 {
				return false
			}
		}
		return true
	})
}

// replayPair re-evaluates both trees on w and compares them; it returns the failures (optionally only the
// one with signature sig).
func replayPair(w *wctx, pc *pairCase, sig string) []pairFail {
	mkState := func(t *tree) *state {
		res, f, ok := w.evalTree(t)
		if f != nil || !ok || res.rk != strmodel.String {
			return nil
		}
		st := &state{tag: res.tag, units: res.units, wit: t}
		if res.tag != "imported:unscanned" {
			st.val = res.real
		} // else: goStr stays empty, a replay always re-evaluates the tree
		return st
	}
	sa, sb := mkState(pc.A), mkState(pc.B)
	if sa == nil || sb == nil {
		return nil
	}
	same := strmodel.Equal(sa.units, sb.units)
	fails, _ := w.comparePair(sa, sb, same, strmodel.Compare(sa.units, sb.units), true)
	if sig == "" {
		return fails
	}
	var res []pairFail
	for _, f := range fails {
		if f.sig == sig {
			res = append(res, f)
		}
	}
	return res
}

// ---------- replay ----------

func replay(r *core.Run, raw json.RawMessage) {
	var hdr struct {
		Kind string    `json:"kind"`
		Tree *treeJSON `json:"tree"`
		Hang bool      `json:"hang"`
		Sig  string    `json:"signature"`
		Obs  string    `json:"observable"`
		A    *treeJSON `json:"a"`
		B    *treeJSON `json:"b"`
	}
	if err := json.Unmarshal(raw, &hdr); err != nil {
		fmt.Fprintln(os.Stderr, "bad replay case:", err)
		os.Exit(2)
	}
	switch hdr.Kind {
	case "tree":
		t, err := treeFromJSON(hdr.Tree)
		if err != nil {
			fmt.Fprintln(os.Stderr, "bad replay case:", err)
			os.Exit(2)
		}
		if hdr.Hang {
			switch res := probe(t); {
			case res == "hang":
				sig := hdr.Sig
				if sig == "" {
					sig = "hang|" + opClassOf(t)
				}
				r.Violation(sig, "evaluation of "+t.String()+" does not terminate (3 CPU-seconds or 2 GB in a child process)", raw)
			case len(res) > 5 && res[:5] == "fail:":
				r.Violation(res[5:], "evaluation of "+t.String()+" fails", raw)
			}
			return
		}
		_, f, _ := newWctx().evalTree(t)
		if f != nil {
			r.Violation(f.sig, f.what, raw)
		}
	case "pair":
		a, err1 := treeFromJSON(hdr.A)
		b, err2 := treeFromJSON(hdr.B)
		if err1 != nil || err2 != nil {
			fmt.Fprintln(os.Stderr, "bad replay case:", err1, err2)
			os.Exit(2)
		}
		for _, f := range replayPair(newWctx(), &pairCase{A: a, B: b}, "") {
			r.Violation(f.sig, f.what, raw)
		}
	default:
		fmt.Fprintln(os.Stderr, "unknown replay case kind", hdr.Kind)
		os.Exit(2)
	}
}
