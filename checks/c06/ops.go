package c06

import (
	"fmt"
	"strings"

	"verif/ref/strmodel"

	"github.com/dop251/goja"
)

type Kind = strmodel.Kind

// op is one string-producing operation variant: the real side is a JS function (js) or a Go-API route
// (goFn), the model side evaluates the same operation over []uint16.
type op struct {
	name    string // unique, printable: the JS expression over x, y, z (or go:... for Go-API routes)
	class   string // operation family used in violation signatures
	arity   int
	js      string // JS expression (or "{...}" function body) over x, y, z
	goFn    func(w *wctx, real []goja.Value, m []S) (goja.Value, Kind)
	model   func(a []S) (S, Kind)
	tmplPos int    // operand position holding a replacement template (ranges over pool Z), -1 = none
	deep    bool   // also expanded in the restricted levels (quick depth 2, thorough depth 3)
	re      string // regexp literal bound to RE in js (created once per runtime: goja recompiles a literal on every evaluation)
	id      int
}

var (
	ops      []*op
	opByName = map[string]*op{}
)

func addOp(o *op) {
	if _, dup := opByName[o.name]; dup {
		panic("duplicate op " + o.name)
	}
	o.id = len(ops)
	ops = append(ops, o)
	opByName[o.name] = o
}

func str(s S) (S, Kind) { return s, strmodel.String }

func un(name, class, js string, f func(x S) (S, Kind)) {
	addOp(&op{name: name, class: class, arity: 1, js: js, tmplPos: -1, model: func(a []S) (S, Kind) { return f(a[0]) }})
}
func un1(name, class string, f func(x S) S) { // js == name
	un(name, class, name, func(x S) (S, Kind) { return str(f(x)) })
}
func bin(name, class string, f func(x, y S) (S, Kind)) {
	addOp(&op{name: name, class: class, arity: 2, js: name, tmplPos: -1, model: func(a []S) (S, Kind) { return f(a[0], a[1]) }})
}
func bin1(name, class string, f func(x, y S) S) {
	bin(name, class, func(x, y S) (S, Kind) { return str(f(x, y)) })
}
func ter1(name, class string, tmplPos int, f func(x, y, z S) S) {
	addOp(&op{name: name, class: class, arity: 3, js: name, tmplPos: tmplPos, model: func(a []S) (S, Kind) { return str(f(a[0], a[1], a[2])) }})
}

func ident(x S) S { return append(S{}, x...) }

var (
	sEmpty = S{}
	sComma = S{','}
	sBar   = S{'|'}
)

// regexes: JS source + hand-built model tree.
type rx struct {
	src string
	re  *strmodel.Regexp
}

func chr(pred func(r rune) bool) strmodel.ReChar { return strmodel.ReChar{Pred: pred} }
func is(c rune) strmodel.ReChar                  { return chr(func(r rune) bool { return r == c }) }

var dot = chr(func(r rune) bool { return r != 0x0A && r != 0x0D && r != 0x2028 && r != 0x2029 })

var regexes = []rx{
	{`/a/`, &strmodel.Regexp{Root: is('a')}},
	{`/a/g`, &strmodel.Regexp{Root: is('a'), Global: true}},
	{`/é/g`, &strmodel.Regexp{Root: is(0xE9), Global: true}},
	{`/./`, &strmodel.Regexp{Root: dot}},
	{`/./g`, &strmodel.Regexp{Root: dot, Global: true}},
	{`/./gu`, &strmodel.Regexp{Root: dot, Global: true, Unicode: true}},
	{`/\s+/g`, &strmodel.Regexp{Root: strmodel.ReStar{Of: chr(func(r rune) bool { return r < 0x10000 && strmodel.IsWhiteSpace(uint16(r)) }), Min: 1}, Global: true}},
	{`/(?:)/g`, &strmodel.Regexp{Root: strmodel.ReSeq{}, Global: true}},
	{`/(?:)/gu`, &strmodel.Regexp{Root: strmodel.ReSeq{}, Global: true, Unicode: true}},
	{`/\ud801/g`, &strmodel.Regexp{Root: is(hi), Global: true}},
	{`/\ud801/gu`, &strmodel.Regexp{Root: is(hi), Global: true, Unicode: true}},
	{`/[\ud800-\udfff]/g`, &strmodel.Regexp{Root: chr(func(r rune) bool { return r >= 0xD800 && r <= 0xDFFF }), Global: true}},
	{`/[^a]/g`, &strmodel.Regexp{Root: chr(func(r rune) bool { return r != 'a' }), Global: true}},
	{`/[^a]/gu`, &strmodel.Regexp{Root: chr(func(r rune) bool { return r != 'a' }), Global: true, Unicode: true}},
	{`/(.)(.)/g`, &strmodel.Regexp{Root: strmodel.ReSeq{strmodel.ReGroup{Idx: 1, Of: dot}, strmodel.ReGroup{Idx: 2, Of: dot}}, NCaps: 2, Global: true}},
	{`/(.)(.)/gu`, &strmodel.Regexp{Root: strmodel.ReSeq{strmodel.ReGroup{Idx: 1, Of: dot}, strmodel.ReGroup{Idx: 2, Of: dot}}, NCaps: 2, Global: true, Unicode: true}},
	{`/\udc28$/`, &strmodel.Regexp{Root: strmodel.ReSeq{is(lo), strmodel.ReEnd{}}}},
}

// registerOps runs as a package-level initialiser, i.e. before every init() of the package.
var _ = registerOps()

func registerOps() bool {
	I, N := strmodel.Int, strmodel.None

	// --- code-unit extraction ---
	for _, a := range []struct {
		js   string
		s    int
		e    strmodel.Opt
		kind int
	}{
		{"x.slice(1)", 1, N, 0}, {"x.slice(-1)", -1, N, 0}, {"x.slice(0,1)", 0, I(1), 0}, {"x.slice(1,2)", 1, I(2), 0},
		{"x.slice(0,-1)", 0, I(-1), 0}, {"x.slice(2)", 2, N, 0}, {"x.slice(1,-1)", 1, I(-1), 0},
		{"x.substring(1)", 1, N, 1}, {"x.substring(0,1)", 0, I(1), 1}, {"x.substring(2,1)", 2, I(1), 1}, {"x.substring(1,3)", 1, I(3), 1},
		{"x.substr(1)", 1, N, 2}, {"x.substr(0,1)", 0, I(1), 2}, {"x.substr(-1)", -1, N, 2}, {"x.substr(-2,1)", -2, I(1), 2}, {"x.substr(1,2)", 1, I(2), 2},
	} {
		a := a
		switch a.kind {
		case 0:
			un1(a.js, "slice", func(x S) S { return strmodel.Slice(x, a.s, a.e) })
		case 1:
			un1(a.js, "substring", func(x S) S { return strmodel.Substring(x, a.s, a.e) })
		case 2:
			un1(a.js, "substr", func(x S) S { return strmodel.Substr(x, a.s, a.e) })
		}
	}
	for _, i := range []int{0, 1, -1} {
		i := i
		n := fmt.Sprintf("x.at(%d)", i)
		un(n, "at", n, func(x S) (S, Kind) { return strmodel.At(x, i) })
	}
	for _, i := range []int{0, 1, 2} {
		i := i
		un1(fmt.Sprintf("x.charAt(%d)", i), "charAt", func(x S) S { return strmodel.CharAt(x, i) })
	}
	for _, i := range []int{0, 1} {
		i := i
		n := fmt.Sprintf("x[%d]", i)
		un(n, "index", n, func(x S) (S, Kind) { return strmodel.Index(x, i) })
	}
	for _, n := range []int{0, 2, 3} {
		n := n
		name := fmt.Sprintf("x.repeat(%d)", n)
		un(name, "repeat", name, func(x S) (S, Kind) { return strmodel.Repeat(x, n) })
	}
	un1("x.padStart(2)", "padStart", func(x S) S { return strmodel.Pad(x, 2, nil, false, true) })
	un1("x.padEnd(2)", "padEnd", func(x S) S { return strmodel.Pad(x, 2, nil, false, false) })

	// --- trim / case / normalize ---
	un1("x.trim()", "trim", func(x S) S { return strmodel.Trim(x, 0) })
	un1("x.trimStart()", "trimStart", func(x S) S { return strmodel.Trim(x, 1) })
	un1("x.trimEnd()", "trimEnd", func(x S) S { return strmodel.Trim(x, 2) })
	un1("x.toUpperCase()", "toUpperCase", strmodel.ToUpper)
	un1("x.toLowerCase()", "toLowerCase", strmodel.ToLower)
	un("x.normalize()", "normalize", "x.normalize()", func(x S) (S, Kind) { return strmodel.Normalize(x, "NFC") })
	for _, f := range []string{"NFC", "NFD", "NFKC", "NFKD"} {
		f := f
		n := fmt.Sprintf("x.normalize(%q)", f)
		un(n, "normalize", n, func(x S) (S, Kind) { return strmodel.Normalize(x, f) })
	}

	// --- JSON ---
	un1("JSON.stringify(x)", "JSON.stringify", strmodel.QuoteJSON)
	un("JSON.parse(x)", "JSON.parse", "{var r=JSON.parse(x); if(typeof r!=='string') throw new SyntaxError('not a string'); return r}", func(x S) (S, Kind) {
		v, ok, lone := strmodel.ParseJSONString(x)
		if lone {
			return nil, strmodel.Excluded // README: JSON.parse works in UTF-8
		}
		if !ok {
			return nil, strmodel.Throws
		}
		return v, strmodel.String
	})
	jsonRT := func(x S) (S, Kind) {
		if strmodel.HasLone(x) {
			return nil, strmodel.Excluded
		}
		return ident(x), strmodel.String
	}
	un("JSON.parse(JSON.stringify(x))", "JSON.roundtrip", "JSON.parse(JSON.stringify(x))", jsonRT)
	un("JSON.parse(JSON.stringify([x]))[0]", "JSON.roundtrip", "JSON.parse(JSON.stringify([x]))[0]", jsonRT)
	un("JSON.parse(JSON.stringify({k:x})).k", "JSON.roundtrip", "JSON.parse(JSON.stringify({k:x})).k", jsonRT)
	un("Object.keys(JSON.parse(JSON.stringify({[x]:1})))[0]", "JSON.roundtrip-key", "Object.keys(JSON.parse(JSON.stringify({[x]:1})))[0]", jsonRT)

	// --- identity routes: the result must have the same code units as the input ---
	for _, js := range []string{
		"String(x)", "new String(x).valueOf()", "Object(x).toString()", "x.toString()", "`${x}`", "x+''", "''+x",
		"x.concat()", "[x].join()", "x.split('').join('')", "[...x].join('')", "Array.from(x).join('')",
		"String.fromCharCode.apply(null,units(x))", "String.fromCodePoint.apply(null,cps(x))", "String.raw({raw:[x]})",
		"Object.keys({[x]:0})[0]", "Object.getOwnPropertyNames(Object.defineProperty({},x,{value:0}))[0]", "Symbol(x).description",
		"[...new Map([[x,0]]).keys()][0]", "[...new Set([x])][0]", "unescape(escape(x))",
		"{var r='';for(var i=0;i<x.length;i++)r+=x[i];return r}",
		"{var r='';for(var c of x)r+=c;return r}",
		"Reflect.ownKeys({[x]:0})[0]",
		"/[^]*/.exec(x)[0]",
	} {
		name := js
		if strings.HasPrefix(js, "{") {
			name = "function(x)" + js
		}
		addOp(&op{name: name, class: "identity:" + name, arity: 1, js: js, tmplPos: -1, model: func(a []S) (S, Kind) { return str(ident(a[0])) }})
	}
	un("decodeURIComponent(encodeURIComponent(x))", "URI.roundtrip", "decodeURIComponent(encodeURIComponent(x))", func(x S) (S, Kind) {
		if strmodel.HasLone(x) {
			return nil, strmodel.Throws // Encode: URIError on a lone surrogate
		}
		return str(ident(x))
	})

	// --- Go API routes ---
	goUn := func(name string, f func(w *wctx, v goja.Value, m S) (goja.Value, Kind), model func(x S) (S, Kind)) {
		addOp(&op{name: name, class: name, arity: 1, tmplPos: -1,
			goFn:  func(w *wctx, real []goja.Value, m []S) (goja.Value, Kind) { return f(w, real[0], m[0]) },
			model: func(a []S) (S, Kind) { return model(a[0]) }})
	}
	wellFormedOnly := func(x S) (S, Kind) {
		if strmodel.HasLone(x) {
			return nil, strmodel.Excluded // a Go string cannot carry a lone surrogate (documented: valid UTF-8 only)
		}
		return str(ident(x))
	}
	identK := func(x S) (S, Kind) { return str(ident(x)) }
	goUn("go:StringFromUTF16(units)", func(w *wctx, v goja.Value, m S) (goja.Value, Kind) {
		return goja.StringFromUTF16(goja.VerifUnits(v)), strmodel.String
	}, identK)
	goUn("go:StringBuilder.WriteString", func(w *wctx, v goja.Value, m S) (goja.Value, Kind) {
		var sb goja.StringBuilder
		sb.WriteString(v.(goja.String))
		return sb.String(), strmodel.String
	}, identK)
	goUn("go:StringBuilder.WriteRune(each code point)", func(w *wctx, v goja.Value, m S) (goja.Value, Kind) {
		var sb goja.StringBuilder
		for _, r := range strmodel.CodePoints(goja.VerifUnits(v)) {
			sb.WriteRune(r)
		}
		return sb.String(), strmodel.String
	}, identK)
	goUn("go:StringBuilder.WriteUTF8String", func(w *wctx, v goja.Value, m S) (goja.Value, Kind) {
		g, ok := strmodel.ToGo(m)
		if !ok {
			return nil, strmodel.Excluded
		}
		var sb goja.StringBuilder
		sb.WriteUTF8String(g)
		return sb.String(), strmodel.String
	}, wellFormedOnly)
	goUn("go:ToValue(utf8)", func(w *wctx, v goja.Value, m S) (goja.Value, Kind) {
		g, ok := strmodel.ToGo(m)
		if !ok {
			return nil, strmodel.Excluded
		}
		return w.vm.ToValue(g), strmodel.String
	}, wellFormedOnly)
	goUn("go:ToValue(utf8)+scan", func(w *wctx, v goja.Value, m S) (goja.Value, Kind) {
		g, ok := strmodel.ToGo(m)
		if !ok {
			return nil, strmodel.Excluded
		}
		r := w.vm.ToValue(g)
		r.(goja.String).Length()
		return r, strmodel.String
	}, wellFormedOnly)
	goUn("go:ToValue(Export())", func(w *wctx, v goja.Value, m S) (goja.Value, Kind) {
		if strmodel.HasLone(m) {
			return nil, strmodel.Excluded // Export of a lone surrogate is lossy by nature
		}
		return w.vm.ToValue(v.Export()), strmodel.String
	}, wellFormedOnly)
	goUn("go:ToValue(String())", func(w *wctx, v goja.Value, m S) (goja.Value, Kind) {
		if strmodel.HasLone(m) {
			return nil, strmodel.Excluded
		}
		return w.vm.ToValue(v.String()), strmodel.String
	}, wellFormedOnly)
	goUn("go:Object.Set(utf8,0)->Object.keys[0]", func(w *wctx, v goja.Value, m S) (goja.Value, Kind) {
		g, ok := strmodel.ToGo(m)
		if !ok {
			return nil, strmodel.Excluded
		}
		o := w.vm.NewObject()
		if err := o.Set(g, 0); err != nil {
			return nil, strmodel.Throws
		}
		r, err := w.firstKey(goja.Undefined(), o)
		if err != nil {
			return nil, strmodel.Throws
		}
		return r, strmodel.String
	}, wellFormedOnly)
	goUn("go:vm.Set(global)->read", func(w *wctx, v goja.Value, m S) (goja.Value, Kind) {
		g, ok := strmodel.ToGo(m)
		if !ok {
			return nil, strmodel.Excluded
		}
		w.vm.Set("__g", g)
		return w.vm.Get("__g"), strmodel.String
	}, wellFormedOnly)

	// --- concatenation family ---
	concat := func(x, y S) S { return cat(x, y) }
	bin1("x+y", "+", concat)
	bin1("`${x}${y}`", "template", concat)
	bin1("`${x}-${y}`", "template", func(x, y S) S { return cat(x, S{'-'}, y) })
	bin1("x.concat(y)", "concat", concat)
	bin1("[x,y].join('')", "join", concat)
	bin1("[x,y].join()", "join", func(x, y S) S { return cat(x, sComma, y) })
	bin1("[x,x].join(y)", "join", func(x, y S) S { return cat(x, y, x) })
	bin1("[x,,null,x].join(y)", "join", func(x, y S) S { return cat(x, y, y, y, x) })
	bin1("x.concat(y,x)", "concat", func(x, y S) S { return cat(x, y, x) })
	bin1("{var r=x;r+=y;r+=x;return r}", "+", func(x, y S) S { return cat(x, y, x) })
	addOp(&op{name: "go:StringBuilder(x,y)", class: "go:StringBuilder", arity: 2, tmplPos: -1,
		goFn: func(w *wctx, real []goja.Value, m []S) (goja.Value, Kind) {
			var sb goja.StringBuilder
			sb.WriteString(real[0].(goja.String))
			sb.WriteString(real[1].(goja.String))
			return sb.String(), strmodel.String
		},
		model: func(a []S) (S, Kind) { return str(cat(a[0], a[1])) }})
	addOp(&op{name: "go:x.Concat(y)", class: "go:Concat", arity: 2, tmplPos: -1,
		goFn: func(w *wctx, real []goja.Value, m []S) (goja.Value, Kind) {
			return real[0].(goja.String).Concat(real[1].(goja.String)), strmodel.String
		},
		model: func(a []S) (S, Kind) { return str(cat(a[0], a[1])) }})

	// --- padding with a filler ---
	for _, n := range []int{2, 4, 20} {
		n := n
		bin1(fmt.Sprintf("x.padStart(%d,y)", n), "padStart", func(x, y S) S { return strmodel.Pad(x, n, y, true, true) })
		bin1(fmt.Sprintf("x.padEnd(%d,y)", n), "padEnd", func(x, y S) S { return strmodel.Pad(x, n, y, true, false) })
	}

	// --- split with a string separator ---
	bin1("x.split(y).join('|')", "split", func(x, y S) S { return strmodel.Join(strmodel.Split(x, y, -1), sBar) })
	bin1("x.split(y,1).join()", "split", func(x, y S) S { return strmodel.Join(strmodel.Split(x, y, 1), sComma) })
	bin1("x.split(y,2).join()", "split", func(x, y S) S { return strmodel.Join(strmodel.Split(x, y, 2), sComma) })
	for _, k := range []int{0, 1} {
		k := k
		bin(fmt.Sprintf("x.split(y)[%d]", k), "split", func(x, y S) (S, Kind) {
			p := strmodel.Split(x, y, -1)
			if k >= len(p) {
				return nil, strmodel.Undefined
			}
			return str(p[k])
		})
	}

	// --- replace family with string patterns ---
	ter1("x.replace(y,z)", "replace", 2, strmodel.Replace)
	ter1("x.replaceAll(y,z)", "replaceAll", 2, strmodel.ReplaceAll)
	ter1("x.split(y).join(z)", "split+join", -1, func(x, y, z S) S { return strmodel.Join(strmodel.Split(x, y, -1), z) })
	ter1("x.replace(y,function(m){return m+z})", "replace(fn)", -1, func(x, y, z S) S {
		return strmodel.ReplaceFn(x, y, false, func(m S, _ int) S { return cat(m, z) })
	})
	ter1("x.replaceAll(y,function(m){return z+m})", "replaceAll(fn)", -1, func(x, y, z S) S {
		return strmodel.ReplaceFn(x, y, true, func(m S, _ int) S { return cat(z, m) })
	})
	ter1("`${x}${y}${z}`", "template", -1, func(x, y, z S) S { return cat(x, y, z) })
	ter1("x.concat(y,z)", "concat", -1, func(x, y, z S) S { return cat(x, y, z) })

	// --- replace / split / match with regular expressions ---
	for _, r := range regexes {
		r := r
		n := fmt.Sprintf("x.replace(%s,y)", r.src)
		addOp(&op{name: n, class: "replace(" + r.src + ")", arity: 2, js: "x.replace(RE,y)", re: r.src, tmplPos: 1,
			model: func(a []S) (S, Kind) { return str(r.re.ReplaceRe(a[0], a[1], nil)) }})
		n = fmt.Sprintf("x.replace(%s,function(m){return '<'+m+'>'})", r.src)
		addOp(&op{name: n, class: "replace(" + r.src + ",fn)", arity: 1, js: "x.replace(RE,function(m){return '<'+m+'>'})", re: r.src, tmplPos: -1,
			model: func(a []S) (S, Kind) {
				return str(r.re.ReplaceRe(a[0], nil, func(m *strmodel.ReResult) S { return cat(S{'<'}, a[0][m.Start:m.End], S{'>'}) }))
			}})
		n = fmt.Sprintf("x.split(%s).join('|')", r.src)
		addOp(&op{name: n, class: "split(" + r.src + ")", arity: 1, js: "x.split(RE).join('|')", re: r.src, tmplPos: -1,
			model: func(a []S) (S, Kind) { return str(strmodel.JoinOpt(r.re.SplitRe(a[0]), sBar)) }})
		n = fmt.Sprintf("(x.match(%s)||[]).join('|')", r.src)
		addOp(&op{name: n, class: "match(" + r.src + ")", arity: 1, js: "(x.match(RE)||[]).join('|')", re: r.src, tmplPos: -1,
			model: func(a []S) (S, Kind) {
				ms := r.re.Matches(a[0])
				var parts []*S
				for _, m := range ms {
					v := append(S{}, a[0][m.Start:m.End]...)
					parts = append(parts, &v)
					if !r.re.Global { // non-global match returns [whole, ...captures]
						parts = append(parts, m.Caps...)
					}
				}
				return str(strmodel.JoinOpt(parts, sBar))
			}})
		if r.re.Global {
			n = fmt.Sprintf("x.replaceAll(%s,y)", r.src)
			addOp(&op{name: n, class: "replaceAll(" + r.src + ")", arity: 2, js: "x.replaceAll(RE,y)", re: r.src, tmplPos: 1,
				model: func(a []S) (S, Kind) { return str(r.re.ReplaceRe(a[0], a[1], nil)) }})
		}
	}
	for _, n := range []string{"x+y", "`${x}${y}`", "x.concat(y)", "[x,y].join('')", "go:x.Concat(y)", "x.padStart(4,y)", "x.padEnd(4,y)", "x.split(y).join('|')",
		"x.replace(y,z)", "x.replaceAll(y,z)",
		"x.split(/./g).join('|')", "x.split(/./gu).join('|')", "x.split(/\\ud801/g).join('|')",
		"x.replace(/./g,function(m){return '<'+m+'>'})", "x.replace(/./gu,function(m){return '<'+m+'>'})"} {
		o := opByName[n]
		if o == nil {
			panic("deep op not registered: " + n)
		}
		o.deep = true
	}
	for _, o := range ops {
		if o.arity == 1 && o.re == "" {
			o.deep = true // every unary operation except the regular-expression variants
		}
	}
	return true
}

const prelude = `
function units(x){var a=[];for(var i=0;i<x.length;i++)a.push(x.charCodeAt(i));return a}
function cps(x){var a=[];for(var i=0;i<x.length;){var c=x.codePointAt(i);a.push(c);i+=c>0xFFFF?2:1}return a}
function firstKey(o){return Object.keys(o)[0]}
`

func (o *op) jsSource() string {
	if o.re != "" {
		return "(function(){var RE=" + o.re + ";return function(x,y,z){RE.lastIndex=0;return " + o.js + "}})()"
	}
	if strings.HasPrefix(o.js, "{") {
		return "(function(x,y,z)" + o.js + ")"
	}
	return "(function(x,y,z){return " + o.js + "})"
}
