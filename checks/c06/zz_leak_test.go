package c06

import (
	"testing"

	"github.com/dop251/goja"
)

func benchOp(b *testing.B, name string, src ...string) {
	w := newWctx()
	var args []goja.Value
	for _, s := range src {
		v, _ := w.vm.RunString(s)
		args = append(args, v)
	}
	o := opByName[name]
	model := make([]S, len(args))
	for i, a := range args {
		model[i] = goja.VerifUnits(a)
	}
	b.ReportAllocs()
	b.ResetTimer()
	for i := 0; i < b.N; i++ {
		res := w.applyOp(o, args, model)
		if f := judge(o, o.name, o.class, model, &res); f != nil {
			b.Fatal(f.what)
		}
		_ = stateKey(res.tag, res.units)
	}
}

func BenchmarkSlice(b *testing.B) { benchOp(b, "x.slice(1)", `"aéa"`) }
func BenchmarkJoin(b *testing.B)  { benchOp(b, "[x,y].join('')", `"aéa"`, `"é"`) }
func BenchmarkJoinLong(b *testing.B) {
	benchOp(b, "[x,y].join('')", `"aéaaaaaaaaaaaaaaaaaaaaa"`, `"é"`)
}
func BenchmarkArrayFrom(b *testing.B) {
	benchOp(b, "Array.from(x).join('')", `"aéaaaaaaaaaaaaaaaaaaaaa"`)
}
func BenchmarkSplitRe(b *testing.B) {
	benchOp(b, "x.split(/./).join('|')", `"aéaaaaaaaaaaaaaaaaaaaaa"`)
}
func BenchmarkReplaceRe(b *testing.B) {
	benchOp(b, "x.replace(/./g,y)", `"aéaaaaaaaaaaaaaaaaaaaaa"`, `"é"`)
}
func BenchmarkNormalize(b *testing.B) { benchOp(b, "x.normalize()", `"aéaaaaaaaaaaaaaaaaaaaaa"`) }
