package c06

import (
	"encoding/json"
	"fmt"
	"strings"
	"unsafe"

	"verif/ref/strmodel"

	"github.com/dop251/goja"
)

// tree is a string-producing expression tree. A leaf is (alphabet string, construction route).
type tree struct {
	op   *op
	leaf int
	form string
	args []*tree
}

// leaf construction routes ("origins")
var leafForms = []string{"lit", "raw", "fromCharCode", "fromCodePoint", "go:StringFromUTF16", "go:ToValue", "go:ToValue+scan"}

type treeJSON struct {
	Op    string      `json:"op,omitempty"`
	Args  []*treeJSON `json:"args,omitempty"`
	Leaf  string      `json:"leaf,omitempty"`
	Units []uint16    `json:"units,omitempty"`
	Form  string      `json:"form,omitempty"`
	Text  string      `json:"text,omitempty"`
}

func (t *tree) toJSON() *treeJSON {
	if t.op == nil {
		l := leaves[t.leaf]
		return &treeJSON{Leaf: l.name, Units: append([]uint16{}, l.units...), Form: t.form, Text: showUnits(l.units)}
	}
	j := &treeJSON{Op: t.op.name}
	for _, a := range t.args {
		j.Args = append(j.Args, a.toJSON())
	}
	return j
}

func (t *tree) MarshalJSON() ([]byte, error) { return json.Marshal(t.toJSON()) }

func treeFromJSON(j *treeJSON) (*tree, error) {
	if j == nil {
		return nil, fmt.Errorf("nil tree")
	}
	if j.Op == "" {
		for i, l := range leaves {
			if l.name == j.Leaf {
				return &tree{leaf: i, form: j.Form}, nil
			}
		}
		return nil, fmt.Errorf("unknown leaf %q", j.Leaf)
	}
	o := opByName[j.Op]
	if o == nil {
		return nil, fmt.Errorf("unknown op %q", j.Op)
	}
	t := &tree{op: o}
	for _, a := range j.Args {
		c, err := treeFromJSON(a)
		if err != nil {
			return nil, err
		}
		t.args = append(t.args, c)
	}
	if len(t.args) != o.arity {
		return nil, fmt.Errorf("op %q: %d args", j.Op, len(t.args))
	}
	return t, nil
}

// String prints the tree as an expression.
func (t *tree) String() string {
	if t.op == nil {
		return t.form + ":" + showUnits(leaves[t.leaf].units)
	}
	parts := make([]string, len(t.args))
	for i, a := range t.args {
		parts[i] = a.String()
	}
	return t.op.name + " where " + strings.Join(func() []string {
		names := []string{"x", "y", "z"}
		for i := range parts {
			parts[i] = names[i] + " = (" + parts[i] + ")"
		}
		return parts
	}(), ", ")
}

func (t *tree) depth() int {
	d := 0
	for _, a := range t.args {
		d = max(d, a.depth()+1)
	}
	return d
}

// wctx is the per-goroutine evaluation context: one runtime with all op functions compiled.
type wctx struct {
	vm       *goja.Runtime
	fns      []goja.Callable
	firstKey goja.Callable
	obsSame  []goja.Callable
	obsDiff  []goja.Callable
	maskSame goja.Callable
	maskDiff goja.Callable
	liteSame goja.Callable
	liteDiff goja.Callable
	leafVal  map[string]goja.Value
}

func mustFn(vm *goja.Runtime, src string) goja.Callable {
	v, err := vm.RunString(src)
	if err != nil {
		panic(fmt.Sprintf("c06: cannot compile %s: %v", src, err))
	}
	f, ok := goja.AssertFunction(v)
	if !ok {
		panic("c06: not a function: " + src)
	}
	return f
}

func newWctx() *wctx {
	w := &wctx{vm: goja.New(), leafVal: map[string]goja.Value{}}
	if _, err := w.vm.RunString(prelude); err != nil {
		panic(err)
	}
	w.fns = make([]goja.Callable, len(ops))
	for i, o := range ops {
		if o.goFn == nil {
			w.fns[i] = mustFn(w.vm, o.jsSource())
		}
	}
	w.firstKey = mustFn(w.vm, "(firstKey)")
	w.compileObservables()
	return w
}

// result of evaluating one node on both sides
type evalRes struct {
	real  goja.Value
	rk    Kind
	rerr  string // error text when the real side threw
	model S
	mk    Kind
	tag   string // representation tag of the real value BEFORE its units were read
	units S      // real code units
}

// fail describes one oracle failure.
type fail struct {
	sig, what string
	node      *tree // the innermost failing node
}

func (w *wctx) leafValue(t *tree) (goja.Value, bool) {
	l := leaves[t.leaf]
	run := func(src string) goja.Value {
		k := t.form + "|" + l.name
		if v, ok := w.leafVal[k]; ok {
			return v
		}
		v, err := w.vm.RunString(src)
		if err != nil {
			panic(fmt.Sprintf("c06: leaf %s: %v", src, err))
		}
		w.leafVal[k] = v
		return v
	}
	nums := func(cp bool) string {
		var xs []string
		if cp {
			for _, r := range strmodel.CodePoints(l.units) {
				xs = append(xs, fmt.Sprint(int(r)))
			}
		} else {
			for _, c := range l.units {
				xs = append(xs, fmt.Sprint(int(c)))
			}
		}
		return strings.Join(xs, ",")
	}
	switch t.form {
	case "lit":
		return run("(" + jsLiteral(l.units, false) + ")"), true
	case "raw":
		if strmodel.HasLone(l.units) || strmodel.IsASCII(l.units) {
			return nil, false
		}
		return run("(" + jsLiteral(l.units, true) + ")"), true
	case "fromCharCode":
		return run("String.fromCharCode(" + nums(false) + ")"), true
	case "fromCodePoint":
		return run("String.fromCodePoint(" + nums(true) + ")"), true
	case "go:StringFromUTF16":
		return goja.StringFromUTF16(l.units), true
	case "go:ToValue", "go:ToValue+scan":
		g, ok := strmodel.ToGo(l.units)
		if !ok {
			return nil, false
		}
		g = strings.Clone(g)
		v := w.vm.ToValue(g)
		if t.form == "go:ToValue+scan" {
			if goja.VerifRepr(v) != "imported:unscanned" {
				return nil, false // same as go:ToValue
			}
			v.(goja.String).Length()
		}
		return v, true
	}
	panic("c06: unknown leaf form " + t.form)
}

// applyReal runs the real side of one operation on already evaluated operands. The result is NOT observed.
func (w *wctx) applyReal(o *op, real []goja.Value, model []S) (v goja.Value, rk Kind, rerr string) {
	if o.goFn != nil {
		v, rk = o.goFn(w, real, model)
		return
	}
	v, err := w.fns[o.id](goja.Undefined(), real...)
	if err != nil {
		return nil, strmodel.Throws, errName(err)
	}
	if v == nil || goja.IsUndefined(v) {
		return v, strmodel.Undefined, ""
	}
	if _, ok := v.(goja.String); !ok {
		return v, kindOther, ""
	}
	return v, strmodel.String, ""
}

// applyOp runs one operation on already evaluated operands on both sides and observes the real result.
func (w *wctx) applyOp(o *op, real []goja.Value, model []S) (res evalRes) {
	res.model, res.mk = o.model(model)
	if res.mk == strmodel.Excluded {
		return
	}
	v, rk, rerr := w.applyReal(o, real, model)
	res.rk, res.rerr = rk, rerr
	if rk == strmodel.String || rk == strmodel.Undefined || rk == kindOther {
		w.classify(v, &res)
	}
	return
}

// modelOf evaluates the model side of a whole tree.
func modelOf(t *tree) (S, Kind) {
	if t.op == nil {
		return leaves[t.leaf].units, strmodel.String
	}
	args := make([]S, len(t.args))
	for i, a := range t.args {
		m, k := modelOf(a)
		if k != strmodel.String {
			return nil, k
		}
		args[i] = m
	}
	return t.op.model(args)
}

// pure evaluates the real side of a whole tree on fresh values WITHOUT observing any intermediate or final
// value (reading the code units of a lazily scanned imported string changes it). ok=false: not evaluable.
func (w *wctx) pure(t *tree) (v goja.Value, rk Kind, rerr string, ok bool) {
	if t.op == nil {
		v, ok = w.leafValue(t)
		return v, strmodel.String, "", ok
	}
	real := make([]goja.Value, len(t.args))
	model := make([]S, len(t.args))
	for i, a := range t.args {
		m, mk := modelOf(a)
		if mk != strmodel.String {
			return nil, mk, "", false
		}
		cv, ck, _, cok := w.pure(a)
		if !cok || ck != strmodel.String {
			return nil, ck, "", false
		}
		real[i], model[i] = cv, m
	}
	if _, mk := t.op.model(model); mk == strmodel.Excluded {
		return nil, mk, "", false
	}
	v, rk, rerr = w.applyReal(t.op, real, model)
	return v, rk, rerr, true
}

func errName(err error) string {
	if ex, ok := err.(*goja.Exception); ok {
		if o, ok := ex.Value().(*goja.Object); ok {
			if n := o.Get("name"); n != nil {
				return n.String()
			}
		}
		return "throw " + ex.Value().String()
	}
	return fmt.Sprintf("%T", err)
}

const kindOther Kind = 99 // real side produced a non-string, non-undefined value

func (w *wctx) classify(v goja.Value, res *evalRes) {
	res.real = v
	if v == nil || goja.IsUndefined(v) {
		res.rk = strmodel.Undefined
		return
	}
	if _, ok := v.(goja.String); !ok {
		res.rk = kindOther
		return
	}
	res.rk = strmodel.String
	res.tag = goja.VerifRepr(v)
	res.units = goja.VerifUnits(v)
}

// judge applies oracle (i) (code units / result kind equal to the model) and (iii) (representation normal
// form) to one evaluated node.
func judge(o *op, opName, opClass string, operands []S, res *evalRes) *fail {
	if res.mk == strmodel.Excluded {
		return nil
	}
	// fast path: everything agrees
	if res.rk == res.mk && (res.rk != strmodel.String || (strmodel.Equal(res.units, res.model) && normalFormViolation(res.tag, res.units) == "")) {
		return nil
	}
	cls := contentClass(operands...)
	in := make([]string, len(operands))
	for i, u := range operands {
		in[i] = showUnits(u)
	}
	inputs := strings.Join(in, ", ")
	if res.rk != res.mk {
		sym := ""
		switch res.rk {
		case strmodel.Throws:
			sym = "throws:" + res.rerr
		case strmodel.Undefined:
			sym = "undefined"
		case strmodel.String:
			sym = "string-instead-of-" + res.mk.String()
		default:
			sym = "non-string"
		}
		return &fail{sig: fmt.Sprintf("%s|%s->%s", opClass, cls, sym),
			what: fmt.Sprintf("%s with (%s): expected %s, got %s", opName, inputs, describe(res.model, res.mk), describeReal(res))}
	}
	if res.rk != strmodel.String {
		return nil
	}
	if !strmodel.Equal(res.units, res.model) {
		sym := "wrong-units"
		if len(res.units) == len(res.model) {
			onlyFFFD := true
			for i := range res.units {
				if res.units[i] != res.model[i] && !(res.units[i] == 0xFFFD && (strmodel.IsHigh(res.model[i]) || strmodel.IsLow(res.model[i]))) {
					onlyFFFD = false
				}
			}
			if onlyFFFD {
				sym = "U+FFFD"
			}
		} else if len(res.units) < len(res.model) {
			sym = "wrong-units(shorter)"
		} else {
			sym = "wrong-units(longer)"
		}
		return &fail{sig: fmt.Sprintf("%s|%s->%s", opClass, cls, sym),
			what: fmt.Sprintf("%s with (%s): expected %s, got %s [%s]", opName, inputs, showUnits(res.model), showUnits(res.units), res.tag)}
	}
	if bad := normalFormViolation(res.tag, res.units); bad != "" {
		return &fail{sig: fmt.Sprintf("repr|%s|%s", opClass, bad),
			what: fmt.Sprintf("%s with (%s) = %s is stored as %s: %s", opName, inputs, showUnits(res.units), res.tag, bad)}
	}
	return nil
}

func normalFormViolation(tag string, units S) string {
	ascii := strmodel.IsASCII(units)
	switch tag {
	case "ascii", "imported:ascii":
		if !ascii {
			return tag + "-storage-with-unit>=0x80"
		}
	case "utf16", "imported:utf16":
		if ascii {
			return tag + "-storage-all-ascii"
		}
	case "imported:unscanned":
	default:
		return "unknown-representation:" + tag
	}
	return ""
}

func describe(s S, k Kind) string {
	if k == strmodel.String {
		return showUnits(s)
	}
	return k.String()
}

func describeReal(res *evalRes) string {
	switch res.rk {
	case strmodel.String:
		return showUnits(res.units) + " [" + res.tag + "]"
	case strmodel.Throws:
		return "throws " + res.rerr
	case strmodel.Undefined:
		return "undefined"
	}
	return fmt.Sprintf("non-string %v", res.real)
}

// evalTree judges every node of a tree: each subtree is evaluated from scratch on fresh values (pure) and
// only its final value is observed, so no node ever sees an operand that was already looked at. The first
// (innermost) failure is returned. ok=false without a failure means the tree is not evaluable (excluded /
// non-string sub-result).
func (w *wctx) evalTree(t *tree) (res evalRes, f *fail, ok bool) {
	model := make([]S, len(t.args))
	for i, a := range t.args {
		r, f, ok := w.evalTree(a)
		if f != nil || !ok {
			return r, f, false
		}
		if r.rk != strmodel.String {
			return r, nil, false
		}
		model[i] = r.model
	}
	if t.op == nil {
		res.model, res.mk = leaves[t.leaf].units, strmodel.String
		model = []S{res.model}
	} else {
		res.model, res.mk = t.op.model(model)
		if res.mk == strmodel.Excluded {
			return res, nil, false
		}
	}
	v, rk, rerr, valid := w.pure(t)
	if !valid {
		return res, nil, false
	}
	res.rk, res.rerr = rk, rerr
	if rk != strmodel.Throws {
		w.classify(v, &res)
	}
	name, class := "leaf "+t.form, "leaf:"+t.form
	if t.op != nil {
		name, class = t.op.name, t.op.class
	}
	if f := judge(t.op, name, class, model, &res); f != nil {
		f.node = t
		return res, f, false
	}
	return res, nil, res.mk == strmodel.String
}

func unitsKey(u S) string {
	if len(u) == 0 {
		return ""
	}
	return string(unsafe.Slice((*byte)(unsafe.Pointer(&u[0])), len(u)*2))
}

func stateKey(tag string, u S) string { return tag + "\x00" + unitsKey(u) }
