// Package c16 holds the check for property C16.
package c16
