// Package scen is the scenario catalogue of C16: programs exercising every shareable-literal construct, and
// operations on primitive values shared between runtimes.
package scen

import (
	"fmt"
	"strings"

	"verif/lib/jsseeds"

	"github.com/dop251/goja"
)

type Scenario struct {
	Name   string
	Src    string
	Shared string // kind of the shared values S and T ("" = none)
	Long   bool   // a whole seed program (hundreds of instructions): explored with a smaller preemption bound
}

const longASCII = "The quick brown fox jumps over the lazy dog 0123456789"
const longUni = "Zażółć gęślą jaźń — \U0001F600 ünïcödé string longer than sixteen bytes"

var stringOps = []string{
	`S.length`, `S+"x"`, `S===T`, `S<T`, `S==T`, `S.charCodeAt(17)`, `S.indexOf("z")`, `S.toUpperCase()`, `S.slice(3,20)`,
	`S.substring(1).length`, `new Map([[S,1]]).get(T)`, `({[S]:1})[T]`, `JSON.stringify(S)`, `S.localeCompare(T)`,
	`S.split("")[3]`, `S.replace("a","b")`, `encodeURIComponent(S).length`, `S.normalize().length`, `Number(S)`,
	`S.at(-1)`, `[...S].length`, `S.trim().length`, `S.concat(T).length`, `S.padEnd(80).length`, `S.codePointAt(21)`,
	`S.startsWith("T")`, `S.match(/o/).index`, `parseInt(S)`, `String(S).length`, `Symbol.for(S).description.length`,
	`(S in {})`, `S.lastIndexOf("o")`, `S.includes("fox")`, `S.repeat(2).length`, `S.toLowerCase()===T.toLowerCase()`,
	`new Set([S,T]).size`, `[S].indexOf(T)`, `Object.is(S,T)`, "`${S}`.length", `S.search("q")`, `isNaN(S)`, `S>T`,
	`S.endsWith("9")`, `escape(S).length`, `S.substr(2,5)`, `typeof S`, `S.charAt(20)`, `S.hasOwnProperty(0)`,
}

func Scenarios() []Scenario {
	res := []Scenario{
		{"regex-exec", `var r=/a(b)?c/g; var m=r.exec("xabcabc"); m.index+":"+m[1]+":"+r.lastIndex+":"+r.exec("xabcabc").index`, "", false},
		{"regex-backtrack", `var r=/(?<n>a+)\k<n>/y; r.lastIndex=1; var m=r.exec("xaaaa"); (m&&m.groups.n)+":"+/x(?=y)/.test("xy")+":"+/é+/u.exec("aéé").index`, "", false},
		{"regex-replace-split", `"aXbXc".replace(/x/gi, function(m,o){return o})+"abc".split(/b/).length+"a-b".match(/(\w)-(\w)/).length`, "", false},
		{"tagged-template", "function tag(s){ return s } function site(){ return tag`x${1}y` } var a=site(), b=site(); [a===b, a.raw[0], Object.isFrozen(a)].join()", "", false},
		{"class-private", `class A{ #p=1; static #s=2; static s=A.#s; #m(){ return 3 } m(){return this.#p+this.#m()} static has(o){return #p in o} } [new A().m(), A.s, A.has(new A()), A.has({})].join()`, "", false},
		{"dynamic-scope", `function f(x){ var y=2; eval("var z=x+y"); with({w:4}){ return z+w } } f(1)+(function(){ return typeof arguments })()`, "", false},
		{"const-fold", `var a = 1+2*3, b = "a"+"b"+1, c = -(-0), d = 2**53+1, e = "x".length, g = void 0; [a,b,Object.is(c,0),d,e,g].join()`, "", false},
		{"closures-loop", `var fs=[]; for (let i=0;i<3;i++){ fs.push(()=>i) } fs.map(f=>f()).join()`, "", false},
		{"error-stack", `function g(){ return new Error("e").stack } var st=g(); st.split("\n").length + ":" + (st.indexOf("c16.js:1:") >= 0) + ":" + (function(){ try { null.x } catch(e){ return e.stack.split("\n").length } })()`, "", false},
		{"literals", "var o={a:1,'b':[1,2,{c:`t${1}`}],get g(){return 2},[`k${1}`]:3}; JSON.stringify(o)+o.g", "", false},
		{"generator-async", `function* g(){ var x=yield 1; yield x*2 } var it=g(); it.next(); var r=it.next(4).value; var out=[]; (async function(){ out.push(await 1) })(); r+":"+out.length`, "", false},
		{"destructuring", `var {a=1,b:[c,d]=[]}={b:[2,3]}; var [x,,y=9,...z]=[1,2]; function f({p,q=5},[r]=[7]){ return p+q+r } [a,c,d,x,y,z.length,f({p:1})].join()`, "", false},
		{"unicode-const", `var s="héllo wörld, this is a long cönstant string \u{1F600}"; s.toUpperCase()+s.length+s.indexOf("w")+s.codePointAt(44)`, "", false},
		{"bigint-const", `10n**20n + 1n + "" + (2n**64n).toString(16)`, "", false},
		{"switch-labels", `var r=""; L: for (var i=0;i<3;i++){ switch(i){ case 0: r+="a"; continue L; case 1: r+="b"; break; default: r+="c"; break L } r+="-" } r`, "", false},
		{"symbol-shared", `var o={}; o[S]=1; [typeof S, S.toString(), S.description, Object.getOwnPropertySymbols(o)[0]===S, o[T]].join()`, "symbol", false},
		{"number-shared", `[S+1, S===T, Object.is(S,T), new Map([[S,1]]).get(T), String(S)].join()`, "number", false},
	}
	for i, src := range jsseeds.Programs {
		res = append(res, Scenario{Name: fmt.Sprintf("seed/%02d", i), Src: src, Long: true})
	}
	for _, kind := range []string{"imported-ascii", "imported-unicode", "concat", "utf16"} {
		for _, op := range stringOps {
			res = append(res, Scenario{"str/" + kind + "/" + op, op, kind, false})
		}
	}
	return res
}

// shared builds the values S and T handed to every runtime of one execution (fresh objects per execution, so that
// lazily scanned strings start unscanned).
func Shared(kind string) (s, t goja.Value) {
	r0 := goja.New()
	switch kind {
	case "imported-ascii":
		return r0.ToValue(longASCII), r0.ToValue(longASCII + "")
	case "imported-unicode":
		return r0.ToValue(longUni), r0.ToValue(strings.Clone(longUni))
	case "concat":
		r0.Set("a", longASCII[:20])
		r0.Set("b", longASCII[20:])
		r0.Set("c", longUni)
		v1, _ := r0.RunString("a+b")
		v2, _ := r0.RunString("a+b")
		return v1, v2
	case "utf16":
		v1, _ := r0.RunString(`"ünï"+"cödé and some more text"`)
		v2, _ := r0.RunString(`"ünïcödé and "+"some more text"`)
		return v1, v2
	case "symbol":
		sym := goja.NewSymbol("shared")
		return sym, sym
	case "number":
		v1, _ := r0.RunString("0.1+0.2")
		return v1, r0.ToValue(0.1 + 0.2)
	}
	return goja.Undefined(), goja.Undefined()
}

func RunOne(r *goja.Runtime, prg *goja.Program, s, t goja.Value) string {
	r.Set("S", s)
	r.Set("T", t)
	v, err := r.RunProgram(prg)
	if err != nil {
		return "error: " + err.Error()
	}
	return v.String()
}
