package c16

import (
	"fmt"
	"strings"

	"verif/core"

	"github.com/dop251/goja"
)

// Part C: every host API that accepts a value x every object kind created by ANOTHER runtime must reject the
// object with a TypeError ("Object values are rejected with a TypeError when passed to a different Runtime").

type foreignKind struct {
	name string
	mk   func(a *goja.Runtime) goja.Value
}

func runStr(r *goja.Runtime, src string) goja.Value {
	v, err := r.RunString(src)
	if err != nil {
		panic(err)
	}
	return v
}

var foreignKinds = []foreignKind{
	{"plain", func(a *goja.Runtime) goja.Value { return runStr(a, `({p:1})`) }},
	{"array", func(a *goja.Runtime) goja.Value { return runStr(a, `[1,2]`) }},
	{"function", func(a *goja.Runtime) goja.Value { return runStr(a, `(function(){ return 1 })`) }},
	{"class", func(a *goja.Runtime) goja.Value { return runStr(a, `(class { m(){} })`) }},
	{"proxy", func(a *goja.Runtime) goja.Value { return runStr(a, `new Proxy({}, {})`) }},
	{"promise", func(a *goja.Runtime) goja.Value { return runStr(a, `Promise.resolve(1)`) }},
	{"arraybuffer", func(a *goja.Runtime) goja.Value { return runStr(a, `new ArrayBuffer(4)`) }},
	{"typedarray", func(a *goja.Runtime) goja.Value { return runStr(a, `new Uint8Array(2)`) }},
	{"date", func(a *goja.Runtime) goja.Value { return runStr(a, `new Date(0)`) }},
	{"regexp", func(a *goja.Runtime) goja.Value { return runStr(a, `/a/`) }},
	{"map", func(a *goja.Runtime) goja.Value { return runStr(a, `new Map()`) }},
	{"error", func(a *goja.Runtime) goja.Value { return runStr(a, `new Error("x")`) }},
	{"boxed-string", func(a *goja.Runtime) goja.Value { return runStr(a, `new String("s")`) }},
	{"gomap", func(a *goja.Runtime) goja.Value { return a.ToValue(map[string]interface{}{"k": 1}) }},
	{"gostruct", func(a *goja.Runtime) goja.Value { return a.ToValue(&struct{ X int }{1}) }},
	{"newobject", func(a *goja.Runtime) goja.Value { return a.NewObject() }},
}

type crossAPI struct {
	name string
	// call passes the foreign value f to runtime b through one host API; returns an error if rejected
	call func(b *goja.Runtime, f goja.Value) error
}

func wrapPanic(fn func() error) (err error) {
	defer func() {
		if x := recover(); x != nil {
			switch x := x.(type) {
			case error:
				err = x
			case goja.Value:
				err = fmt.Errorf("panic(Value): %s", safeString(x))
			default:
				err = fmt.Errorf("panic: %v", x)
			}
		}
	}()
	return fn()
}

func safeString(v goja.Value) (s string) {
	defer func() {
		if x := recover(); x != nil {
			s = fmt.Sprintf("<unprintable %T>", v)
		}
	}()
	return v.String()
}

var crossAPIs = []crossAPI{
	{"Runtime.Set", func(b *goja.Runtime, f goja.Value) error { return b.Set("x", f) }},
	{"Runtime.ToValue", func(b *goja.Runtime, f goja.Value) error { b.ToValue(f); return nil }},
	{"Object.Set", func(b *goja.Runtime, f goja.Value) error { return b.NewObject().Set("x", f) }},
	{"Object.SetSymbol", func(b *goja.Runtime, f goja.Value) error { return b.NewObject().SetSymbol(goja.NewSymbol("s"), f) }},
	{"Object.DefineDataProperty", func(b *goja.Runtime, f goja.Value) error {
		return b.NewObject().DefineDataProperty("x", f, goja.FLAG_TRUE, goja.FLAG_TRUE, goja.FLAG_TRUE)
	}},
	{"Object.DefineDataPropertySymbol", func(b *goja.Runtime, f goja.Value) error {
		return b.NewObject().DefineDataPropertySymbol(goja.NewSymbol("s"), f, goja.FLAG_TRUE, goja.FLAG_TRUE, goja.FLAG_TRUE)
	}},
	{"Object.DefineAccessorProperty(getter)", func(b *goja.Runtime, f goja.Value) error {
		return b.NewObject().DefineAccessorProperty("x", f, nil, goja.FLAG_TRUE, goja.FLAG_TRUE)
	}},
	{"Object.SetPrototype", func(b *goja.Runtime, f goja.Value) error {
		o, ok := f.(*goja.Object)
		if !ok {
			return fmt.Errorf("not an object")
		}
		return b.NewObject().SetPrototype(o)
	}},
	{"Callable(argument)", func(b *goja.Runtime, f goja.Value) error {
		fn, _ := goja.AssertFunction(runStr(b, `(function(a){ return typeof a })`))
		_, err := fn(goja.Undefined(), f)
		return err
	}},
	{"Callable(this)", func(b *goja.Runtime, f goja.Value) error {
		fn, _ := goja.AssertFunction(runStr(b, `(function(){ return typeof this })`))
		_, err := fn(f)
		return err
	}},
	{"Constructor(argument)", func(b *goja.Runtime, f goja.Value) error {
		c, _ := goja.AssertConstructor(runStr(b, `(function K(a){ this.a = a })`))
		_, err := c(nil, f)
		return err
	}},
	{"Runtime.New(argument)", func(b *goja.Runtime, f goja.Value) error {
		_, err := b.New(runStr(b, `(function K(a){ this.a = a })`), f)
		return err
	}},
	{"NewPromise.resolve", func(b *goja.Runtime, f goja.Value) error {
		_, resolve, _ := b.NewPromise()
		return resolve(f)
	}},
	{"NewPromise.reject", func(b *goja.Runtime, f goja.Value) error {
		_, _, reject := b.NewPromise()
		return reject(f)
	}},
	{"Runtime.NewProxy(target)", func(b *goja.Runtime, f goja.Value) error {
		o, ok := f.(*goja.Object)
		if !ok {
			return fmt.Errorf("not an object")
		}
		b.NewProxy(o, &goja.ProxyTrapConfig{})
		return nil
	}},
	{"Runtime.NewArray(item)", func(b *goja.Runtime, f goja.Value) error { b.NewArray(f); return nil }},
	{"native return (FunctionCall)", func(b *goja.Runtime, f goja.Value) error {
		b.Set("nf", func(goja.FunctionCall) goja.Value { return f })
		_, err := b.RunString(`typeof nf()`)
		return err
	}},
	{"native return (reflect func)", func(b *goja.Runtime, f goja.Value) error {
		b.Set("rf", func() goja.Value { return f })
		_, err := b.RunString(`typeof rf()`)
		return err
	}},
	{"wrapped Go map element", func(b *goja.Runtime, f goja.Value) error {
		b.Set("gm", map[string]interface{}{"k": f})
		_, err := b.RunString(`typeof gm.k`)
		return err
	}},
	{"wrapped Go slice element", func(b *goja.Runtime, f goja.Value) error {
		b.Set("gs", []interface{}{f})
		_, err := b.RunString(`typeof gs[0]`)
		return err
	}},
	{"wrapped Go struct field", func(b *goja.Runtime, f goja.Value) error {
		b.Set("st", &struct{ V goja.Value }{f})
		_, err := b.RunString(`typeof st.V`)
		return err
	}},
	{"GlobalObject.Set", func(b *goja.Runtime, f goja.Value) error { return b.GlobalObject().Set("x", f) }},
}

func crossPart(r *core.Run) bool {
	a := goja.New()
	n := 0
	for _, k := range foreignKinds {
		for _, api := range crossAPIs {
			f := k.mk(a)
			b := goja.New()
			err := wrapPanic(func() error { return api.call(b, f) })
			r.Eval(1)
			r.States(1)
			n++
			outcome := "accepted"
			if err != nil {
				if strings.Contains(err.Error(), "TypeError") {
					outcome = "TypeError"
				} else {
					outcome = "other-error"
				}
			}
			r.Outcome("cross|" + outcome)
			if n%53 == 0 {
				r.Sample(map[string]interface{}{"part": "cross", "api": api.name, "foreign_kind": k.name, "outcome": outcome, "error": fmt.Sprint(err)})
			}
			switch outcome {
			case "accepted":
				r.Violation("cross|accepted|"+api.name, fmt.Sprintf("%s accepts a %s object that belongs to another Runtime (no TypeError)", api.name, k.name), Case{Part: "cross", Scenario: api.name + " x " + k.name})
			case "other-error":
				if err.Error() == "not an object" {
					continue
				}
				r.Violation("cross|wrong-error|"+api.name, fmt.Sprintf("%s given a %s object of another Runtime fails with %v instead of a TypeError", api.name, k.name, err), Case{Part: "cross", Scenario: api.name + " x " + k.name})
			default:
				r.NontrivialN(1)
			}
		}
	}
	r.Set("cross_runtime_matrix", fmt.Sprintf("%d host APIs x %d foreign object kinds", len(crossAPIs), len(foreignKinds)))
	return true
}
