// Package c16 decides C16 (Programs and primitive values are shareable across goroutines without data races).
//
// Part A (immutable.go): sequential immutability oracle — for every scenario the shared *Program, the shared
// primitive values and the data/bss symbols of the goja packages are deep-hashed, the program is run in runtime
// A, re-hashed, run in runtime B, re-hashed: a run must not write to anything shared (a data race needs a write).
// Part B (this file, via cmd/c16sched): all interleavings up to a preemption bound of 2..3 runtimes on real
// goroutines sharing one Program and the same primitive values, under the cooperative scheduler; every result
// must equal the isolated result. The same exploration runs in a -race build with happens-before-free hand-offs,
// so the Go race detector decides data-race freedom of every explored schedule.
// Part C (cross.go): every API that accepts a Value x every object kind of ANOTHER runtime => TypeError.
package c16

import (
	"bytes"
	"encoding/json"
	"fmt"
	"os"
	"os/exec"
	"path/filepath"
	"strings"
	"time"

	"verif/checks/c16/scen"
	"verif/core"
	"verif/lib/shimbuild"
)

func init() {
	core.Register(&core.Check{
		ID:    "C16",
		Level: "model_checking",
		Rule: "states = scenarios (shareable-literal programs; operations x kinds of shared primitive values) x immutability snapshots; transitions = scheduling points executed over all interleavings up to the reported preemption bound of 2..3 runtimes sharing one Program / the same values (every VM instruction, file.File mutex operation and lazy-scan hook is a scheduling point); " +
			"traces = complete schedules whose per-runtime results were compared with the isolated result (and, in the -race build, judged by the race detector); a scenario is non-trivial when it compiled, ran and at least two runtimes really executed interleaved instructions on the shared data",
		Run:      run,
		Replay:   replay,
		Prebuild: func() { startBuilds().cleanup() },
	})
}

type Case struct {
	Part     string `json:"part"`
	Scenario string `json:"scenario,omitempty"`
	Src      string `json:"src,omitempty"`
	Schedule []int  `json:"schedule,omitempty"`
	Threads  int    `json:"threads,omitempty"`
	Race     bool   `json:"race,omitempty"`
	Detail   string `json:"detail,omitempty"`
}

var shimFiles = []string{"vm.go", "file/file.go", "string_imported.go"}

type builds struct {
	plain, race       chan struct{}
	plainDir, raceDir string
	plainErr, raceErr error
}

func startBuilds() *builds {
	b := &builds{plain: make(chan struct{}), race: make(chan struct{})}
	go func() {
		b.plainDir, b.plainErr = shimbuild.BuildWithShim("c16sched", shimFiles, []string{"./cmd/c16sched"})
		close(b.plain)
		b.raceDir, b.raceErr = shimbuild.BuildWithShim("c16race", shimFiles, []string{"./cmd/c16sched"}, "-race")
		close(b.race)
	}()
	return b
}

func (b *builds) cleanup() {
	<-b.race
	os.RemoveAll(b.plainDir)
	os.RemoveAll(b.raceDir)
}

type schedViolation struct {
	Scenario string `json:"scenario"`
	Sig      string `json:"sig"`
	What     string `json:"what"`
	Schedule []int  `json:"schedule"`
}

type schedSummary struct {
	Instrumented bool             `json:"instrumented"`
	Execs        int64            `json:"execs"`
	Points       int64            `json:"points"`
	Bound        int              `json:"bound"`
	Threads      int              `json:"threads"`
	Exhausted    bool             `json:"exhausted"`
	Scenarios    int              `json:"scenarios"`
	Outcomes     int              `json:"outcomes"`
	Violations   []schedViolation `json:"violations"`
	Sample       interface{}      `json:"sample"`
	PointKinds   []string         `json:"point_kinds"`
}

func run(r *core.Run) {
	r.Assume("schedule exploration is sequentially consistent at the scheduling points (VM instruction boundaries, mutex operations, lazy-scan hooks); accesses between two points are judged by the race detector in the -race build only")
	r.Assume("the deep hash follows every pointer reachable from the shared value, unexported fields included; func values and channels by identity only")
	bs := startBuilds()
	defer bs.cleanup()
	complete := immutablePart(r)
	complete = crossPart(r) && complete
	complete = schedPart(r, bs) && complete
	r.Exhaustive(complete)
}

// runSharded runs the harness over scenario index ranges on several processes.
func runSharded(r *core.Run, bin string, race bool, bound, threads, budget int, procs int) (ok bool) {
	n := len(scen.Scenarios())
	if procs > n {
		procs = n
	}
	type out struct {
		s      schedSummary
		stderr string
		err    error
	}
	res := make([]out, procs)
	done := make(chan int, procs)
	for p := 0; p < procs; p++ {
		go func(p int) {
			from, to := p*n/procs, (p+1)*n/procs
			args := []string{"--bound", fmt.Sprint(bound), "--threads", fmt.Sprint(threads), "--budget", fmt.Sprint(budget), "--from", fmt.Sprint(from), "--to", fmt.Sprint(to), "--long-bound", fmt.Sprint(r.Pick(1, 2))}
			if race {
				args = append(args, "--raw")
			}
			var o, e bytes.Buffer
			cmd := exec.Command(bin, args...)
			cmd.Env = append(os.Environ(), "GORACE=halt_on_error=0 exitcode=0 history_size=2", "GOMAXPROCS=1")
			cmd.Stdout, cmd.Stderr = &o, &e
			res[p].err = cmd.Run()
			res[p].stderr = e.String()
			if res[p].err == nil {
				res[p].err = json.Unmarshal(o.Bytes(), &res[p].s)
			}
			done <- p
		}(p)
	}
	for i := 0; i < procs; i++ {
		<-done
	}
	ok = true
	tag := "sched"
	if race {
		tag = "sched-race"
	}
	for p := range res {
		o := res[p]
		if race {
			for _, rep := range raceReports(o.stderr) {
				r.Violation("race|"+rep.site, "the race detector reports a data race between runtimes sharing a Program / primitive value, in an explored schedule (hand-offs carry no happens-before):\n"+firstN(rep.text, 2500),
					Case{Part: tag, Scenario: rep.scenario, Schedule: rep.schedule, Threads: threads, Race: true})
			}
		}
		if o.err != nil {
			r.Violation("harness|"+tag+"-run", fmt.Sprintf("schedule harness shard %d failed: %v\n%s", p, o.err, firstN(o.stderr, 1500)), Case{Part: tag})
			ok = false
			continue
		}
		s := o.s
		if !s.Instrumented && s.Execs > 0 {
			r.Violation("harness|sched-vacuous", "no scheduling point inside goja was hit: the overlay did not instrument vm.go", Case{Part: tag})
			ok = false
		}
		r.Transitions(s.Points)
		r.Traces(s.Execs)
		r.Eval(s.Execs)
		if race {
			r.Add("schedules_explored_under_race_detector", s.Execs)
		} else {
			r.Add("schedules_explored", s.Execs)
		}
		if s.Sample != nil {
			r.Sample(map[string]interface{}{"part": tag, "bound": bound, "threads": threads, "sample": s.Sample})
		}
		for _, k := range s.PointKinds {
			r.Outcome("pointkind|" + k)
		}
		for _, v := range s.Violations {
			r.Violation(tag+"|"+v.Sig+"|"+scenClass(v.Scenario), v.What, Case{Part: tag, Scenario: v.Scenario, Schedule: v.Schedule, Threads: threads, Race: race})
		}
		if !s.Exhausted {
			ok = false
		}
	}
	return ok
}

// scenClass drops the concrete string operation from a scenario name: a finding is identified by the kind of
// shared value, the failing operation is in the replay case.
func scenClass(name string) string {
	p := strings.SplitN(name, "/", 3)
	if len(p) == 3 {
		return p[0] + "/" + p[1]
	}
	return name
}

func schedPart(r *core.Run, bs *builds) bool {
	<-bs.plain
	if bs.plainErr != nil {
		r.Violation("harness|sched-build", "cannot build the schedule harness: "+bs.plainErr.Error(), Case{Part: "sched"})
		return false
	}
	bin := filepath.Join(bs.plainDir, "c16sched")
	complete := true
	type cfg struct{ bound, threads int }
	// a DFS with bound b also visits every schedule with fewer preemptions (simplest first), so only the
	// largest bound per thread count is run
	cfgs := []cfg{{2, 2}, {1, 3}}
	if r.Thorough() {
		cfgs = []cfg{{3, 2}, {2, 3}}
	}
	for _, c := range cfgs {
		budget := int(time.Until(r.Deadline).Seconds()) - 30
		if budget < 12 {
			budget = 12
		}
		if !runSharded(r, bin, false, c.bound, c.threads, budget, r.Workers) {
			complete = false
			r.Set("sched_completed", fmt.Sprintf("cut at bound %d with %d threads", c.bound, c.threads))
			break
		}
		r.Set("sched_completed", fmt.Sprintf("all schedules with <= %d preemptions, %d runtimes, %d scenarios", c.bound, c.threads, len(scen.Scenarios())))
	}
	<-bs.race
	if bs.raceErr != nil {
		r.Violation("harness|race-build", "cannot build the -race schedule harness: "+bs.raceErr.Error(), Case{Part: "sched-race"})
		return false
	}
	rbin := filepath.Join(bs.raceDir, "c16sched")
	rcfgs := []cfg{{1, 2}}
	if r.Thorough() {
		rcfgs = []cfg{{2, 2}, {1, 3}}
	}
	for _, c := range rcfgs {
		budget := int(time.Until(r.Deadline).Seconds())
		if budget < 20 {
			budget = 20
		}
		if !runSharded(r, rbin, true, c.bound, c.threads, budget, r.Workers) {
			complete = false
			r.Set("race_sched_completed", fmt.Sprintf("cut at bound %d with %d threads", c.bound, c.threads))
			break
		}
		r.Set("race_sched_completed", fmt.Sprintf("all schedules with <= %d preemptions, %d runtimes, judged by the race detector", c.bound, c.threads))
	}
	return complete
}

type raceRep struct {
	site, text, scenario string
	schedule             []int
}

// raceReports splits the stderr of a -race harness into reports, attributing each to the last SCHEDULE line.
func raceReports(stderr string) []raceRep {
	var res []raceRep
	seen := map[string]bool{}
	lines := strings.Split(stderr, "\n")
	scenario, schedule := "", []int(nil)
	for i := 0; i < len(lines); i++ {
		l := lines[i]
		if strings.HasPrefix(l, "SCHEDULE ") {
			f := strings.SplitN(strings.TrimPrefix(l, "SCHEDULE "), " ", -1)
			// scenario names may contain spaces: the choices are the last field if it looks like a list
			last := f[len(f)-1]
			schedule = nil
			name := strings.TrimPrefix(l, "SCHEDULE ")
			if last == "" || strings.Trim(last, "0123456789,") == "" {
				json.Unmarshal([]byte("["+last+"]"), &schedule)
				name = strings.TrimSuffix(name, " "+last)
			}
			scenario = strings.TrimSpace(name)
			continue
		}
		if strings.HasPrefix(l, "WARNING: DATA RACE") {
			j := i
			for j < len(lines) && !strings.HasPrefix(lines[j], "==================") {
				j++
			}
			text := strings.Join(lines[i:j], "\n")
			site := raceSite(text)
			key := site + "|" + scenClass(scenario)
			if !seen[key] {
				seen[key] = true
				res = append(res, raceRep{site + "|" + scenClass(scenario), text, scenario, schedule})
			}
			i = j
		}
	}
	return res
}

// raceSite extracts the innermost goja function of each of the two conflicting accesses.
func raceSite(rep string) string {
	var sites []string
	lines := strings.Split(rep, "\n")
	for i, l := range lines {
		if strings.HasPrefix(l, "Write at") || strings.HasPrefix(l, "Read at") || strings.HasPrefix(l, "Previous write at") || strings.HasPrefix(l, "Previous read at") {
			for _, m := range lines[i+1:] {
				m = strings.TrimSpace(m)
				if strings.HasPrefix(m, "github.com/dop251/goja") {
					if k := strings.LastIndexByte(m, '('); k > 0 {
						m = m[:k]
					}
					sites = append(sites, strings.TrimPrefix(m, "github.com/dop251/goja"))
					break
				}
				if m == "" {
					break
				}
			}
		}
		if len(sites) == 2 {
			break
		}
	}
	return strings.Join(sites, "~")
}

func firstN(s string, n int) string {
	if len(s) > n {
		return s[:n]
	}
	return s
}

func replay(r *core.Run, raw json.RawMessage) {
	var c Case
	if err := json.Unmarshal(raw, &c); err != nil {
		r.Violation("replay|bad", err.Error(), nil)
		return
	}
	r.Eval(1)
	switch c.Part {
	case "immutable":
		replayImmutable(r, c)
	case "cross":
		crossPart(r)
	case "sched", "sched-race":
		bs := startBuilds()
		defer bs.cleanup()
		<-bs.plain
		<-bs.race
		if bs.plainErr != nil || bs.raceErr != nil {
			r.Violation("harness|sched-build", fmt.Sprint(bs.plainErr, bs.raceErr), c)
			return
		}
		dir := bs.plainDir
		args := []string{"--scenario", c.Scenario, "--threads", fmt.Sprint(c.Threads), "--replay", strings.Trim(strings.ReplaceAll(fmt.Sprint(c.Schedule), " ", ","), "[]")}
		if c.Race {
			dir = bs.raceDir
			args = append(args, "--raw")
		}
		var o, e bytes.Buffer
		cmd := exec.Command(filepath.Join(dir, "c16sched"), args...)
		cmd.Env = append(os.Environ(), "GORACE=halt_on_error=0 exitcode=0", "GOMAXPROCS=2")
		cmd.Stdout, cmd.Stderr = &o, &e
		err := cmd.Run()
		for _, rep := range raceReports(e.String()) {
			r.Violation("race|"+rep.site, rep.text, c)
		}
		var s schedSummary
		if err != nil || json.Unmarshal(o.Bytes(), &s) != nil {
			r.Violation("harness|sched-run", fmt.Sprint(err, e.String()), c)
			return
		}
		for _, v := range s.Violations {
			r.Violation(c.Part+"|"+v.Sig+"|"+scenClass(v.Scenario), v.What, c)
		}
	}
}
