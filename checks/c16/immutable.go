package c16

import (
	"debug/elf"
	"fmt"
	"hash/fnv"
	"sort"
	"strings"
	"unsafe"

	"verif/checks/c16/scen"
	"verif/core"
	"verif/lib/deephash"

	"github.com/dop251/goja"
)

type gsym struct {
	name string
	addr uintptr
	size uintptr
}

// gojaGlobals lists the data/bss symbols of the goja packages in the running binary.
func gojaGlobals() ([]gsym, string) {
	f, err := elf.Open("/proc/self/exe")
	if err != nil {
		return nil, "cannot open own ELF: " + err.Error()
	}
	defer f.Close()
	if f.Type != elf.ET_EXEC {
		return nil, "binary is position independent: symbol addresses are not run-time addresses"
	}
	syms, err := f.Symbols()
	if err != nil {
		return nil, "no symbol table: " + err.Error()
	}
	var res []gsym
	for _, s := range syms {
		if s.Size == 0 || int(s.Section) >= len(f.Sections) || s.Section == elf.SHN_UNDEF {
			continue
		}
		sec := f.Sections[s.Section].Name
		if sec != ".data" && sec != ".bss" && sec != ".noptrdata" && sec != ".noptrbss" {
			continue
		}
		if !strings.HasPrefix(s.Name, "github.com/dop251/goja") {
			continue
		}
		res = append(res, gsym{s.Name, uintptr(s.Value), uintptr(s.Size)})
	}
	sort.Slice(res, func(i, j int) bool { return res[i].name < res[j].name })
	return res, ""
}

func snapshotGlobals(gs []gsym) []uint64 {
	res := make([]uint64, len(gs))
	for i, g := range gs {
		h := fnv.New64a()
		h.Write(unsafe.Slice((*byte)(addrToPointer(g.addr)), g.size))
		res[i] = h.Sum64()
	}
	return res
}

// symbols whose words change legitimately: they are only written under their own lock / sync.Once / atomics
// (lazily built templates and tables), which the schedule exploration under the race detector covers.
func lazyGuarded(name string) bool {
	n := strings.ToLower(name)
	if strings.Contains(name, "..typeAssert.") || strings.Contains(name, "..interfaceSwitch.") {
		return true // caches of the Go runtime for type switches/assertions, updated atomically by the runtime itself
	}
	return strings.Contains(n, "once") || strings.Contains(n, "template") || strings.HasSuffix(n, "..inittask") || strings.Contains(n, "globalprofiler")
}

type immResult struct {
	sig, what string
}

// checkImmutable runs one scenario sequentially in a warm-up runtime, then in A, then in B, hashing the shared
// program, the shared values and the goja globals around each run.
func checkImmutable(sc scen.Scenario, gs []gsym) (fails []immResult, nodes int, ran bool) {
	prg, err := goja.Compile("c16.js", sc.Src, false)
	if err != nil {
		if sc.Long {
			return nil, 0, false
		}
		return []immResult{{"harness|compile", err.Error()}}, 0, false
	}
	// warm-up with its OWN compiled program and its own values: lazily initialised process-wide tables are built
	// here, while the Program and values under test stay pristine (their own lazy state must not be written by a run)
	wprg := goja.MustCompile("c16.js", sc.Src, false)
	ws, wt := scen.Shared(sc.Shared)
	isolated := scen.RunOne(goja.New(), wprg, ws, wt)
	s, t := scen.Shared(sc.Shared)
	hashAll := func() (p, v string, g []uint64, lines []string) {
		// file.File builds its line-offset table lazily under its own mutex (explored by the scheduler harness)
		hp := deephash.New("github.com/dop251/goja/file.File.lineOffsets", "github.com/dop251/goja/file.File.lastScannedOffset")
		hp.Trace = true
		hp.Add(prg)
		nodes = hp.Nodes
		// the lazy scan state of an imported string is written once, under its sync.Once / atomically
		hv := deephash.New("github.com/dop251/goja.importedString.u", "github.com/dop251/goja.importedString.scanned", "github.com/dop251/goja.importedString.scanOnce")
		hv.Trace = true
		hv.Add(&s)
		hv.Add(&t)
		return hp.Sum(), hv.Sum(), snapshotGlobals(gs), append(hp.Lines, hv.Lines...)
	}
	p0, v0, g0, l0 := hashAll()
	for _, name := range []string{"A", "B"} {
		got := scen.RunOne(goja.New(), prg, s, t)
		ran = true
		if got != isolated {
			fails = append(fails, immResult{"immutable|result-differs", fmt.Sprintf("run %s with shared program/values returned %q, isolated result %q", name, got, isolated)})
		}
		p1, v1, g1, l1 := hashAll()
		if p1 != p0 {
			fails = append(fails, immResult{"immutable|program-written", fmt.Sprintf("running the shared Program in runtime %s changed memory reachable from it: %v", name, deephash.Diff(l0, l1))})
		}
		if v1 != v0 {
			fails = append(fails, immResult{"immutable|value-written|" + sc.Shared, fmt.Sprintf("using the shared primitive value in runtime %s wrote to it: %v", name, deephash.Diff(l0, l1))})
		}
		for i := range g0 {
			if g0[i] != g1[i] && !lazyGuarded(gs[i].name) {
				fails = append(fails, immResult{"immutable|global-written|" + gs[i].name, fmt.Sprintf("run %s changed package-level variable %s (%d bytes)", name, gs[i].name, gs[i].size)})
			}
		}
		p0, v0, g0, l0 = p1, v1, g1, l1
	}
	return
}

func immutablePart(r *core.Run) bool {
	gs, note := gojaGlobals()
	if note != "" {
		r.Set("globals_snapshot", "unavailable: "+note)
	} else {
		r.Set("globals_snapshot", fmt.Sprintf("%d data/bss symbols of the goja packages hashed around every run", len(gs)))
	}
	scs := scen.Scenarios()
	// sequential on purpose: process-wide globals are compared around each run
	for i, sc := range scs {
		fails, nodes, ran := checkImmutable(sc, gs)
		r.States(1)
		r.Eval(1)
		if ran {
			r.NontrivialN(1)
		}
		if i%37 == 0 {
			r.Sample(map[string]interface{}{"part": "immutable", "scenario": sc.Name, "src": sc.Src, "shared": sc.Shared, "nodes_hashed_from_program": nodes})
		}
		for _, f := range fails {
			// confirm on a second attempt (fresh compile, fresh values)
			again, _, _ := checkImmutable(sc, gs)
			found := false
			for _, a := range again {
				if a.sig == f.sig {
					found = true
				}
			}
			if !found {
				f.sig = "nondeterministic|" + f.sig
			}
			r.Violation(f.sig, f.what, Case{Part: "immutable", Scenario: sc.Name, Src: sc.Src, Detail: f.what})
		}
	}
	return true
}

func replayImmutable(r *core.Run, c Case) {
	gs, _ := gojaGlobals()
	for _, sc := range scen.Scenarios() {
		if sc.Name == c.Scenario {
			fails, _, _ := checkImmutable(sc, gs)
			for _, f := range fails {
				r.Violation(f.sig, f.what, c)
			}
		}
	}
}

// addrToPointer converts the address of a static symbol (never moved, never freed) to a pointer.
func addrToPointer(a uintptr) unsafe.Pointer { return *(*unsafe.Pointer)(unsafe.Pointer(&a)) }
