package c08

import (
	"testing"
	"time"

	"verif/ref/cfjs"

	"github.com/dop251/goja"
)

func TestPhases(t *testing.T) {
	sp := newSpace(2, fullAlphabet())
	var tb, tp, ti, tc, tr time.Duration
	n := 0
	e := newEngine(false)
	for rank := int64(0); rank < sp.total && n < 20000; rank += 7 {
		s := sp.spec(rank)
		t0 := time.Now()
		p, ok := s.Build()
		if !ok {
			continue
		}
		n++
		t1 := time.Now()
		src := p.Print()
		t2 := time.Now()
		cfjs.Interpret(p)
		t3 := time.Now()
		prg, err := goja.Compile("x", src, false)
		if err != nil {
			t.Fatal(err)
		}
		t4 := time.Now()
		_ = prg
		ri := e.run(src, faultNone, 0)
		if !ri.idle {
			e = newEngine(false)
		}
		t5 := time.Now()
		tb += t1.Sub(t0)
		tp += t2.Sub(t1)
		ti += t3.Sub(t2)
		tc += t4.Sub(t3)
		tr += t5.Sub(t4)
	}
	d := time.Duration(n)
	t.Logf("n=%d build %v print %v interp %v compile %v run(incl compile) %v", n, tb/d, tp/d, ti/d, tc/d, tr/d)
}
