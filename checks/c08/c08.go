// Package c08 decides C08 ("abrupt exits run each pending finally and iterator close exactly once, in order")
// by bounded-exhaustive enumeration of control-flow programs (engine E1) compared against the definitional
// interpreter ref/cfjs, plus exhaustive injection of uncatchable faults at every probe position (engine E4).
package c08

import (
	"encoding/json"
	"fmt"
	"os"
	"strconv"
	"strings"
	"sync"
	"sync/atomic"

	"verif/core"
	"verif/ref/cfjs"
)

func init() {
	core.Register(&core.Check{
		ID:    "C08",
		Level: "exploration",
		Rule: "every program wrapper x path of d nested constructs (each of the frames listed in coverage.frames, the other statement positions holding log probes) x abrupt leaf {normal, throw, return, break, continue, yield+driver return()/throw(), break L_i, continue L_i} that is a valid program, for all d up to the reported bound, by rank; each is printed to JavaScript, run on goja and interpreted by ref/cfjs (ECMA-262 completion records); " +
			"then every (program, fault kind, k) with the fault injected at the k-th probe call. A case is non-trivial when its leaf is an abrupt completion (differential part) resp. when the fault really fired (fault part); cases are distinct by construction (distinct ranks / fault positions).",
		Run:    run,
		Replay: replay,
	})
}

// Case is what a replay file holds.
type Case struct {
	Spec     Spec        `json:"spec"`
	Path     string      `json:"path"`
	Src      string      `json:"src"`
	NativeMk bool        `json:"native_iterators,omitempty"`
	Cold     bool        `json:"cold_runtime,omitempty"`
	Fault    string      `json:"fault,omitempty"`
	FaultAt  int         `json:"fault_at,omitempty"`
	Expected cfjs.Result `json:"expected"`
	Got      cfjs.Result `json:"got"`
	Orig     *Spec       `json:"first_seen_as,omitempty"`
}

// ---------- differential oracle ----------

func evKind(e string) string {
	switch {
	case e == "set":
		return "setter"
	case e[0] >= '0' && e[0] <= '9':
		return "log"
	case e[0] == 'n':
		return "next"
	case e[0] == 'r':
		return "return()"
	case e[0] == 'c':
		return "catch"
	case e[0] == 'd':
		return "driver"
	}
	return "?"
}

func normOutcome(o string) string {
	i := strings.IndexByte(o, ':')
	if i < 0 {
		return o
	}
	v := o[i+1:]
	if v != "" && (v[0] >= '0' && v[0] <= '9') {
		v = "num"
	}
	if strings.HasPrefix(o, "compile-error") || strings.HasPrefix(o, "go-panic") {
		return o[:i]
	}
	return o[:i+1] + v
}

// diffClass classifies how got deviates from exp ("" = equal).
func diffClass(exp, got cfjs.Result) string {
	if !eqStrings(exp.Events, got.Events) {
		i := 0
		for i < len(exp.Events) && i < len(got.Events) && exp.Events[i] == got.Events[i] {
			i++
		}
		ek, gk := "end", "end"
		if i < len(exp.Events) {
			ek = evKind(exp.Events[i])
		}
		if i < len(got.Events) {
			gk = evKind(got.Events[i])
		}
		return "events: expected " + ek + ", got " + gk
	}
	if exp.Outcome != got.Outcome {
		return "outcome: expected " + normOutcome(exp.Outcome) + ", got " + normOutcome(got.Outcome)
	}
	if !eqStrings(exp.PLog, got.PLog) {
		return "promise-settlement"
	}
	return ""
}

// differential runs one spec on a fresh engine; class == "" means agreement.
func differential(s Spec, nativeMk bool) (class string, c Case, ok bool) {
	p, ok := s.Build()
	if !ok {
		return "", c, false
	}
	src := p.Print()
	exp := cfjs.Interpret(p)
	ri := newEngine(nativeMk).run(src, faultNone, 0)
	c = Case{Spec: s, Path: s.String(), Src: src, NativeMk: nativeMk, Expected: exp, Got: ri.res}
	return diffClass(exp, ri.res), c, true
}

// differentialCold is differential on a runtime whose VM stacks still have their initial capacities.
func differentialCold(s Spec) (class string, c Case, ok bool) {
	p, ok := s.Build()
	if !ok {
		return "", c, false
	}
	src := p.Print()
	exp := cfjs.Interpret(p)
	ri := newEngineW(false, false).run(src, faultNone, 0)
	c = Case{Spec: s, Path: s.String(), Src: src, Cold: true, Expected: exp, Got: ri.res}
	return diffClass(exp, ri.res), c, true
}

const coldSig = "only on a fresh runtime (vanishes once the VM stacks have grown)"

// doCold runs one spec on a brand-new runtime: behaviour must not depend on the capacity of the VM's stacks.
func (w *worker) doCold(s Spec) bool {
	class, c, ok := differentialCold(s)
	if !ok {
		return false
	}
	w.r.Eval(1)
	if s.Leaf != leafNormal {
		w.r.NontrivialN(1)
	}
	if class == "" {
		return true
	}
	if warm, _, _ := differential(s, false); warm != "" {
		return true // an ordinary disagreement, reported by the warmed sweep under its own signature
	}
	for i := 0; i < 5; i++ {
		if cl, _, _ := differentialCold(s); cl != class {
			w.r.Violation("nondeterministic|"+coldSig, "did not reproduce 5/5: "+s.String(), c)
			return true
		}
	}
	w.r.Violation(coldSig, fmt.Sprintf("%s, but only on a brand-new runtime: goja gives %s, ECMA-262 (cfjs) demands %s (and a runtime whose try/iterator/call stacks were grown beforehand agrees); program:\n%s", class, fmtResult(c.Got), fmtResult(c.Expected), c.Src), c)
	return true
}

// A reducer maps every failing spec to the canonical smallest form of its defect, so that all instances of one
// defect are reported under one signature: (1) frames are removed and the wrapper simplified while the same class
// of disagreement persists, (2) each frame / the leaf is replaced by a simpler one (lower index) while it
// persists. Trial runs share one warmed runtime; the final form is confirmed 5x on fresh runtimes.
type reducer struct {
	eng      *engine
	nativeMk bool
}

var sampleCtr atomic.Int64

var (
	canonMu    sync.Mutex
	canonCache = map[string]Spec{} // key: flavour|class|spec -> canonical spec
)

func (rd *reducer) class(s Spec) string {
	p, ok := s.Build()
	if !ok {
		return ""
	}
	if rd.eng == nil || rd.eng.used > 2000 {
		rd.eng = newEngine(rd.nativeMk)
	}
	exp := cfjs.Interpret(p)
	ri := rd.eng.run(p.Print(), faultNone, 0)
	if !ri.idle {
		rd.eng = nil
	}
	return diffClass(exp, ri.res)
}

func removeFrame(s Spec, j int) (Spec, bool) {
	t := Spec{W: s.W, Leaf: s.Leaf}
	t.Frames = append(append([]int{}, s.Frames[:j]...), s.Frames[j+1:]...)
	for _, base := range []int{leafBreakL, leafContinueL} {
		if s.Leaf >= base && s.Leaf < base+maxDepth {
			i := s.Leaf - base
			if i == j {
				return t, false
			} else if i > j {
				t.Leaf--
			}
		}
	}
	return t, true
}

func (rd *reducer) shrink(s Spec, class string) Spec {
	for changed := true; changed; {
		changed = false
		for j := 0; j < len(s.Frames); j++ {
			if t, ok := removeFrame(s, j); ok && rd.class(t) == class {
				s, changed = t, true
				j--
			}
		}
		for w := 0; w < s.W; w++ {
			t := Spec{W: w, Frames: s.Frames, Leaf: s.Leaf}
			if rd.class(t) == class {
				s, changed = t, true
				break
			}
		}
	}
	return s
}

func (rd *reducer) canonical(s Spec, class string) Spec {
	s = rd.shrink(s, class)
	key := flavour(rd.nativeMk) + class + "|" + s.String()
	canonMu.Lock()
	c, ok := canonCache[key]
	canonMu.Unlock()
	if ok {
		return c
	}
	cur := s
search:
	for {
		// simpler leaf
		for l := 0; l < cur.Leaf; l++ {
			t := Spec{W: cur.W, Frames: cur.Frames, Leaf: l}
			if rd.class(t) == class {
				cur = rd.shrink(t, class)
				continue search
			}
		}
		// simpler frame (with any leaf)
		for j := range cur.Frames {
			for f := 0; f < cur.Frames[j]; f++ {
				fr := append([]int{}, cur.Frames...)
				fr[j] = f
				for l := 0; l < nLeaves; l++ {
					t := Spec{W: cur.W, Frames: fr, Leaf: l}
					if rd.class(t) == class {
						cur = rd.shrink(t, class)
						continue search
					}
				}
			}
		}
		break
	}
	canonMu.Lock()
	canonCache[key] = cur
	canonMu.Unlock()
	return cur
}

// diffSig is the signature of a disagreement: the kind of observation that differs, the wrapper and the two
// innermost elements (last construct > leaf) of the canonical smallest form. The outer context and the exact
// symptom are left out on purpose: one defect shows with several symptoms and outer contexts.
func diffSig(nativeMk bool, class string, m Spec) string {
	kind := class
	if i := strings.IndexByte(class, ':'); i > 0 {
		kind = class[:i]
	}
	inner := leafName(m.Leaf)
	if n := len(m.Frames); n > 0 {
		inner = frames[m.Frames[n-1]].name + " > " + inner
	}
	return flavour(nativeMk) + kind + " @ " + wrappers[m.W].name + " > " + inner
}

func confirm(s Spec, nativeMk bool, class string) bool {
	for i := 0; i < 5; i++ {
		if cl, _, ok := differential(s, nativeMk); !ok || cl != class {
			return false
		}
	}
	return true
}

func flavour(nativeMk bool) string {
	if nativeMk {
		return "native-iterators|"
	}
	return ""
}

var (
	confirmMu    sync.Mutex
	confirmCache = map[string]bool{}
)

func confirmOnce(s Spec, nativeMk bool, class string) bool {
	key := flavour(nativeMk) + class + "|" + s.String()
	confirmMu.Lock()
	v, ok := confirmCache[key]
	confirmMu.Unlock()
	if ok {
		return v
	}
	v = confirm(s, nativeMk, class)
	confirmMu.Lock()
	confirmCache[key] = v
	confirmMu.Unlock()
	return v
}

func (w *worker) reportDiff(s Spec, class string) {
	r, nativeMk := w.r, w.nativeMk
	if nativeMk {
		// a disagreement that does not depend on the iterator flavour is reported under the flavour-less signature
		if cl, _, _ := differential(s, false); cl == class {
			nativeMk = false
		}
	}
	if w.red == nil || w.red.nativeMk != nativeMk {
		w.red = &reducer{nativeMk: nativeMk}
	}
	m := w.red.canonical(s, class)
	if !confirmOnce(m, nativeMk, class) {
		// the shared trial runtime misled the reduction: fall back to the original program
		m = s
		if !confirm(s, nativeMk, class) {
			_, c, _ := differential(s, nativeMk)
			r.Violation("nondeterministic|"+class, "disagreement with the reference interpreter did not reproduce 5/5 on fresh runtimes: "+s.String(), c)
			return
		}
	}
	sig := diffSig(nativeMk, class, m)
	if r.IsKnown(sig) {
		r.Violation(sig, "", nil)
		return
	}
	_, c, _ := differential(m, nativeMk)
	if m.String() != s.String() {
		c.Orig = &s
	}
	r.Violation(sig, fmt.Sprintf("%s: goja gives %s, ECMA-262 (cfjs) demands %s; program:\n%s", class, fmtResult(c.Got), fmtResult(c.Expected), c.Src), c)
}

type worker struct {
	r        *core.Run
	eng      *engine
	red      *reducer
	nativeMk bool
}

func (w *worker) engine() *engine {
	if w.eng == nil || w.eng.used >= 256 {
		w.eng = newEngine(w.nativeMk)
	}
	return w.eng
}

// do runs one spec of the differential part. It returns false if the spec is not a valid program.
func (w *worker) do(s Spec, rank int64) bool {
	p, ok := s.Build()
	if !ok {
		return false
	}
	src := p.Print()
	exp := cfjs.Interpret(p)
	e := w.engine()
	ri := e.run(src, faultNone, 0)
	if !ri.idle {
		w.eng = nil // a case that leaves the runtime non-idle must not influence the next one (C03/C14 cover reuse)
	}
	w.r.Eval(1)
	if s.Leaf != leafNormal {
		w.r.NontrivialN(1)
	}
	w.r.OutcomeH(core.HashString(exp.Outcome + "|" + strings.Join(exp.Events, " ")))
	if n := sampleCtr.Add(1); n&(n-1) == 0 { // the 1st, 2nd, 4th, 8th, ... valid program of the run
		w.r.Sample(map[string]interface{}{"depth": len(s.Frames), "rank": rank, "path": s.String(), "src": src, "log": strings.Join(exp.Events, " "), "outcome": exp.Outcome})
	}
	if class := diffClass(exp, ri.res); class != "" {
		// decide on a fresh runtime
		if cl, _, _ := differential(s, w.nativeMk); cl != "" {
			w.reportDiff(s, cl)
		} else {
			_, c, _ := differential(s, w.nativeMk)
			c.Got = ri.res
			w.r.Violation("state-dependent|"+class, "disagreement only on a reused runtime (state leaked from an earlier program): "+s.String(), c)
		}
		w.eng = nil
	}
	return true
}

// ---------- fault oracle (E4) ----------

// describeID names the construct that owns static id: an iterator ("forof", "Array.from", ...) or the region of
// a log probe ("finally", "catch", "other"); inRet: the probe is (transitively) inside an iterator's return().
func describeID(p *cfjs.Program, id int) (res string, inRet bool) {
	res = "?"
	var walk func(l []*cfjs.Node, region string, ret bool)
	walkIter := func(n *cfjs.Node, ret bool) {
		it := n.It
		if it == nil {
			return
		}
		if it.ID == id {
			switch n.K {
			case cfjs.ForOf:
				res = "forof"
			case cfjs.YieldStar:
				res = "yield*"
			default:
				res = cfjs.ConsumeName(n.V)
			}
			if it.Gen {
				res += "(generator)"
			}
			inRet = ret
		}
		walk(it.Next, "other", ret)
		walk(it.Ret, "other", true)
		walk(it.Body, "other", ret)
	}
	walk = func(l []*cfjs.Node, region string, ret bool) {
		for _, n := range l {
			if n.ID == id && n.K == cfjs.Log {
				res, inRet = region, ret
			}
			if n.ID == id && n.K == cfjs.Try { // the "c<id>:<value>" event logged on entry of its catch clause
				res, inRet = "catch", ret
			}
			walkIter(n, ret)
			switch n.K {
			case cfjs.Try:
				walk(n.A, region, ret)
				walk(n.B, "catch", ret)
				walk(n.C, "finally", ret)
			case cfjs.Consume:
				walk(n.A, "other", ret)
			default:
				walk(n.A, region, ret)
				walk(n.B, region, ret)
				walk(n.C, region, ret)
			}
		}
	}
	walk(p.Body, "other", false)
	return
}

func eventOwner(p *cfjs.Program, ev string) (owner string, inRet bool) {
	var id int
	switch evKind(ev) {
	case "log":
		fmt.Sscanf(ev, "%d", &id)
		return describeID(p, id)
	case "return()":
		fmt.Sscanf(ev[1:], "%d", &id)
		owner, _ = describeID(p, id)
		return owner, true
	case "next", "catch":
		fmt.Sscanf(ev[1:], "%d", &id)
		return describeID(p, id)
	}
	return "", false
}

// checkFault runs p with the fault injected at the k-th probe. fired == false: the program has fewer probes.
func checkFault(s Spec, p *cfjs.Program, src string, kind, k int, nativeMk bool) (sig, what string, c Case, fired bool) {
	e := newEngine(nativeMk)
	ri := e.run(src, kind, k)
	if !e.fired {
		return "", "", c, false
	}
	c = Case{Spec: s, Path: s.String(), Src: src, NativeMk: nativeMk, Fault: faultNames[kind], FaultAt: k, Got: ri.res}
	want := "interrupt:fault"
	if kind == faultOverflow {
		want = "stackoverflow"
	}
	c.Expected = cfjs.Result{Events: ri.res.Events[:e.firedLen], Outcome: want}
	pre := "fault=" + faultNames[kind] + "|" + flavour(nativeMk)
	_, inRet := eventOwner(p, ri.res.Events[e.firedLen-1])
	// 1. nothing of the program may run after an uncatchable fault
	// (An interrupt is only noticed at the next VM instruction: Go-native next()/return() methods that an
	// all-native loop - a built-in consumer, or the unwinding of a JS exception closing several native iterators -
	// calls before any VM instruction runs are latency, which is C15's subject. If the flag was raised by JS code
	// (a log probe) the very next instruction notices it, so nothing at all may follow.)
	firing := evKind(ri.res.Events[e.firedLen-1])
	nativeLoop := kind == faultInterrupt && nativeMk
	for _, ev := range ri.res.Events[e.firedLen:] {
		k := evKind(ev)
		if nativeLoop && (k == "next" || k == "return()" && firing != "log" && firing != "catch") {
			continue
		}
		if inRet {
			break // classified below
		}
		owner, _ := eventOwner(p, ev)
		return pre + "ran " + k + "@" + ownerGroup(owner),
			fmt.Sprintf("after an uncatchable %s injected at probe %d, the program still ran %s (%s of %s): events after the fault %v; program:\n%s", faultNames[kind], c.FaultAt, ev, k, owner, ri.res.Events[e.firedLen:], src), c, true
	}
	if inRet {
		ran := false
		nl := kind == faultInterrupt && nativeMk
		for _, ev := range ri.res.Events[e.firedLen:] {
			k := evKind(ev)
			if nl && (k == "next" || k == "return()" && firing != "log" && firing != "catch") {
				continue
			}
			ran = true
		}
		if ran || kind == faultOverflow && ri.res.Outcome != want {
			return pre + "raised inside an iterator's return(): swallowed",
				fmt.Sprintf("an uncatchable %s raised (probe %d) inside an iterator's return() method that was called to close the iterator is swallowed: outcome %q, events after the fault %v; program:\n%s", faultNames[kind], c.FaultAt, ri.res.Outcome, ri.res.Events[e.firedLen:], src), c, true
		}
	}
	// 2. the error must reach the host as such. (An interrupt whose flag is raised when no further VM instruction
	// is executed is legitimately never reported, so this is demanded of stack overflows only.)
	if ri.res.Outcome != want && kind == faultOverflow {
		return pre + "outcome " + normOutcome(ri.res.Outcome),
			fmt.Sprintf("uncatchable %s injected at probe %d surfaced as %q instead of %q; program:\n%s", faultNames[kind], c.FaultAt, ri.res.Outcome, want, src), c, true
	}
	// 3. the interrupt must be reported from where it happened, not from inside an iterator's return()
	if ie, ok := ri.err.(interface{ String() string }); ok && kind == faultInterrupt && !nativeMk && !inRet {
		if st := ie.String(); strings.Contains(firstFrame(st), "at ret ") {
			return pre + "reported from inside iterator return()",
				fmt.Sprintf("InterruptedError injected at probe %d carries the stack of the iterator's return() method, which was entered during unwinding: %q; program:\n%s", c.FaultAt, st, src), c, true
		}
	}
	return "", "", c, true
}

// ownerGroup maps a construct to the engine mechanism that iterates for it.
func ownerGroup(owner string) string {
	switch strings.TrimSuffix(owner, "(generator)") {
	case "forof", "destr1", "destr3", "destrSet":
		return "VM iterator stack (for-of, destructuring)"
	case "yield*":
		return "yield*"
	case "spread", "callSpread", "Array.from", "Array.from+map", "Map", "Set", "SetSub.add", "Promise.all", "PromiseSub.resolve":
		return "built-in consumer (iteratorRecord.iterate)"
	}
	return owner
}

func firstFrame(st string) string {
	l := strings.Split(st, "\n")
	if len(l) > 1 {
		return l[1]
	}
	return ""
}

func (w *worker) doFaults(s Spec) bool { return w.doFaultKinds(s, faultInterrupt, faultOverflow) }

func (w *worker) doFaultKinds(s Spec, from, to int) bool {
	p, ok := s.Build()
	if !ok {
		return false
	}
	src := p.Print()
	for kind := from; kind <= to; kind++ {
		for k := 1; ; k++ {
			sig, what, c, fired := checkFault(s, p, src, kind, k, w.nativeMk)
			if !fired {
				break
			}
			w.r.Eval(1)
			w.r.NontrivialN(1)
			w.r.Outcome(c.Got.Outcome)
			if sig != "" {
				again := 0
				for i := 0; i < 5; i++ {
					if s2, _, _, _ := checkFault(s, p, src, kind, k, w.nativeMk); s2 == sig {
						again++
					}
				}
				if again != 5 {
					sig, what = "nondeterministic|"+sig, fmt.Sprintf("reproduced only %d/5: %s", again, what)
				}
				w.r.Violation(sig, what, c)
			}
		}
	}
	return true
}

// ---------- replay ----------

func replay(r *core.Run, raw json.RawMessage) {
	var c Case
	if err := json.Unmarshal(raw, &c); err != nil {
		r.Violation("replay|bad", err.Error(), nil)
		return
	}
	r.Eval(1)
	if c.Spec.Frames == nil && c.Path != "" { // hand-written replay files may give the path only
		s, err := ParsePath(c.Path)
		if err != nil {
			r.Violation("replay|bad", err.Error(), c)
			return
		}
		c.Spec = s
	}
	p, ok := c.Spec.Build()
	if !ok {
		r.Violation("replay|bad", "spec does not build", c)
		return
	}
	if c.Fault != "" {
		kind := faultInterrupt
		if c.Fault == faultNames[faultOverflow] {
			kind = faultOverflow
		}
		if sig, what, c2, _ := checkFault(c.Spec, p, p.Print(), kind, c.FaultAt, c.NativeMk); sig != "" {
			r.Violation(sig, what, c2)
		}
		return
	}
	if c.Cold {
		if cl, c2, _ := differentialCold(c.Spec); cl != "" {
			if warm, _, _ := differential(c.Spec, false); warm == "" {
				r.Violation(coldSig, fmt.Sprintf("%s, but only on a brand-new runtime: goja gives %s, ECMA-262 (cfjs) demands %s; program:\n%s", cl, fmtResult(c2.Got), fmtResult(c2.Expected), c2.Src), c2)
			}
		}
		return
	}
	if cl, c2, _ := differential(c.Spec, c.NativeMk); cl != "" {
		r.Violation(diffSig(c.NativeMk, cl, c.Spec), fmt.Sprintf("%s: goja gives %s, ECMA-262 (cfjs) demands %s; program:\n%s", cl, fmtResult(c2.Got), fmtResult(c2.Expected), c2.Src), c2)
	}
}

// ---------- exploration ----------

func run(r *core.Run) {
	r.Assume("ref/cfjs implements ECMA-262 completion-record semantics for the mini-language (trusted base, ~1100 lines with printer and prelude); its printer and the prelude helpers (mk, drive, str) are part of it")
	r.Assume("loops run 2 iterations, instrumented iterators deliver 2 elements; thrown values are small integers or engine-created TypeErrors (compared by class, not message)")
	r.Assume("runtimes: SetMaxCallStackSize(120), 300000-instruction budget; a runtime that is not idle after a program is discarded (C03/C14 cover reuse)")
	names := make([]string, len(frames))
	for i := range frames {
		names[i] = frames[i].name
	}
	r.Set("frames", names)
	wn := make([]string, len(wrappers))
	for i := range wrappers {
		wn[i] = wrappers[i].name
	}
	r.Set("wrappers", wn)
	bounds := map[string]interface{}{}
	complete := true

	complete = runCorpus(r, bounds) && complete

	// Steps by increasing depth: differential sweep (JS iterators), the same with Go-native iterators, the
	// cold-runtime sweep and the fault injection are interleaved so that a run cut by the deadline has completed
	// all four parts at a smaller bound. The deepest level of each part uses the core alphabet.
	full, core := fullAlphabet(), coreAlphabet()
	r.Set("core_alphabet", coreNames)
	type step struct {
		kind  string // diff | native | faults | cold | distinct
		d     int
		alpha []int
	}
	var steps []step
	for d := 0; d <= 2; d++ {
		steps = append(steps, step{"diff", d, full}, step{"native", d, full}, step{"cold", d, full})
		if d <= 1 {
			steps = append(steps, step{"faults", d, full})
		}
	}
	if r.Quick() {
		steps = append(steps, step{"faults", 2, core}, step{"diff", 3, core}, step{"cold", 3, core})
	} else {
		steps = append(steps, step{"faults", 2, full}, step{"diff", 3, full}, step{"cold", 3, full}, step{"native", 3, core},
			step{"diff", 4, core}, step{"cold", 4, core}, step{"faults", 3, core}, step{"distinct", 5, core})
	}
	if n, _ := strconv.Atoi(os.Getenv("VERIF_C08_SKIP_STEPS")); n > 0 && n < len(steps) {
		// development aid: resume a long signature-collection run after its first n steps (the run is then
		// reported as not exhaustive)
		steps = steps[n:]
		complete = false
		r.Set("skipped_steps", n)
		defer r.Exhaustive(false)
	}
	cut := false
	for _, st := range steps {
		if cut {
			break
		}
		sp := newSpace(st.d, st.alpha)
		name := "full"
		if len(st.alpha) != len(full) {
			name = "core"
		}
		ok := true
		switch st.kind {
		case "diff":
			ok = runDepth(r, bounds, sp, name, false, false)
		case "native":
			ok = runDepth(r, bounds, sp, name, true, false)
		case "distinct":
			ok = runDepth(r, bounds, sp, name, false, true)
		case "faults":
			ok = runFaults(r, bounds, sp, name, r.Quick() && st.d == 2)
		case "cold":
			ok = runCold(r, bounds, sp, name)
		}
		if !ok {
			cut, complete = true, false
		}
	}
	r.Set("bounds_completed", bounds)
	r.Exhaustive(complete)
}

func runDepth(r *core.Run, bounds map[string]interface{}, sp space, alpha string, nativeMk, distinctOnly bool) bool {
	d := sp.d
	var valid int64
	key := "differential"
	if nativeMk {
		key = "differential, Go-native iterators"
	}
	if distinctOnly {
		key = "differential, one construct of each kind per path"
	}
	counts := make([]int64, r.Workers)
	ok := r.Parallel(sp.total, 512, func(wk int, lo, hi int64) {
		w := &worker{r: r, nativeMk: nativeMk}
		for rank := lo; rank < hi; rank++ {
			s := sp.spec(rank)
			if distinctOnly && !s.classesDistinct() {
				continue
			}
			if w.do(s, rank) {
				counts[wk]++
			}
		}
	})
	for _, c := range counts {
		valid += c
	}
	if !ok {
		bounds[key] = fmt.Sprintf("%v; depth %d (%s alphabet) cut by deadline", bounds[key], d, alpha)
		return false
	}
	bounds[key] = fmt.Sprintf("depth<=%d complete (%d valid programs at depth %d, %s alphabet of %d frames)", d, valid, d, alpha, len(sp.alpha))
	return true
}

// runFaults: reduced == true runs only the two informative combinations (stack overflow with JS iterators,
// interrupt with Go-native iterators) instead of all four.
func runFaults(r *core.Run, bounds map[string]interface{}, sp space, alpha string, reduced bool) bool {
	key := "fault injection (interrupt, stack overflow at every probe; JS and Go-native iterators)"
	note := ""
	if reduced {
		note = "; at this depth only overflow x JS iterators and interrupt x Go-native iterators"
	}
	ok := r.Parallel(sp.total, 64, func(wk int, lo, hi int64) {
		wj := &worker{r: r}
		wn := &worker{r: r, nativeMk: true}
		for rank := lo; rank < hi; rank++ {
			s := sp.spec(rank)
			if reduced {
				if wj.doFaultKinds(s, faultOverflow, faultOverflow) {
					wn.doFaultKinds(s, faultInterrupt, faultInterrupt)
				}
			} else if wj.doFaults(s) {
				wn.doFaults(s)
			}
		}
	})
	if !ok {
		bounds[key] = fmt.Sprintf("%v; depth %d (%s alphabet) cut by deadline", bounds[key], sp.d, alpha)
		return false
	}
	bounds[key] = fmt.Sprintf("depth<=%d complete (%s alphabet of %d frames%s)", sp.d, alpha, len(sp.alpha), note)
	return true
}

func runCold(r *core.Run, bounds map[string]interface{}, sp space, alpha string) bool {
	key := "differential on brand-new runtimes (initial stack capacities; paths that close an iterator/generator)"
	ok := r.Parallel(sp.total, 256, func(wk int, lo, hi int64) {
		w := &worker{r: r}
		for rank := lo; rank < hi; rank++ {
			if s := sp.spec(rank); s.closes() {
				w.doCold(s)
			}
		}
	})
	if !ok {
		bounds[key] = fmt.Sprintf("%v; depth %d (%s alphabet) cut by deadline", bounds[key], sp.d, alpha)
		return false
	}
	bounds[key] = fmt.Sprintf("depth<=%d complete (%s alphabet of %d frames)", sp.d, alpha, len(sp.alpha))
	return true
}
