package c08

import (
	"fmt"
	"sort"
	"strconv"
	"strings"

	"verif/ref/cfjs"

	"github.com/dop251/goja"
)

// fault kinds (engine E4): injected at the k-th call of the native log probe
const (
	faultNone = iota
	faultInterrupt
	faultOverflow
)

var faultNames = [...]string{"none", "interrupt", "stackoverflow"}

var (
	preludePrg   = goja.MustCompile("prelude.js", cfjs.Prelude, false)
	preludeMkPrg = goja.MustCompile("mk.js", cfjs.PreludeMk, false)
	boomPrg      = goja.MustCompile("boom.js", "function boom(){ return boom() }", false)
	warmPrg      = goja.MustCompile("warm.js", warmSrc(), false)
)

// warmSrc grows every VM stack (try, iterator, call, operand) beyond anything a program of the grammar needs,
// so that results on a warmed engine do not depend on slice capacities left behind by earlier programs.
func warmSrc() string {
	var sb strings.Builder
	sb.WriteString("(function(){ function rec(n){ if (n > 0) { try { rec(n-1) } finally { } } }\n")
	for i := 0; i < 40; i++ {
		sb.WriteString("try { for (var q of [1]) {")
	}
	sb.WriteString("rec(60);")
	for i := 0; i < 40; i++ {
		sb.WriteString("} } finally { }")
	}
	sb.WriteString("})()")
	return sb.String()
}

const stepBudget = 300000

// engine is one goja runtime with the native probes installed.
type engine struct {
	r         *goja.Runtime
	events    []string
	plog      []string
	count     int // number of probe (log) calls so far
	faultKind int
	faultAt   int
	fired     bool
	firedLen  int // len(events) right after the fault fired
	steps     int
	used      int
	nativeMk  bool
	idle      goja.VerifIdleState
	typeError *goja.Object
	boom      func(goja.FunctionCall) goja.Value
}

func newEngine(nativeMk bool) *engine { return newEngineW(nativeMk, true) }

// newEngineW: warm == false leaves the VM stacks at their initial (tiny) capacities.
func newEngineW(nativeMk, warm bool) *engine {
	e := &engine{r: goja.New(), nativeMk: nativeMk}
	r := e.r
	r.SetMaxCallStackSize(120)
	goja.VerifSetStepHook(r, func(r *goja.Runtime) {
		e.steps++
		if e.steps == stepBudget {
			r.Interrupt("budget")
		}
	})
	r.Set("log", e.log)
	r.Set("plog", func(call goja.FunctionCall) goja.Value {
		e.plog = append(e.plog, call.Argument(0).String()+":"+call.Argument(1).String())
		return goja.Undefined()
	})
	if _, err := r.RunProgram(preludePrg); err != nil {
		panic(err)
	}
	if nativeMk {
		r.Set("mk", e.mk)
	} else if _, err := r.RunProgram(preludeMkPrg); err != nil {
		panic(err)
	}
	if _, err := r.RunProgram(boomPrg); err != nil {
		panic(err)
	}
	if warm {
		if _, err := r.RunProgram(warmPrg); err != nil {
			panic(err)
		}
	}
	e.boom = r.Get("boom").Export().(func(goja.FunctionCall) goja.Value)
	e.typeError = r.Get("TypeError").(*goja.Object)
	e.idle = goja.VerifIdle(r)
	e.idle.PC = 0
	return e
}

func (e *engine) event(s string) {
	e.events = append(e.events, s)
	e.count++
	if e.faultKind != faultNone && e.count == e.faultAt {
		e.fired = true
		e.firedLen = len(e.events)
		switch e.faultKind {
		case faultInterrupt:
			e.r.Interrupt("fault")
		case faultOverflow:
			e.boom(goja.FunctionCall{This: goja.Undefined()}) // panics with *StackOverflowError
		}
	}
}

// log(x): records x; returns x if it is a number, undefined otherwise.
func (e *engine) log(call goja.FunctionCall) goja.Value {
	a := call.Argument(0)
	_, isNum := a.Export().(int64)
	e.event(a.String())
	if isNum {
		return a
	}
	return goja.Undefined()
}

// mk is the Go-native flavour of the instrumented iterator (same contract as cfjs.PreludeMk).
func (e *engine) mk(call goja.FunctionCall) goja.Value {
	r := e.r
	id := strconv.FormatInt(call.Argument(0).ToInteger(), 10)
	n := int(call.Argument(1).ToInteger())
	nx, _ := call.Argument(2).Export().(func(goja.FunctionCall) goja.Value)
	rt, _ := call.Argument(3).Export().(func(goja.FunctionCall) goja.Value)
	_, noRet := call.Argument(3).Export().(int64)
	k := 0
	it := r.NewObject()
	it.Set("next", func(goja.FunctionCall) goja.Value {
		e.event("n" + id)
		k++
		if nx != nil {
			if v := nx(goja.FunctionCall{This: goja.Undefined(), Arguments: []goja.Value{r.ToValue(k)}}); !goja.IsUndefined(v) {
				return v
			}
		}
		res := r.NewObject()
		if k <= n {
			res.Set("value", k)
			res.Set("done", false)
		} else {
			res.Set("value", goja.Undefined())
			res.Set("done", true)
		}
		return res
	})
	it.SetSymbol(goja.SymIterator, func(goja.FunctionCall) goja.Value { return it })
	if !noRet {
		it.Set("return", func(goja.FunctionCall) goja.Value {
			e.event("r" + id)
			if rt != nil {
				if v := rt(goja.FunctionCall{This: goja.Undefined()}); !goja.IsUndefined(v) {
					return v
				}
			}
			return r.NewObject()
		})
	}
	return it
}

func (e *engine) str(v goja.Value) string {
	if v == nil || goja.IsUndefined(v) {
		return "undefined"
	}
	if o, ok := v.(*goja.Object); ok {
		if e.r.InstanceOf(v, e.typeError) {
			return "TypeError"
		}
		if n := o.Get("name"); n != nil && o.ClassName() == "Error" {
			return n.String()
		}
		return "object"
	}
	switch x := v.Export().(type) {
	case int64:
		return strconv.FormatInt(x, 10)
	}
	return "other:" + v.String()
}

type runInfo struct {
	res      cfjs.Result
	err      error
	panicked interface{}
	idle     bool
	probes   int
}

// run executes src on the engine and collects what the property observes.
func (e *engine) run(src string, faultKind, faultAt int) (ri runInfo) {
	e.events, e.plog, e.count, e.steps = nil, nil, 0, 0
	e.faultKind, e.faultAt, e.fired = faultKind, faultAt, false
	e.used++
	prg, err := goja.Compile("case.js", src, false)
	if err != nil {
		ri.res.Outcome = "compile-error:" + err.Error()
		ri.idle = true
		return
	}
	var v goja.Value
	func() {
		defer func() {
			if x := recover(); x != nil {
				ri.panicked = x
			}
		}()
		v, err = e.r.RunProgram(prg)
	}()
	ri.err = err
	switch x := err.(type) {
	case nil:
		if ri.panicked != nil {
			ri.res.Outcome = fmt.Sprintf("go-panic:%v", ri.panicked)
		} else {
			ri.res.Outcome = "ok:" + e.str(v)
		}
	case *goja.Exception:
		ri.res.Outcome = "throw:" + e.str(x.Value())
	case *goja.InterruptedError:
		ri.res.Outcome = "interrupt:" + fmt.Sprint(x.Value())
	case *goja.StackOverflowError:
		ri.res.Outcome = "stackoverflow"
	default:
		ri.res.Outcome = fmt.Sprintf("error:%T", err)
	}
	ri.res.Events = e.events
	ri.res.PLog = append([]string(nil), e.plog...)
	sort.Strings(ri.res.PLog)
	ri.probes = e.count
	st := goja.VerifIdle(e.r)
	st.PC = 0
	ri.idle = st == e.idle && ri.panicked == nil
	return
}

func sameResult(a, b cfjs.Result) bool {
	return a.Outcome == b.Outcome && eqStrings(a.Events, b.Events) && eqStrings(a.PLog, b.PLog)
}

func eqStrings(a, b []string) bool {
	if len(a) != len(b) {
		return false
	}
	for i := range a {
		if a[i] != b[i] {
			return false
		}
	}
	return true
}

func fmtResult(r cfjs.Result) string {
	s := "[" + strings.Join(r.Events, " ") + "] => " + r.Outcome
	if len(r.PLog) > 0 {
		s += " promises{" + strings.Join(r.PLog, " ") + "}"
	}
	return s
}
