package c08

import (
	"fmt"
	"os"
	"strconv"
	"testing"

	"verif/ref/cfjs"
)

func TestDbg(t *testing.T) {
	d, _ := strconv.Atoi(os.Getenv("D"))
	sp := newSpace(d, fullAlphabet())
	n, bad := 0, 0
	seen := map[string]int{}
	for rank := int64(0); rank < sp.total; rank++ {
		s := sp.spec(rank)
		p, ok := s.Build()
		if !ok {
			continue
		}
		n++
		src := p.Print()
		exp := cfjs.Interpret(p)
		ri := newEngine(false).run(src, faultNone, 0)
		if cl := diffClass(exp, ri.res); cl != "" {
			bad++
			seen[cl]++
			if seen[cl] <= 2 {
				fmt.Printf("=== %s\n%s\n%s\nexp %s\ngot %s\n", cl, s.String(), src, fmtResult(exp), fmtResult(ri.res))
			}
		}
	}
	fmt.Println("programs", n, "bad", bad, seen)
}
