package c08

import (
	"fmt"
	"strings"

	. "verif/ref/cfjs"
)

// A program of the bounded grammar is a Spec: a wrapper, a path of frames (each frame is one construct with
// one slot into which the next frame is nested; the other positions hold log probes) and a leaf (the abrupt
// completion) placed in the innermost slot.
type Spec struct {
	W      int   `json:"w"`
	Frames []int `json:"frames"`
	Leaf   int   `json:"leaf"`
}

// ----- wrappers -----

type wrapDef struct {
	name     string
	wrap     string
	mode, at int
}

var wrappers = []wrapDef{
	{"global", "global", 0, 0},
	{"func", "func", 0, 0},
	{"gen-drain", "gen", 0, 0},
	{"gen-return@1", "gen", 1, 1},
	{"gen-throw@1", "gen", 2, 1},
	{"gen-return@2", "gen", 1, 2},
	{"gen-throw@2", "gen", 2, 2},
}

// ----- static context while building -----

type label struct {
	name string
	loop bool
}

type ctx struct {
	inFunc, inGen bool
	strict        bool // inside a class body
	top           bool // still in the outermost function (the wrapper's)
	labels        []label
	loop, brk     bool // an enclosing loop / breakable statement in the current function
	depth         int
}

func (c ctx) fn(gen bool) ctx { return ctx{inFunc: true, inGen: gen, depth: c.depth, strict: c.strict} }
func (c ctx) with(l label) ctx {
	c.labels = append(append([]label(nil), c.labels...), l)
	return c
}

// ----- frames -----

type frameDef struct {
	name    string
	class   string // construct class, for the "one construct of each kind per path" restriction
	needFn  bool   // contains a return statement
	needGen bool   // contains yield*
	sloppy  bool   // not allowed in strict code (with)
	strict  bool   // the slot is inside a class body
	enter   func(c ctx) ctx
	build   func(d int, kid []*Node) []*Node
}

func lg() *Node                 { return &Node{K: Log} }
func wrap3(kid []*Node) []*Node { return append(append([]*Node{lg()}, kid...), lg()) }
func lab(d int) string          { return fmt.Sprintf("L%d", d) }
func same(c ctx) ctx            { return c }
func thr() *Node                { return &Node{K: Throw} }

func tryFrame(name string, slot byte, hasCatch, hasFinally bool, pending string) frameDef {
	fd := frameDef{name: name, class: "try", enter: same}
	if pending == "continue" {
		fd.enter = func(c ctx) ctx { c.loop, c.brk = true, true; return c }
	}
	fd.needFn = pending == "return" || pending == "f-return"
	if pending == "f-continue" {
		fd.enter = func(c ctx) ctx { c.loop, c.brk = true, true; return c }
	}
	fd.build = func(d int, kid []*Node) []*Node {
		t := &Node{K: Try, HasB: hasCatch, HasC: hasFinally}
		switch slot {
		case 'a':
			t.A = wrap3(kid)
			if hasCatch {
				t.B = []*Node{lg()}
			}
			if hasFinally {
				t.C = []*Node{lg()}
			}
			// the finally block itself completes abruptly (override rule)
			switch pending {
			case "f-throw", "cf-throw":
				t.C = []*Node{lg(), thr()}
			case "f-return":
				t.C = []*Node{lg(), {K: Return}}
			case "f-break":
				t.C = []*Node{lg(), {K: Break, Label: fmt.Sprintf("M%d", d)}}
				return []*Node{{K: Labelled, Label: fmt.Sprintf("M%d", d), A: []*Node{t, lg()}}}
			case "f-continue":
				t.C = []*Node{lg(), {K: Continue, Label: fmt.Sprintf("M%d", d)}}
				return []*Node{{K: For, N: 2, Label: fmt.Sprintf("M%d", d), A: []*Node{lg(), t, lg()}}}
			}
		case 'b':
			t.A = []*Node{lg(), thr()}
			t.B = wrap3(kid)
			if hasFinally {
				t.C = []*Node{lg()}
			}
		case 'c':
			t.C = wrap3(kid)
			switch pending {
			case "normal":
				t.A = []*Node{lg()}
			case "throw":
				t.A = []*Node{lg(), thr()}
			case "break":
				t.A = []*Node{lg(), {K: Break, Label: fmt.Sprintf("M%d", d)}}
				return []*Node{{K: Labelled, Label: fmt.Sprintf("M%d", d), A: []*Node{t, lg()}}}
			case "continue":
				t.A = []*Node{lg(), {K: Continue}}
				return []*Node{{K: DoWhile, N: 1, A: []*Node{t, lg()}}}
			case "return":
				t.A = []*Node{lg(), {K: Return}}
			case "catch-throw":
				t.A = []*Node{lg(), thr()}
				t.B = []*Node{lg(), thr()}
			}
		}
		return []*Node{t}
	}
	return fd
}

func loopFrame(name, kind string, v int) frameDef {
	return frameDef{name: name, class: "loop",
		enter: func(c ctx) ctx {
			c = c.with(label{lab(c.depth), true})
			c.loop, c.brk = true, true
			return c
		},
		build: func(d int, kid []*Node) []*Node {
			n := &Node{K: kind, Label: lab(d), N: 2, V: v, A: wrap3(kid)}
			if kind == ForOf {
				n.It = &Iter{N: 2}
			}
			return []*Node{n}
		}}
}

// consumer frames: the slot is a function body run by the iteration protocol.
//
//	slot "next1"/"next2": inside the 1st/2nd next(); "return": inside return(); "cb": the consumer's callback
func iterFrame(name string, make func(it *Iter, cb []*Node) *Node, slot string, n int, cbThrows bool, needFn, needGen bool) frameDef {
	strict := slot == "cb" && (strings.HasPrefix(name, "setSub") || strings.HasPrefix(name, "pallSub"))
	return frameDef{name: name, class: "consumer", needFn: needFn, needGen: needGen, strict: strict,
		enter: func(c ctx) ctx { c = c.fn(false); c.strict = c.strict || strict; return c },
		build: func(d int, kid []*Node) []*Node {
			it := &Iter{N: n}
			var cb []*Node
			switch slot {
			case "next1":
				it.HasNext, it.At, it.Next = true, 1, wrap3(kid)
			case "next2":
				it.HasNext, it.At, it.Next = true, 2, wrap3(kid)
			case "return":
				it.HasRet, it.Ret = true, wrap3(kid)
			case "cb":
				cb = wrap3(kid)
			}
			if cbThrows {
				cb = []*Node{lg(), thr()}
			}
			return []*Node{make(it, cb)}
		}}
}

func forOfWith(body ...*Node) func(it *Iter, cb []*Node) *Node {
	return func(it *Iter, cb []*Node) *Node {
		b := make([]*Node, len(body))
		for i := range body {
			c := *body[i]
			b[i] = &c
		}
		return &Node{K: ForOf, It: it, A: b}
	}
}

func consumer(v int) func(it *Iter, cb []*Node) *Node {
	return func(it *Iter, cb []*Node) *Node { return &Node{K: Consume, V: v, It: it, A: cb} }
}

func yieldStar(it *Iter, cb []*Node) *Node { return &Node{K: YieldStar, It: it} }

// generator frames: the slot is inside the body of a generator consumed by something.
//
//	slot "body":    function*(){ log; yield; KID; yield; log }
//	slot "finally": function*(){ try { log; yield; yield; log } finally { log; KID; log } }
func genFrame(name string, make func(it *Iter, cb []*Node) *Node, slot string, needGen bool) frameDef {
	return frameDef{name: name, class: "gen", needGen: needGen,
		enter: func(c ctx) ctx { return c.fn(true) },
		build: func(d int, kid []*Node) []*Node {
			it := &Iter{Gen: true}
			y := func() *Node { return &Node{K: Yield} }
			if slot == "body" {
				it.Body = append(append([]*Node{lg(), y()}, kid...), y(), lg())
			} else {
				it.Body = []*Node{{K: Try, HasC: true, A: []*Node{lg(), y(), y(), lg()}, C: wrap3(kid)}, lg()}
			}
			return []*Node{make(it, nil)}
		}}
}

var frames = []frameDef{
	tryFrame("try{@}catch", 'a', true, false, ""),
	tryFrame("try{@}finally", 'a', false, true, ""),
	tryFrame("try{@}catch-finally", 'a', true, true, ""),
	tryFrame("try{@}finally-throw", 'a', false, true, "f-throw"),
	tryFrame("try{@}finally-return", 'a', false, true, "f-return"),
	tryFrame("try{@}finally-break", 'a', false, true, "f-break"),
	tryFrame("try{@}finally-continue", 'a', false, true, "f-continue"),
	tryFrame("try{@}catch-finally-throw", 'a', true, true, "cf-throw"),
	tryFrame("catch{@}", 'b', true, false, ""),
	tryFrame("catch{@}finally", 'b', true, true, ""),
	tryFrame("finally{@}", 'c', false, true, "normal"),
	tryFrame("throw-finally{@}", 'c', false, true, "throw"),
	tryFrame("break-finally{@}", 'c', false, true, "break"),
	tryFrame("continue-finally{@}", 'c', false, true, "continue"),
	tryFrame("return-finally{@}", 'c', false, true, "return"),
	tryFrame("catchthrow-finally{@}", 'c', true, true, "catch-throw"),
	{name: "label{@}", class: "label",
		enter: func(c ctx) ctx { return c.with(label{lab(c.depth), false}) },
		build: func(d int, kid []*Node) []*Node {
			return []*Node{{K: Labelled, Label: lab(d), A: wrap3(kid)}}
		}},
	{name: "let{@}", class: "label", enter: same,
		build: func(d int, kid []*Node) []*Node { return []*Node{{K: LetBlock, A: wrap3(kid)}} }},
	loopFrame("for{@}", For, 0),
	loopFrame("for-let{@}", For, 1),
	loopFrame("while{@}", While, 0),
	loopFrame("do{@}", DoWhile, 0),
	loopFrame("forin{@}", ForIn, 0),
	loopFrame("forin-let{@}", ForIn, 1),
	loopFrame("forof{@}", ForOf, 0),
	loopFrame("forof-let{@}", ForOf, 1),
	{name: "switch{@}", class: "switch",
		enter: func(c ctx) ctx { c.brk = true; return c },
		build: func(d int, kid []*Node) []*Node {
			return []*Node{{K: Switch, C: []*Node{lg()}, A: wrap3(kid), B: []*Node{lg()}}}
		}},
	{name: "switch-let{@}", class: "switch",
		enter: func(c ctx) ctx { c.brk = true; return c },
		build: func(d int, kid []*Node) []*Node {
			return []*Node{{K: Switch, V: 1, C: []*Node{lg()}, A: wrap3(kid), B: []*Node{lg()}}}
		}},
	{name: "with{@}", class: "with", enter: same, sloppy: true,
		build: func(d int, kid []*Node) []*Node { return []*Node{{K: With, A: wrap3(kid)}} }},

	iterFrame("forof.next1{@}", forOfWith(lg()), "next1", 2, false, false, false),
	iterFrame("forof.next2{@}", forOfWith(lg()), "next2", 2, false, false, false),
	iterFrame("forof-break.return{@}", forOfWith(lg(), &Node{K: Break}), "return", 2, false, false, false),
	iterFrame("forof-throw.return{@}", forOfWith(lg(), thr()), "return", 2, false, false, false),
	iterFrame("forof-return.return{@}", forOfWith(lg(), &Node{K: Return}), "return", 2, false, true, false),
	iterFrame("destr1.next1{@}", consumer(CDestr1), "next1", 2, false, false, false),
	iterFrame("destr1.return{@}", consumer(CDestr1), "return", 2, false, false, false),
	iterFrame("destr3.next2{@}", consumer(CDestr3), "next2", 2, false, false, false),
	iterFrame("destrSet.return{@}", consumer(CDestrSet), "return", 2, false, false, false),
	iterFrame("spread.next2{@}", consumer(CSpread), "next2", 2, false, false, false),
	iterFrame("callSpread.next2{@}", consumer(CCallSpread), "next2", 2, false, false, false),
	iterFrame("from.next2{@}", consumer(CFrom), "next2", 2, false, false, false),
	iterFrame("fromMap.cb{@}", consumer(CFromMap), "cb", 2, false, false, false),
	iterFrame("fromMap-throw.return{@}", consumer(CFromMap), "return", 2, true, false, false),
	iterFrame("map.next1{@}", consumer(CMap), "next1", 2, false, false, false),
	iterFrame("map.return{@}", consumer(CMap), "return", 2, false, false, false),
	iterFrame("set.next2{@}", consumer(CSet), "next2", 2, false, false, false),
	iterFrame("setSub.add{@}", consumer(CSetSub), "cb", 2, false, false, false),
	iterFrame("setSub-throw.return{@}", consumer(CSetSub), "return", 2, true, false, false),
	iterFrame("pall.next2{@}", consumer(CPAll), "next2", 2, false, false, false),
	iterFrame("pallSub.resolve{@}", consumer(CPAllSub), "cb", 2, false, false, false),
	iterFrame("pallSub-throw.return{@}", consumer(CPAllSub), "return", 2, true, false, false),
	iterFrame("yieldstar.next2{@}", yieldStar, "next2", 2, false, false, true),
	iterFrame("yieldstar.return{@}", yieldStar, "return", 2, false, false, true),

	genFrame("forof-gen{@}", forOfWith(lg()), "body", false),
	genFrame("forof-break-gen.finally{@}", forOfWith(lg(), &Node{K: Break}), "finally", false),
	genFrame("forof-throw-gen.finally{@}", forOfWith(lg(), thr()), "finally", false),
	genFrame("destr1-gen.finally{@}", consumer(CDestr1), "finally", false),
	genFrame("spread-gen{@}", consumer(CSpread), "body", false),
	genFrame("yieldstar-gen{@}", yieldStar, "body", true),
	genFrame("yieldstar-gen.finally{@}", yieldStar, "finally", true),
}

// ----- leaves -----

const maxDepth = 6

const (
	leafNormal = iota
	leafThrow
	leafReturn
	leafBreak
	leafContinue
	leafYield
	leafBreakL                   // + i : break L<i>
	leafContinueL = 6 + maxDepth // + i : continue L<i>
	nLeaves       = 6 + 2*maxDepth
)

func leafName(l int) string {
	switch {
	case l >= leafContinueL:
		return fmt.Sprintf("continue L%d", l-leafContinueL)
	case l >= leafBreakL:
		return fmt.Sprintf("break L%d", l-leafBreakL)
	}
	return [...]string{"normal", "throw", "return", "break", "continue", "yield"}[l]
}

func buildLeaf(l int, c ctx) ([]*Node, bool, bool) {
	find := func(name string) (label, bool) {
		for _, x := range c.labels {
			if x.name == name {
				return x, true
			}
		}
		return label{}, false
	}
	switch {
	case l >= leafContinueL:
		x, ok := find(lab(l - leafContinueL))
		return []*Node{{K: Continue, Label: x.name}}, ok && x.loop, false
	case l >= leafBreakL:
		x, ok := find(lab(l - leafBreakL))
		return []*Node{{K: Break, Label: x.name}}, ok, false
	}
	switch l {
	case leafNormal:
		return []*Node{lg()}, true, false
	case leafThrow:
		return []*Node{thr()}, true, false
	case leafReturn:
		return []*Node{{K: Return}}, c.inFunc, false
	case leafBreak:
		return []*Node{{K: Break}}, c.brk, false
	case leafContinue:
		return []*Node{{K: Continue}}, c.loop, false
	case leafYield:
		return []*Node{{K: Yield}}, c.inGen, c.top
	}
	return nil, false, false
}

// Build turns a spec into a program. ok is false when the combination is not a valid program (label not in
// scope, return outside a function, yield outside a generator, a driver that has nothing to act upon).
func (s Spec) Build() (p *Program, ok bool) {
	if s.W < 0 || s.W >= len(wrappers) || len(s.Frames) > maxDepth || s.Leaf < 0 || s.Leaf >= nLeaves {
		return nil, false
	}
	w := wrappers[s.W]
	c := ctx{top: true}
	switch w.wrap {
	case "func":
		c.inFunc = true
	case "gen":
		c.inFunc, c.inGen = true, true
	}
	suspends := false
	var rec func(i int, c ctx) ([]*Node, bool)
	rec = func(i int, c ctx) ([]*Node, bool) {
		if i == len(s.Frames) {
			l, ok, susp := buildLeaf(s.Leaf, c)
			suspends = suspends || susp
			return l, ok
		}
		if s.Frames[i] < 0 || s.Frames[i] >= len(frames) {
			return nil, false
		}
		fd := &frames[s.Frames[i]]
		if fd.needFn && !c.inFunc || fd.needGen && !c.inGen || fd.sloppy && c.strict {
			return nil, false
		}
		if fd.needGen && c.top {
			suspends = true
		}
		c.depth = i
		cc := fd.enter(c)
		cc.top = c.top && fd.class != "consumer" && fd.class != "gen"
		cc.depth = i + 1
		kid, ok := rec(i+1, cc)
		if !ok {
			return nil, false
		}
		return fd.build(i, kid), true
	}
	body, ok := rec(0, c)
	if !ok {
		return nil, false
	}
	if w.mode != 0 && !suspends {
		return nil, false // return()/throw() on a generator that never suspends is the same as the drain driver
	}
	p = &Program{Wrap: w.wrap, Mode: w.mode, At: w.at, Body: wrap3(body)}
	p.Number()
	return p, true
}

func (s Spec) String() string {
	var sb strings.Builder
	sb.WriteString(wrappers[s.W].name)
	for _, f := range s.Frames {
		sb.WriteString(" > ")
		sb.WriteString(frames[f].name)
	}
	sb.WriteString(" > ")
	sb.WriteString(leafName(s.Leaf))
	return sb.String()
}

// classesDistinct reports whether every frame on the path is of a different construct class
// ("one construct of each kind per path").
func (s Spec) classesDistinct() bool {
	seen := map[string]bool{}
	for _, f := range s.Frames {
		c := frames[f].class
		if seen[c] {
			return false
		}
		seen[c] = true
	}
	return true
}

// coreNames is the reduced alphabet used at the deepest level of each tier: one representative per mechanism.
var coreNames = []string{
	"try{@}catch", "try{@}finally", "try{@}finally-throw", "try{@}finally-break", "catch{@}finally",
	"finally{@}", "throw-finally{@}", "break-finally{@}", "return-finally{@}",
	"label{@}", "for-let{@}", "while{@}", "forin{@}", "forof{@}", "forof-let{@}", "switch{@}", "with{@}",
	"forof.next2{@}", "forof-break.return{@}", "forof-throw.return{@}", "destr1.return{@}", "fromMap.cb{@}",
	"yieldstar.next2{@}", "forof-gen{@}", "forof-break-gen.finally{@}", "yieldstar-gen.finally{@}",
}

func fullAlphabet() []int {
	a := make([]int, len(frames))
	for i := range a {
		a[i] = i
	}
	return a
}

func coreAlphabet() []int {
	var a []int
	for _, n := range coreNames {
		found := false
		for i := range frames {
			if frames[i].name == n {
				a = append(a, i)
				found = true
			}
		}
		if !found {
			panic("no frame " + n)
		}
	}
	return a
}

// space is the index space of all specs with exactly d frames over an alphabet: rank <-> (wrapper, frames, leaf).
type space struct {
	d     int
	alpha []int
	total int64
}

func newSpace(d int, alpha []int) space {
	t := int64(len(wrappers)) * int64(nLeaves)
	for i := 0; i < d; i++ {
		t *= int64(len(alpha))
	}
	return space{d, alpha, t}
}

func (sp space) spec(rank int64) Spec {
	s := Spec{Frames: make([]int, sp.d)}
	// leaf varies fastest, then the wrapper, then the innermost frame ... the outermost frame slowest
	s.Leaf = int(rank % nLeaves)
	rank /= nLeaves
	s.W = int(rank % int64(len(wrappers)))
	rank /= int64(len(wrappers))
	n := int64(len(sp.alpha))
	for i := sp.d - 1; i >= 0; i-- {
		s.Frames[i] = sp.alpha[rank%n]
		rank /= n
	}
	return s
}

// closes reports whether the path contains a construct whose slot runs while an iterator or generator is being
// closed (the cold-runtime pass is restricted to these).
func (s Spec) closes() bool {
	for _, f := range s.Frames {
		if n := frames[f].name; strings.Contains(n, ".return{@}") || strings.Contains(n, "gen.finally{@}") {
			return true
		}
	}
	return false
}

// ParsePath is the inverse of Spec.String: "wrapper > frame > ... > leaf".
func ParsePath(path string) (Spec, error) {
	parts := strings.Split(path, " > ")
	if len(parts) < 2 {
		return Spec{}, fmt.Errorf("bad path %q", path)
	}
	s := Spec{W: -1, Leaf: -1, Frames: []int{}}
	for i, w := range wrappers {
		if w.name == parts[0] {
			s.W = i
		}
	}
	for l := 0; l < nLeaves; l++ {
		if leafName(l) == parts[len(parts)-1] {
			s.Leaf = l
		}
	}
	if s.W < 0 || s.Leaf < 0 {
		return s, fmt.Errorf("bad wrapper or leaf in %q", path)
	}
	for _, n := range parts[1 : len(parts)-1] {
		f := -1
		for i := range frames {
			if frames[i].name == n {
				f = i
			}
		}
		if f < 0 {
			return s, fmt.Errorf("unknown frame %q", n)
		}
		s.Frames = append(s.Frames, f)
	}
	return s, nil
}
