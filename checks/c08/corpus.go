package c08

import (
	"fmt"

	"verif/core"
)

// corpus: the minimal failing inputs of the listed findings, run first so that the quick tier reaches each of
// them deterministically (and a repaired defect is noticed as such).
type corpusCase struct {
	spec     Spec
	nativeMk bool
	fault    bool
}

var corpus = []corpusCase{}

func runCorpus(r *core.Run, bounds map[string]interface{}) bool {
	w := &worker{r: r}
	wn := &worker{r: r, nativeMk: true}
	for _, c := range corpus {
		x := w
		if c.nativeMk {
			x = wn
		}
		ok := false
		if c.fault {
			ok = x.doFaults(c.spec)
		} else {
			ok = x.do(c.spec, -1)
		}
		if !ok {
			r.Violation("corpus|invalid", "corpus spec does not build: "+fmt.Sprint(c.spec), c.spec)
		}
	}
	bounds["regression corpus"] = fmt.Sprintf("%d fixed cases", len(corpus))
	return true
}
