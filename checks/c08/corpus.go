package c08

import (
	"fmt"

	"verif/core"
)

// corpus: the minimal failing inputs of the listed findings, run first so that the quick tier reaches each of
// them deterministically (and a repaired defect is noticed as such).
type corpusCase struct {
	path string
	kind string // diff | native | cold | faults
}

var corpus = []corpusCase{
	// stale *tryFrame after an iterator close reallocated the try stack (fresh runtimes only)
	{"global > try{@}finally > forof-throw.return{@} > try{@}finally > normal", "cold"},
	{"global > try{@}finally-break > forof-throw.return{@} > try{@}finally-throw > normal", "cold"},
	{"gen-drain > try{@}finally > forof-throw.return{@} > forof-break-gen.finally{@} > normal", "cold"},
	// finally-throw caught by the own catch clause
	{"global > try{@}catch-finally-throw > normal", "diff"},
	{"gen-drain > try{@}catch-finally-throw > normal", "diff"},
	// pending return value clobbered by an abandoned nested return
	{"func > return-finally{@} > try{@}finally-break > return", "diff"},
	{"func > return-finally{@} > try{@}catch > try{@}finally-throw > return", "diff"},
	{"gen-drain > return-finally{@} > try{@}finally-break > return", "diff"},
	{"gen-drain > return-finally{@} > try{@}catch > try{@}finally-throw > return", "diff"},
	{"gen-return@1 > yieldstar-gen.finally{@} > return-finally{@} > try{@}finally-break > return", "diff"},
	{"gen-throw@1 > return-finally{@} > try{@}catch > return-finally{@} > yield", "diff"},
	{"gen-return@1 > yieldstar-gen.finally{@} > return-finally{@} > try{@}catch > try{@}finally-throw > return", "diff"},
	// generator return(): exception thrown by a finally block
	{"gen-return@1 > try{@}catch > try{@}finally-throw > yield", "diff"},
	{"gen-return@1 > forof{@} > try{@}finally-throw > try{@}finally-return > yield", "diff"},
	{"gen-return@1 > yieldstar-gen.finally{@} > yieldstar.next2{@} > throw", "diff"},
	{"gen-return@2 > yieldstar-gen{@} > catch{@} > try{@}finally-throw > yield", "diff"},
	// generator return(): exception crossing a native frame caught inside the finally block
	{"gen-return@1 > yieldstar-gen.finally{@} > try{@}catch > forof-break.return{@} > throw", "diff"},
	{"global > forof-break-gen.finally{@} > try{@}catch > forof-break.return{@} > throw", "diff"},
	// iteratorRecord.iterate closes / swallows on uncatchable errors
	{"global > fromMap-throw.return{@} > normal", "faults"},
	{"global > fromMap.cb{@} > normal", "faults"},
	{"global > forof{@} > map.return{@} > normal", "faults"},
	// regression guards for repaired defects (for-of unwinding on interrupt / stack overflow)
	{"global > forof{@} > normal", "faults"},
	{"func > forof{@} > forof{@} > throw", "faults"},
}

func runCorpus(r *core.Run, bounds map[string]interface{}) bool {
	w := &worker{r: r}
	wn := &worker{r: r, nativeMk: true}
	for _, c := range corpus {
		s, err := ParsePath(c.path)
		ok := err == nil
		if ok {
			switch c.kind {
			case "diff":
				ok = w.do(s, -1)
			case "native":
				ok = wn.do(s, -1)
			case "cold":
				ok = w.doCold(s)
			case "faults":
				ok = w.doFaults(s) && wn.doFaults(s)
			}
		}
		if !ok {
			r.Violation("corpus|invalid", "corpus path is not a valid program: "+c.path, c.path)
		}
	}
	bounds["regression corpus"] = fmt.Sprintf("%d fixed cases", len(corpus))
	return true
}
