// Package c08 holds the check for property C08.
package c08
