package c04

import (
	"encoding/json"
	"fmt"
	"os"
	"sort"
	"strings"
	"sync"

	"verif/core"
)

func init() {
	core.Register(&core.Check{
		ID:    "C04",
		Level: "model_checking",
		Rule: "explicit-state BFS over real goja objects, one search per (object kind, prototype-chain variant, key set): a state is the shortest operation path reaching it, a successor is a fresh object + replayed path + one operation of the alphabet (define with every partial descriptor of the lattice, get/set/delete/has through syntax, Object.*, Reflect.* with receivers and the Go API, preventExtensions/freeze/seal, setPrototypeOf); states are de-duplicated by the canonical observation (Reflect.ownKeys order, all descriptors, extensible, prototype, integrity tests, key lists of every reflection route, Go API lists, white-box storage tag). " +
			"Every transition is executed in lock-step on the Go reference model (ref/objmodel) and checked by the essential-invariant monitor. A transition is non-trivial when it changes the observable state; distinct = distinct (scenario, resulting observation).",
		Run:    run,
		Replay: replay,
	})
}

var stopEarly = os.Getenv("VERIF_C04_STOP_ON_VIOLATION") != ""

func run(r *core.Run) {
	x := &explorer{r: r, confirm: map[string]bool{}, memo: map[string]*memoEntry{}, harness: make([]*harness, r.Workers+1)}
	r.Assume("the JS-side observation battery and getter/setter logging run on the engine under test (plain property reads, string concatenation, Map lookups, try/catch)")
	r.Assume("states in which the auxiliary objects (child/parent/grand receivers) were modified are checked but not expanded in the single-key lattice searches")

	runRegressions(x)

	scs := buildScenarios(r.Thorough())
	if f := os.Getenv("VERIF_C04_ONLY"); f != "" { // development aid: restrict to scenarios whose name contains f
		var sel []*scenario
		for _, sc := range scs {
			if strings.Contains(sc.Name, f) {
				sel = append(sel, sc)
			}
		}
		scs = sel
	}
	order := make([]int, len(scs))
	for i := range order {
		order[i] = i
	}
	// plain objects first, then family by family; inside a family the larger searches first (load balance)
	family := func(sc *scenario) int {
		fams := []string{"lattice/plain/", "order/", "pair/", "proto/", "builtin/", "lattice/", "host/", "chain/"}
		for i, f := range fams {
			if strings.HasPrefix(sc.Name, f) {
				return i
			}
		}
		return len(fams)
	}
	sort.SliceStable(order, func(a, b int) bool {
		fa, fb := family(scs[order[a]]), family(scs[order[b]])
		if fa != fb {
			return fa < fb
		}
		return len(scs[order[a]].Ops) > len(scs[order[b]].Ops)
	})
	results := make([]scenarioResult, len(scs))
	started := make([]bool, len(scs))
	var mu sync.Mutex
	r.Parallel(int64(len(scs)), 1, func(worker int, lo, hi int64) {
		for i := lo; i < hi; i++ {
			sc := scs[order[i]]
			if stopEarly && r.ViolationCount() > 0 {
				return // development aid for mutant demonstrations: an unlisted violation was found
			}
			serial := func(n int64, fn func(worker int, lo, hi int64)) bool {
				for a := int64(0); a < n; a += 64 {
					if r.Expired() {
						return false
					}
					b := a + 64
					if b > n {
						b = n
					}
					fn(worker, a, b)
				}
				return true
			}
			res := x.explore(sc, worker, serial)
			mu.Lock()
			results[order[i]] = res
			started[order[i]] = true
			mu.Unlock()
		}
	})
	closed, bounded, total := 0, 0, 0
	var open []scenarioResult
	perKind := map[string][3]int64{}
	for i, res := range results {
		total++
		if !started[i] {
			open = append(open, scenarioResult{Name: scs[i].Name})
			continue
		}
		switch {
		case res.Closed:
			closed++
		case scs[i].MaxDepth > 0 && res.Depth >= scs[i].MaxDepth:
			bounded++
		default:
			open = append(open, res)
		}
		pk := perKind[scs[i].Kind]
		pk[0]++
		pk[1] += int64(res.States)
		pk[2] += res.Transitions
		perKind[scs[i].Kind] = pk
	}
	kinds := map[string]interface{}{}
	for k, v := range perKind {
		kinds[k] = map[string]int64{"searches": v[0], "states": v[1], "transitions": v[2]}
	}
	r.Set("searches_total", total)
	r.Set("searches_closed", closed)
	r.Set("searches_completed_to_depth_bound", bounded)
	r.Set("per_kind", kinds)
	if len(open) > 20 {
		open = open[:20]
	}
	r.Set("searches_not_closed", open)
	r.Set("bounds_completed", fmt.Sprintf("%d of %d searches ran to closure (frontier empty: every reachable abstract state expanded with every operation), %d more completed their depth bound, %d were cut by the budget", closed, total, bounded, total-closed-bounded))
	r.Exhaustive(closed+bounded == total)
}

func findScenario(c Case) *scenario {
	sc := &scenario{Name: c.Scenario, Kind: c.Kind, Variant: c.Variant, ChainKeys: c.ChainKeys}
	if kindSpecs[c.Kind] == nil {
		sc.NoModel = true
	}
	if sc.NoModel && hostKinds[c.Kind] == nil {
		return nil
	}
	return sc
}

func replay(r *core.Run, raw json.RawMessage) {
	var c Case
	if err := json.Unmarshal(raw, &c); err != nil {
		r.Violation("replay|bad-case", err.Error(), nil)
		return
	}
	if c.Special != "" {
		replaySpecial(r, c)
		return
	}
	if len(c.Path) == 0 {
		return
	}
	if findScenario(c) == nil {
		r.Violation("replay|unknown-kind", c.Kind, nil)
		return
	}
	fmt.Println("path:", pathString(c.Path))
	if _, failed := judge(r, newHarness(), c); !failed {
		fmt.Println("the case passes")
	}
}
