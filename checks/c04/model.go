package c04

import (
	"math"
	"strconv"
	"strings"
	"sync"

	om "verif/ref/objmodel"
)

// mworld is the model counterpart of one JS world (H.mk).
type mworld struct {
	role           [4]*om.Object // obO, obChild, obParent, obGrand
	log            []string
	f, g, sf, sg   *om.Object
	syms           map[string]*om.Symbol
	bindP, bindQ   *om.Binding
	hasAux         bool
	natural        map[string]*om.Object
	throwTypeError *om.Object
	arrayValues    *om.Object
	forInBefore    []om.Key // keys the last for-in started with (properties added during the loop may or may not be visited)
}

func (w *mworld) fn(name string, getter bool, ret string) *om.Object {
	o := om.NewObject(name, nil)
	if getter {
		o.Call = func(this om.Value, args []om.Value) (om.Value, *om.Throw) {
			w.log = append(w.log, name+".get("+om.RenderValue(this)+")")
			return om.Str(ret), nil
		}
	} else {
		o.Call = func(this om.Value, args []om.Value) (om.Value, *om.Throw) {
			v := om.Undefined
			if len(args) > 0 {
				v = args[0]
			}
			w.log = append(w.log, name+".set("+om.RenderValue(this)+","+om.RenderValue(v)+")")
			return om.Undefined, nil
		}
	}
	return o
}

func (w *mworld) naturalProto(name string) *om.Object {
	if p, ok := w.natural[name]; ok {
		return p
	}
	// Only the properties that pool keys can reach are modelled; explore checks at set-up that model and real
	// built-in agree on `key in proto` for every key of the search.
	p := om.NewObject(name, nil)
	switch name {
	case "FunctionProto":
		p.Put(om.StrKey("length"), om.DataProp(om.Num(0), false, false, true))
		p.Put(om.StrKey("name"), om.DataProp(om.Str(""), false, false, true))
		tte := om.ObjV(w.throwTypeError)
		p.Put(om.StrKey("caller"), om.AccessorProp(tte, tte, false, true))
		p.Put(om.StrKey("arguments"), om.AccessorProp(tte, tte, false, true))
	case "ArrayProto":
		p.Put(om.StrKey("length"), om.DataProp(om.Num(0), true, false, false))
		p.Put(om.SymKey(w.syms["iterator"]), om.DataProp(om.ObjV(w.arrayValues), true, false, true))
	case "StringProto":
		p.Put(om.StrKey("length"), om.DataProp(om.Num(0), false, false, false))
	}
	w.natural[name] = p
	return p
}

func (w *mworld) key(i int) om.Key {
	k := keys[i]
	if k.Kind == spSym {
		return om.SymKey(w.syms[k.Sym])
	}
	return om.StrKey(k.Str)
}

func (w *mworld) fnVal(which uint8, getter bool) om.Value {
	switch which {
	case fnA:
		if getter {
			return om.ObjV(w.f)
		}
		return om.ObjV(w.sf)
	case fnB:
		if getter {
			return om.ObjV(w.g)
		}
		return om.ObjV(w.sg)
	}
	return om.Undefined
}

func (w *mworld) desc(i int) om.Desc {
	d := descs[i]
	var r om.Desc
	if d.Val >= 0 {
		r.HasValue, r.Value = true, vals[d.Val].M
	}
	if d.W != flAbsent {
		r.HasW, r.W = true, d.W == flTrue
	}
	if d.E != flAbsent {
		r.HasE, r.E = true, d.E == flTrue
	}
	if d.C != flAbsent {
		r.HasC, r.C = true, d.C == flTrue
	}
	if d.Get != fnAbsent {
		r.HasGet, r.Get = true, w.fnVal(d.Get, true)
	}
	if d.Set != fnAbsent {
		r.HasSet, r.Set = true, w.fnVal(d.Set, false)
	}
	return r
}

// kindSpec describes one object kind: the JS constructor (H.kinds[Name]) and the model of the fresh object.
type kindSpec struct {
	Name    string
	Natural string // name of the built-in prototype
	Build   func(w *mworld, proto *om.Object) *om.Object
	Class   string // family used in signatures
	// Adopt: a built-in object with dozens of properties (Math, the global object). Its initial model state is
	// read off an untouched real instance (see adoptedState); what is checked is every transition from there,
	// in particular the first touch of the lazily materialised template by every operation. Such kinds use a
	// fresh runtime for every transition.
	Adopt bool
}

func dataP(v om.Value, w, e, c bool) om.Prop { return om.DataProp(v, w, e, c) }

func fnObject(w *mworld, proto *om.Object, name string, length float64, protoProp int) *om.Object {
	// protoProp: 0 none, 1 writable prototype (function), 2 non-writable prototype (class)
	o := om.NewObject("o", proto)
	o.Put(om.StrKey("length"), dataP(om.Num(length), false, false, true))
	o.Put(om.StrKey("name"), dataP(om.Str(name), false, false, true))
	if protoProp != 0 {
		po := om.NewObject("o.prototype", w.naturalProto("ObjectProto"))
		po.Put(om.StrKey("constructor"), dataP(om.ObjV(o), true, false, true))
		o.Put(om.StrKey("prototype"), dataP(om.ObjV(po), protoProp == 1, false, false))
	}
	return o
}

var kindSpecs = map[string]*kindSpec{
	"plain": {Name: "plain", Natural: "ObjectProto", Class: "ordinary", Build: func(w *mworld, p *om.Object) *om.Object { return om.NewObject("o", p) }},
	"plainlit": {Name: "plainlit", Natural: "ObjectProto", Class: "ordinary", Build: func(w *mworld, p *om.Object) *om.Object {
		o := om.NewObject("o", p)
		o.Put(om.StrKey("a"), dataP(om.Num(1), true, true, true))
		o.Put(om.StrKey("0"), dataP(om.Num(1), true, true, true))
		o.Put(om.SymKey(w.syms["s1"]), dataP(om.Num(1), true, true, true))
		return o
	}},
	"func":  {Name: "func", Natural: "FunctionProto", Class: "function", Build: func(w *mworld, p *om.Object) *om.Object { return fnObject(w, p, "o", 2, 1) }},
	"funcm": {Name: "funcm", Natural: "FunctionProto", Class: "function", Build: func(w *mworld, p *om.Object) *om.Object { return fnObject(w, p, "o", 2, 1) }},
	"sfunc": {Name: "sfunc", Natural: "FunctionProto", Class: "function", Build: func(w *mworld, p *om.Object) *om.Object { return fnObject(w, p, "o", 2, 1) }},
	"arrow": {Name: "arrow", Natural: "FunctionProto", Class: "function", Build: func(w *mworld, p *om.Object) *om.Object { return fnObject(w, p, "o", 1, 0) }},
	"bound": {Name: "bound", Natural: "FunctionProto", Class: "function", Build: func(w *mworld, p *om.Object) *om.Object { return fnObject(w, p, "bound T", 1, 0) }},
	"method": {Name: "method", Natural: "FunctionProto", Class: "function", Build: func(w *mworld, p *om.Object) *om.Object {
		return fnObject(w, p, "o", 1, 0)
	}},
	"klass": {Name: "klass", Natural: "FunctionProto", Class: "function", Build: func(w *mworld, p *om.Object) *om.Object {
		o := fnObject(w, p, "o", 0, 2)
		sm := om.NewObject("?function", nil)
		o.Put(om.StrKey("sm"), dataP(om.ObjV(sm), true, false, true))
		return o
	}},
	"array0": {Name: "array0", Natural: "ArrayProto", Class: "array", Build: func(w *mworld, p *om.Object) *om.Object { return om.NewArray("o", p) }},
	"array2": {Name: "array2", Natural: "ArrayProto", Class: "array", Build: func(w *mworld, p *om.Object) *om.Object {
		return om.NewArray("o", p, om.Num(1), om.Num(2))
	}},
	"arrayh": {Name: "arrayh", Natural: "ArrayProto", Class: "array", Build: func(w *mworld, p *om.Object) *om.Object {
		a := om.NewArray("o", p, om.Num(1))
		om.CreateDataProperty(a, om.StrKey("2"), om.Num(2))
		return a
	}},
	"sparse2": {Name: "sparse2", Natural: "ArrayProto", Class: "array", Build: func(w *mworld, p *om.Object) *om.Object {
		a := om.NewArray("o", p, om.Num(1))
		om.CreateDataProperty(a, om.StrKey("5000"), om.Num(2))
		return a
	}},
	"string": {Name: "string", Natural: "StringProto", Class: "string", Build: func(w *mworld, p *om.Object) *om.Object { return om.NewStringObject("o", p, "ab") }},
	"args": {Name: "args", Natural: "ObjectProto", Class: "arguments", Build: func(w *mworld, p *om.Object) *om.Object {
		w.hasAux = true
		callee := om.NewObject("?function", nil)
		return om.NewMappedArguments("o", p, []om.Value{om.Num(1), om.Num(2)}, []*om.Binding{w.bindP, w.bindQ}, callee, w.arrayValues, w.syms["iterator"])
	}},
	"args1": {Name: "args1", Natural: "ObjectProto", Class: "arguments", Build: func(w *mworld, p *om.Object) *om.Object {
		w.hasAux = true
		callee := om.NewObject("?function", nil)
		return om.NewMappedArguments("o", p, []om.Value{om.Num(1)}, []*om.Binding{w.bindP, w.bindQ}, callee, w.arrayValues, w.syms["iterator"])
	}},
	"uargs": {Name: "uargs", Natural: "ObjectProto", Class: "arguments", Build: func(w *mworld, p *om.Object) *om.Object {
		w.hasAux = true
		w.bindP.V, w.bindQ.V = om.Num(1), om.Num(2)
		o := om.NewObject("o", p)
		o.Put(om.StrKey("0"), dataP(om.Num(1), true, true, true))
		o.Put(om.StrKey("1"), dataP(om.Num(2), true, true, true))
		o.Put(om.StrKey("length"), dataP(om.Num(2), true, false, true))
		o.Put(om.SymKey(w.syms["iterator"]), dataP(om.ObjV(w.arrayValues), true, false, true))
		o.Put(om.StrKey("callee"), om.AccessorProp(om.ObjV(w.throwTypeError), om.ObjV(w.throwTypeError), false, false))
		return o
	}},
	"math":   {Name: "math", Natural: "ObjectProto", Class: "templated", Adopt: true, Build: buildAdopted("math")},
	"global": {Name: "global", Natural: "ObjectProto", Class: "global", Adopt: true, Build: buildAdopted("global")},
	"u8":     {Name: "u8", Natural: "Uint8ArrayProto", Class: "typedarray", Build: func(w *mworld, p *om.Object) *om.Object { return om.NewTypedArray("o", p, om.ElemUint8, 2) }},
	"u8e":    {Name: "u8e", Natural: "Uint8ArrayProto", Class: "typedarray", Build: func(w *mworld, p *om.Object) *om.Object { return om.NewTypedArray("o", p, om.ElemUint8, 0) }},
	"u8c": {Name: "u8c", Natural: "Uint8ClampedArrayProto", Class: "typedarray", Build: func(w *mworld, p *om.Object) *om.Object {
		return om.NewTypedArray("o", p, om.ElemUint8Clamped, 2)
	}},
	"f64": {Name: "f64", Natural: "Float64ArrayProto", Class: "typedarray", Build: func(w *mworld, p *om.Object) *om.Object { return om.NewTypedArray("o", p, om.ElemFloat64, 2) }},
}

// newModelWorld mirrors H.mk(kind, variant, keys).
func newModelWorld(kind *kindSpec, variant string, chainKeys []int) *mworld {
	w := &mworld{syms: map[string]*om.Symbol{}, natural: map[string]*om.Object{}}
	for _, n := range []string{"s1", "s2", "toPrimitive", "iterator", "toStringTag"} {
		w.syms[n] = &om.Symbol{Name: n}
	}
	w.f, w.g = w.fn("f", true, "rf"), w.fn("g", true, "rg")
	w.sf, w.sg = w.fn("sf", false, ""), w.fn("sg", false, "")
	w.bindP, w.bindQ = &om.Binding{V: om.Undefined}, &om.Binding{V: om.Undefined}
	w.throwTypeError = om.NewObject("ThrowTypeError", nil)
	w.throwTypeError.Call = func(this om.Value, args []om.Value) (om.Value, *om.Throw) { return om.Undefined, om.TypeError() }
	w.arrayValues = om.NewObject("ArrayProto_values", nil)
	grand := om.NewObject("grand", nil)
	parent := om.NewObject("parent", grand)
	parts := strings.Split(variant, "+")
	var proto *om.Object
	if parts[0] == "natural" {
		proto = w.naturalProto(kind.Natural)
	} else {
		proto = parent
	}
	o := kind.Build(w, proto)
	w.role[obO], w.role[obParent], w.role[obGrand] = o, parent, grand
	for _, p := range parts[1:] {
		who, how, _ := strings.Cut(p, ":")
		target := parent
		if who == "grand" {
			target = grand
		}
		for _, ki := range chainKeys {
			k := w.key(ki)
			switch how {
			case "acc":
				target.Put(k, om.AccessorProp(om.ObjV(w.g), om.ObjV(w.sg), true, true))
			case "getonly":
				target.Put(k, om.AccessorProp(om.ObjV(w.g), om.Undefined, true, true))
			case "ro":
				target.Put(k, om.DataProp(om.Num(7), false, true, true))
			case "rw":
				target.Put(k, om.DataProp(om.Num(7), true, true, true))
			}
		}
	}
	w.role[obChild] = om.NewObject("child", o)
	return w
}

// adoptOrder makes o's creation order of its initial properties the given (rendered) key order.
func (w *mworld) adoptOrder(order []string) {
	if len(order) == 0 {
		return
	}
	var ks []om.Key
	for _, n := range order {
		if strings.HasPrefix(n, "@") {
			if y := w.syms[n[1:]]; y != nil {
				ks = append(ks, om.SymKey(y))
			}
		} else {
			ks = append(ks, om.StrKey(n))
		}
	}
	w.role[obO].Reorder(ks)
}

func (w *mworld) roleValue(r uint8) om.Value {
	switch r {
	case obPrim:
		return om.Num(1)
	case obNull:
		return om.Null
	}
	return om.ObjV(w.role[r])
}

func (w *mworld) takeLog(res string) string {
	if len(w.log) > 0 {
		res += " log[" + strings.Join(w.log, ";") + "]"
		w.log = w.log[:0]
	}
	return res
}

func throwStr(th *om.Throw) string { return "throw:" + th.Type }

func boolStr(b bool) string {
	if b {
		return "true"
	}
	return "false"
}

// exec runs one operation on the model following the specification of the route, and renders the result the
// way the JS side renders it.
func (w *mworld) exec(op Op) string {
	w.log = w.log[:0]
	return w.takeLog(w.exec1(op))
}

func (w *mworld) exec1(op Op) string {
	var t *om.Object
	if op.Tg <= obGrand {
		t = w.role[op.Tg]
	}
	switch op.T {
	case opDefine:
		k := w.key(op.K)
		if descs[op.D].Invalid() {
			return "throw:TypeError"
		}
		d := w.desc(op.D)
		ok, th := t.DefineOwnProperty(k, d)
		if th != nil {
			return throwStr(th)
		}
		switch op.Rt {
		case rtReflect:
			return boolStr(ok)
		default: // Object.defineProperty, Object.defineProperties, Go API (throw=true)
			if !ok {
				return "throw:TypeError"
			}
			return "ok"
		}
	case opGet:
		k := w.key(op.K)
		recv := om.ObjV(t)
		if op.Rt == rtReflectRecv {
			recv = w.roleValue(op.Rc)
		}
		v, th := t.Get(k, recv)
		if th != nil {
			return throwStr(th)
		}
		return om.RenderValue(v)
	case opSet:
		k := w.key(op.K)
		recv := om.ObjV(t)
		if op.Rt == rtReflectRecv {
			recv = w.roleValue(op.Rc)
		}
		ok, th := t.Set(k, vals[op.V].M, recv)
		if th != nil {
			return throwStr(th)
		}
		switch op.Rt {
		case rtSyntax, rtStatic:
			return "ok"
		case rtSyntaxStrict, rtStaticStrict, rtGo:
			if !ok {
				return "throw:TypeError"
			}
			return "ok"
		}
		return boolStr(ok)
	case opDelete:
		k := w.key(op.K)
		ok := t.Delete(k)
		switch op.Rt {
		case rtSyntaxStrict, rtStaticStrict:
			if !ok {
				return "throw:TypeError"
			}
			return "true"
		case rtGo:
			if !ok {
				return "throw:TypeError"
			}
			return "ok"
		}
		return boolStr(ok)
	case opHas:
		k := w.key(op.K)
		switch op.Rt {
		case rtSyntax, rtReflect:
			return boolStr(t.HasProperty(k))
		case rtPIE:
			p, has := t.GetOwnProperty(k)
			return boolStr(has && p.E)
		}
		_, has := t.GetOwnProperty(k)
		return boolStr(has)
	case opGOPD:
		p, has := t.GetOwnProperty(w.key(op.K))
		if !has {
			return "none"
		}
		return om.RenderProp(p)
	case opPreventExt:
		ok := t.PreventExtensions()
		if op.Rt == rtReflect {
			return boolStr(ok)
		}
		if !ok {
			return "throw:TypeError"
		}
		return "ok"
	case opFreeze, opSeal:
		ok, th := om.SetIntegrityLevel(t, op.T == opFreeze)
		if th != nil {
			return throwStr(th)
		}
		if !ok {
			return "throw:TypeError"
		}
		return "ok"
	case opSetProto:
		var p *om.Object
		if op.Rc != obNull {
			p = w.role[op.Rc]
		}
		ok := t.SetPrototypeOf(p)
		if op.Rt == rtReflect {
			return boolStr(ok)
		}
		if !ok {
			return "throw:TypeError"
		}
		return "ok"
	case opSetFormal:
		w.bindP.V = vals[op.V].M
		return "ok"
	case opKeys:
		return om.RenderKeys(om.EnumerableOwnKeys(t))
	case opForIn:
		keys0 := om.ForInKeys(t)
		var visited []om.Key
		mutated := false
		for i, k := range keys0 {
			if mutated && !t.HasProperty(k) {
				continue // deleted before it was processed
			}
			if i == op.J {
				w.exec1(*op.M)
				mutated = true
			}
			visited = append(visited, k)
		}
		if !mutated {
			w.exec1(*op.M)
		}
		w.forInBefore = keys0
		return om.RenderKeys(visited)
	case opAssign:
		gk, ak := w.key(op.K), w.key(op.V)
		getter := om.NewObject("?function", nil)
		getter.Call = func(this om.Value, args []om.Value) (om.Value, *om.Throw) {
			if o := this.ObjOrNil(); o != nil {
				if op.J&2 != 0 {
					o.Delete(ak)
				} else {
					o.Set(ak, om.Num(9), this)
				}
			}
			return om.Str("rm"), nil
		}
		if th := om.DefinePropertyOrThrow(t, gk, om.Desc{HasGet: true, Get: om.ObjV(getter), HasE: true, E: true, HasC: true, C: true}); th != nil {
			return throwStr(th)
		}
		c := om.NewObject("copy", nil)
		var th *om.Throw
		if op.J&1 != 0 {
			th = om.CopyDataProperties(c, t)
		} else {
			th = om.Assign(c, t)
		}
		t.Delete(gk)
		w.log = w.log[:0]
		if th != nil {
			return throwStr(th)
		}
		return om.RenderKeys(c.OwnKeys())
	case opObserve:
		return w.observe(t)
	}
	panic("model: unknown op")
}

// dump renders the canonical state of the four world objects in the format of H.dump.
func (w *mworld) dump() string {
	var sb strings.Builder
	for i, n := range []string{"o", "child", "parent", "grand"} {
		if i > 0 {
			sb.WriteByte('\n')
		}
		dumpModelObj(&sb, n, w.role[i], true)
	}
	if w.hasAux {
		sb.WriteString("\naux{p=" + om.RenderValue(w.bindP.V) + " q=" + om.RenderValue(w.bindQ.V) + "}")
	}
	return sb.String()
}

func b01(b bool) string {
	if b {
		return "1"
	}
	return "0"
}

func dumpModelObj(sb *strings.Builder, name string, o *om.Object, light bool) {
	s := om.Snapshot(o)
	sb.WriteString(name + "{x" + b01(s.Ext))
	sb.WriteString(" p" + s.Proto)
	z := " z" + b01(s.Frozen) + b01(s.Sealed)
	sb.WriteString(z)
	sb.WriteString(" K[" + strings.Join(s.Keys, ",") + "]")
	var names, syms []string
	for _, k := range s.Keys {
		sb.WriteString(" " + k + "=" + s.Props[k])
		if strings.HasPrefix(k, "@") {
			syms = append(syms, k)
		} else {
			names = append(names, k)
		}
	}
	sb.WriteString(z)
	if light {
		sb.WriteString("}")
		return
	}
	sb.WriteString(" x" + b01(s.Ext) + " p" + s.Proto + "," + s.Proto)
	sb.WriteString(" N[" + strings.Join(names, ",") + "]")
	sb.WriteString(" S[" + strings.Join(syms, ",") + "]")
	sb.WriteString(" E" + om.RenderKeys(om.EnumerableOwnKeys(o)))
	sb.WriteString(" F" + om.RenderKeys(om.ForInKeys(o)))
	sb.WriteString("}")
}

// observe is the model's answer to the full observation battery (opObserve): JS routes, then the Go API lists.
func (w *mworld) observe(o *om.Object) string {
	var sb strings.Builder
	dumpModelObj(&sb, "obs", o, false)
	var names, enum, syms []string
	for _, k := range o.OwnKeys() {
		p, _ := o.GetOwnProperty(k)
		if k.Sym != nil {
			if p.E {
				syms = append(syms, "@"+k.Sym.Name)
			}
			continue
		}
		names = append(names, k.Str)
		if p.E {
			enum = append(enum, k.Str)
		}
	}
	proto := "null"
	if o.Proto != nil {
		proto = "#" + o.Proto.Name
	}
	sb.WriteString(" go{N[" + strings.Join(names, ",") + "] E[" + strings.Join(enum, ",") + "] S[" + strings.Join(syms, ",") + "] p" + proto + "}")
	return sb.String()
}

var adoptedMu sync.Mutex
var adopted = map[string]objState{}

// adoptedState observes an untouched instance of a built-in kind on a pristine runtime (once per process).
func adoptedState(kind string) objState {
	adoptedMu.Lock()
	defer adoptedMu.Unlock()
	if st, ok := adopted[kind]; ok {
		return st
	}
	h := newHarness()
	w := h.newWorld(kind, "natural", nil)
	st := parseDump(w.dump())[0]
	adopted[kind] = st
	return st
}

// parseValue turns a rendered value back into a model value; objects become fresh model objects carrying
// the rendered name (built-in functions all render as ?function; they are distinct objects).
func (w *mworld) parseValue(s string) om.Value {
	switch {
	case s == "undefined":
		return om.Undefined
	case s == "null":
		return om.Null
	case s == "true", s == "false":
		return om.Bool(s == "true")
	case s == "-0":
		return om.Num(math.Copysign(0, -1))
	case strings.HasPrefix(s, "\""):
		if u, err := strconv.Unquote(s); err == nil {
			return om.Str(u)
		}
		return om.Str(s)
	case strings.HasPrefix(s, "@"):
		if y := w.syms[s[1:]]; y != nil {
			return om.SymV(y)
		}
		y := &om.Symbol{Name: s[1:]}
		w.syms[s[1:]] = y
		return om.SymV(y)
	case strings.HasPrefix(s, "#"):
		switch s[1:] {
		case "f":
			return om.ObjV(w.f)
		case "g":
			return om.ObjV(w.g)
		case "sf":
			return om.ObjV(w.sf)
		case "sg":
			return om.ObjV(w.sg)
		}
		return om.ObjV(om.NewObject(s[1:], nil))
	}
	return om.Num(om.StringToNumber(s))
}

func buildAdopted(kind string) func(w *mworld, proto *om.Object) *om.Object {
	return func(w *mworld, proto *om.Object) *om.Object {
		st := adoptedState(kind)
		o := om.NewObject("o", proto)
		o.Ext = st.Ext
		for _, k := range st.Keys {
			p := parseProp(st.Props[k])
			var key om.Key
			if strings.HasPrefix(k, "@") {
				if w.syms[k[1:]] == nil {
					w.syms[k[1:]] = &om.Symbol{Name: k[1:]}
				}
				key = om.SymKey(w.syms[k[1:]])
			} else {
				key = om.StrKey(k)
			}
			if p.acc {
				o.Put(key, om.AccessorProp(w.parseValue(p.a), w.parseValue(p.b), p.e, p.c))
			} else {
				v := w.parseValue(p.a)
				if p.a == "#o" {
					v = om.ObjV(o) // globalThis.globalThis
				}
				o.Put(key, om.DataProp(v, p.w, p.e, p.c))
			}
		}
		return o
	}
}
