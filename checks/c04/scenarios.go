package c04

import "fmt"

// keyGroup is one property key with the spellings it is issued under (number / string / symbol value).
type keyGroup []int

func kg(names ...string) keyGroup {
	g := keyGroup{}
	for _, n := range names {
		g = append(g, K(n))
	}
	return g
}

type alphaCfg struct {
	data, acc, invalid []int   // descriptor indices (primary: Reflect.defineProperty, first spelling)
	secondary          []int   // descriptors issued through every other (route, spelling) combination
	defRoutes          []uint8 // routes the define lattice is issued through
	values             []int   // values for set
	recv               bool    // Reflect.get/set with receivers, ops through child
	static             bool    // static member syntax for identifier keys
	proto              bool    // setPrototypeOf ops
	integrity          bool    // preventExtensions / freeze / seal
	formal             bool    // assignment to the aliased formal parameter
	reads              bool
}

var allDefRoutes = []uint8{rtReflect, rtObject, rtGo, rtObject2}

func buildOps(groups []keyGroup, c alphaCfg) []Op {
	var ops []Op
	add := func(o Op) { ops = append(ops, o) }
	for _, g := range groups {
		for si, k := range g {
			ks := keys[k]
			goOK := ks.Kind != spInt // the Go API takes the key as a Go string or *Symbol
			// simplest first: reads, delete, set, then the descriptor lattice
			if c.reads {
				add(Op{T: opGet, Rt: rtSyntax, K: k})
				add(Op{T: opGet, Rt: rtReflect, K: k})
				if goOK {
					add(Op{T: opGet, Rt: rtGo, K: k})
				}
				if c.static && ks.Ident {
					add(Op{T: opGet, Rt: rtStatic, K: k})
				}
				add(Op{T: opHas, Rt: rtSyntax, K: k})
				add(Op{T: opHas, Rt: rtReflect, K: k})
				add(Op{T: opHas, Rt: rtObject, K: k})
				add(Op{T: opHas, Rt: rtObject2, K: k})
				add(Op{T: opHas, Rt: rtPIE, K: k})
				add(Op{T: opGOPD, Rt: rtObject, K: k})
				add(Op{T: opGOPD, Rt: rtReflect, K: k})
				if c.recv {
					for _, rc := range []uint8{obChild, obParent, obPrim} {
						add(Op{T: opGet, Rt: rtReflectRecv, K: k, Rc: rc})
					}
					add(Op{T: opGet, Rt: rtSyntax, K: k, Tg: obChild})
					add(Op{T: opGet, Rt: rtReflectRecv, K: k, Tg: obChild, Rc: obO})
					add(Op{T: opHas, Rt: rtSyntax, K: k, Tg: obChild})
				}
			}
			add(Op{T: opDelete, Rt: rtSyntax, K: k})
			add(Op{T: opDelete, Rt: rtSyntaxStrict, K: k})
			add(Op{T: opDelete, Rt: rtReflect, K: k})
			if goOK {
				add(Op{T: opDelete, Rt: rtGo, K: k})
			}
			if c.static && ks.Ident {
				add(Op{T: opDelete, Rt: rtStatic, K: k})
				add(Op{T: opDelete, Rt: rtStaticStrict, K: k})
			}
			for _, v := range c.values {
				add(Op{T: opSet, Rt: rtSyntax, K: k, V: v})
				add(Op{T: opSet, Rt: rtSyntaxStrict, K: k, V: v})
				add(Op{T: opSet, Rt: rtReflect, K: k, V: v})
				if goOK {
					add(Op{T: opSet, Rt: rtGo, K: k, V: v})
				}
				if c.static && ks.Ident {
					add(Op{T: opSet, Rt: rtStatic, K: k, V: v})
					add(Op{T: opSet, Rt: rtStaticStrict, K: k, V: v})
				}
			}
			if c.recv && len(c.values) > 0 {
				v := c.values[0]
				for _, rc := range []uint8{obO, obChild, obParent, obGrand, obPrim} {
					add(Op{T: opSet, Rt: rtReflectRecv, K: k, V: v, Rc: rc})
				}
				add(Op{T: opSet, Rt: rtSyntax, K: k, V: v, Tg: obChild})
				add(Op{T: opSet, Rt: rtSyntaxStrict, K: k, V: v, Tg: obChild})
				for _, rc := range []uint8{obO, obParent, obGrand, obPrim} {
					add(Op{T: opSet, Rt: rtReflectRecv, K: k, V: v, Tg: obChild, Rc: rc})
				}
			}
			for ri, rt := range c.defRoutes {
				if rt == rtGo && !goOK {
					continue
				}
				if rt == rtObject2 && si > 0 {
					continue
				}
				if (ri > 0 || si > 0) && c.secondary != nil {
					for _, d := range c.secondary {
						if rt == rtGo && descs[d].Invalid() {
							continue
						}
						add(Op{T: opDefine, Rt: rt, K: k, D: d})
					}
					continue
				}
				for _, d := range c.data {
					add(Op{T: opDefine, Rt: rt, K: k, D: d})
				}
				for _, d := range c.acc {
					add(Op{T: opDefine, Rt: rt, K: k, D: d})
				}
				if rt != rtGo {
					for _, d := range c.invalid {
						add(Op{T: opDefine, Rt: rt, K: k, D: d})
					}
				}
			}
		}
	}
	if c.reads {
		add(Op{T: opObserve, K: -1})
	}
	if c.integrity {
		add(Op{T: opPreventExt, Rt: rtObject, K: -1})
		add(Op{T: opPreventExt, Rt: rtReflect, K: -1})
		add(Op{T: opSeal, Rt: rtObject, K: -1})
		add(Op{T: opFreeze, Rt: rtObject, K: -1})
	}
	if c.proto {
		for _, rt := range []uint8{rtObject, rtReflect, rtObject2, rtGo} {
			for _, rc := range []uint8{obNull, obParent, obGrand, obChild, obO} {
				add(Op{T: opSetProto, Rt: rt, K: -1, Rc: rc})
			}
		}
	}
	if c.formal {
		add(Op{T: opSetFormal, K: -1, V: v3})
	}
	return ops
}

var allFn = []uint8{fnAbsent, fnUndef, fnA, fnB}

// fullLattice: every partial data / generic descriptor over the values, every accessor descriptor over
// {absent, undefined, f, g} x {absent, undefined, sf, sg}, and the invalid mixes.
func fullLattice(values []int) alphaCfg {
	return alphaCfg{data: dataLattice(values), acc: accLattice(allFn, allFn), invalid: invalidDescs(), defRoutes: allDefRoutes,
		values: values, recv: true, static: true, integrity: true, reads: true}
}

// secondaryDescs: every single-field descriptor, the empty one, the complete ones and one invalid mix — what
// the non-primary routes and spellings are driven with in the quick tier.
func secondaryDescs(values []int) []int {
	data, acc := generatorDescs(values[:1])
	res := append(data, acc...)
	res = append(res, D(descSpec{Val: -1}), D(descSpec{Val: values[0]}), D(descSpec{Val: values[len(values)-1]}),
		D(descSpec{Val: -1, W: flTrue}), D(descSpec{Val: -1, W: flFalse}), D(descSpec{Val: -1, E: flTrue}), D(descSpec{Val: -1, E: flFalse}),
		D(descSpec{Val: -1, C: flTrue}), D(descSpec{Val: -1, C: flFalse}),
		D(descSpec{Val: -1, Get: fnA}), D(descSpec{Val: -1, Get: fnB}), D(descSpec{Val: -1, Get: fnUndef}),
		D(descSpec{Val: -1, Set: fnA}), D(descSpec{Val: -1, Set: fnB}), D(descSpec{Val: -1, Set: fnUndef}),
		D(descSpec{Val: v1, Get: fnA}))
	return res
}

// orderScenarios: the lazily sorted own-key list. Several keys of every kind, cheap operations, for-in loops
// that mutate the object while it is being enumerated, and copies (Object.assign / spread) during which a
// getter mutates the source. Hidden state (which part of the key list is still unsorted) depends on the path,
// so the de-dup key is refined by a path-derived abstraction of it.
func orderScenarios(thorough bool) []*scenario {
	var res []*scenario
	mk := func(name, kind string, ks []string, depth int, withCopy bool) {
		var ops []Op
		for _, n := range ks {
			k := K(n)
			ops = append(ops, Op{T: opSet, Rt: rtSyntax, K: k, V: v1})
			ops = append(ops, Op{T: opDelete, Rt: rtSyntax, K: k})
		}
		ops = append(ops, Op{T: opKeys, K: -1}, Op{T: opObserve, K: -1})
		ops = append(ops, Op{T: opDefine, Rt: rtReflect, K: K(ks[0]), D: D(descSpec{Val: v2, E: flFalse, C: flTrue, W: flTrue})})
		var strs []string
		for _, n := range ks {
			if keys[K(n)].Kind != spSym {
				strs = append(strs, n)
			}
		}
		for j := 0; j < 3; j++ {
			for _, n := range strs {
				k := K(n)
				ops = append(ops, Op{T: opForIn, K: -1, J: j, M: &Op{T: opSet, Rt: rtSyntax, K: k, V: v2}})
				ops = append(ops, Op{T: opForIn, K: -1, J: j, M: &Op{T: opDelete, Rt: rtSyntax, K: k}})
			}
		}
		if withCopy {
			for _, gk := range []string{`"g"`, "@s2"} {
				for _, ak := range []string{`"z"`, "@s1", "7", ks[len(strs)-1], ks[0]} {
					for j := 0; j < 4; j++ {
						if j&2 != 0 && (ak == `"z"` || ak == "7") {
							continue // nothing to delete
						}
						ops = append(ops, Op{T: opAssign, K: K(gk), V: K(ak), J: j})
					}
				}
			}
		}
		res = append(res, &scenario{Name: name, Kind: kind, Variant: "chain", Ops: ops, MaxDepth: depth, Refine: unsortedTail, Cost: 1 << 20})
	}
	d := 3
	if thorough {
		d = 4
	}
	mk("order/plain", "plain", []string{"1", "0", `"b"`, `"a"`, "@s1"}, d, true)
	mk("order/plain-numeric", "plain", []string{`"1"`, `"01"`, `"-0"`, `"4294967295"`, `"4294967294"`, "@s1"}, d, false)
	mk("order/func", "func", []string{"1", "0", `"b"`, `"prototype"`}, d, false)
	mk("order/funcm", "funcm", []string{"1", "0", `"b"`, `"prototype"`}, d, false)
	mk("order/array", "array2", []string{"3", "0", `"b"`, `"a"`, "@s1"}, d, true)
	mk("order/args", "args", []string{"1", "0", `"b"`, "3"}, d, false)
	mk("order/string", "string", []string{"3", "2", `"b"`, `"a"`}, d, false)
	return res
}

// unsortedTail abstracts goja's lazily sorted name list from the path: the raw insertion order of the string
// keys and how many of them were in place at the last enumeration. (Over-fine is harmless.)
func unsortedTail(path []Op, sc *scenario) string {
	m := newModelWorld(kindSpecs[sc.Kind], sc.Variant, sc.ChainKeys)
	m.adoptOrder(sc.InitOrder)
	o := m.role[obO]
	raw := []string{}
	for _, k := range o.OwnKeys() {
		if k.Sym == nil {
			raw = append(raw, k.Str)
		}
	}
	sorted := len(raw)
	sync := func() {
		have := map[string]bool{}
		for _, k := range o.OwnKeys() {
			if k.Sym == nil {
				have[k.Str] = true
			}
		}
		out := raw[:0:0]
		seen := map[string]bool{}
		for i, n := range raw {
			if have[n] {
				out = append(out, n)
				seen[n] = true
			} else if i < sorted {
				sorted--
			}
		}
		for _, k := range o.OwnKeys() { // newly created keys, in creation order
			if k.Sym == nil && !seen[k.Str] {
				out = append(out, k.Str)
			}
		}
		raw = out
		if sorted > len(raw) {
			sorted = len(raw)
		}
	}
	for _, op := range path {
		m.exec(op)
		sync()
		switch op.T {
		case opKeys, opObserve, opForIn, opAssign, opFreeze, opSeal:
			sorted = len(raw)
		}
	}
	return fmt.Sprintf("%v/%d", raw, sorted)
}

// generators: the complete descriptors that construct every property state directly (used where the
// define lattice itself is not the subject).
func generatorDescs(values []int) (data, acc []int) {
	for _, v := range values {
		for w := uint8(1); w < 3; w++ {
			for e := uint8(1); e < 3; e++ {
				for c := uint8(1); c < 3; c++ {
					data = append(data, D(descSpec{W: w, E: e, C: c, Val: v}))
				}
			}
		}
	}
	for e := uint8(1); e < 3; e++ {
		for c := uint8(1); c < 3; c++ {
			acc = append(acc, D(descSpec{E: e, C: c, Val: -1, Get: fnA, Set: fnA}))
			acc = append(acc, D(descSpec{E: e, C: c, Val: -1, Get: fnA, Set: fnUndef}))
			acc = append(acc, D(descSpec{E: e, C: c, Val: -1, Get: fnUndef, Set: fnA}))
		}
	}
	return
}

type kindKeys struct {
	kind   string
	groups []keyGroup
	thor   []keyGroup // additional key groups explored in the thorough tier only
}

// per kind: the keys whose single-key closure is explored under the full lattice
var latticeKinds = []kindKeys{
	{"plain", []keyGroup{kg("0", `"0"`), kg(`"a"`), kg("@s1")}, []keyGroup{kg(`"4294967295"`, "4294967295"), kg(`"-0"`), kg(`"length"`), kg("@toPrimitive")}},
	{"plainlit", []keyGroup{kg("0", `"0"`), kg(`"a"`), kg("@s1")}, nil},
	{"func", []keyGroup{kg(`"prototype"`), kg(`"name"`), kg(`"length"`), kg(`"a"`), kg("0", `"0"`), kg("@s1")}, nil}, // (`caller` / `arguments` of a non-strict function: goja's %ThrowTypeError% is deliberately lenient there; kept to the strict kind)
	{"funcm", []keyGroup{kg(`"prototype"`), kg(`"a"`), kg("0", `"0"`)}, []keyGroup{kg(`"name"`), kg(`"length"`), kg("@s1")}},
	{"sfunc", []keyGroup{kg(`"prototype"`), kg(`"caller"`)}, []keyGroup{kg(`"a"`), kg("@s1")}},
	{"arrow", []keyGroup{kg(`"prototype"`), kg(`"name"`), kg("@s1")}, []keyGroup{kg(`"length"`), kg("0", `"0"`)}},
	{"bound", []keyGroup{kg(`"name"`), kg(`"prototype"`), kg("@s1")}, []keyGroup{kg(`"length"`), kg("0", `"0"`)}},
	{"method", []keyGroup{kg(`"prototype"`), kg(`"name"`)}, []keyGroup{kg("@s1")}},
	{"klass", []keyGroup{kg(`"prototype"`), kg(`"name"`), kg(`"sm"`), kg("@s1")}, []keyGroup{kg(`"length"`), kg("0", `"0"`)}},
	{"array0", []keyGroup{kg("0", `"0"`), kg(`"length"`), kg(`"a"`), kg("@s1"), kg("4294967295", `"4294967295"`)}, []keyGroup{kg(`"-0"`), kg(`"01"`)}},
	{"array2", []keyGroup{kg("0", `"0"`), kg("1", `"1"`), kg("2", `"2"`), kg(`"length"`), kg(`"a"`), kg("@s1")}, []keyGroup{kg("3", `"3"`)}},
	{"arrayh", []keyGroup{kg("1", `"1"`), kg("2", `"2"`), kg(`"length"`)}, []keyGroup{kg("0", `"0"`), kg("@s1")}},
	// (index 4294967294 is kept out of the searches: a rejected delete on an array renders the array for its
	// error message even when nothing is thrown, which takes minutes and gigabytes at length 2^32-1 — see NOTES)
	{"sparse2", []keyGroup{kg("0", `"0"`), kg("5000", `"5000"`), kg("1", `"1"`), kg(`"length"`)}, []keyGroup{kg("@s1"), kg(`"a"`)}},
	{"string", []keyGroup{kg("0", `"0"`), kg("2", `"2"`), kg(`"length"`), kg(`"a"`), kg("@s1")}, []keyGroup{kg("1", `"1"`), kg(`"-0"`), kg(`"1.5"`, "1.5")}},
	{"args", []keyGroup{kg("0", `"0"`), kg("2", `"2"`), kg(`"length"`), kg(`"callee"`), kg(`"a"`), kg("@iterator")}, []keyGroup{kg("1", `"1"`), kg("@s1")}},
	{"args1", []keyGroup{kg("0", `"0"`), kg("1", `"1"`)}, []keyGroup{kg(`"length"`)}},
	{"uargs", []keyGroup{kg("0", `"0"`), kg(`"callee"`), kg(`"length"`)}, []keyGroup{kg("@iterator"), kg("2", `"2"`)}},
	{"u8", []keyGroup{kg("0", `"0"`), kg("2", `"2"`), kg(`"-0"`), kg(`"1.5"`, "1.5"), kg(`"a"`), kg("@s1")}, []keyGroup{kg(`"NaN"`), kg(`"Infinity"`), kg(`"01"`), kg("4294967295", `"4294967295"`)}},
	{"f64", []keyGroup{kg("0", `"0"`), kg("2", `"2"`)}, []keyGroup{kg(`"-0"`), kg(`"a"`)}},
	{"u8c", []keyGroup{kg("0", `"0"`)}, nil},
	{"u8e", []keyGroup{kg("0", `"0"`), kg(`"a"`)}, nil},
}

func groupName(g keyGroup) string { return keys[g[0]].Name }

// buildScenarios lists every search of a tier, in a fixed order.
func buildScenarios(thorough bool) []*scenario {
	var res []*scenario
	add := func(s *scenario) {
		res = append(res, s)
	}
	// A. single-key closure under the full descriptor lattice, chain = two empty ordinary objects, and
	//    with the kind's built-in prototype.
	for _, kk := range latticeKinds {
		groups := kk.groups
		if thorough {
			groups = append(append([]keyGroup{}, groups...), kk.thor...)
		}
		for _, g := range groups {
			values := []int{v1, v2}
			if kindSpecs[kk.kind].Class == "array" && keys[g[0]].Str == "length" {
				values = []int{v1, v3, vZero, vStr2, v1_5, vNeg1, vMaxU32, vTwo32}
			}
			cfg := fullLattice(values)
			if !thorough {
				cfg.secondary = secondaryDescs(values)
			}
			cfg.formal = kindSpecs[kk.kind].Class == "arguments"
			if keys[g[0]].Str == "length" && kindSpecs[kk.kind].Class == "array" {
				// the value lattice is wide here; keep the flag lattice on three values and add the rest as full descriptors
				cfg.data = dataLattice([]int{v1, v3, vZero})
				for _, v := range []int{vStr2, v1_5, vNeg1, vMaxU32, vTwo32} {
					cfg.data = append(cfg.data, D(descSpec{Val: v}), D(descSpec{Val: v, W: flFalse}))
				}
			}
			for _, variant := range []string{"chain", "natural"} {
				if variant == "natural" && kindSpecs[kk.kind].Class == "typedarray" && keys[g[0]].Str == "length" {
					continue
				}
				if variant == "natural" && !thorough {
					switch kk.kind {
					case "arrow", "bound", "method", "sfunc", "plainlit", "u8e", "u8c", "args1":
						continue // quick tier: the built-in prototype variant only for the main kinds
					}
				}
				c := cfg
				if !thorough && kk.kind != "plain" {
					// quick tier: the second pair of functions (g / sg) only for plain objects; with the built-in
					// prototype only the complete descriptors (the lattice does not look at the prototype)
					c.acc = accLattice([]uint8{fnAbsent, fnUndef, fnA}, []uint8{fnAbsent, fnUndef, fnA})
					c.secondary = nil
					for _, d := range cfg.secondary {
						if descs[d].Get != fnB && descs[d].Set != fnB {
							c.secondary = append(c.secondary, d)
						}
					}
					if variant == "natural" {
						l := lightCfg(values)
						l.formal = c.formal
						l.data = append(l.data, c.data[:3]...)
						c = l
					}
				}
				add(&scenario{Name: fmt.Sprintf("lattice/%s/%s/%s", kk.kind, variant, groupName(g)), Kind: kk.kind, Variant: variant,
					ChainKeys: g, Ops: buildOps([]keyGroup{g}, c), LeafAux: true})
			}
		}
	}
	res = append(res, builtinScenarios(thorough)...)
	res = append(res, chainScenarios(thorough)...)
	res = append(res, pairScenarios(thorough)...)
	res = append(res, orderScenarios(thorough)...)
	res = append(res, hostScenarios(thorough)...)
	for _, s := range res {
		if s.Cost == 0 {
			s.Cost = len(s.Ops)
		}
	}
	return res
}

// hostScenarios: host kinds, one search per (kind, key); every operation is issued through every route and
// compared with the Reflect route (first spelling of the key).
func hostScenarios(thorough bool) []*scenario {
	var res []*scenario
	depth := 2
	if thorough {
		depth = 4
	}
	for _, name := range hostKindOrder {
		hk := hostKinds[name]
		for _, g := range hk.Keys {
			sd := secondaryDescs([]int{v1, v2})
			sd = sd[:len(sd)-1] // without the invalid mix: ToPropertyDescriptor rejects it before the object is involved
			cfg := alphaCfg{data: sd, defRoutes: allDefRoutes, values: []int{v1, v2}, recv: true, static: true, integrity: true, reads: true}
			if thorough {
				cfg.data, cfg.acc = dataLattice([]int{v1, v2}), accLattice(allFn, allFn)
			}
			ops := buildOps([]keyGroup{g}, cfg)
			sc := &scenario{Name: "host/" + name + "/" + groupName(g), Kind: name, Variant: "natural", ChainKeys: g, Ops: ops, MaxDepth: depth, NoModel: true, LeafAux: true, Ref: map[int]int{}}
			// reference op: same abstract operation through Reflect (receiver-less), first spelling
			type absKey struct {
				T      opType
				V, D   int
				Tg, Rc uint8
			}
			refOf := map[absKey]int{}
			abs := func(o Op) absKey {
				a := absKey{T: o.T, V: o.V, D: o.D, Tg: o.Tg}
				if o.Rt == rtReflectRecv {
					a.Rc = o.Rc + 1
				}
				if o.T == opSetProto {
					a.Rc = o.Rc + 1
				}
				if o.T == opHas && (o.Rt == rtObject || o.Rt == rtObject2) {
					a.Rc = 100 // own-property test, not [[HasProperty]]
				}
				if o.T == opHas && o.Rt == rtPIE {
					a.Rc = 101
				}
				return a
			}
			for i, o := range ops {
				if o.Rt == rtReflect || (o.T == opHas && o.Rt == rtObject) || o.Rt == rtReflectRecv {
					if _, ok := refOf[abs(o)]; !ok {
						refOf[abs(o)] = i
					}
				}
			}
			for i, o := range ops {
				if r, ok := refOf[abs(o)]; ok && r != i {
					sc.Ref[i] = r
				}
			}
			res = append(res, sc)
		}
	}
	return res
}

// lightCfg: the alphabet of the searches whose subject is not the define lattice: the complete descriptors
// that construct every property state directly, plus every get / set / has / delete route with every receiver.
func lightCfg(values []int) alphaCfg {
	data, acc := generatorDescs(values[:1])
	return alphaCfg{data: data, acc: acc, defRoutes: []uint8{rtReflect}, values: values, recv: true, static: true, integrity: true, reads: true}
}

// chainScenarios: prototype chains of depth <= 3 that carry an accessor, a getter-only accessor, a non-writable
// or a writable data property for the probed key on the parent or the grandparent; and searches in which the
// prototype itself is changed through every route.
func chainScenarios(thorough bool) []*scenario {
	var res []*scenario
	type kk struct {
		kind string
		keys []keyGroup
	}
	list := []kk{
		{"plain", []keyGroup{kg(`"a"`), kg("0", `"0"`), kg("@s1")}},
		{"array2", []keyGroup{kg("0", `"0"`), kg("2", `"2"`), kg(`"a"`), kg("@s1")}},
		{"funcm", []keyGroup{kg(`"a"`), kg("0", `"0"`)}},
		{"string", []keyGroup{kg("2", `"2"`), kg(`"a"`)}},
		{"args", []keyGroup{kg("0", `"0"`), kg("2", `"2"`), kg(`"a"`)}},
		{"u8", []keyGroup{kg("2", `"2"`), kg(`"a"`), kg(`"-0"`)}},
	}
	decos := []string{"parent:acc", "parent:ro", "grand:acc", "grand:ro"}
	if thorough {
		decos = append(decos, "parent:getonly", "parent:rw", "grand:getonly", "grand:rw", "parent:ro+grand:acc", "parent:acc+grand:ro")
		list = append(list, kk{"sparse2", []keyGroup{kg("0", `"0"`), kg("5000", `"5000"`)}}, kk{"klass", []keyGroup{kg(`"a"`)}}, kk{"f64", []keyGroup{kg("2", `"2"`)}})
	}
	for _, k := range list {
		for _, g := range k.keys {
			for _, d := range decos {
				cfg := lightCfg([]int{v1, v2})
				cfg.formal = kindSpecs[k.kind].Class == "arguments"
				res = append(res, &scenario{Name: fmt.Sprintf("chain/%s/%s/%s", k.kind, d, groupName(g)), Kind: k.kind, Variant: "chain+" + d,
					ChainKeys: g, Ops: buildOps([]keyGroup{g}, cfg), LeafAux: true})
			}
		}
		// prototype changes
		for _, g := range k.keys[:1] {
			for _, variant := range []string{"chain+parent:acc", "natural"} {
				cfg := lightCfg([]int{v1})
				cfg.proto = true
				cfg.data, cfg.acc = cfg.data[:2], cfg.acc[:1]
				res = append(res, &scenario{Name: fmt.Sprintf("proto/%s/%s/%s", k.kind, variant, groupName(g)), Kind: k.kind, Variant: variant,
					ChainKeys: g, Ops: buildOps([]keyGroup{g}, cfg), LeafAux: true})
			}
		}
	}
	return res
}

// pairScenarios: two keys at once where they interact: an array index with `length`, two indices, a mapped
// argument with the formal parameter, a String index with an ordinary key; reduced descriptor lattice.
func pairScenarios(thorough bool) []*scenario {
	var res []*scenario
	type pk struct {
		kind   string
		a, b   keyGroup
		values []int
	}
	list := []pk{
		{"array2", kg("1", `"1"`), kg(`"length"`), []int{v1, vZero, v3}},
		{"array0", kg("1", `"1"`), kg(`"length"`), []int{v1, vZero, v3}},
		{"arrayh", kg("1", `"1"`), kg("2", `"2"`), []int{v1}},
		{"sparse2", kg("5000", `"5000"`), kg(`"length"`), []int{v1, vZero}},
		{"args", kg("0", `"0"`), kg("1", `"1"`), []int{v1}},
		{"plain", kg("0", `"0"`), kg(`"a"`), []int{v1}},
		{"string", kg("0", `"0"`), kg("2", `"2"`), []int{v1}},
	}
	for _, p := range list {
		data, acc := generatorDescs(p.values[:1])
		cfg := alphaCfg{data: data, acc: acc[:4], defRoutes: []uint8{rtReflect}, values: p.values, integrity: true, reads: true}
		cfg.data = append(cfg.data, D(descSpec{Val: -1, W: flFalse}), D(descSpec{Val: -1, C: flFalse}), D(descSpec{Val: -1}))
		if keys[p.b[0]].Str == "length" {
			for _, v := range p.values {
				cfg.data = append(cfg.data, D(descSpec{Val: v}), D(descSpec{Val: v, W: flFalse}))
			}
		}
		cfg.formal = kindSpecs[p.kind].Class == "arguments"
		depth := 2
		if thorough {
			depth = 4
		}
		res = append(res, &scenario{Name: fmt.Sprintf("pair/%s/%s+%s", p.kind, groupName(p.a), groupName(p.b)), Kind: p.kind, Variant: "natural",
			ChainKeys: append(append(keyGroup{}, p.a...), p.b...), Ops: buildOps([]keyGroup{p.a[:1], p.b[:1]}, cfg), LeafAux: true, MaxDepth: depth, Cost: 1 << 19})
	}
	return res
}

// builtinScenarios: lazily templated built-ins (Math) and the global object as targets. The initial model state
// is adopted from an untouched instance; every transition runs on a pristine runtime, so that the first touch of
// the template by every operation is covered (get / define / delete / ownKeys / setPrototypeOf before anything
// was materialised).
func builtinScenarios(thorough bool) []*scenario {
	var res []*scenario
	type bk struct {
		kind string
		keys []keyGroup
	}
	list := []bk{
		{"math", []keyGroup{kg(`"PI"`), kg(`"abs"`), kg(`"a"`), kg("@toStringTag"), kg("0", `"0"`)}},
		{"global", []keyGroup{kg(`"NaN"`), kg(`"a"`)}},
	}
	for _, b := range list {
		for _, g := range b.keys {
			cfg := lightCfg([]int{v1})
			cfg.proto = true
			cfg.recv = false
			cfg.data = append(cfg.data, D(descSpec{Val: -1}), D(descSpec{Val: v2}), D(descSpec{Val: -1, W: flFalse}), D(descSpec{Val: -1, C: flFalse}), D(descSpec{Val: -1, E: flFalse}))
			cfg.acc = cfg.acc[:2]
			cfg.acc = append(cfg.acc, D(descSpec{Val: -1, Get: fnUndef}))
			depth := 2
			if thorough {
				depth = 3
			}
			if b.kind == "global" && !thorough {
				depth = 1
			}
			res = append(res, &scenario{Name: fmt.Sprintf("builtin/%s/%s", b.kind, groupName(g)), Kind: b.kind, Variant: "natural",
				ChainKeys: g, Ops: buildOps([]keyGroup{g}, cfg), LeafAux: true, MaxDepth: depth, Cost: 1 << 21})
		}
	}
	return res
}
