package c04

import "verif/core"

func runRegressions(x *explorer) {}

func replaySpecial(r *core.Run, c Case) {}
