package c04

import (
	_ "embed"
	"encoding/json"
	"fmt"
	"sort"
	"strings"

	"verif/core"

	"github.com/dop251/goja"
)

// regress.json: the minimal witnesses of every listed finding (written by mkfindings.py from replay files).
// They are executed first, so that the quick tier reaches every listed finding deterministically whatever
// the budget; the searches re-find them independently.
//
//go:embed regress.json
var regressJSON []byte

type regressCase struct {
	Signature string `json:"signature"`
	Case      Case   `json:"case"`
}

// judge re-executes one recorded case exactly (no explorer, no minimiser) and reports it under the signature
// its failure has.
func judge(r *core.Run, h *harness, c Case) (string, bool) {
	sc := findScenario(c)
	if sc == nil || len(c.Path) == 0 {
		return "", false
	}
	path, op := c.Path[:len(c.Path)-1], c.Path[len(c.Path)-1]
	if !sc.NoModel {
		w0, _ := runPath(h, sc, nil)
		d0, _ := realDump(w0)
		x := &explorer{r: r, confirm: map[string]bool{}, memo: map[string]*memoEntry{}, harness: make([]*harness, 1)}
		if !x.checkInitial(h, sc, d0) {
			return "", true
		}
		if op.T == opObserve && len(path) == 0 && sc.InitOrder != nil {
			return "", true // the case *is* the initial-order finding
		}
	}
	w, _ := runPath(freshIf(h, sc), sc, path)
	pre, _ := realDump(w)
	fail, _, _ := transitionRef(freshIf(h, sc), sc, path, op, c.Ref, pre)
	if fail == nil {
		return "", false
	}
	sig := strings.SplitN(fail.fine, "|", 2)[1]
	if !(sc.NoModel && strings.Contains(fail.mismatch, "routes disagree")) {
		sig = routePrefix(op) + sig
	}
	r.Violation(sig, fail.what, c)
	return sig, true
}

func runRegressions(x *explorer) {
	var cases []regressCase
	if err := json.Unmarshal(regressJSON, &cases); err != nil {
		panic("regress.json: " + err.Error())
	}
	runSpecials(x.r)
	h := newHarness()
	n, still := 0, 0
	for _, rc := range cases {
		if h.dirty {
			h = newHarness()
		}
		n++
		x.r.Eval(1)
		if sig, failed := judge(x.r, h, rc.Case); failed {
			still++
			_ = sig
		}
	}
	x.r.Set("regression_corpus", fmt.Sprintf("%d recorded witnesses re-executed, %d still fail", n, still))
}

// special cases: defects met while building the check that lie outside the operation alphabet.
var specials = map[string]func(r *core.Run, c Case){
	// a global `var` declaration on a fresh runtime makes every built-in global disappear from the own-key
	// list of the global object (the template's names are never materialised once propNames is non-nil)
	"global-var-hides-builtins": func(r *core.Run, c Case) {
		rt := goja.New()
		v, err := rt.RunString(`var x = 1; [Reflect.ownKeys(globalThis).length, Object.getOwnPropertyDescriptor(globalThis, "NaN") !== undefined, Reflect.ownKeys(globalThis).indexOf("NaN") >= 0].join()`)
		if err != nil {
			r.Violation("global|var-declaration|exception", err.Error(), c)
			return
		}
		if s := v.String(); !strings.HasSuffix(s, "true,true") {
			r.Violation("global|var-declaration|ownKeys impl misses keys", "`var x = 1` as the first statement on a fresh runtime: Reflect.ownKeys(globalThis) has "+strings.SplitN(s, ",", 2)[0]+" entries and does not list NaN although getOwnPropertyDescriptor(globalThis,'NaN') exists (built-in globals must stay listed)", c)
		}
	},
}

func runSpecials(r *core.Run) {
	names := make([]string, 0, len(specials))
	for n := range specials {
		names = append(names, n)
	}
	sort.Strings(names)
	for _, n := range names {
		r.Eval(1)
		specials[n](r, Case{Special: n})
	}
}

func replaySpecial(r *core.Run, c Case) {
	if f := specials[c.Special]; f != nil {
		f(r, c)
	}
}
