// Package c04 holds the check for property C04.
package c04
