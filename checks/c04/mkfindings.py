#!/usr/bin/env python3
"""Development aid: merge the replay files of the last C04 run (/verif/replays/C04/*.json) into
findings.d/C04.jsonl (signature + what) and checks/c04/regress.json (minimal witnesses that the check
re-executes first). Existing entries are kept; nothing is removed."""
import glob, json, os, sys
root = '/verif'
fpath = os.path.join(root, 'findings.d', 'C04.jsonl')
rpath = os.path.join(root, 'checks', 'c04', 'regress.json')
found = {}
if os.path.exists(fpath):
    for line in open(fpath):
        line = line.strip()
        if line:
            e = json.loads(line)
            found[e['signature']] = e
reg = {e['signature']: e for e in json.load(open(rpath))} if os.path.exists(rpath) else {}
added = 0
for f in sorted(glob.glob(os.path.join(root, 'replays', 'C04', '*.json'))):
    v = json.load(open(f))
    sig = v['signature']
    if sig.startswith('…') or sig.startswith('nondeterministic') or sig.startswith('check-config') or sig.startswith('replay|'):
        print('SKIPPED (needs attention):', sig)
        continue
    if sig not in found:
        found[sig] = {'property': 'C04', 'signature': sig, 'what': v['what']}
        added += 1
    if sig not in reg and v.get('case'):
        reg[sig] = {'signature': sig, 'case': v['case']}
with open(fpath, 'w') as o:
    for sig in sorted(found):
        o.write(json.dumps(found[sig], ensure_ascii=False) + '\n')
json.dump([reg[s] for s in sorted(reg)], open(rpath, 'w'), indent=0, ensure_ascii=False)
print('findings:', len(found), 'added:', added, 'regression cases:', len(reg))
