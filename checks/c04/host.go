package c04

import (
	"sort"
	"strconv"

	"github.com/dop251/goja"
)

// Host kinds: Go values wrapped by Runtime.ToValue and the DynamicObject / DynamicArray bridges. There is no
// reference model for them (their semantics are "largely like" an Object / Array, see the ToValue and
// NewDynamicObject doc comments); the oracle is the essential-invariant monitor plus route agreement: the same
// abstract operation issued through syntax, Object.*, Reflect.* and the Go API, with the key spelled as a
// number or as a string, must give the same answer and the same resulting state.
type hostKind struct {
	Name  string
	Build func(r *goja.Runtime) goja.Value // a fresh Go value every time
	// UnorderedKeys: Go maps are documented to have no stable key order; the monitor's order rule and the
	// key-list comparisons are skipped by keeping such objects at a single own string key.
	Keys      []keyGroup
	Unordered bool
}

type hostStruct struct {
	A int
	B string
}

func (s *hostStruct) M() int { return s.A }

// dynObj is a DynamicObject handler that keeps ECMAScript key order and no duplicates (the documented
// caveats about Keys() are thereby kept out of the alphabet).
type dynObj struct {
	m    map[string]goja.Value
	keys []string
}

func (d *dynObj) Get(key string) goja.Value { return d.m[key] }
func (d *dynObj) Set(key string, v goja.Value) bool {
	if _, ok := d.m[key]; !ok {
		d.keys = append(d.keys, key)
	}
	d.m[key] = v
	return true
}
func (d *dynObj) Has(key string) bool { _, ok := d.m[key]; return ok }
func (d *dynObj) Delete(key string) bool {
	if _, ok := d.m[key]; ok {
		delete(d.m, key)
		for i, k := range d.keys {
			if k == key {
				d.keys = append(d.keys[:i:i], d.keys[i+1:]...)
				break
			}
		}
	}
	return true
}
func (d *dynObj) Keys() []string {
	var idx, rest []string
	for _, k := range d.keys {
		if n, err := strconv.ParseUint(k, 10, 32); err == nil && strconv.FormatUint(n, 10) == k && n < 4294967295 {
			idx = append(idx, k)
		} else {
			rest = append(rest, k)
		}
	}
	sort.Slice(idx, func(i, j int) bool {
		a, _ := strconv.ParseUint(idx[i], 10, 32)
		b, _ := strconv.ParseUint(idx[j], 10, 32)
		return a < b
	})
	return append(idx, rest...)
}

type dynArr struct{ a []goja.Value }

func (d *dynArr) Len() int { return len(d.a) }
func (d *dynArr) Get(i int) goja.Value {
	if i < 0 || i >= len(d.a) {
		return nil
	}
	return d.a[i]
}
func (d *dynArr) Set(i int, v goja.Value) bool {
	if i < 0 {
		return false
	}
	for i >= len(d.a) {
		d.a = append(d.a, goja.Undefined())
	}
	d.a[i] = v
	return true
}
func (d *dynArr) SetLen(n int) bool {
	if n < 0 || n > 1000 {
		return false
	}
	for n > len(d.a) {
		d.a = append(d.a, goja.Undefined())
	}
	d.a = d.a[:n]
	return true
}

var hostKinds = map[string]*hostKind{
	"host:gomap": {Name: "host:gomap", Unordered: true, Build: func(r *goja.Runtime) goja.Value { return r.ToValue(map[string]interface{}{"a": 1}) },
		Keys: []keyGroup{kg(`"a"`), kg(`"b"`), kg("0", `"0"`), kg("@s1")}},
	"host:gomapr": {Name: "host:gomapr", Unordered: true, Build: func(r *goja.Runtime) goja.Value { return r.ToValue(map[string]int{"a": 1}) },
		Keys: []keyGroup{kg(`"a"`), kg(`"b"`), kg("@s1")}},
	"host:gomapi": {Name: "host:gomapi", Unordered: true, Build: func(r *goja.Runtime) goja.Value { return r.ToValue(map[int]int{0: 1}) },
		Keys: []keyGroup{kg("0", `"0"`), kg("1", `"1"`), kg(`"a"`)}},
	"host:goslice": {Name: "host:goslice", Build: func(r *goja.Runtime) goja.Value { return r.ToValue([]interface{}{1, 2}) },
		Keys: []keyGroup{kg("0", `"0"`), kg("2", `"2"`), kg("3", `"3"`), kg(`"length"`), kg(`"a"`), kg("@s1")}},
	"host:gosliceptr": {Name: "host:gosliceptr", Build: func(r *goja.Runtime) goja.Value { s := []interface{}{1, 2}; return r.ToValue(&s) },
		Keys: []keyGroup{kg("0", `"0"`), kg("2", `"2"`), kg(`"length"`)}},
	"host:goslicer": {Name: "host:goslicer", Build: func(r *goja.Runtime) goja.Value { return r.ToValue([]int{1, 2}) },
		Keys: []keyGroup{kg("0", `"0"`), kg("2", `"2"`), kg(`"length"`), kg(`"a"`), kg("@s1")}},
	"host:goarray": {Name: "host:goarray", Build: func(r *goja.Runtime) goja.Value { a := [2]int{1, 2}; return r.ToValue(&a) },
		Keys: []keyGroup{kg("0", `"0"`), kg(`"length"`), kg(`"a"`)}}, // (index >= len panics in the host: C13, kept out)
	"host:gostruct": {Name: "host:gostruct", Build: func(r *goja.Runtime) goja.Value { return r.ToValue(&hostStruct{A: 1, B: "x"}) },
		Keys: []keyGroup{kg(`"A"`), kg(`"M"`), kg(`"a"`), kg("0", `"0"`), kg("@s1")}},
	"host:dynobj": {Name: "host:dynobj", Build: func(r *goja.Runtime) goja.Value {
		return r.NewDynamicObject(&dynObj{m: map[string]goja.Value{"a": r.ToValue(1)}, keys: []string{"a"}})
	}, Keys: []keyGroup{kg(`"a"`), kg(`"b"`), kg("0", `"0"`), kg("@s1")}},
	"host:dynarr": {Name: "host:dynarr", Build: func(r *goja.Runtime) goja.Value {
		return r.NewDynamicArray(&dynArr{a: []goja.Value{r.ToValue(1), r.ToValue(2)}})
	}, Keys: []keyGroup{kg("0", `"0"`), kg("2", `"2"`), kg(`"length"`), kg(`"a"`), kg("@s1")}},
}

var hostKindOrder = []string{"host:gomap", "host:gomapr", "host:gomapi", "host:goslice", "host:gosliceptr", "host:goslicer", "host:goarray", "host:gostruct", "host:dynobj", "host:dynarr"}
