package c04

// harnessJS is run once per runtime. It defines the global H: value naming, world constructors, one
// function per (operation, route), and the observation battery (dump). Getter/setter functions are strict so
// that a primitive receiver reaches them unboxed.
const harnessJS = `
globalThis.H = (function(){ // (assignment, not a declaration: see the "global|var-declaration" finding)
var H = {};
var names = new Map(), baseNames = names, worldObjs = [];
function setName(v, n){ names.set(v, n); worldObjs.push(v); }
var log = [];
var hop = Object.prototype.hasOwnProperty, pie = Object.prototype.propertyIsEnumerable;
var protoSet = Object.getOwnPropertyDescriptor(Object.prototype, '__proto__').set;
var protoGet = Object.getOwnPropertyDescriptor(Object.prototype, '__proto__').get;

function nm(v){
	switch (typeof v) {
	case 'undefined': return 'undefined';
	case 'boolean': return v ? 'true' : 'false';
	case 'number': return (v === 0 && 1/v < 0) ? '-0' : String(v);
	case 'string': return JSON.stringify(v).split(' ').join('\\x20'); // (observations are split at spaces)
	case 'symbol': { var n = names.get(v); return n === undefined ? '@?' + String(v) : '@' + n; }
	case 'bigint': return String(v) + 'n';
	}
	if (v === null) return 'null';
	var n = names.get(v);
	if (n !== undefined) return '#' + n;
	// the lazily created F.prototype of a named function
	var c = Object.getOwnPropertyDescriptor(v, 'constructor');
	if (c && ('value' in c) && (typeof c.value === 'function') && names.get(c.value) !== undefined) {
		var pd = Object.getOwnPropertyDescriptor(c.value, 'prototype');
		if (pd && pd.value === v) return '#' + names.get(c.value) + '.prototype';
	}
	return '#?' + (typeof v);
}
H.nm = nm;
function kn(k){ return typeof k === 'symbol' ? nm(k) : String(k); }
function errName(e){
	if (e !== null && typeof e === 'object') {
		var p = Object.getPrototypeOf(e);
		if (p === TypeError.prototype) return 'TypeError';
		if (p === RangeError.prototype) return 'RangeError';
		if (p === ReferenceError.prototype) return 'ReferenceError';
		if (p === SyntaxError.prototype) return 'SyntaxError';
		if (p === Error.prototype) return 'Error';
		return 'object:' + String(e);
	}
	return 'value:' + nm(e);
}
function R(res){ if (log.length) { res += ' log[' + log.join(';') + ']'; log.length = 0; } return res; }
function T(e){ return R('throw:' + errName(e)); }

H.s1 = Symbol('s1'); H.s2 = Symbol('s2');
H.f  = function(){ 'use strict'; log.push('f.get(' + nm(this) + ')'); return 'rf'; };
H.g  = function(){ 'use strict'; log.push('g.get(' + nm(this) + ')'); return 'rg'; };
H.sf = function(v){ 'use strict'; log.push('sf.set(' + nm(this) + ',' + nm(v) + ')'); };
H.sg = function(v){ 'use strict'; log.push('sg.set(' + nm(this) + ',' + nm(v) + ')'); };
baseNames.set(H.s1, 's1'); baseNames.set(H.s2, 's2');
baseNames.set(Symbol.toPrimitive, 'toPrimitive'); baseNames.set(Symbol.iterator, 'iterator');
baseNames.set(Symbol.toStringTag, 'toStringTag'); baseNames.set(Symbol.hasInstance, 'hasInstance');
baseNames.set(H.f, 'f'); baseNames.set(H.g, 'g'); baseNames.set(H.sf, 'sf'); baseNames.set(H.sg, 'sg');
baseNames.set(Object.prototype, 'ObjectProto'); baseNames.set(Function.prototype, 'FunctionProto');
baseNames.set(Array.prototype, 'ArrayProto'); baseNames.set(String.prototype, 'StringProto');
baseNames.set(Uint8Array.prototype, 'Uint8ArrayProto'); baseNames.set(Float64Array.prototype, 'Float64ArrayProto');
baseNames.set(Uint8ClampedArray.prototype, 'Uint8ClampedArrayProto'); baseNames.set(Int8Array.prototype, 'Int8ArrayProto');
baseNames.set(Array.prototype.values, 'ArrayProto_values');
(function(){ 'use strict';
	var t = Object.getOwnPropertyDescriptor((function(){ return arguments; })(), 'callee');
	if (t && t.get) baseNames.set(t.get, 'ThrowTypeError');
})();

H.vals = []; H.descs = []; // filled by the Go side (generated source)

// ---- worlds
var kinds = {
	plain:   function(w){ return {}; },
	plainlit:function(w){ return {a: 1, 0: 1, [H.s1]: 1}; },
	func:    function(w){ return function o(p, q){}; },
	funcm:   function(w){ var f = function o(p, q){}; f.prototype; return f; }, // "prototype" already materialised
	sfunc:   function(w){ return function o(p, q){ 'use strict'; }; },
	arrow:   function(w){ var o = (p) => {}; return o; },
	bound:   function(w){ w.aux = function T(p, q){}; setName(w.aux, 'T'); return w.aux.bind(null, 1); },
	klass:   function(w){ return class o { static sm(){} }; },
	method:  function(w){ return ({ o(p){} }).o; },
	array0:  function(w){ return []; },
	array2:  function(w){ return [1, 2]; },
	arrayh:  function(w){ return [1, , 2]; },
	sparse2: function(w){ var a = [1]; a[5000] = 2; return a; },
	string:  function(w){ return new String('ab'); },
	args:    function(w){ return (function(p, q){ w.setP = function(v){ p = v; }; w.getP = function(){ return p; }; w.getQ = function(){ return q; }; return arguments; })(1, 2); },
	args1:   function(w){ return (function(p, q){ w.setP = function(v){ p = v; }; w.getP = function(){ return p; }; w.getQ = function(){ return q; }; return arguments; })(1); },
	uargs:   function(w){ return (function(p, q){ 'use strict'; w.setP = function(v){ p = v; }; w.getP = function(){ return p; }; w.getQ = function(){ return q; }; return arguments; })(1, 2); },
	math:    function(w){ return Math; },        // lazily templated built-in (fresh runtime per transition)
	global:  function(w){ return globalThis; },  // the global object (fresh runtime per transition)
	u8:      function(w){ return new Uint8Array(2); },
	f64:     function(w){ return new Float64Array(2); },
	u8c:     function(w){ return new Uint8ClampedArray(2); },
	u8e:     function(w){ return new Uint8Array(0); },
};
H.kinds = kinds;
// chain variants: what parent/grand carry for the probed keys
function decorate(obj, how, keys){
	for (var i = 0; i < keys.length; i++) {
		var k = keys[i];
		switch (how) {
		case 'acc': Object.defineProperty(obj, k, {get: H.g, set: H.sg, enumerable: true, configurable: true}); break;
		case 'getonly': Object.defineProperty(obj, k, {get: H.g, enumerable: true, configurable: true}); break;
		case 'ro':  Object.defineProperty(obj, k, {value: 7, writable: false, enumerable: true, configurable: true}); break;
		case 'rw':  Object.defineProperty(obj, k, {value: 7, writable: true, enumerable: true, configurable: true}); break;
		}
	}
}
var variants = {};
function parseVariant(v){
	var parts = v.split('+'), r = {natural: parts[0] === 'natural', deco: []};
	for (var i = 1; i < parts.length; i++) r.deco.push(parts[i].split(':')); // parent:acc, grand:ro ...
	return variants[v] = r;
}
H.mk = function(kind, variant, keys, hostObj, unordered){
	for (var i = 0; i < worldObjs.length; i++) names.delete(worldObjs[i]);
	worldObjs.length = 0; log.length = 0;
	var w = {};
	w.o = hostObj !== undefined ? hostObj : kinds[kind](w);
	unorderedObj = unordered ? w.o : null;
	probeKeys = []; for (var i = 0; i < keys.length; i++) probeKeys.push(keys[i]);
	w.grand = Object.create(null);
	w.parent = Object.create(w.grand);
	setName(w.o, 'o'); setName(w.parent, 'parent'); setName(w.grand, 'grand');
	var v = variants[variant] || parseVariant(variant);
	if (!v.natural) Object.setPrototypeOf(w.o, w.parent);
	for (var i = 0; i < v.deco.length; i++) decorate(w[v.deco[i][0]], v.deco[i][1], keys);
	w.child = Object.create(w.o);
	setName(w.child, 'child');
	return w;
};
H.register = function(v, n){ setName(v, n); };

// ---- observation battery
function fmtDesc(d){
	if (d === undefined) return 'none';
	var ks = Object.keys(d).join();
	if ('value' in d || 'writable' in d) {
		var s = 'd(' + nm(d.value) + ',' + (+d.writable) + (+d.enumerable) + (+d.configurable) + ')';
		if (ks !== 'value,writable,enumerable,configurable') s += '!shape:' + ks;
		return s;
	}
	var s = 'a(' + nm(d.get) + ',' + nm(d.set) + ',' + (+d.enumerable) + (+d.configurable) + ')';
	if (ks !== 'get,set,enumerable,configurable') s += '!shape:' + ks;
	return s;
}
var unorderedObj = null, probeKeys = [];
function sortKeys(a){ return a.slice().sort(function(p, q){ p = kn(p); q = kn(q); return p < q ? -1 : p > q ? 1 : 0; }); }
function klist(a){ if (unorderedObj !== null && unorderedNow) a = sortKeys(a); var s = '['; for (var i = 0; i < a.length; i++) { if (i) s += ','; s += kn(a[i]); } return s + ']'; }
var unorderedNow = false;
// dumpObj: the canonical state of one object (light) or, in addition, the answers of every other
// own-property reflection route (full; anomalies between routes are flagged with '!').
function dumpObj(name, x, light){
	unorderedNow = unorderedObj === x;
	try { return dumpObj1(name, x, light); } finally { unorderedNow = false; }
}
function dumpObj1(name, x, light){
	var s = name + '{';
	var fr = Object.isFrozen(x), se = Object.isSealed(x);
	s += 'x' + (+Object.isExtensible(x));
	s += ' p' + nm(Object.getPrototypeOf(x));
	s += ' z' + (+fr) + (+se);
	var keys = Reflect.ownKeys(x);
	if (unorderedObj === x) { keys = sortKeys(keys); s += ' u1'; } // Go maps: key order is documented to be unstable
	s += ' K' + klist(keys);
	for (var i = 0; i < keys.length; i++) {
		var k = keys[i];
		var d = fmtDesc(Object.getOwnPropertyDescriptor(x, k));
		s += ' ' + kn(k) + '=' + d;
		if (light) continue;
		var d2 = fmtDesc(Reflect.getOwnPropertyDescriptor(x, k));
		if (d2 !== d) s += '!Reflect.gopd:' + d2;
		var e = d.charAt(d.length - 3) === '1';
		if (!hop.call(x, k)) s += '!hasOwnProperty';
		if (!Object.hasOwn(x, k)) s += '!hasOwn';
		if (!(k in x)) s += '!in';
		if (!Reflect.has(x, k)) s += '!Reflect.has';
		if (pie.call(x, k) !== e) s += '!propertyIsEnumerable';
	}
	s += ' z' + (+Object.isFrozen(x)) + (+Object.isSealed(x));
	if (light) return s + '}';
	s += ' x' + (+Reflect.isExtensible(x)) + ' p' + nm(Reflect.getPrototypeOf(x)) + ',' + nm(protoGet.call(x));
	var ds = Object.getOwnPropertyDescriptors(x), dk = Reflect.ownKeys(ds);
	if (klist(dk) !== klist(keys)) s += ' !descriptors' + klist(dk);
	s += ' N' + klist(Object.getOwnPropertyNames(x));
	s += ' S' + klist(Object.getOwnPropertySymbols(x));
	s += ' E' + klist(Object.keys(x));
	var nlog = log.length;
	var ent = Object.entries(x), ek = [];
	for (var i = 0; i < ent.length; i++) ek.push(ent[i][0]);
	if (klist(ek) !== klist(Object.keys(x))) s += ' !entries' + klist(ek);
	log.length = nlog; // Object.entries legitimately calls enumerable getters
	var fi = [];
	for (var k in x) fi.push(k);
	s += ' F' + klist(fi);
	// the probed keys: a key that has a descriptor / answers hasOwnProperty must be listed by ownKeys
	for (var i = 0; i < probeKeys.length; i++) {
		var k = probeKeys[i], listed = false;
		for (var j = 0; j < keys.length; j++) if (keys[j] === k || (typeof k !== 'symbol' && keys[j] === String(k))) listed = true;
		if (!listed && (Object.getOwnPropertyDescriptor(x, k) !== undefined || hop.call(x, k))) s += ' !unlisted:' + kn(k);
	}
	return s + '}';
}
H.dumpObj = dumpObj;
H.dump = function(w){
	log.length = 0;
	var s = dumpObj('o', w.o, true) + '\n' + dumpObj('child', w.child, true) + '\n' + dumpObj('parent', w.parent, true) + '\n' + dumpObj('grand', w.grand, true);
	if (w.getP) s += '\naux{p=' + nm(w.getP()) + ' q=' + nm(w.getQ()) + '}';
	if (log.length) { s += '\n!log[' + log.join(';') + ']'; log.length = 0; }
	return s;
};

// ---- operations: one function per (operation, route); each returns a result string
H.op = {
	defO:  function(o, k, d){ try { Object.defineProperty(o, k, d); return R('ok'); } catch (e) { return T(e); } },
	defR:  function(o, k, d){ try { return R(String(Reflect.defineProperty(o, k, d))); } catch (e) { return T(e); } },
	defPs: function(o, k, d){ try { var p = {}; p[k] = d; Object.defineProperties(o, p); return R('ok'); } catch (e) { return T(e); } },
	get:   function(o, k){ try { return R(nm(o[k])); } catch (e) { return T(e); } },
	getR0: function(o, k){ try { return R(nm(Reflect.get(o, k))); } catch (e) { return T(e); } },
	getR:  function(o, k, r){ try { return R(nm(Reflect.get(o, k, r))); } catch (e) { return T(e); } },
	setS:  function(o, k, v){ try { o[k] = v; return R('ok'); } catch (e) { return T(e); } },
	setT:  function(o, k, v){ 'use strict'; try { o[k] = v; return R('ok'); } catch (e) { return T(e); } },
	setR0: function(o, k, v){ try { return R(String(Reflect.set(o, k, v))); } catch (e) { return T(e); } },
	setR:  function(o, k, v, r){ try { return R(String(Reflect.set(o, k, v, r))); } catch (e) { return T(e); } },
	delS:  function(o, k){ try { return R(String(delete o[k])); } catch (e) { return T(e); } },
	delT:  function(o, k){ 'use strict'; try { return R(String(delete o[k])); } catch (e) { return T(e); } },
	delR:  function(o, k){ try { return R(String(Reflect.deleteProperty(o, k))); } catch (e) { return T(e); } },
	hasIn: function(o, k){ try { return R(String(k in o)); } catch (e) { return T(e); } },
	hasR:  function(o, k){ try { return R(String(Reflect.has(o, k))); } catch (e) { return T(e); } },
	hasOP: function(o, k){ try { return R(String(hop.call(o, k))); } catch (e) { return T(e); } },
	hasOwn:function(o, k){ try { return R(String(Object.hasOwn(o, k))); } catch (e) { return T(e); } },
	pie:   function(o, k){ try { return R(String(pie.call(o, k))); } catch (e) { return T(e); } },
	gopd:  function(o, k){ try { return R(fmtDesc(Object.getOwnPropertyDescriptor(o, k))); } catch (e) { return T(e); } },
	gopdR: function(o, k){ try { return R(fmtDesc(Reflect.getOwnPropertyDescriptor(o, k))); } catch (e) { return T(e); } },
	peO:   function(o){ try { Object.preventExtensions(o); return R('ok'); } catch (e) { return T(e); } },
	peR:   function(o){ try { return R(String(Reflect.preventExtensions(o))); } catch (e) { return T(e); } },
	freeze:function(o){ try { Object.freeze(o); return R('ok'); } catch (e) { return T(e); } },
	seal:  function(o){ try { Object.seal(o); return R('ok'); } catch (e) { return T(e); } },
	spO:   function(o, p){ try { Object.setPrototypeOf(o, p); return R('ok'); } catch (e) { return T(e); } },
	spR:   function(o, p){ try { return R(String(Reflect.setPrototypeOf(o, p))); } catch (e) { return T(e); } },
	spP:   function(o, p){ try { protoSet.call(o, p); return R('ok'); } catch (e) { return T(e); } },
	setP:  function(w, v){ try { w.setP(v); return R('ok'); } catch (e) { return T(e); } },
	// for-in over o running mutation m(o) when the loop is about to visit its j-th key; result = visited keys
	mutSet: function(o, k, v){ o[k] = v; },
	mutDel: function(o, k){ delete o[k]; },
	forin: function(o, j, m, a, b){ try { var seen = [], i = 0; for (var k in o) { if (i === j) m(o, a, b); i++; seen.push(k); } if (i <= j) m(o, a, b); return R(klist(seen)); } catch (e) { return T(e); } },
	// copy o (Object.assign into a fresh object / object spread) while an enumerable getter of o — defined here
	// under key gk — mutates o: adds key ak, or deletes key ak. Result: own keys of the copy.
	copy:  function(o, spread, gk, del, ak){
		try {
			log.length = 0;
			Object.defineProperty(o, gk, {get: function(){ if (del) delete this[ak]; else this[ak] = 9; return 'rm'; }, enumerable: true, configurable: true});
			var c = spread ? {...o} : Object.assign({}, o);
			delete o[gk]; // the mutating getter must not outlive the copy (observations call getters)
			log.length = 0;
			return klist(Reflect.ownKeys(c));
		} catch (e) { log.length = 0; return 'throw:' + errName(e); }
	},
	observe: function(o){ try { return R(dumpObj('obs', o, false)); } catch (e) { return T(e); } },
	keysO: function(o){ try { return R(klist(Object.keys(o))); } catch (e) { return T(e); } },
};
// static-key syntax routes, built per identifier key
H.stat = function(k){
	return {
		get:  new Function('R', 'T', 'nm', 'return function(o){ try { return R(nm(o.' + k + ')); } catch (e) { return T(e); } }')(R, T, nm),
		setS: new Function('R', 'T', 'return function(o, v){ try { o.' + k + ' = v; return R("ok"); } catch (e) { return T(e); } }')(R, T),
		setT: new Function('R', 'T', 'return function(o, v){ "use strict"; try { o.' + k + ' = v; return R("ok"); } catch (e) { return T(e); } }')(R, T),
		delS: new Function('R', 'T', 'return function(o){ try { return R(String(delete o.' + k + ')); } catch (e) { return T(e); } }')(R, T),
		delT: new Function('R', 'T', 'return function(o){ "use strict"; try { return R(String(delete o.' + k + ')); } catch (e) { return T(e); } }')(R, T),
	};
};
var TA = Object.getPrototypeOf(Uint8Array.prototype);
var guarded = [Object.prototype, Function.prototype, Array.prototype, String.prototype, TA, Uint8Array.prototype, Float64Array.prototype, Uint8ClampedArray.prototype, Symbol.prototype, Number.prototype];
function census(){ var s = ''; for (var i = 0; i < guarded.length; i++) s += Reflect.ownKeys(guarded[i]).length + ',' + (+Object.isExtensible(guarded[i])) + ';'; return s + Reflect.ownKeys(globalThis).length; }
var census0 = null;
// pristine: no operation leaked a property onto a built-in object of the (shared) runtime
H.pristine = function(){ if (census0 === null) census0 = census(); return census() === census0; };
H.takeLog = function(){ var s = log.join(';'); log.length = 0; return s; };
return H;
})();
`
