package c04

import (
	"crypto/sha256"
	"fmt"
	"os"
	"sort"
	"strings"
	"sync"
	"sync/atomic"

	"verif/core"

	om "verif/ref/objmodel"

	"github.com/dop251/goja"
)

// scenario is one explicit-state search: an object kind, a prototype-chain variant, and an alphabet.
type scenario struct {
	Name      string
	Kind      string
	Variant   string
	ChainKeys []int // keys the chain decoration is applied to
	Ops       []Op
	MaxDepth  int  // 0 = run to closure
	Cost      int  // rough relative cost, for scheduling (largest first)
	NoModel   bool // host kinds: monitor + route agreement only
	// LeafAux: states in which child/parent/grand differ from their initial observation are checked but not expanded.
	LeafAux bool
	// Refine adds path-derived hidden-state abstraction to the de-dup key (lazy key order scenarios).
	Refine func(path []Op, sc *scenario) string
	Tier   int // 0 = quick and thorough, 1 = thorough only
	// InitOrder: own-key order of the fresh real object, adopted by the model after an order-only difference of
	// the fresh object has been reported (so that the search can go on).
	InitOrder []string
	// Ref: host kinds (no model): Ref[i] is the index of the operation that issues the same abstract operation
	// as Ops[i] through the reference route; both must give the same answer and the same resulting state.
	Ref map[int]int
}

// Case is what a replay file holds: enough to re-execute one transition without any explorer.
type Case struct {
	Scenario  string   `json:"scenario"`
	Kind      string   `json:"kind"`
	Variant   string   `json:"variant"`
	ChainKeys []int    `json:"chain_keys"`
	Path      []Op     `json:"path"`
	Text      []string `json:"text"`
	Impl      string   `json:"impl,omitempty"`
	Model     string   `json:"model,omitempty"`
	Special   string   `json:"special,omitempty"` // regression cases outside the op alphabet
	Ref       *Op      `json:"ref,omitempty"`     // route agreement: the same abstract operation through the reference route
}

type state struct {
	parent int32
	op     int32
	depth  int32
}

type hashKey [16]byte

func hashOf(s string) hashKey {
	h := sha256.Sum256([]byte(s))
	var k hashKey
	copy(k[:], h[:16])
	return k
}

type scenarioResult struct {
	Name        string `json:"name"`
	States      int    `json:"states"`
	Transitions int64  `json:"transitions"`
	Depth       int    `json:"depth_completed"`
	Closed      bool   `json:"closed"`
}

// failure describes one disagreement found on a transition.
type failure struct {
	fine     string // fine-grained class (route + decision-table cell + mismatch), used to memoise minimisation
	mismatch string // abstract mismatch; preserved by minimisation
	what     string
}

type memoEntry struct {
	sig, what string
	c         Case
}

type explorer struct {
	r       *core.Run
	mu      sync.Mutex
	confirm map[string]bool // signature -> already confirmed 5x
	memo    map[string]*memoEntry
	harness []*harness // per worker
	sampleN atomic.Int64
}

func (x *explorer) hFor(worker int, sc *scenario) *harness {
	if ks := kindSpecs[sc.Kind]; ks != nil && ks.Adopt {
		return newHarness() // the target is a built-in of the runtime: never reuse
	}
	return x.h(worker)
}

func (x *explorer) h(worker int) *harness {
	if x.harness[worker] == nil || x.harness[worker].dirty || x.harness[worker].worlds > 200000 {
		x.harness[worker] = newHarness()
	}
	return x.harness[worker]
}

// whiteTag is the white-box part of the de-dup key: the implementation type of the target (dense / sparse
// array storage, lazy function, template object, ...). The array counters objCount / propValueCount are
// deliberately not part of it: objCount is not decremented by length truncation (C07's finding), which makes
// it grow without bound along define-index / truncate cycles and the search infinite.
func whiteTag(o *goja.Object) string {
	impl := goja.VerifImpl(o)
	if strings.Contains(impl, "rrayObject") {
		return goja.VerifArray(o).Kind
	}
	return impl
}

// realDump is the canonical state of a world (JS side) and the de-dup key (state + white-box storage tag).
func realDump(w *world) (dump string, key string) {
	d := w.dump()
	return d, d + "\nwb:" + whiteTag(w.role[obO])
}

func modelDump(m *mworld) string { return m.dump() }

// firstDiff names the first token in which two dumps differ.
func firstDiff(impl, model string) string {
	il, ml := strings.Split(impl, "\n"), strings.Split(model, "\n")
	for i := 0; i < len(il) || i < len(ml); i++ {
		var a, b string
		if i < len(il) {
			a = il[i]
		}
		if i < len(ml) {
			b = ml[i]
		}
		if a == b {
			continue
		}
		name := a
		if j := strings.IndexByte(a, '{'); j >= 0 {
			name = a[:j]
		}
		at, bt := strings.Split(a, " "), strings.Split(b, " ")
		for j := 0; j < len(at) || j < len(bt); j++ {
			var x, y string
			if j < len(at) {
				x = at[j]
			}
			if j < len(bt) {
				y = bt[j]
			}
			if x != y {
				return fmt.Sprintf("%s: impl %s model %s", name, strings.TrimPrefix(x, name+"{"), strings.TrimPrefix(y, name+"{"))
			}
		}
	}
	return "?"
}

// The signature of a failure names the decision-table cell it falls into: object class, operation, role of
// the key for that class, the class of the existing property, the predicates of the specification algorithm
// that the argument triggers, and the abstracted mismatch. Routes, key spellings, concrete values and the
// flags that do not take part in the decision are left to the "what" text.

func keyClass(sc *scenario, k int) string {
	if k < 0 || k >= len(keys) {
		return "-"
	}
	ks := keys[k]
	if ks.Kind == spSym {
		return "symbol"
	}
	key := om.StrKey(ks.Str)
	if _, ok := key.ArrayIndex(); ok {
		return "index"
	}
	if _, ok := key.CanonicalNumericIndex(); ok {
		return "numeric(" + ks.Str + ")"
	}
	switch ks.Str {
	case "length", "prototype", "name", "callee", "caller", "arguments", "__proto__":
		return ks.Str
	}
	return "string"
}

func propClass(p om.Prop, has bool) string {
	if !has {
		return "absent"
	}
	if p.Accessor {
		s := "acc:c" + b01(p.C)
		if p.Get.IsUndef() {
			s += ",noget"
		}
		if p.Set.IsUndef() {
			s += ",noset"
		}
		return s
	}
	return "data:w" + b01(p.W) + "c" + b01(p.C)
}

func preClass(m *mworld, op Op) string {
	if op.Tg > obGrand || op.K < 0 || op.K >= len(keys) {
		if op.Tg <= obGrand && !m.role[op.Tg].IsExtensible() {
			return "nonext"
		}
		return "-"
	}
	t := m.role[op.Tg]
	p, has := t.GetOwnProperty(m.key(op.K))
	if op.T == opGOPD || op.T == opHas {
		switch {
		case !has:
			return "absent"
		case p.Accessor:
			return "acc"
		}
		return "data"
	}
	if op.T == opSet || op.T == opGet {
		s := accessClass(p, has, op.T == opSet)
		if !has && !t.IsExtensible() {
			s += ",nonext"
		}
		return s
	}
	if op.T == opDelete {
		if !has {
			return "absent"
		}
		return "present:c" + b01(p.C)
	}
	s := propClass(p, has)
	if op.T == opDefine && has && p.Accessor {
		s = "acc:c" + b01(p.C) // whether get/set are undefined does not enter the define decision
	}
	if !t.IsExtensible() && (!has || op.T != opDefine) {
		s += ",nonext"
	}
	return s
}

// accessClass is the class of a property as far as [[Get]] / [[Set]] are concerned.
func accessClass(p om.Prop, has bool, set bool) string {
	if !has {
		return "absent"
	}
	if p.Accessor {
		if set && p.Set.IsUndef() {
			return "acc:noset"
		}
		if !set && p.Get.IsUndef() {
			return "acc:noget"
		}
		return "acc"
	}
	if set {
		return "data:w" + b01(p.W)
	}
	return "data"
}

// lookupClass: where OrdinaryGet/OrdinarySet finds the key along the chain of the target.
func lookupClass(m *mworld, op Op) string {
	k := m.key(op.K)
	depth := 0
	for o := m.role[op.Tg]; o != nil; o = o.Proto {
		if p, has := o.GetOwnProperty(k); has {
			return fmt.Sprintf("found@%d:%s", depth, accessClass(p, true, op.T == opSet))
		}
		depth++
	}
	return "notfound"
}

func argClass(m *mworld, op Op) string {
	switch op.T {
	case opDefine:
		d := descs[op.D]
		if d.Invalid() {
			return "invalid-descriptor"
		}
		var parts []string
		switch {
		case d.Accessor():
			s := "accessor("
			if d.Get != fnAbsent {
				s += "get=" + []string{"", "undef", "fn", "fn"}[d.Get]
			}
			if d.Set != fnAbsent {
				s += " set=" + []string{"", "undef", "fn", "fn"}[d.Set]
			}
			parts = append(parts, s+")")
		case d.Val >= 0 || d.W != flAbsent:
			s := "data("
			if d.Val >= 0 {
				s += "value"
			}
			if d.W != flAbsent {
				s += " w=" + []string{"", "T", "F"}[d.W]
			}
			parts = append(parts, s+")")
		default:
			parts = append(parts, "generic")
		}
		if p, has := m.role[op.Tg].GetOwnProperty(m.key(op.K)); has && !p.C {
			if d.C == flTrue {
				parts = append(parts, "c=T")
			}
			if d.E != flAbsent && (d.E == flTrue) != p.E {
				parts = append(parts, "e-differs")
			}
			if !p.Accessor && !p.W && d.Val >= 0 {
				if om.SameValue(vals[d.Val].M, p.Value) {
					parts = append(parts, "same-value")
				} else {
					parts = append(parts, "other-value")
				}
			}
			if p.Accessor {
				md := m.desc(op.D)
				if md.HasGet && !om.SameValue(md.Get, p.Get) {
					parts = append(parts, "other-get")
				}
				if md.HasSet && !om.SameValue(md.Set, p.Set) {
					parts = append(parts, "other-set")
				}
			}
		}
		return strings.Join(parts, ",")
	case opSet, opGet:
		s := lookupClass(m, op)
		if op.Rt == rtReflectRecv {
			s += ",recv=" + roleNames[op.Rc]
			if op.Rc <= obGrand {
				p, has := m.role[op.Rc].GetOwnProperty(m.key(op.K))
				s += ":" + accessClass(p, has, op.T == opSet)
				if !has && !m.role[op.Rc].IsExtensible() {
					s += ",nonext"
				}
			}
		}
		return s
	case opSetProto:
		switch op.Rc {
		case obNull:
			return "proto=null"
		case obO, obChild:
			return "proto=cycle"
		}
		return "proto=object"
	case opAssign:
		how, what := "Object.assign", "adds"
		if op.J&1 != 0 {
			how = "spread"
		}
		if op.J&2 != 0 {
			what = "deletes"
		}
		return fmt.Sprintf("%s,getter %s %s", how, what, keyClass(nil, op.V))
	case opForIn:
		return fmt.Sprintf("step%d:%s %s", op.J, opTypeNames[op.M.T], keyClass(nil, op.M.K))
	}
	return "-"
}

func signature(sc *scenario, m *mworld, op Op, mismatch string) string {
	class := "host"
	if ks := kindSpecs[sc.Kind]; ks != nil {
		class = ks.Class
	}
	tg := ""
	if op.Tg != obO {
		tg = "@" + roleNames[op.Tg]
	}
	return fmt.Sprintf("%s|%s%s|key=%s|pre=%s|arg=%s|%s", class, opTypeNames[op.T], tg, keyClass(sc, op.K), preClass(m, op), argClass(m, op), mismatch)
}

// normResult strips the route's result convention: accepted / rejected / throw:<class> / a value. Routes that
// report failure by returning false (Reflect.*, sloppy delete) must not throw, so a throw stays a throw there.
func normResult(op Op, res string) string {
	res, log, hasLog := strings.Cut(res, " log[")
	switch op.T {
	case opDefine, opSet, opDelete, opPreventExt, opFreeze, opSeal, opSetProto:
		boolRoute := op.Rt == rtReflect || op.Rt == rtReflectRecv || (op.T == opDelete && (op.Rt == rtSyntax || op.Rt == rtStatic))
		if op.T == opSet && (op.Rt == rtSyntax || op.Rt == rtStatic) && res == "ok" {
			res = "done" // a sloppy assignment does not tell whether [[Set]] succeeded
		}
		switch {
		case res == "ok" || res == "true":
			res = "accepted"
		case res == "false":
			res = "rejected"
		case res == "throw:TypeError" && !boolRoute:
			res = "rejected"
		}
	case opObserve:
		res = "observation"
	case opGOPD:
		switch {
		case res == "none":
		case strings.HasPrefix(res, "d("):
			res = "data-descriptor"
		case strings.HasPrefix(res, "a("):
			res = "accessor-descriptor"
		}
	case opGet:
		switch {
		case res == "undefined", strings.HasPrefix(res, "throw:"):
		case res == "\"rf\"" || res == "\"rg\"":
			res = "getter-result"
		default:
			res = "value"
		}
	}
	if hasLog {
		// which user functions ran, without the concrete function / receiver / value
		var calls []string
		for _, c := range strings.Split(strings.TrimSuffix(log, "]"), ";") {
			if i := strings.IndexByte(c, '('); i > 0 {
				c = c[:i]
			}
			if j := strings.IndexByte(c, '.'); j >= 0 {
				c = c[j+1:]
			}
			calls = append(calls, c)
		}
		res += " calls[" + strings.Join(calls, ";") + "]"
	}
	return res
}

// listDiff classifies how two rendered key lists differ.
func listDiff(x, y string) string {
	parse := func(s string) []string {
		i, j := strings.IndexByte(s, '['), strings.LastIndexByte(s, ']')
		if i < 0 || j <= i+1 {
			return nil
		}
		return strings.Split(s[i+1:j], ",")
	}
	a, b := parse(x), parse(y)
	inA, inB := map[string]bool{}, map[string]bool{}
	for _, k := range a {
		inA[k] = true
	}
	for _, k := range b {
		inB[k] = true
	}
	extra, missing := false, false
	for _, k := range a {
		if !inB[k] {
			extra = true
		}
	}
	for _, k := range b {
		if !inA[k] {
			missing = true
		}
	}
	switch {
	case extra && missing:
		return "impl has other keys"
	case extra:
		return "impl lists extra keys"
	case missing:
		return "impl misses keys"
	case len(a) != len(b):
		return "impl repeats keys"
	}
	return "order differs"
}

// abstractDiff classifies the first difference of two observations without quoting concrete values.
func abstractDiff(impl, model string) string {
	impl, model = strings.ReplaceAll(impl, "} go{", "}\ngo{"), strings.ReplaceAll(model, "} go{", "}\ngo{")
	il, ml := strings.Split(impl, "\n"), strings.Split(model, "\n")
	for i := 0; i < len(il) || i < len(ml); i++ {
		var a, b string
		if i < len(il) {
			a = il[i]
		}
		if i < len(ml) {
			b = ml[i]
		}
		if a == b {
			continue
		}
		name := a
		if j := strings.IndexByte(a, '{'); j >= 0 {
			name = a[:j]
		} else if j := strings.IndexByte(b, '{'); j >= 0 {
			name = b[:j]
		}
		at, bt := strings.Split(strings.TrimPrefix(a, name+"{"), " "), strings.Split(strings.TrimPrefix(b, name+"{"), " ")
		for j := 0; j < len(at) || j < len(bt); j++ {
			var x, y string
			if j < len(at) {
				x = at[j]
			}
			if j < len(bt) {
				y = bt[j]
			}
			if x == y {
				continue
			}
			kx, dx, okx := strings.Cut(x, "=")
			ky, dy, oky := strings.Cut(y, "=")
			if okx && oky && kx == ky {
				px, py := parseProp(strings.TrimSuffix(dx, "}")), parseProp(strings.TrimSuffix(dy, "}"))
				what := "descriptor"
				switch {
				case strings.Contains(dx, "!"):
					what = "reflection routes disagree"
				case !px.ok || !py.ok:
				case px.acc != py.acc:
					what = fmt.Sprintf("kind impl=%s model=%s", map[bool]string{true: "accessor", false: "data"}[px.acc], map[bool]string{true: "accessor", false: "data"}[py.acc])
				case px.w != py.w || px.e != py.e || px.c != py.c:
					what = "flags:"
					if px.w != py.w {
						what += " writable impl=" + b01(px.w)
					}
					if px.e != py.e {
						what += " enumerable impl=" + b01(px.e)
					}
					if px.c != py.c {
						what += " configurable impl=" + b01(px.c)
					}
				case px.a != py.a || px.b != py.b:
					what = "value/get/set"
				}
				return name + ".property " + what
			}
			sec := x
			if sec == "" {
				sec = y
			}
			if strings.HasPrefix(x, "!") {
				// the battery flagged that one reflection route disagrees with Reflect.ownKeys / getOwnPropertyDescriptor
				r := x
				if i := strings.IndexAny(r, "[:"); i > 0 {
					r = r[:i]
				}
				return name + " route " + r
			}
			if okx != oky || (okx && kx != ky) {
				return name + ".own-keys/properties differ"
			}
			switch {
			case strings.HasPrefix(sec, "K["):
				return name + ".ownKeys " + listDiff(x, y)
			case strings.HasPrefix(sec, "N["), strings.HasPrefix(sec, "S["), strings.HasPrefix(sec, "E["), strings.HasPrefix(sec, "F["):
				return name + ".keylist " + sec[:1] + " " + listDiff(x, y)
			case strings.HasPrefix(sec, "x"), strings.HasPrefix(sec, "z"), strings.HasPrefix(sec, "p"):
				return name + ".flag impl=" + x + " model=" + y
			}
			return name + " impl=" + x + " model=" + y
		}
	}
	return "?"
}

// freshIf: kinds whose target is a built-in object of the runtime need a pristine runtime for every run.
func freshIf(h *harness, sc *scenario) *harness {
	if ks := kindSpecs[sc.Kind]; ks != nil && ks.Adopt {
		return newHarness()
	}
	return h
}

// runPath builds fresh worlds and replays path on both sides without observing anything in between.
func runPath(h *harness, sc *scenario, path []Op) (*world, *mworld) {
	w := h.newWorld(sc.Kind, sc.Variant, sc.ChainKeys)
	var m *mworld
	if !sc.NoModel {
		m = newModelWorld(kindSpecs[sc.Kind], sc.Variant, sc.ChainKeys)
		m.adoptOrder(sc.InitOrder)
	}
	for _, op := range path {
		w.exec(op)
		if m != nil {
			m.exec(op)
		}
	}
	return w, m
}

// transition executes path + op in lock-step and returns the primary failure of the last step (nil = agreement)
// and the new state. Priority: result mismatch, then state mismatch, then an essential-invariant anomaly.
func transition(h *harness, sc *scenario, path []Op, op Op, preDump string) (fail *failure, dump, key string) {
	return transitionRef(h, sc, path, op, nil, preDump)
}

func transitionRef(h *harness, sc *scenario, path []Op, op Op, ref *Op, preDump string) (fail *failure, dump, key string) {
	w, m := runPath(h, sc, path)
	var fine string
	if m != nil {
		fine = signature(sc, m, op, "") // classifies the pre-state, so it is computed before the step
	} else {
		fine = fmt.Sprintf("%s|%s|key=%s|pre=%s|arg=%s|", sc.Kind, opTypeNames[op.T], keyClass(sc, op.K), preFromDump(preDump, op), hostArg(op))
	}
	fine = routeNames[op.Rt] + "|" + fine
	implRes := w.exec(op)
	dump, key = realDump(w)
	var anomalies []string
	if preDump != "" {
		anomalies = monitor(preDump, dump)
	}
	inv := ""
	if len(anomalies) > 0 {
		inv = "; essential invariant violated: " + strings.Join(anomalies, ", ")
	}
	where := fmt.Sprintf("%s on %s/%s after [%s]: ", op, sc.Kind, sc.Variant, pathString(path))
	if strings.HasPrefix(implRes, "gopanic:") {
		mm := "go-panic"
		fail = &failure{fine: fine + mm, mismatch: mm, what: where + "the operation crashes the host with a Go panic (" + strings.TrimPrefix(implRes, "gopanic:") + ")"}
		return fail, dump, key
	}
	if m != nil {
		modelRes := m.exec(op)
		if op.T == opForIn {
			implRes = dropAddedKeys(implRes, m.forInBefore)
		}
		md := modelDump(m)
		switch {
		case implRes != modelRes:
			mm := "result impl=" + normResult(op, implRes) + " model=" + normResult(op, modelRes)
			if normResult(op, implRes) == normResult(op, modelRes) {
				mm += " (details differ)"
			}
			switch op.T {
			case opObserve:
				mm = "observation " + abstractDiff(implRes, modelRes)
			case opAssign, opForIn, opKeys:
				if strings.HasPrefix(implRes, "[") && strings.HasPrefix(modelRes, "[") {
					mm = "result keys: " + listDiff(implRes, modelRes)
				}
			}
			if len(anomalies) > 0 {
				mm += " invariant(" + anomalies[0] + ")"
			}
			fail = &failure{fine: fine + mm, mismatch: mm, what: where + "result " + implRes + ", specification " + modelRes + inv}
		case md != dump:
			mm := "state " + abstractDiff(dump, md)
			if strings.HasSuffix(mm, ".ownKeys order differs") {
				// the same keys in another order: a defect of the key listing, whatever operation led here
				fine = routeNames[rtReflect] + "|" + kindSpecs[sc.Kind].Class + "|own-key-order|"
			}
			if strings.Contains(mm, ".flag impl=z") {
				// only Object.isFrozen / Object.isSealed answer wrongly: that is a defect of those tests, whatever
				// operation led to the state
				class := kindSpecs[sc.Kind].Class
				fine = routeNames[rtReflect] + "|" + class + "|isFrozen/isSealed|"
			}
			if len(anomalies) > 0 {
				mm += " invariant(" + anomalies[0] + ")"
			}
			fail = &failure{fine: fine + mm, mismatch: mm, what: where + "resulting state differs from the specification: " + firstDiff(dump, md) + inv}
		}
	}
	if fail == nil && len(anomalies) > 0 {
		mm := "invariant(" + anomalies[0] + ")"
		fail = &failure{fine: fine + mm, mismatch: mm, what: where + "essential invariant violated: " + strings.Join(anomalies, ", ")}
	}
	if fail == nil && ref != nil {
		// route agreement: the reference route from the same state
		w2, _ := runPath(h, sc, path)
		refRes := w2.exec(*ref)
		refDump, _ := realDump(w2)
		a, b := normResult(op, implRes), normResult(*ref, refRes)
		if strings.HasPrefix(a, "done") && (strings.HasPrefix(b, "accepted") || strings.HasPrefix(b, "rejected")) {
			a = b[:8] + a[4:]
		}
		switch {
		case a != b:
			mm := fmt.Sprintf("routes disagree: %s=%s %s=%s", routeLabel(op), a, routeLabel(*ref), b)
			fail = &failure{fine: fine + mm, mismatch: mm, what: where + fmt.Sprintf("result %s, but %s gives %s", implRes, ref.String(), refRes)}
		case refDump != dump:
			mm := fmt.Sprintf("routes disagree: %s vs %s state %s", routeLabel(op), routeLabel(*ref), abstractDiff(dump, refDump))
			fail = &failure{fine: fine + mm, mismatch: mm, what: where + fmt.Sprintf("resulting state differs from the one %s produces: %s", ref.String(), firstDiff(dump, refDump))}
		}
	}
	if fail != nil && !h.checkPristine() {
		fail.what += " [a built-in object of the runtime was modified]"
	}
	return
}

func makeCase(sc *scenario, path []Op, op Op) Case {
	full := append(append([]Op{}, path...), op)
	c := Case{Scenario: sc.Name, Kind: sc.Kind, Variant: sc.Variant, ChainKeys: sc.ChainKeys, Path: full}
	for _, o := range full {
		c.Text = append(c.Text, o.String())
	}
	return c
}

// dropAddedKeys removes from a rendered for-in result the keys that did not exist when the loop started:
// the specification leaves open whether properties added during enumeration are visited.
func dropAddedKeys(res string, before []om.Key) string {
	if !strings.HasPrefix(res, "[") {
		return res
	}
	end := strings.IndexByte(res, ']')
	if end < 0 {
		return res
	}
	was := map[string]bool{}
	for _, k := range before {
		was[om.RenderKey(k)] = true
	}
	var kept []string
	if end > 1 {
		for _, k := range strings.Split(res[1:end], ",") {
			if was[k] {
				kept = append(kept, k)
			}
		}
	}
	return "[" + strings.Join(kept, ",") + "]" + res[end+1:]
}

// preFromDump classifies the existing own property of the target for host kinds (no model to ask).
func preFromDump(pre string, op Op) string {
	if op.K < 0 || op.K >= len(keys) || op.Tg > obGrand {
		return "-"
	}
	name := keys[op.K].Str
	if keys[op.K].Kind == spSym {
		name = "@" + keys[op.K].Sym
	}
	for _, o := range parseDump(pre) {
		if o.Name != roleNames[op.Tg] {
			continue
		}
		s := "absent"
		if d, ok := o.Props[name]; ok {
			p := parseProp(d)
			if p.acc {
				s = "acc:c" + b01(p.c)
			} else {
				s = "data:w" + b01(p.w) + "c" + b01(p.c)
			}
		}
		if !o.Ext {
			s += ",nonext"
		}
		return s
	}
	return "?"
}

func hostArg(op Op) string {
	switch op.T {
	case opDefine:
		d := descs[op.D]
		switch {
		case d.Invalid():
			return "invalid-descriptor"
		case d.Accessor():
			return "accessor"
		case d.Val >= 0 || d.W != flAbsent:
			s := "data"
			if d.Val < 0 {
				s += "(no value)"
			}
			return s
		}
		return "generic"
	case opSet:
		if op.Rt == rtReflectRecv {
			return "recv=" + roleNames[op.Rc]
		}
	case opGet:
		if op.Rt == rtReflectRecv {
			return "recv=" + roleNames[op.Rc]
		}
	case opSetProto:
		return "proto=" + roleNames[op.Rc]
	}
	return "-"
}

// stillFails re-executes a candidate case on a fresh world and reports the failure if it has the same
// mismatch class.
func stillFails(hp func() *harness, sc *scenario, path []Op, op Op, mismatch string) *failure {
	return stillFailsRef(hp, sc, path, op, nil, mismatch)
}

func stillFailsRef(hp func() *harness, sc *scenario, path []Op, op Op, ref *Op, mismatch string) (res *failure) {
	defer func() {
		if recover() != nil { // a reduced case may be outside the alphabet of its kind
			res = nil
		}
	}()
	h := hp()
	w, m := runPath(h, sc, path)
	pre, _ := realDump(w)
	if m != nil && modelDump(m) != pre {
		return nil // not a valid witness: model and implementation already disagree before the step
	}
	f, _, _ := transitionRef(freshIf(h, sc), sc, path, op, ref, pre)
	if f != nil && f.mismatch == mismatch {
		return f
	}
	return nil
}

// minimizer reduces a failing transition to a canonical small witness with the same mismatch class: simplest
// kind, plain chain, plain string key, the object itself as target and receiver, Reflect route, shortest path,
// smallest descriptor. A candidate is valid only if model and implementation agree before its last step.
type minimizer struct {
	hp   func() *harness
	sc   *scenario
	path []Op
	op   Op
	ref  *Op
	f    *failure
}

func (z *minimizer) try(nsc *scenario, npath []Op, nop Op) bool {
	nref := z.ref
	if z.ref != nil && nop.T == opDefine && z.ref.T == opDefine && nop.D != z.ref.D {
		r2 := *z.ref
		r2.D = nop.D
		nref = &r2
	}
	g := stillFailsRef(z.hp, nsc, npath, nop, nref, z.f.mismatch)
	if debugExplore {
		fmt.Printf("DEBUG minimize try %s/%s [%s] %s -> %v\n", nsc.Kind, nsc.Variant, pathString(npath), nop, g != nil)
	}
	if g != nil {
		z.sc, z.path, z.op, z.ref, z.f = nsc, npath, nop, nref, g
		return true
	}
	return false
}

func (z *minimizer) with(kind, variant string) *scenario {
	n := &scenario{Name: z.sc.Name, Kind: kind, Variant: variant, ChainKeys: z.sc.ChainKeys, NoModel: z.sc.NoModel}
	if kind == z.sc.Kind {
		n.InitOrder = z.sc.InitOrder
	}
	return n
}

func (z *minimizer) mapOps(fn func(Op) Op) ([]Op, Op) {
	np := make([]Op, len(z.path))
	for i, o := range z.path {
		np[i] = fn(o)
	}
	return np, fn(z.op)
}

func simplerOps(o Op) []Op {
	var res []Op
	if o.T == opDefine {
		d := descs[o.D]
		for _, nd := range []descSpec{
			{W: flAbsent, E: d.E, C: d.C, Val: d.Val, Get: d.Get, Set: d.Set, BadGet: d.BadGet},
			{W: d.W, E: flAbsent, C: d.C, Val: d.Val, Get: d.Get, Set: d.Set, BadGet: d.BadGet},
			{W: d.W, E: d.E, C: flAbsent, Val: d.Val, Get: d.Get, Set: d.Set, BadGet: d.BadGet},
			{W: d.W, E: d.E, C: d.C, Val: -1, Get: d.Get, Set: d.Set, BadGet: d.BadGet},
			{W: d.W, E: d.E, C: d.C, Val: d.Val, Get: fnAbsent, Set: d.Set, BadGet: d.BadGet},
			{W: d.W, E: d.E, C: d.C, Val: d.Val, Get: d.Get, Set: fnAbsent, BadGet: d.BadGet},
			{W: d.W, E: d.E, C: d.C, Val: v1, Get: d.Get, Set: d.Set, BadGet: d.BadGet},
			{W: d.W, E: d.E, C: d.C, Val: d.Val, Get: fnA, Set: d.Set, BadGet: d.BadGet},
			{W: d.W, E: d.E, C: d.C, Val: d.Val, Get: d.Get, Set: fnA, BadGet: d.BadGet},
		} {
			if nd == d || (nd.Val == v1 && d.Val < 0) || (nd.Get == fnA && d.Get != fnB) || (nd.Set == fnA && d.Set != fnB) {
				continue
			}
			if i, ok := descIndex[nd]; ok {
				n := o
				n.D = i
				res = append(res, n)
			}
		}
	}
	if (o.T == opSet || o.T == opSetFormal) && o.V != v1 {
		n := o
		n.V = v1
		res = append(res, n)
	}
	return res
}

func minimize(hp func() *harness, sc *scenario, path []Op, op Op, ref *Op, f *failure) (*scenario, []Op, Op, *Op, *failure) {
	if !strings.Contains(f.mismatch, "routes disagree") {
		ref = nil // the reference route plays no part in this failure
	}
	z := &minimizer{hp: hp, path: path, op: op, ref: ref, f: f,
		sc: &scenario{Name: sc.Name, Kind: sc.Kind, Variant: sc.Variant, ChainKeys: sc.ChainKeys, NoModel: sc.NoModel, InitOrder: sc.InitOrder}}
	if !z.sc.NoModel {
		if z.sc.Kind != "plain" {
			z.try(z.with("plain", z.sc.Variant), z.path, z.op)
		}
		if z.sc.Variant != "chain" {
			z.try(z.with(z.sc.Kind, "chain"), z.path, z.op)
		}
	}
	if z.ref == nil {
		// key: a plain string key, everywhere in the case
		if !z.sc.NoModel && z.op.K >= 0 && keys[z.op.K].Name != `"a"` {
			from := z.op.K
			canon := keys[from].Str
			isSym := keys[from].Kind == spSym
			np, nop := z.mapOps(func(o Op) Op {
				if o.K >= 0 && o.K < len(keys) && ((isSym && o.K == from) || (!isSym && keys[o.K].Kind != spSym && keys[o.K].Str == canon)) {
					o.K = K(`"a"`)
					if o.Rt == rtStatic {
						o.Rt = rtSyntax
					}
					if o.Rt == rtStaticStrict {
						o.Rt = rtSyntaxStrict
					}
				}
				return o
			})
			nsc := z.with(z.sc.Kind, z.sc.Variant)
			nsc.ChainKeys = []int{K(`"a"`)}
			z.try(nsc, np, nop)
		}
		// target / receiver: the object itself
		if z.op.Tg == obChild {
			n := z.op
			n.Tg = obO
			z.try(z.sc, z.path, n)
		}
		if z.op.Rt == rtReflectRecv {
			n := z.op
			n.Rt, n.Rc = rtReflect, 0
			if !z.try(z.sc, z.path, n) {
				for _, rc := range []uint8{obChild, obParent} {
					if rc < z.op.Rc {
						n = z.op
						n.Rc = rc
						if z.try(z.sc, z.path, n) {
							break
						}
					}
				}
			}
		}
		// routes: Reflect where the operation has one
		reroute := func(o Op) Op {
			switch o.T {
			case opDefine, opDelete, opPreventExt, opSetProto:
				o.Rt = rtReflect
			case opSet, opGet:
				if o.Rt != rtReflectRecv {
					o.Rt = rtReflect
				}
			}
			return o
		}
		np, nop := z.mapOps(reroute)
		if !z.try(z.sc, np, nop) {
			z.try(z.sc, np, z.op) // at least the path
		}
	}
	// path: drop operations greedily
	for changed := true; changed; {
		changed = false
		for i := range z.path {
			np := append(append([]Op{}, z.path[:i]...), z.path[i+1:]...)
			if z.try(z.sc, np, z.op) {
				changed = true
				break
			}
		}
	}
	// descriptors: drop fields / use the first function / the first value
	for changed := true; changed; {
		changed = false
		for _, c := range simplerOps(z.op) {
			if z.try(z.sc, z.path, c) {
				changed = true
				break
			}
		}
		if changed {
			continue
		}
	outer:
		for i := range z.path {
			for _, c := range simplerOps(z.path[i]) {
				np := append([]Op{}, z.path...)
				np[i] = c
				if z.try(z.sc, np, z.op) {
					changed = true
					break outer
				}
			}
		}
	}
	return z.sc, z.path, z.op, z.ref, z.f
}

func routeLabel(op Op) string {
	s := routeNames[op.Rt]
	if op.K >= 0 && op.K < len(keys) && keys[op.K].Kind == spInt {
		s += "/number-key"
	}
	return s
}

// routePrefix: the route is part of a signature only when the canonical witness needs a route other than
// Reflect.* (i.e. the failure did not reproduce through Reflect).
func routePrefix(op Op) string {
	switch op.T {
	case opDefine, opGet, opSet, opDelete, opHas, opPreventExt, opSetProto:
		if op.Rt != rtReflect && op.Rt != rtReflectRecv {
			return routeNames[op.Rt] + "|"
		}
	}
	return ""
}

// report canonicalises a failure (once per fine-grained class), confirms the canonical witness 5x on fresh
// runtimes, and records it under the witness's signature.
func (x *explorer) report(worker int, sc *scenario, path []Op, op Op, ref *Op, f *failure) {
	h := func() *harness { return x.hFor(worker, sc) }
	memoKey := sc.Kind + "/" + sc.Variant + "|" + f.fine
	x.mu.Lock()
	e, ok := x.memo[memoKey]
	x.mu.Unlock()
	if !ok {
		msc, mpath, mop, mref, mf := minimize(h, sc, path, op, ref, f)
		sig := strings.SplitN(mf.fine, "|", 2)[1] // without the route
		e = &memoEntry{sig: sig, what: mf.what, c: makeCase(msc, mpath, mop)}
		e.c.Ref = mref
		e.sig = routePrefix(mop) + sig
		if msc.NoModel && strings.Contains(mf.mismatch, "routes disagree") {
			e.sig = sig
		}
		x.mu.Lock()
		confirmed := x.confirm[e.sig]
		x.confirm[e.sig] = true
		x.mu.Unlock()
		if !confirmed {
			for i := 0; i < 5; i++ {
				if stillFailsRef(newHarness, msc, mpath, mop, mref, mf.mismatch) == nil {
					e.sig = "nondeterministic|" + e.sig
					e.what = "failure did not reproduce on a fresh runtime: " + e.what
					break
				}
			}
		}
		x.mu.Lock()
		x.memo[memoKey] = e
		x.mu.Unlock()
	}
	x.r.Violation(e.sig, e.what, e.c)
}

// checkInitial compares the fresh object with the model. A difference that is only the order of own keys is
// reported and then adopted (sc.InitOrder) so that the search can continue; any other difference ends the search.
func (x *explorer) checkInitial(h *harness, sc *scenario, d0 string) bool {
	m0 := newModelWorld(kindSpecs[sc.Kind], sc.Variant, sc.ChainKeys)
	if strings.HasPrefix(sc.Variant, "natural") {
		// the model of the built-in prototype must know every probed key the real one has
		w := h.newWorld(sc.Kind, sc.Variant, sc.ChainKeys)
		proto := w.role[obO].Prototype()
		for _, k := range sc.ChainKeys {
			real := proto != nil && w.call("hasIn", proto, h.keyVals[k]) == "true"
			model := m0.role[obO].Proto != nil && m0.role[obO].Proto.HasProperty(m0.key(k))
			if real != model {
				x.r.Violation("check-config|natural prototype", fmt.Sprintf("the model of the built-in prototype of %s disagrees with the real one about key %s (real %v, model %v)", sc.Kind, keys[k].Name, real, model), makeCase(sc, nil, Op{T: opObserve, K: -1}))
				return false
			}
		}
	}
	md := modelDump(m0)
	if md == d0 {
		return true
	}
	class := kindSpecs[sc.Kind].Class
	c := makeCase(sc, nil, Op{T: opObserve, K: -1})
	real := parseDump(d0)
	if len(real) > 0 && real[0].Name == "o" {
		sc.InitOrder = real[0].Keys
		m1 := newModelWorld(kindSpecs[sc.Kind], sc.Variant, sc.ChainKeys)
		m1.adoptOrder(sc.InitOrder)
		if modelDump(m1) == d0 {
			x.r.Violation(fmt.Sprintf("%s|initial|%s|own key order", class, sc.Kind), fmt.Sprintf("fresh %s lists its own keys in a different order than the specification creates them: %s", sc.Kind, firstDiff(d0, md)), c)
			return true
		}
		sc.InitOrder = nil
	}
	x.r.Violation(fmt.Sprintf("%s|initial|%s|%s", class, sc.Kind, abstractDiff(d0, md)), fmt.Sprintf("fresh %s/%s differs from the specification: %s", sc.Kind, sc.Variant, firstDiff(d0, md)), c)
	return false
}

func pathOf(states []state, sc *scenario, i int32) []Op {
	var rev []Op
	for j := i; states[j].parent >= 0; j = states[j].parent {
		rev = append(rev, sc.Ops[states[j].op])
	}
	for a, b := 0, len(rev)-1; a < b; a, b = a+1, b-1 {
		rev[a], rev[b] = rev[b], rev[a]
	}
	return rev
}

func auxPart(d string) string {
	i := strings.Index(d, "\nchild{")
	if i < 0 {
		return ""
	}
	js := d[i:]
	if a := strings.Index(js, "\naux{"); a >= 0 {
		js = js[:a]
	}
	return js
}

var debugExplore = os.Getenv("VERIF_C04_DEBUG") != ""

// explore runs the BFS of one scenario. par runs fn over [0,n) (serially or on the worker pool) and
// reports whether it completed.
func (x *explorer) explore(sc *scenario, worker int, par func(n int64, fn func(worker int, lo, hi int64)) bool) scenarioResult {
	r := x.r
	res := scenarioResult{Name: sc.Name}
	h0 := x.hFor(worker, sc)
	w0, _ := runPath(h0, sc, nil)
	d0, k0 := realDump(w0)
	if !sc.NoModel {
		if !x.checkInitial(h0, sc, d0) {
			return res
		}
	}
	aux0 := auxPart(d0)
	states := []state{{parent: -1, op: -1}}
	seen := map[hashKey]struct{}{hashOf(k0 + x.refine(sc, nil)): {}}
	frontier := []int32{0}
	dumps := map[int32]string{0: d0}
	r.States(1)
	res.States = 1
	type cand struct {
		task int64
		key  hashKey
		dump string
	}
	for depth := 1; len(frontier) > 0 && (sc.MaxDepth == 0 || depth <= sc.MaxDepth); depth++ {
		nOps := int64(len(sc.Ops))
		total := int64(len(frontier)) * nOps
		var cmu sync.Mutex
		var cands []cand
		paths := make([][]Op, len(frontier))
		for i, si := range frontier {
			paths[i] = pathOf(states, sc, si)
		}
		complete := par(total, func(wk int, lo, hi int64) {
			h := x.h(wk)
			var local []cand
			for t := lo; t < hi; t++ {
				fi, oi := t/nOps, t%nOps
				path, op := paths[fi], sc.Ops[oi]
				pre := dumps[frontier[fi]]
				var ref *Op
				if ri, ok := sc.Ref[int(oi)]; ok {
					ref = &sc.Ops[ri]
				}
				fail, dump, key := transitionRef(freshIf(h, sc), sc, path, op, ref, pre)
				r.Transitions(1)
				r.Eval(1)
				if !sc.NoModel {
					r.Traces(1)
				}
				if fail != nil {
					x.report(wk, sc, path, op, ref, fail)
					h = x.h(wk)
					continue // a diverged state is not expanded
				}
				if dump != pre {
					r.NontrivialH(core.HashString(sc.Name + "\x00" + key))
				}
				if dump != pre && len(path) > 0 && r.WantSample(x.sampleN.Add(1)) {
					r.Sample(map[string]interface{}{"scenario": sc.Name, "path": pathString(path), "op": op.String(), "result": "agrees with ref/objmodel", "state_after": strings.Split(dump, "\n")[0]})
				}
				hk := hashOf(key + x.refine(sc, append(path[:len(path):len(path)], op)))
				if _, ok := seen[hk]; !ok {
					local = append(local, cand{t, hk, dump})
				}
			}
			cmu.Lock()
			cands = append(cands, local...)
			cmu.Unlock()
		})
		res.Transitions += total
		if !complete {
			res.Depth = depth - 1
			res.States = len(states)
			return res
		}
		sort.Slice(cands, func(i, j int) bool { return cands[i].task < cands[j].task })
		var next []int32
		ndumps := map[int32]string{}
		for _, c := range cands {
			if _, ok := seen[c.key]; ok {
				continue
			}
			seen[c.key] = struct{}{}
			fi, oi := c.task/nOps, c.task%nOps
			states = append(states, state{parent: frontier[fi], op: int32(oi), depth: int32(depth)})
			r.States(1)
			r.OutcomeH(core.HashString(c.dump))
			if sc.LeafAux && auxPart(c.dump) != aux0 {
				continue // checked, but not expanded
			}
			id := int32(len(states) - 1)
			next = append(next, id)
			ndumps[id] = c.dump
		}
		if debugExplore {
			fmt.Printf("DEBUG %s depth %d: %d transitions, %d new states (%d expandable)\n", sc.Name, depth, total, len(cands), len(next))
			for i, id := range next {
				if i%(len(next)/12+1) == 0 {
					fmt.Printf("   [%s] %s\n", pathString(pathOf(states, sc, id)), strings.Split(ndumps[id], "\n")[0])
				}
			}
		}
		frontier, dumps = next, ndumps
		res.Depth = depth
	}
	res.States = len(states)
	res.Closed = len(frontier) == 0
	return res
}

func (x *explorer) refine(sc *scenario, path []Op) string {
	if sc.Refine == nil {
		return ""
	}
	return "\nrefine:" + sc.Refine(path, sc)
}
