package c04

import (
	"fmt"
	"math"
	"strings"

	om "verif/ref/objmodel"
)

// ---------------------------------------------------------------- values

type valSpec struct {
	JS string // JS expression
	M  om.Value
}

// value pool (index = Op.V). Simple values first.
var vals = []valSpec{
	{"1", om.Num(1)},
	{"2", om.Num(2)},
	{"NaN", om.Num(math.NaN())},
	{"-0", om.Num(math.Copysign(0, -1))},
	{"0", om.Num(0)},
	{"undefined", om.Undefined},
	{`"x"`, om.Str("x")},
	{`"2"`, om.Str("2")},
	{"1.5", om.Num(1.5)},
	{"-1", om.Num(-1)},
	{"4294967295", om.Num(4294967295)},
	{"4294967296", om.Num(4294967296)},
	{"3", om.Num(3)},
	{"7", om.Num(7)},
	{"null", om.Null},
	{"true", om.Bool(true)},
}

const (
	v1 = iota
	v2
	vNaN
	vNegZero
	vZero
	vUndef
	vStrX
	vStr2
	v1_5
	vNeg1
	vMaxU32
	vTwo32
	v3
	v7
	vNull
	vTrue
)

// ---------------------------------------------------------------- keys

type keyKind uint8

const (
	spInt keyKind = iota // number spelling (goja: valueInt / valueFloat path)
	spStr                // string spelling
	spSym
)

// keySpec is one spelling of a property key.
type keySpec struct {
	Name  string // for printing: 0, "0", @s1
	Kind  keyKind
	JS    string // JS expression producing the key value
	Str   string // canonical string of the key (ToPropertyKey), for string / number spellings
	Sym   string // symbol name for symbol keys
	Ident bool   // usable in static member syntax (o.name)
	goKey string
}

var keys, keyByName = buildKeys()

func buildKeys() (keys []keySpec, keyByName map[string]int) {
	keyByName = map[string]int{}
	addKey := func(k keySpec) {
		keyByName[k.Name] = len(keys)
		keys = append(keys, k)
	}
	for _, n := range []string{"0", "1", "2", "3", "4294967294", "4294967295", "5000"} {
		addKey(keySpec{Name: n, Kind: spInt, JS: n, Str: n})
	}
	addKey(keySpec{Name: "-0", Kind: spInt, JS: "-0", Str: "0"})
	addKey(keySpec{Name: "1.5", Kind: spInt, JS: "1.5", Str: "1.5"})
	addKey(keySpec{Name: "7", Kind: spInt, JS: "7", Str: "7"})
	for _, n := range []string{"0", "1", "2", "3", "01", "-0", "1.5", "4294967294", "4294967295", "5000", "NaN", "Infinity", "a", "b", "c", "length", "prototype", "name", "callee", "caller", "arguments", "__proto__", "constructor", "sm", "g", "z", "A", "M", "PI", "abs"} {
		id := n[0] >= 'a' && n[0] <= 'z' || n[0] >= 'A' && n[0] <= 'Z' || n[0] == '_'
		addKey(keySpec{Name: `"` + n + `"`, Kind: spStr, JS: `"` + n + `"`, Str: n, Ident: id})
	}
	addKey(keySpec{Name: "@s1", Kind: spSym, JS: "H.s1", Sym: "s1"})
	addKey(keySpec{Name: "@s2", Kind: spSym, JS: "H.s2", Sym: "s2"})
	addKey(keySpec{Name: "@toPrimitive", Kind: spSym, JS: "Symbol.toPrimitive", Sym: "toPrimitive"})
	addKey(keySpec{Name: "@iterator", Kind: spSym, JS: "Symbol.iterator", Sym: "iterator"})
	addKey(keySpec{Name: "@toStringTag", Kind: spSym, JS: "Symbol.toStringTag", Sym: "toStringTag"})
	return
}

func K(name string) int {
	i, ok := keyByName[name]
	if !ok {
		panic("no key " + name)
	}
	return i
}

// ---------------------------------------------------------------- descriptors

// fn pool for get/set fields
const (
	fnAbsent = iota
	fnUndef
	fnA // f / sf
	fnB // g / sg
)

const (
	flAbsent = iota
	flTrue
	flFalse
)

// descSpec is a (possibly partial, possibly invalid) property descriptor object.
type descSpec struct {
	W, E, C  uint8 // flAbsent / flTrue / flFalse
	Val      int   // -1 absent, else index into vals
	Get, Set uint8 // fnAbsent / fnUndef / fnA / fnB
	BadGet   bool  // get: 1 (not callable) -> ToPropertyDescriptor throws
}

func flagJS(n string, f uint8) string {
	switch f {
	case flTrue:
		return n + ":true,"
	case flFalse:
		return n + ":false,"
	}
	return ""
}

func (d descSpec) JS() string {
	var sb strings.Builder
	sb.WriteString("{")
	if d.Val >= 0 {
		sb.WriteString("value:" + vals[d.Val].JS + ",")
	}
	sb.WriteString(flagJS("writable", d.W))
	switch d.Get {
	case fnUndef:
		sb.WriteString("get:undefined,")
	case fnA:
		sb.WriteString("get:H.f,")
	case fnB:
		sb.WriteString("get:H.g,")
	}
	if d.BadGet {
		sb.WriteString("get:1,")
	}
	switch d.Set {
	case fnUndef:
		sb.WriteString("set:undefined,")
	case fnA:
		sb.WriteString("set:H.sf,")
	case fnB:
		sb.WriteString("set:H.sg,")
	}
	sb.WriteString(flagJS("enumerable", d.E))
	sb.WriteString(flagJS("configurable", d.C))
	s := sb.String()
	if strings.HasSuffix(s, ",") {
		s = s[:len(s)-1]
	}
	return s + "}"
}

// Invalid reports whether ToPropertyDescriptor must throw a TypeError.
func (d descSpec) Invalid() bool {
	if d.BadGet {
		return true
	}
	return (d.Get != fnAbsent || d.Set != fnAbsent) && (d.Val >= 0 || d.W != flAbsent)
}

func (d descSpec) Accessor() bool { return d.Get != fnAbsent || d.Set != fnAbsent }

// class is a short classification used in violation signatures.
func (d descSpec) class() string {
	var p []string
	if d.Val >= 0 {
		p = append(p, "value")
	}
	if d.W != flAbsent {
		p = append(p, "w="+[]string{"", "T", "F"}[d.W])
	}
	if d.Get != fnAbsent {
		p = append(p, "get="+[]string{"", "undef", "fn", "fn"}[d.Get])
	}
	if d.Set != fnAbsent {
		p = append(p, "set="+[]string{"", "undef", "fn", "fn"}[d.Set])
	}
	if d.E != flAbsent {
		p = append(p, "e="+[]string{"", "T", "F"}[d.E])
	}
	if d.C != flAbsent {
		p = append(p, "c="+[]string{"", "T", "F"}[d.C])
	}
	if len(p) == 0 {
		return "{}"
	}
	return "{" + strings.Join(p, ",") + "}"
}

var descs []descSpec
var descIndex = map[descSpec]int{}

func D(d descSpec) int {
	if i, ok := descIndex[d]; ok {
		return i
	}
	descIndex[d] = len(descs)
	descs = append(descs, d)
	return len(descs) - 1
}

// All descriptors are registered at init time so that the pool (and with it replay files) is stable:
// full lattice over every value of the pool.
func init() {
	for _, val := range append([]int{-1}, seq(len(vals))...) {
		for w := uint8(0); w < 3; w++ {
			for e := uint8(0); e < 3; e++ {
				for c := uint8(0); c < 3; c++ {
					D(descSpec{W: w, E: e, C: c, Val: val})
				}
			}
		}
	}
	for g := uint8(0); g < 4; g++ {
		for s := uint8(0); s < 4; s++ {
			if g == fnAbsent && s == fnAbsent {
				continue
			}
			for e := uint8(0); e < 3; e++ {
				for c := uint8(0); c < 3; c++ {
					D(descSpec{E: e, C: c, Val: -1, Get: g, Set: s})
				}
			}
		}
	}
	// invalid mixes
	D(descSpec{Val: v1, Get: fnA})
	D(descSpec{Val: -1, W: flTrue, Set: fnA})
	D(descSpec{Val: -1, W: flFalse, Get: fnUndef})
	D(descSpec{Val: v1, Get: fnUndef})
	D(descSpec{Val: -1, BadGet: true})
}

func seq(n int) []int {
	r := make([]int, n)
	for i := range r {
		r[i] = i
	}
	return r
}

// dataLattice returns all data-ish/generic descriptors (27 flag combinations x (absent + values)).
func dataLattice(values []int) []int {
	var res []int
	for _, val := range append([]int{-1}, values...) {
		for w := uint8(0); w < 3; w++ {
			for e := uint8(0); e < 3; e++ {
				for c := uint8(0); c < 3; c++ {
					res = append(res, D(descSpec{W: w, E: e, C: c, Val: val}))
				}
			}
		}
	}
	return res
}

// accLattice returns all accessor descriptors with get/set drawn from the given pools.
func accLattice(gets, sets []uint8) []int {
	var res []int
	for _, g := range gets {
		for _, s := range sets {
			if g == fnAbsent && s == fnAbsent {
				continue
			}
			for e := uint8(0); e < 3; e++ {
				for c := uint8(0); c < 3; c++ {
					res = append(res, D(descSpec{E: e, C: c, Val: -1, Get: g, Set: s}))
				}
			}
		}
	}
	return res
}

func invalidDescs() []int {
	return []int{
		D(descSpec{Val: v1, Get: fnA}),
		D(descSpec{Val: -1, W: flTrue, Set: fnA}),
		D(descSpec{Val: -1, W: flFalse, Get: fnUndef}),
		D(descSpec{Val: v1, Get: fnUndef}),
		D(descSpec{Val: -1, BadGet: true}),
	}
}

// ---------------------------------------------------------------- operations

type opType uint8

const (
	opDefine opType = iota
	opGet
	opSet
	opDelete
	opHas
	opGOPD
	opPreventExt
	opFreeze
	opSeal
	opSetProto
	opSetFormal // mapped arguments: assign to the first formal parameter
	opForIn     // for-in with a mutation at loop step J
	opAssign    // copy o (J&1: spread, else Object.assign) while a getter defined under key K adds (J&2: deletes) key V (an index into keys)
	opKeys      // Object.keys(o) — an enumeration that forces the lazy key order
	opObserve   // the full observation battery: every own-property reflection route of JS and of the Go API
)

var opTypeNames = []string{"define", "get", "set", "delete", "has", "gopd", "preventExtensions", "freeze", "seal", "setPrototypeOf", "setFormal", "forin", "assign", "keys", "observe"}

// routes
const (
	rtSyntax       = iota // o[k] / o[k]=v (sloppy) / delete o[k] (sloppy) / k in o
	rtSyntaxStrict        // strict-mode assignment / delete
	rtStatic              // o.k (static member syntax), sloppy
	rtStaticStrict        // o.k strict
	rtObject              // Object.defineProperty / Object.preventExtensions / Object.setPrototypeOf / hasOwnProperty
	rtObject2             // Object.defineProperties / Object.hasOwn / __proto__ setter
	rtReflect             // Reflect.* without receiver
	rtReflectRecv         // Reflect.get/set with explicit receiver
	rtGo                  // Go API: Object.Get/Set/Delete/Define*Property/SetPrototype
	rtPIE                 // propertyIsEnumerable (has-family)
)

var routeNames = []string{"syntax", "syntax-strict", "static", "static-strict", "Object", "Object2", "Reflect", "Reflect+recv", "GoAPI", "propertyIsEnumerable"}

// object roles
const (
	obO = iota
	obChild
	obParent
	obGrand
	obPrim // the primitive 1 (only as receiver)
	obNull // only as prototype argument
	obNone
)

var roleNames = []string{"o", "child", "parent", "grand", "1", "null", ""}

// Op is one element of the alphabet. All fields index fixed pools so that a replay file is self-contained.
type Op struct {
	T  opType `json:"t"`
	Rt uint8  `json:"rt"`
	K  int    `json:"k"`  // index into keys (spelling)
	V  int    `json:"v"`  // index into vals
	D  int    `json:"d"`  // index into descs
	Tg uint8  `json:"tg"` // target role
	Rc uint8  `json:"rc"` // receiver role / prototype argument role
	J  int    `json:"j"`  // opForIn: loop step of the mutation; opAssign: variant
	M  *Op    `json:"m,omitempty"`
}

func (op Op) String() string {
	tg := roleNames[op.Tg]
	k := ""
	if op.K >= 0 && op.K < len(keys) {
		k = keys[op.K].Name
	}
	switch op.T {
	case opDefine:
		return fmt.Sprintf("define[%s](%s, %s, %s)", routeNames[op.Rt], tg, k, descs[op.D].JS())
	case opGet:
		if op.Rt == rtReflectRecv {
			return fmt.Sprintf("Reflect.get(%s, %s, %s)", tg, k, roleNames[op.Rc])
		}
		return fmt.Sprintf("get[%s](%s, %s)", routeNames[op.Rt], tg, k)
	case opSet:
		if op.Rt == rtReflectRecv {
			return fmt.Sprintf("Reflect.set(%s, %s, %s, %s)", tg, k, vals[op.V].JS, roleNames[op.Rc])
		}
		return fmt.Sprintf("set[%s](%s, %s, %s)", routeNames[op.Rt], tg, k, vals[op.V].JS)
	case opDelete:
		return fmt.Sprintf("delete[%s](%s, %s)", routeNames[op.Rt], tg, k)
	case opHas:
		return fmt.Sprintf("has[%s](%s, %s)", routeNames[op.Rt], tg, k)
	case opGOPD:
		return fmt.Sprintf("getOwnPropertyDescriptor[%s](%s, %s)", routeNames[op.Rt], tg, k)
	case opPreventExt, opFreeze, opSeal:
		return fmt.Sprintf("%s[%s](%s)", opTypeNames[op.T], routeNames[op.Rt], tg)
	case opSetProto:
		return fmt.Sprintf("setPrototypeOf[%s](%s, %s)", routeNames[op.Rt], tg, roleNames[op.Rc])
	case opSetFormal:
		return fmt.Sprintf("p = %s", vals[op.V].JS)
	case opForIn:
		return fmt.Sprintf("for (k in %s) { at step %d: %s }", tg, op.J, op.M.String())
	case opAssign:
		how, what := "Object.assign({}, o)", "adds"
		if op.J&1 != 0 {
			how = "{...o}"
		}
		if op.J&2 != 0 {
			what = "deletes"
		}
		return fmt.Sprintf("%s while a getter under %s %s %s", how, k, what, keys[op.V].Name)
	case opKeys:
		return fmt.Sprintf("Object.keys(%s)", tg)
	case opObserve:
		return fmt.Sprintf("observe(%s)", tg)
	}
	return "?"
}

func pathString(p []Op) string {
	s := make([]string, len(p))
	for i, o := range p {
		s[i] = o.String()
	}
	return strings.Join(s, "; ")
}
