package c04

import (
	"fmt"
	"strings"
	"testing"
)

func TestSizes(t *testing.T) {
	for _, th := range []bool{false, true} {
		scs := buildScenarios(th)
		by := map[string][2]int{}
		for _, sc := range scs {
			p := strings.SplitN(sc.Name, "/", 2)[0]
			v := by[p]
			v[0]++
			v[1] += len(sc.Ops)
			by[p] = v
		}
		fmt.Println("thorough:", th, "scenarios:", len(scs), by)
	}
}
