package c04

import (
	"testing"
	"time"
)

func TestBench(t *testing.T) {
	t0 := time.Now()
	h := newHarness()
	t.Log("newHarness", time.Since(t0))
	sc := buildScenarios(false)[0]
	t.Log(sc.Name, len(sc.Ops))
	t0 = time.Now()
	n := 0
	for i := 0; i < 3; i++ {
		for _, op := range sc.Ops {
			transition(h, sc, nil, op, "")
			n++
		}
	}
	t.Log("per transition", time.Since(t0)/time.Duration(n))
	t0 = time.Now()
	for i := 0; i < 1000; i++ {
		h.newWorld(sc.Kind, sc.Variant, sc.ChainKeys)
	}
	t.Log("newWorld", time.Since(t0)/1000)
	w := h.newWorld(sc.Kind, sc.Variant, sc.ChainKeys)
	t0 = time.Now()
	for i := 0; i < 1000; i++ {
		w.dump()
	}
	t.Log("dump", time.Since(t0)/1000)
	t0 = time.Now()
	for i := 0; i < 1000; i++ {
		realDump(w)
	}
	t.Log("realDump", time.Since(t0)/1000)
	m := newModelWorld(kindSpecs[sc.Kind], sc.Variant, sc.ChainKeys)
	t0 = time.Now()
	for i := 0; i < 1000; i++ {
		modelDump(m)
	}
	t.Log("modelDump", time.Since(t0)/1000)
}
