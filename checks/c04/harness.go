package c04

import (
	"fmt"
	"strings"

	"github.com/dop251/goja"
)

var harnessPrg = goja.MustCompile("c04-harness.js", harnessJS, false)

// harness is one goja runtime with the JS side of the check loaded. Not goroutine-safe; one per worker.
type harness struct {
	rt      *goja.Runtime
	H       *goja.Object
	fn      map[string]goja.Callable
	stat    map[int]map[string]goja.Callable
	keyVals []goja.Value
	valVals []goja.Value
	descs   []goja.Value
	mk      goja.Callable
	dumpFn  goja.Callable
	nm      goja.Callable
	errName goja.Callable
	syms    map[string]*goja.Symbol
	one     goja.Value
	worlds  int
	dirty   bool // a built-in object of this runtime was modified by a (buggy) operation: do not reuse
}

// checkPristine marks the harness dirty when a built-in prototype or the global object gained or lost keys.
func (h *harness) checkPristine() bool {
	if !must(h.fn2("pristine")(nil)).ToBoolean() {
		h.dirty = true
	}
	return !h.dirty
}

func must(v goja.Value, err error) goja.Value {
	if err != nil {
		panic(err)
	}
	return v
}

func newHarness() *harness {
	h := &harness{rt: goja.New(), fn: map[string]goja.Callable{}, stat: map[int]map[string]goja.Callable{}, syms: map[string]*goja.Symbol{}}
	must(h.rt.RunProgram(harnessPrg))
	h.H = h.rt.Get("H").ToObject(h.rt)
	// pools: generated source, evaluated once
	var sb strings.Builder
	sb.WriteString("H.vals=[")
	for _, v := range vals {
		sb.WriteString(v.JS + ",")
	}
	sb.WriteString("];H.keys=[")
	for _, k := range keys {
		sb.WriteString(k.JS + ",")
	}
	sb.WriteString("];H.descs=[];H.errName=function(e){try{return Object.getPrototypeOf(e)===TypeError.prototype?'TypeError':Object.getPrototypeOf(e)===RangeError.prototype?'RangeError':String(e)}catch(x){return 'value'}};")
	must(h.rt.RunString(sb.String()))
	arr := func(name string, n int) []goja.Value {
		a := h.H.Get(name).ToObject(h.rt)
		res := make([]goja.Value, n)
		for i := range res {
			res[i] = a.Get(fmt.Sprint(i))
		}
		return res
	}
	h.valVals = arr("vals", len(vals))
	h.keyVals = arr("keys", len(keys))
	h.descs = make([]goja.Value, len(descs))
	ops := h.H.Get("op").ToObject(h.rt)
	for _, n := range ops.Keys() {
		f, ok := goja.AssertFunction(ops.Get(n))
		if !ok {
			panic("not a function: " + n)
		}
		h.fn[n] = f
	}
	get := func(n string) goja.Callable {
		f, ok := goja.AssertFunction(h.H.Get(n))
		if !ok {
			panic("not a function: " + n)
		}
		return f
	}
	h.mk, h.dumpFn, h.nm, h.errName = get("mk"), get("dump"), get("nm"), get("errName")
	statFn := get("stat")
	for i, k := range keys {
		if k.Ident {
			so := must(statFn(nil, h.rt.ToValue(k.Str))).ToObject(h.rt)
			m := map[string]goja.Callable{}
			for _, n := range so.Keys() {
				m[n], _ = goja.AssertFunction(so.Get(n))
			}
			h.stat[i] = m
		}
		if k.Kind == spSym {
			h.syms[k.Sym] = h.keyVals[i].(*goja.Symbol)
		}
	}
	h.one = h.rt.ToValue(1)
	h.checkPristine() // baseline
	return h
}

// world is one JS world (fresh objects) on a harness runtime.
type world struct {
	h    *harness
	w    goja.Value
	role [4]*goja.Object
}

func (h *harness) newWorld(kind, variant string, chainKeys []int) *world {
	h.worlds++
	ks := make([]interface{}, len(chainKeys))
	for i, k := range chainKeys {
		ks[i] = h.keyVals[k]
	}
	args := []goja.Value{h.rt.ToValue(kind), h.rt.ToValue(variant), h.rt.ToValue(ks)}
	if hk := hostKinds[kind]; hk != nil {
		args = append(args, hk.Build(h.rt), h.rt.ToValue(hk.Unordered))
	}
	wv := must(h.mk(nil, args...))
	wo := wv.ToObject(h.rt)
	w := &world{h: h, w: wv}
	for i, n := range []string{"o", "child", "parent", "grand"} {
		w.role[i] = wo.Get(n).ToObject(h.rt)
	}
	return w
}

// desc returns the JS descriptor object number i (created on first use; the engine only reads it).
func (h *harness) desc(i int) goja.Value {
	if h.descs[i] == nil {
		h.descs[i] = must(h.rt.RunString("(" + descs[i].JS() + ")"))
	}
	return h.descs[i]
}

func (w *world) roleValue(r uint8) goja.Value {
	switch r {
	case obPrim:
		return w.h.one
	case obNull:
		return goja.Null()
	}
	return w.role[r]
}

func (w *world) dump() string {
	return must(w.h.dumpFn(nil, w.w)).String()
}

func (w *world) call(name string, args ...goja.Value) string {
	f := w.h.fn[name]
	if f == nil {
		panic("no JS op " + name)
	}
	return must(f(nil, args...)).String()
}

func (w *world) callStat(k int, name string, args ...goja.Value) string {
	f := w.h.stat[k][name]
	if f == nil {
		panic("no static op " + name + " for " + keys[k].Name)
	}
	return must(f(nil, args...)).String()
}

func flagOf(f uint8) goja.Flag {
	switch f {
	case flTrue:
		return goja.FLAG_TRUE
	case flFalse:
		return goja.FLAG_FALSE
	}
	return goja.FLAG_NOT_SET
}

// goResult renders the outcome of a Go API call: nil error -> ok, *goja.Exception -> throw:<class>.
func (w *world) goResult(err error) string {
	res := "ok"
	if err != nil {
		if ex, ok := err.(*goja.Exception); ok {
			res = "throw:" + must(w.h.errName(nil, ex.Value())).String()
		} else {
			res = "goerror:" + err.Error()
		}
	}
	return w.withLog(res)
}

func (w *world) withLog(res string) string {
	if l := must(w.h.fn2("takeLog")(nil)).String(); l != "" {
		res += " log[" + l + "]"
	}
	return res
}

func (h *harness) fn2(name string) goja.Callable {
	if f, ok := h.fn["H."+name]; ok {
		return f
	}
	f, ok := goja.AssertFunction(h.H.Get(name))
	if !ok {
		panic("no H." + name)
	}
	h.fn["H."+name] = f
	return f
}

func (w *world) fnValue(which uint8, getter bool) goja.Value {
	switch which {
	case fnAbsent:
		return nil
	case fnUndef:
		return goja.Undefined()
	case fnA:
		if getter {
			return w.h.H.Get("f")
		}
		return w.h.H.Get("sf")
	}
	if getter {
		return w.h.H.Get("g")
	}
	return w.h.H.Get("sg")
}

// exec runs one operation on the real objects through the route the op names. A Go panic escaping from the
// engine (a host crash, not a JavaScript exception) is rendered as a result and poisons the runtime.
func (w *world) exec(op Op) (res string) {
	defer func() {
		if x := recover(); x != nil {
			if s, ok := x.(string); ok && (strings.HasPrefix(s, "real: unsupported") || strings.HasPrefix(s, "no ")) {
				panic(x) // a bug of the check itself
			}
			w.h.dirty = true
			msg := fmt.Sprint(x)
			if len(msg) > 60 {
				msg = msg[:60]
			}
			res = "gopanic:" + msg
		}
	}()
	return w.exec1(op)
}

func (w *world) exec1(op Op) (res string) {
	h := w.h
	var t *goja.Object
	if op.Tg <= obGrand {
		t = w.role[op.Tg]
	}
	var kv goja.Value
	if op.K >= 0 && op.K < len(keys) {
		kv = h.keyVals[op.K]
	}
	switch op.T {
	case opDefine:
		switch op.Rt {
		case rtObject:
			return w.call("defO", t, kv, h.desc(op.D))
		case rtObject2:
			return w.call("defPs", t, kv, h.desc(op.D))
		case rtReflect:
			return w.call("defR", t, kv, h.desc(op.D))
		case rtGo:
			d := descs[op.D]
			k := keys[op.K]
			var err error
			if d.Accessor() {
				if k.Kind == spSym {
					err = t.DefineAccessorPropertySymbol(h.syms[k.Sym], w.fnValue(d.Get, true), w.fnValue(d.Set, false), flagOf(d.C), flagOf(d.E))
				} else {
					err = t.DefineAccessorProperty(k.Str, w.fnValue(d.Get, true), w.fnValue(d.Set, false), flagOf(d.C), flagOf(d.E))
				}
			} else {
				var v goja.Value
				if d.Val >= 0 {
					v = h.valVals[d.Val]
				}
				if k.Kind == spSym {
					err = t.DefineDataPropertySymbol(h.syms[k.Sym], v, flagOf(d.W), flagOf(d.C), flagOf(d.E))
				} else {
					err = t.DefineDataProperty(k.Str, v, flagOf(d.W), flagOf(d.C), flagOf(d.E))
				}
			}
			return w.goResult(err)
		}
	case opGet:
		switch op.Rt {
		case rtSyntax:
			return w.call("get", t, kv)
		case rtStatic:
			return w.callStat(op.K, "get", t)
		case rtReflect:
			return w.call("getR0", t, kv)
		case rtReflectRecv:
			return w.call("getR", t, kv, w.roleValue(op.Rc))
		case rtGo:
			k := keys[op.K]
			var v goja.Value
			ex := h.rt.Try(func() {
				if k.Kind == spSym {
					v = t.GetSymbol(h.syms[k.Sym])
				} else {
					v = t.Get(k.Str)
				}
			})
			if ex != nil {
				return w.goResult(ex)
			}
			if v == nil {
				return w.withLog("undefined") // the documented Go-API spelling of "no such property"
			}
			return w.withLog(must(h.nm(nil, v)).String())
		}
	case opSet:
		v := h.valVals[op.V]
		switch op.Rt {
		case rtSyntax:
			return w.call("setS", t, kv, v)
		case rtSyntaxStrict:
			return w.call("setT", t, kv, v)
		case rtStatic:
			return w.callStat(op.K, "setS", t, v)
		case rtStaticStrict:
			return w.callStat(op.K, "setT", t, v)
		case rtReflect:
			return w.call("setR0", t, kv, v)
		case rtReflectRecv:
			return w.call("setR", t, kv, v, w.roleValue(op.Rc))
		case rtGo:
			k := keys[op.K]
			if k.Kind == spSym {
				return w.goResult(t.SetSymbol(h.syms[k.Sym], v))
			}
			return w.goResult(t.Set(k.Str, v))
		}
	case opDelete:
		switch op.Rt {
		case rtSyntax:
			return w.call("delS", t, kv)
		case rtSyntaxStrict:
			return w.call("delT", t, kv)
		case rtStatic:
			return w.callStat(op.K, "delS", t)
		case rtStaticStrict:
			return w.callStat(op.K, "delT", t)
		case rtReflect:
			return w.call("delR", t, kv)
		case rtGo:
			k := keys[op.K]
			if k.Kind == spSym {
				return w.goResult(t.DeleteSymbol(h.syms[k.Sym]))
			}
			return w.goResult(t.Delete(k.Str))
		}
	case opHas:
		switch op.Rt {
		case rtSyntax:
			return w.call("hasIn", t, kv)
		case rtReflect:
			return w.call("hasR", t, kv)
		case rtObject:
			return w.call("hasOP", t, kv)
		case rtObject2:
			return w.call("hasOwn", t, kv)
		case rtPIE:
			return w.call("pie", t, kv)
		}
	case opGOPD:
		switch op.Rt {
		case rtObject:
			return w.call("gopd", t, kv)
		case rtReflect:
			return w.call("gopdR", t, kv)
		}
	case opPreventExt:
		switch op.Rt {
		case rtObject:
			return w.call("peO", t)
		case rtReflect:
			return w.call("peR", t)
		}
	case opFreeze:
		return w.call("freeze", t)
	case opSeal:
		return w.call("seal", t)
	case opSetProto:
		p := w.roleValue(op.Rc)
		switch op.Rt {
		case rtObject:
			return w.call("spO", t, p)
		case rtObject2:
			return w.call("spP", t, p)
		case rtReflect:
			return w.call("spR", t, p)
		case rtGo:
			var po *goja.Object
			if op.Rc != obNull {
				po = w.role[op.Rc]
			}
			return w.goResult(t.SetPrototype(po))
		}
	case opSetFormal:
		return w.call("setP", w.w, h.valVals[op.V])
	case opKeys:
		return w.call("keysO", t)
	case opForIn:
		m := op.M
		mut := "mutSet"
		if m.T == opDelete {
			mut = "mutDel"
		}
		return w.call("forin", t, h.rt.ToValue(op.J), h.H.Get("op").ToObject(h.rt).Get(mut), h.keyVals[m.K], h.valVals[m.V])
	case opAssign:
		return w.call("copy", t, h.rt.ToValue(op.J&1 != 0), kv, h.rt.ToValue(op.J&2 != 0), h.keyVals[op.V])
	case opObserve:
		res := w.call("observe", t)
		names, enum, syms, proto := w.goDump(t)
		return res + " go{N" + names + " E" + enum + " S" + syms + " p" + proto + "}"
	}
	panic(fmt.Sprintf("real: unsupported op %+v", op))
}

// goDump is the Go-API part of the observation battery for one object: Keys(), GetOwnPropertyNames(),
// Symbols() and Prototype(), rendered like the N/E/S lists of H.dump.
func (w *world) goDump(o *goja.Object) (names, enum, syms, proto string) {
	h := w.h
	ex := h.rt.Try(func() {
		names = "[" + strings.Join(o.GetOwnPropertyNames(), ",") + "]"
		enum = "[" + strings.Join(o.Keys(), ",") + "]"
		var ss []string
		for _, s := range o.Symbols() {
			ss = append(ss, must(h.nm(nil, s)).String())
		}
		syms = "[" + strings.Join(ss, ",") + "]"
		if p := o.Prototype(); p != nil {
			proto = must(h.nm(nil, p)).String()
		} else {
			proto = "null"
		}
	})
	if ex != nil {
		names = "exception:" + ex.Error()
	}
	return
}
