package c04

import (
	"testing"
	"time"
)

func TestBench2(t *testing.T) {
	h := newHarness()
	run := func(name, src string) {
		t0 := time.Now()
		_, err := h.rt.RunString("for (var i=0;i<2000;i++){" + src + "}")
		if err != nil {
			t.Fatal(err)
		}
		t.Log(name, time.Since(t0)/2000)
	}
	run("empty", "")
	run("mk", "H.mk('plain','chain',[0])")
	run("mapcopy", "new Map([[1,2],[3,4],[5,6],[7,8],[9,10],[11,12],[13,14],[15,16],[17,18]])")
	run("objcreate", "Object.create(Object.create(null))")
	run("split", "'chain+a:b'.split('+')")
	h.rt.RunString("var w = H.mk('plain','chain',[0]); w.o.a=1; w.o.b=2")
	run("dump", "H.dump(w)")
	run("dumpObj", "H.dumpObj('o', w.o)")
	run("ownKeys", "Reflect.ownKeys(w.o)")
	run("gopd", "Object.getOwnPropertyDescriptor(w.o,'a')")
	run("gopds", "Object.getOwnPropertyDescriptors(w.o)")
	run("entries", "Object.entries(w.o)")
	run("forin", "for (var k in w.o);")
	run("isFrozen", "Object.isFrozen(w.o)")
	run("nm", "H.nm(w.o)")
}
