package c04

import (
	"strings"

	om "verif/ref/objmodel"
)

// objState is one object line of a dump, parsed.
type objState struct {
	Name  string
	Ext   bool
	Proto string
	Keys  []string
	Props map[string]string
	Bang  bool // the battery itself flagged a route disagreement ("!...")
	Unord bool // key order is documented to be unstable for this object (Go map): lists are rendered sorted
}

func parseDump(d string) []objState {
	var res []objState
	for _, line := range strings.Split(d, "\n") {
		i := strings.IndexByte(line, '{')
		if i < 0 || !strings.HasSuffix(line, "}") {
			continue
		}
		st := objState{Name: line[:i], Props: map[string]string{}, Bang: strings.Contains(line, "!")}
		if st.Name == "aux" {
			continue
		}
		for _, tok := range strings.Split(line[i+1:len(line)-1], " ") {
			switch {
			case tok == "":
			case tok == "u1":
				st.Unord = true
			case tok[0] == 'x' && len(tok) == 2 && st.Keys == nil && st.Proto == "":
				st.Ext = tok[1] == '1'
			case tok[0] == 'p' && st.Proto == "" && (strings.HasPrefix(tok, "p#") || strings.HasPrefix(tok, "pnull")):
				st.Proto, _, _ = strings.Cut(tok[1:], ",")
			case strings.HasPrefix(tok, "K[") && st.Keys == nil:
				st.Keys = []string{}
				if body := tok[2 : len(tok)-1]; body != "" {
					st.Keys = strings.Split(body, ",")
				}
			default:
				if k, v, ok := strings.Cut(tok, "="); ok && st.Keys != nil {
					if b := strings.IndexByte(v, '!'); b >= 0 {
						v = v[:b]
					}
					st.Props[k] = v
				}
			}
		}
		res = append(res, st)
	}
	return res
}

type propState struct {
	acc     bool
	a, b    string // value / get, set
	w, e, c bool
	ok      bool
}

func parseProp(s string) propState {
	var p propState
	if len(s) < 6 || s[1] != '(' || s[len(s)-1] != ')' {
		return p
	}
	body := s[2 : len(s)-1]
	j := strings.LastIndexByte(body, ',')
	if j < 0 {
		return p
	}
	flags := body[j+1:]
	body = body[:j]
	switch s[0] {
	case 'd':
		if len(flags) != 3 {
			return p
		}
		p.a, p.w, p.e, p.c, p.ok = body, flags[0] == '1', flags[1] == '1', flags[2] == '1', true
	case 'a':
		if len(flags) != 2 {
			return p
		}
		p.acc = true
		p.a, p.b, _ = strings.Cut(body, ",")
		p.e, p.c, p.ok = flags[0] == '1', flags[1] == '1', true
	}
	return p
}

func keyRank(k string) (int, uint32) {
	if strings.HasPrefix(k, "@") {
		return 2, 0
	}
	if i, ok := om.StrKey(k).ArrayIndex(); ok {
		return 0, i
	}
	return 1, 0
}

// monitor checks the essential invariants (ECMA-262 §6.1.7.3) on a transition old -> new of the real objects,
// independently of any model. It returns short anomaly descriptions (empty = fine).
func monitor(oldD, newD string) []string {
	var res []string
	olds, news := parseDump(oldD), parseDump(newD)
	oldBy := map[string]objState{}
	for _, o := range olds {
		oldBy[o.Name] = o
	}
	for _, n := range news {
		// own keys: unique, ordered (indices ascending, then strings, then symbols), consistent with descriptors
		seen := map[string]bool{}
		lastRank, lastIdx := -1, uint32(0)
		for _, k := range n.Keys {
			if seen[k] {
				res = append(res, n.Name+": duplicate own key "+k)
			}
			seen[k] = true
			rk, idx := keyRank(k)
			if !n.Unord && (rk < lastRank || (rk == 0 && lastRank == 0 && idx <= lastIdx)) {
				res = append(res, n.Name+": own keys out of order")
			}
			lastRank, lastIdx = rk, idx
			if d, ok := n.Props[k]; !ok || !parseProp(d).ok {
				res = append(res, n.Name+": own key "+k+" without descriptor")
			}
		}
		if n.Bang {
			res = append(res, n.Name+": reflection routes disagree")
		}
		o, ok := oldBy[n.Name]
		if !ok {
			continue
		}
		if !o.Ext {
			if n.Ext {
				res = append(res, n.Name+": non-extensible object became extensible")
			}
			if n.Proto != o.Proto {
				res = append(res, n.Name+": prototype of non-extensible object changed")
			}
			was := map[string]bool{}
			for _, k := range o.Keys {
				was[k] = true
			}
			for _, k := range n.Keys {
				if !was[k] {
					res = append(res, n.Name+": non-extensible object gained key")
				}
			}
		}
		for _, k := range o.Keys {
			op := parseProp(o.Props[k])
			if !op.ok || op.c {
				continue
			}
			nd, exists := n.Props[k]
			if !exists {
				res = append(res, n.Name+": non-configurable property deleted")
				continue
			}
			np := parseProp(nd)
			switch {
			case !np.ok:
			case np.c:
				res = append(res, n.Name+": non-configurable property became configurable")
			case np.acc != op.acc:
				res = append(res, n.Name+": non-configurable property changed kind")
			case np.e != op.e:
				res = append(res, n.Name+": non-configurable property changed enumerability")
			case op.acc && (np.a != op.a || np.b != op.b):
				res = append(res, n.Name+": non-configurable accessor changed get/set")
			case !op.acc && !op.w && np.w:
				res = append(res, n.Name+": non-configurable non-writable property became writable")
			case !op.acc && !op.w && np.a != op.a:
				res = append(res, n.Name+": non-configurable non-writable property changed value")
			}
		}
	}
	return res
}
