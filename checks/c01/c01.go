// Package c01 decides C01 (no script can crash the host) by bounded-exhaustive enumeration of source texts:
// (a) all derivation trees of expression/statement grammars up to a node bound, (b) all single-token edits
// of a seed catalogue, (c) all strings up to a length over a lexer-hostile symbol alphabet, (d) nesting /
// size families up to the property's limits — each in several placements (global, function, eval, ...),
// strict and sloppy, on runtimes that are reused for a batch of cases so that leaked state is observed.
package c01

import (
	"encoding/json"
	"fmt"
	"os"
	"os/exec"
	"regexp"
	"runtime/debug"
	"strings"

	"verif/core"

	"github.com/dop251/goja"
)

func init() {
	core.Register(&core.Check{
		ID:    "C01",
		Level: "exploration",
		Rule: "bounded-exhaustive enumeration by rank: every derivation tree of grammars GW/GD/GS up to the reported node bound, every single-token edit of the seed catalogue, every string up to the reported length over the symbol alphabet, nesting families 1..200; each x placements x strict/sloppy. " +
			"A case is non-trivial when it got past parser and compiler and executed at least one VM instruction; cases are distinct by construction (distinct ranks x placement).",
		Run:    run,
		Replay: replay,
	})
}

const prelude = `var x=1, y=2.5, o={p:1,f:function(){return 1},get g(){return 2},set g(v){}}, a=[1,2,3], s="str", u, n=null, b=10n, sym=Symbol("q");
function f(){return 1} function F(){this.p=1} function* gen(){yield 1; yield 2} async function af(){return 1}
var K = class K{ #p=1; static s=1; m(){return this.#p} static has(o){return #p in o} }; var k=new K();`

// The prelude declares no global let/const/class on purpose: the global stash stays empty, so a reference compiled
// one scope level too deep indexes an empty stash and fails loudly instead of silently reading a neighbour.

var bugMarkers = []string{"Compiler bug", "BUG", "Runtime bug", "Internal bug", "unreachable", "Illegal stack var index", "Variadic marker", "runtime error", "interface conversion", "nil pointer", "index out of range", "slice bounds"}

type mode struct {
	name   string
	strict bool
	wrap   func(src string) (code string, viaVar bool)
}

func lit(src string) string { b, _ := json.Marshal(src); return string(b) }

var modes = func() []mode {
	base := []struct {
		name string
		w    func(string) (string, bool)
	}{
		{"global", func(s string) (string, bool) { return s, false }},
		{"func", func(s string) (string, bool) {
			return "(function(p,q){var lx=1;let ly=2;const lc=3;function lg(){return lx+ly+lc}\n" + s + "\n})(1,2)", false
		}},
		{"eval", func(s string) (string, bool) {
			return "(function(p,q){var lx=1;let ly=2;const lc=3;function lg(){return lx+ly+lc}; return eval(__src)})(1,2)", true
		}},
		{"ieval", func(s string) (string, bool) { return "(0,eval)(__src)", true }},
		{"newfunc", func(s string) (string, bool) { return "new Function('p','q',__src)(1,2)", true }},
		{"method", func(s string) (string, bool) {
			return "(new (class extends K{ #z=1; constructor(){super()} m(p,q){var lx=1;let ly=2;const lc=3;\n" + s + "\n} }))().m(1,2)", false
		}},
		{"generator", func(s string) (string, bool) {
			return "[...(function*(p,q){var lx=1;let ly=2;const lc=3;\n" + s + "\n})(1,2)]", false
		}},
		{"async", func(s string) (string, bool) {
			return "(async function(p,q){var lx=1;let ly=2;const lc=3;\n" + s + "\n})(1,2)", false
		}},
		{"arrow", func(s string) (string, bool) {
			return "(function(){return ((p,q)=>{var lx=1;let ly=2;\n" + s + "\n})(1,2)}).call(o)", false
		}},
	}
	var res []mode
	for _, b := range base {
		res = append(res, mode{b.name, false, b.w})
		w := b.w
		res = append(res, mode{b.name + "/strict", true, func(s string) (string, bool) {
			c, v := w(s)
			return "'use strict';\n" + c, v
		}})
	}
	return res
}()

type Case struct {
	Src    string   `json:"src"`
	Mode   string   `json:"mode"`
	Before []string `json:"before,omitempty"` // earlier programs run on the same runtime (same mode), if needed to reproduce
	Family string   `json:"family,omitempty"`
}

type failure struct{ sig, what string }

// rt is one reusable runtime with its idle baseline.
type rt struct {
	r     *goja.Runtime
	idle  goja.VerifIdleState
	steps int
	used  int
	hist  []string
}

const stepBudget = 20000

func newRT() *rt {
	t := &rt{r: goja.New()}
	t.r.SetMaxCallStackSize(200)
	goja.VerifSetStepHook(t.r, func(r *goja.Runtime) {
		t.steps++
		if t.steps == stepBudget {
			r.Interrupt("budget")
		}
	})
	if _, err := t.r.RunString(prelude); err != nil {
		panic("prelude: " + err.Error())
	}
	t.idle = goja.VerifIdle(t.r)
	t.idle.PC = 0
	return t
}

var reHex = regexp.MustCompile(`0x[0-9a-f]+|\b[0-9]+\b`)

func normalize(s string) string {
	s = reHex.ReplaceAllString(s, "N")
	if len(s) > 160 {
		s = s[:160]
	}
	return s
}

// exec runs one source text in one mode on t and evaluates the oracle. It returns the outcome class and
// whether the runtime may be reused.
func (t *rt) exec(src string, m *mode) (fails []failure, outcome string, nontrivial, reusable bool) {
	code, viaVar := m.wrap(src)
	reusable = true
	t.steps = 0
	add := func(sig, what string) { fails = append(fails, failure{sig, what}) }
	checkErrText := func(stage string, err error) {
		if err == nil {
			return
		}
		msg, perr := safeErrorText(err)
		if perr != nil {
			add("panic|error.Error()|"+normalize(fmt.Sprint(perr)), fmt.Sprintf("calling Error() on the error returned by %s panics in the host: %v", stage, perr))
			return
		}
		for _, mk := range bugMarkers {
			if strings.Contains(msg, mk) && !strings.Contains(src, mk) {
				add("diag|"+stage+"|"+mk+"|"+normalize(firstLine(msg)), stage+" reported an internal diagnostic: "+firstLine(msg))
				break
			}
		}
	}
	guard := func(stage string, fn func()) (panicked bool) {
		defer func() {
			if x := recover(); x != nil {
				panicked = true
				reusable = false
				site := panicSite()
				add("panic|"+stage+"|"+site+"|"+normalize(fmt.Sprint(x)), fmt.Sprintf("Go panic escaped from %s at %s: %v", stage, site, x))
			}
		}()
		fn()
		return
	}
	// 1. Parse and Compile of the raw text (host API)
	guard("Parse", func() {
		_, err := goja.Parse("case.js", src)
		checkErrText("Parse", err)
	})
	guard("Compile", func() {
		_, err := goja.Compile("case.js", src, m.strict)
		checkErrText("Compile", err)
	})
	// 2. run in placement
	if viaVar {
		t.r.Set("__src", src)
	}
	var prg *goja.Program
	var err error
	if guard("Compile", func() { prg, err = goja.Compile("case.js", code, false) }) {
		return
	}
	if err != nil {
		checkErrText("Compile", err)
		if _, ok := err.(*goja.CompilerSyntaxError); !ok {
			if _, ok := err.(*goja.CompilerReferenceError); !ok {
				add("errkind|Compile|"+fmt.Sprintf("%T", err), fmt.Sprintf("Compile returned an undocumented error kind %T: %v", err, err))
			}
		}
		return fails, "syntax", false, true
	}
	var v goja.Value
	if guard("RunProgram", func() { v, err = t.r.RunProgram(prg) }) {
		return
	}
	nontrivial = t.steps > 0
	switch e := err.(type) {
	case nil:
		if v == nil {
			add("nilresult", "RunProgram returned (nil, nil)")
			outcome = "nil"
		} else {
			outcome = "ok:" + goja.VerifRepr(v)
		}
	case *goja.Exception:
		checkErrText("RunProgram", err)
		outcome = "exc:" + excClass(e)
	case *goja.InterruptedError:
		// step budget exhausted: the runtime is discarded (reusability after interrupts is C03/C15's subject)
		return fails, "interrupt", nontrivial, false
	case *goja.StackOverflowError:
		return fails, "stackoverflow", nontrivial, false
	case *goja.CompilerSyntaxError, *goja.CompilerReferenceError:
		checkErrText("RunProgram", err)
		outcome = "syntax-late"
	default:
		add("errkind|RunProgram|"+fmt.Sprintf("%T", err), fmt.Sprintf("RunProgram returned an undocumented error kind %T: %v", err, err))
		outcome = "other"
	}
	// 3. white-box: operand stack and auxiliary stacks back to idle
	if st := goja.VerifIdle(t.r); func() bool { st.PC = 0; return st != t.idle }() {
		add("idle|"+idleDiff(t.idle, st)+"|"+constructClass(src), fmt.Sprintf("runtime not idle after return: %+v (idle: %+v)", st, t.idle))
		reusable = false
	}
	return
}

// panicSite names the innermost goja function on the stack of the panic being recovered.
func panicSite() string {
	lines := strings.Split(string(debug.Stack()), "\n")
	last := -1
	for i, l := range lines {
		if strings.HasPrefix(l, "panic(") {
			last = i
		}
	}
	for i, l := range lines {
		if i > last && last >= 0 && strings.HasPrefix(l, "github.com/dop251/goja") {
			if i := strings.LastIndexByte(l, '('); i > 0 {
				l = l[:i]
			}
			return strings.TrimPrefix(l, "github.com/dop251/goja")
		}
	}
	return "?"
}

func safeErrorText(err error) (msg string, perr interface{}) {
	defer func() { perr = recover() }()
	return err.Error(), nil
}

// constructClass names the syntax classes present in a source text whose code generation manipulates the operand
// stack in special ways; it makes the signature of a stack-leak finding specific to a construct combination.
func constructClass(src string) string {
	var cs []string
	for _, c := range []struct{ tok, name string }{{"?.", "optchain"}, {"&&", "and"}, {"||", "or"}, {"??", "nullish"}, {"...", "spread"}, {"yield", "yield"}, {"await", "await"},
		{"super", "super"}, {"`", "template"}, {"#", "private"}, {"new", "new"}, {"=>", "arrow"}, {"class", "class"}, {"try", "try"}, {"for", "for"}, {"switch", "switch"}, {"with", "with"}, {"delete", "delete"}, {",", "comma"}, {"?", "cond"}} {
		if strings.Contains(src, c.tok) {
			cs = append(cs, c.name)
		}
	}
	if len(cs) > 6 {
		cs = cs[:6]
	}
	return strings.Join(cs, "+")
}

func idleDiff(a, b goja.VerifIdleState) string {
	var d []string
	f := func(n string, x, y interface{}) {
		if x != y {
			d = append(d, n)
		}
	}
	f("sp", a.SP, b.SP)
	f("sb", a.SB, b.SB)
	f("args", a.Args, b.Args)
	f("prg", a.PrgNil, b.PrgNil)
	f("callStack", a.CallStack, b.CallStack)
	f("tryStack", a.TryStack, b.TryStack)
	f("iterStack", a.IterStack, b.IterStack)
	f("refStack", a.RefStack, b.RefStack)
	f("stash", a.StashGlobal, b.StashGlobal)
	f("privEnv", a.PrivEnvNil, b.PrivEnvNil)
	f("jobs", a.Jobs, b.Jobs)
	f("interrupted", a.Interrupted, b.Interrupted)
	f("toStringStack", a.ToStringStack, b.ToStringStack)
	f("asyncRunner", a.AsyncRunnerNil, b.AsyncRunnerNil)
	return strings.Join(d, ",")
}

func excClass(e *goja.Exception) string {
	if o, ok := e.Value().(*goja.Object); ok {
		return o.ClassName()
	}
	return goja.VerifRepr(e.Value())
}

func firstLine(s string) string {
	if i := strings.IndexByte(s, '\n'); i >= 0 {
		return s[:i]
	}
	return s
}

// grown reports whether the globals of the prelude have been blown up by the cases run so far.
func (t *rt) grown() (big bool) {
	defer func() {
		if recover() != nil {
			big = true
		}
	}()
	for _, n := range []string{"x", "s", "y", "u", "a", "o"} {
		v := t.r.Get(n)
		if v == nil {
			continue
		}
		if st, ok := v.(goja.String); ok && st.Length() > 1<<12 {
			return true
		}
		if ob, ok := v.(*goja.Object); ok {
			if ob.ClassName() == "Array" {
				if l := ob.Get("length"); l != nil && l.ToInteger() > 1<<12 {
					return true
				}
			}
			// string-valued data properties / elements of the prelude objects (o.p, a[0..2]) can be doubled too
			for _, k := range []string{"p", "0", "1", "2"} {
				if pv := ob.Get(k); pv != nil {
					if st, ok := pv.(goja.String); ok && st.Length() > 1<<12 {
						return true
					}
				}
			}
		}
	}
	return false
}

// behavioural probe: a leaked operand-stack slot or scope is visible to the next program.
const probeSrc = `(function(){ try { throw 7 } catch (e) { let z = e; var w = [z, typeof x, (function(){ return arguments.length })(1,2)]; return w.join() } })()`

var probePrg = goja.MustCompile("probe.js", probeSrc, false)

func (t *rt) probe() *failure {
	var res string
	var perr interface{}
	func() {
		defer func() { perr = recover() }()
		v, err := t.r.RunProgram(probePrg)
		if err != nil {
			res = "error: " + err.Error()
		} else {
			res = v.String()
		}
	}()
	if perr != nil {
		return &failure{"probe|panic", fmt.Sprintf("probe program panicked after the case: %v", perr)}
	}
	// typeof x may have been changed by the case; everything else is fixed
	if !strings.HasPrefix(res, "7,") || !strings.HasSuffix(res, ",2") {
		return &failure{"probe|result", "probe program misbehaves after the case: " + res}
	}
	return nil
}

// worker runs cases in batches on reused runtimes.
type worker struct {
	run   *core.Run
	rts   []*rt // one per mode
	batch int
}

func newWorker(r *core.Run) *worker { return &worker{run: r, rts: make([]*rt, len(modes)), batch: 48} }

func (w *worker) do(src string, family string, modeSet []int) {
	for _, mi := range modeSet {
		m := &modes[mi]
		t := w.rts[mi]
		if t == nil || t.used >= w.batch {
			t = newRT()
			w.rts[mi] = t
		}
		w.run.TraceCase(Case{Src: src, Mode: m.name, Family: family})
		fails, outcome, nontrivial, reusable := t.exec(src, m)
		if reusable && len(fails) == 0 {
			if f := t.probe(); f != nil {
				fails = append(fails, *f)
				reusable = false
			}
		}
		w.run.Eval(1)
		if nontrivial {
			w.run.NontrivialN(1)
		}
		w.run.Outcome(m.name + "|" + outcome)
		if len(fails) > 0 {
			w.report(src, family, mi, t, fails)
		}
		if reusable && t.grown() {
			reusable = false // a batch of cases that keeps doubling a global would exhaust memory by itself
		}
		if reusable {
			t.used++
			if len(fails) == 0 {
				t.hist = append(t.hist, src)
			}
		} else {
			w.rts[mi] = nil
		}
	}
}

// report confirms the failure on a fresh runtime (5x, alone; otherwise with the batch history) before recording it.
func (w *worker) report(src, family string, mi int, t *rt, fails []failure) {
	m := &modes[mi]
	for _, f := range fails {
		c := Case{Src: src, Mode: m.name, Family: family}
		alone := 0
		for i := 0; i < 5; i++ {
			if hasSig(runCase(c), f.sig) {
				alone++
			}
		}
		if alone != 5 {
			c.Before = append([]string{}, t.hist...)
			with := 0
			for i := 0; i < 5; i++ {
				if hasSig(runCase(c), f.sig) {
					with++
				}
			}
			if with != 5 {
				w.run.Violation("nondeterministic|"+f.sig, fmt.Sprintf("failure did not reproduce deterministically (alone %d/5, with history %d/5): %s", alone, with, f.what), c)
				continue
			}
		}
		w.run.Violation(f.sig, f.what, c)
	}
}

func hasSig(fs []failure, sig string) bool {
	for _, f := range fs {
		if f.sig == sig {
			return true
		}
	}
	return false
}

// runCase executes one recorded case on a fresh runtime (used for confirmation and for --replay).
func runCase(c Case) []failure {
	var m *mode
	for i := range modes {
		if modes[i].name == c.Mode {
			m = &modes[i]
		}
	}
	if m == nil {
		return []failure{{"replay|badmode", "unknown mode " + c.Mode}}
	}
	t := newRT()
	for _, b := range c.Before {
		if _, _, _, reusable := t.exec(b, m); !reusable {
			return nil
		}
	}
	fails, _, _, reusable := t.exec(c.Src, m)
	if reusable && len(fails) == 0 {
		if f := t.probe(); f != nil {
			fails = append(fails, *f)
		}
	}
	return fails
}

func replay(r *core.Run, raw json.RawMessage) {
	var c Case
	if err := json.Unmarshal(raw, &c); err != nil {
		r.Violation("replay|bad", err.Error(), nil)
		return
	}
	r.Eval(1)
	if os.Getenv("C01_REPLAY_CHILD") == "" {
		// the case may kill the process: try it in a child first
		exe, _ := os.Executable()
		cmd := exec.Command("/bin/sh", "-c", "ulimit -v 8388608; exec \"$0\" \"$@\"", exe, "C01", "--replay", os.Getenv("VERIF_REPLAY_PATH"))
		cmd.Env = append(os.Environ(), "C01_REPLAY_CHILD=1", "GOTRACEBACK=single")
		out, err := cmd.CombinedOutput()
		if ee, ok := err.(*exec.ExitError); ok && ee.ExitCode() != 1 {
			r.Violation("fatal|"+core.FatalReason(string(out)), "the process executing this case died: "+core.FatalReason(string(out)), c)
			return
		}
	}
	for _, f := range runCase(c) {
		r.Violation(f.sig, f.what, c)
	}
}

func allModes() []int {
	res := make([]int, len(modes))
	for i := range res {
		res[i] = i
	}
	return res
}

func run(r *core.Run) {
	r.Assume("runtimes are configured with SetMaxCallStackSize(200); programs exceeding a 20000-instruction budget are interrupted and their runtime discarded (C03/C15 cover reuse after interrupts)")
	r.Assume("Go fatal errors (stack exhaustion, out of memory) cannot be recovered in-process: the enumeration runs in worker processes under ulimit -v 8 GiB; a worker that dies is re-run in trace mode and the death is attributed to the last announced case")
	if !r.IsWorker() && os.Getenv("C01_INPROCESS") == "" {
		r.Exhaustive(r.RunSharded(8 << 20))
		return
	}
	complete := true
	bounds := map[string]interface{}{}

	// known-finding regression corpus and fixed families first (cheap), then the enumerations by increasing size.
	complete = runCorpus(r, bounds) && complete
	complete = runFamilies(r, bounds) && complete
	complete = runBytes(r, bounds) && complete
	complete = runEdits(r, bounds) && complete
	complete = runGrammars(r, bounds) && complete
	r.Set("bounds_completed", bounds)
	r.Exhaustive(complete)
}

// ---------- regression corpus: the unedited seeds and every input that ever failed ----------

var regression = []string{
	"var [...function ] = a", "[...function ] = a", "#a", "({#a:1})", "var { #p: ff = 1 } = o", "((0 && 1), (0 && 1))", "var q=(((0 && 1),1))",
	"var o={}; x = o?.p?.[0]?.(1)  (2);", "o?.p(...[1])", "u?.(...[1])", "f(1, u?.(...[1]), ...[3,4])", "[1, u?.p(1)(2), 3]",
	"var ar2 = a => { return  arguments  }; ar2(2)", "(function(){ var g = () => () => arguments[0]; return g()() })(5)",
	"var it = { [Symbol.iterator]() { return {  get next() { return { done: true } } } } }; for (var z of it) break;", "var [d1] = { [Symbol.iterator]() { return {} } }",
	"function* g(){ yield* { [Symbol.iterator]() { return { next: 1 } } } } [...g()]",
	"throw new Proxy({}, { get(t, k, r) { return k } })", "throw { toString(){ throw 1 } }", "throw { [Symbol.toPrimitive]: 1 }",
	"switch(1){case 1: let x=1; eval(\"x\")}", "switch(1){case 1: let x1=1; eval(\"x1\"); default: let y1=2}", "(function(){ switch(1){case 1: let x=1; return eval(\"x\")} })()",
	"\"é\".replaceAll(\"\", \"a\")", "var x=-0; x++; Object.is(x,1)", "(async function(){ await {constructor:Promise} })()",
	"(function(){ var a = 0; { let [] = []; eval(\"\"); return typeof a } })()", "var a5=0; { let {} = {}; eval(\"a5\") }", "(function(){ \"use strict\"; var a = 0; { let [,] = [1, 2]; eval(\"\"); return a } })()",
	"\"a\".padEnd(2**53-1)", "\"ab\".repeat(9007199254740993)", "#p in o && 1", "class A{ #p; static t(o){ return #p in o && 1 } } A.t({})", "x = #p in o && o instanceof F",
	"var rv=Proxy.revocable(function(){}, {}); rv.revoke(); Function.prototype.toString.call(rv.proxy)",
	"x = (function*(){ try { x = yield 1; throw 2 } catch(e) { return e } })(); x.next(); x.next(3)", "(async function(){ try { u = await 1; null.p } catch(e) { return 1 } })()",
}

func runCorpus(r *core.Run, bounds map[string]interface{}) bool {
	all := append(append([]string{}, regression...), seeds...)
	ms := allModes()
	ok := r.Parallel(int64(len(all)), 1, func(wk int, lo, hi int64) {
		w := newWorker(r)
		w.batch = 1
		for i := lo; i < hi; i++ {
			w.do(all[i], fmt.Sprintf("corpus/%d", i), ms)
		}
	})
	bounds["corpus"] = fmt.Sprintf("%d regression inputs and unedited seeds x %d placements", len(all), len(ms))
	return ok
}

// ---------- (a) grammars ----------

type gspec struct {
	name, start, text string
	quickN, thorN     int
	modes             []int
}

func runGrammars(r *core.Run, bounds map[string]interface{}) bool {
	specs := grammarSpecs()
	complete := true
	// iterative deepening across all grammars: size 1 of each, then size 2, ... so that the completed bound is uniform
	maxN := 0
	for _, s := range specs {
		if n := r.Pick(s.quickN, s.thorN); n > maxN {
			maxN = n
		}
	}
	gs := make([]*core.Grammar, len(specs))
	for i, s := range specs {
		gs[i] = core.MustGrammar(s.text, r.Pick(s.quickN, s.thorN))
	}
	for n := 1; n <= maxN; n++ {
		for i, s := range specs {
			if n > r.Pick(s.quickN, s.thorN) {
				continue
			}
			cnt := int64(gs[i].Count(s.start, n))
			if cnt == 0 {
				continue
			}
			g, sp := gs[i], s
			ok := r.Parallel(cnt, 256, func(wk int, lo, hi int64) {
				w := newWorker(r)
				for idx := lo; idx < hi; idx++ {
					src := g.Unrank(sp.start, n, uint64(idx))
					if r.WantSample(idx) && idx > 100 {
						r.Sample(map[string]interface{}{"grammar": sp.name, "nodes": n, "rank": idx, "src": src})
					}
					w.do(src, fmt.Sprintf("%s/n=%d/rank=%d", sp.name, n, idx), sp.modes)
				}
			})
			if !ok {
				complete = false
				bounds["grammar "+s.name] = fmt.Sprintf("nodes<=%d complete; size %d cut by deadline", n-1, n)
				return complete
			}
			bounds["grammar "+s.name] = fmt.Sprintf("nodes<=%d complete (%d trees at the last size)", n, cnt)
		}
	}
	return complete
}

// ---------- (c) symbol strings ----------

var symbols = []string{
	"'", "\"", "\\", "/", "`", "${", "}", "0", "1", "x", "e", "n", ".", "#", "\\u", "(", ")", "{", "[", "]",
	"\x00", "\x80", "\xc3", "\xed\xa0\x80", "\u00a0", "\ufeff", "=", ">", "<", "+", "-", "*", "?", ":", ",", ";", "!", "\u2028", "\n", "a",
	"&", "|", "@", "~",
}

func runBytes(r *core.Run, bounds map[string]interface{}) bool {
	maxLen := r.Pick(3, 4)
	ms := []int{0, 1, 2, 4, 5, 10, 12} // global, global/strict, func, eval, ieval? (see modes order) - resolved below
	ms = pickModes("global", "global/strict", "func", "eval", "newfunc", "method/strict", "generator")
	if r.Quick() {
		ms = pickModes("global", "global/strict", "func", "eval", "method/strict")
	}
	k := int64(len(symbols))
	for l := 1; l <= maxLen; l++ {
		total := int64(1)
		for i := 0; i < l; i++ {
			total *= k
		}
		ok := r.Parallel(total, 512, func(wk int, lo, hi int64) {
			w := newWorker(r)
			var sb strings.Builder
			for idx := lo; idx < hi; idx++ {
				sb.Reset()
				v := idx
				for i := 0; i < l; i++ {
					sb.WriteString(symbols[v%k])
					v /= k
				}
				src := sb.String()
				if r.WantSample(idx) && idx > 1000 {
					r.Sample(map[string]interface{}{"family": "symbols", "len": l, "rank": idx, "src": src})
				}
				w.do(src, fmt.Sprintf("symbols/len=%d/rank=%d", l, idx), ms)
			}
		})
		if !ok {
			bounds["symbol strings"] = fmt.Sprintf("length<=%d complete over %d symbols; length %d cut by deadline", l-1, k, l)
			return false
		}
		bounds["symbol strings"] = fmt.Sprintf("length<=%d complete over %d symbols x %d placements", l, k, len(ms))
	}
	return true
}

func pickModes(names ...string) []int {
	var res []int
	for _, n := range names {
		found := false
		for i := range modes {
			if modes[i].name == n {
				res = append(res, i)
				found = true
			}
		}
		if !found {
			panic("no mode " + n)
		}
	}
	return res
}

// ---------- (b) token edits ----------

var tokRe = regexp.MustCompile("(?s)`(?:\\\\.|[^`\\\\])*`|\"(?:\\\\.|[^\"\\\\])*\"|'(?:\\\\.|[^'\\\\])*'|[A-Za-z_$#][A-Za-z0-9_$]*|[0-9][0-9a-zA-Z_.]*|\\.\\.\\.|=>|\\?\\.|\\?\\?=?|\\*\\*=?|===?|!==?|<<=?|>>>?=?|&&=?|\\|\\|=?|[-+*/%&|^<>]=|\\+\\+|--|\\s+|.")

func tokenize(s string) []string { return tokRe.FindAllString(s, -1) }

var editTokens = []string{
	"(", ")", "{", "}", "[", "]", ";", ",", ".", "?.", "...", "=", "=>", ":", "?", "+", "-", "++", "!", "&&", "??", "`", "${", "/", "*", "**", "=+", "+=", "&&=", "#p", "#z",
	" x ", " 0 ", " \"s\" ", " var ", " let ", " const ", " function ", " class ", " extends ", " super ", " this ", " new ", " new.target ", " return ", " yield ", " yield* ", " await ", " async ", " break ", " continue ",
	" if ", " else ", " for ", " of ", " in ", " while ", " do ", " switch ", " case ", " default ", " try ", " catch ", " finally ", " throw ", " typeof ", " delete ", " void ", " with ", " static ", " get ", " set ", " eval ", " arguments ", " L: ", " debugger ", " import ", " export ", " enum ",
}

func runEdits(r *core.Run, bounds map[string]interface{}) bool {
	ms := pickModes("global", "global/strict", "func", "eval/strict")
	if r.Quick() {
		ms = pickModes("global", "func/strict")
	}
	type job struct {
		seed int
		toks []string
	}
	var jobs []job
	for i, s := range seeds {
		jobs = append(jobs, job{i, tokenize(s)})
	}
	var total int64
	offs := make([]int64, len(jobs)+1)
	perTok := int64(3 + 2*len(editTokens))
	for i, j := range jobs {
		offs[i] = total
		total += int64(len(j.toks)) * perTok
	}
	offs[len(jobs)] = total
	ok := r.Parallel(total, 512, func(wk int, lo, hi int64) {
		w := newWorker(r)
		ji := 0
		for idx := lo; idx < hi; idx++ {
			for offs[ji+1] <= idx {
				ji++
			}
			for ji > 0 && offs[ji] > idx {
				ji--
			}
			j := jobs[ji]
			rel := idx - offs[ji]
			pos, e := int(rel/perTok), int(rel%perTok)
			src := applyEdit(j.toks, pos, e)
			if r.WantSample(idx) && idx > 1000 {
				r.Sample(map[string]interface{}{"family": "token-edit", "seed": j.seed, "pos": pos, "edit": e, "src": src})
			}
			w.do(src, fmt.Sprintf("edit/seed=%d/pos=%d/edit=%d", j.seed, pos, e), ms)
		}
	})
	if !ok {
		bounds["token edits"] = "cut by deadline"
		return false
	}
	bounds["token edits"] = fmt.Sprintf("all %d single-token edits (delete, duplicate, swap, replace by / insert each of %d tokens) of %d seed programs x %d placements", total, len(editTokens), len(seeds), len(ms))
	if r.Thorough() {
		// double edits on the statement seeds: second edit restricted to delete / replace-by-structural-token
		return runDoubleEdits(r, bounds, ms)
	}
	return true
}

func applyEdit(toks []string, pos, e int) string {
	var sb strings.Builder
	for i, t := range toks {
		if i == pos {
			switch {
			case e == 0: // delete
				continue
			case e == 1: // duplicate
				sb.WriteString(t)
				sb.WriteString(t)
				continue
			case e == 2: // swap with next
				if i+1 < len(toks) {
					sb.WriteString(toks[i+1])
				}
				sb.WriteString(t)
				continue
			case e < 3+len(editTokens): // replace
				sb.WriteString(editTokens[e-3])
				continue
			default: // insert before
				sb.WriteString(editTokens[e-3-len(editTokens)])
				sb.WriteString(t)
				continue
			}
		}
		if i == pos+1 && e == 2 {
			continue
		}
		sb.WriteString(t)
	}
	return sb.String()
}

var structural = []string{"(", ")", "{", "}", "[", "]", ";", ",", "=", "=>", "...", " yield ", " await ", " super ", " x ", "`", "#p"}

func runDoubleEdits(r *core.Run, bounds map[string]interface{}, ms []int) bool {
	type job struct {
		seed int
		toks []string
	}
	var jobs []job
	var total int64
	var offs []int64
	per := int64(1 + len(structural))
	for i, s := range seeds {
		t := tokenize(s)
		if len(t) > 40 {
			continue
		}
		jobs = append(jobs, job{i, t})
		offs = append(offs, total)
		n := int64(len(t))
		total += n * per * n * per
	}
	offs = append(offs, total)
	ms = ms[:2]
	ok := r.Parallel(total, 1024, func(wk int, lo, hi int64) {
		w := newWorker(r)
		ji := 0
		for idx := lo; idx < hi; idx++ {
			for offs[ji+1] <= idx {
				ji++
			}
			j := jobs[ji]
			rel := idx - offs[ji]
			n := int64(len(j.toks))
			e1, e2 := rel/(n*per), rel%(n*per)
			t2 := make([]string, len(j.toks))
			copy(t2, j.toks)
			for _, e := range []int64{e1, e2} {
				pos, k := int(e/per), int(e%per)
				if k == 0 {
					t2[pos] = ""
				} else {
					t2[pos] = structural[k-1]
				}
			}
			w.do(strings.Join(t2, ""), fmt.Sprintf("edit2/seed=%d/e1=%d/e2=%d", j.seed, e1, e2), ms)
		}
	})
	if !ok {
		bounds["double token edits"] = "cut by deadline"
		return false
	}
	bounds["double token edits"] = fmt.Sprintf("all %d pairs of (delete | replace by one of %d structural tokens) on seeds of <=40 tokens", total, len(structural))
	return true
}

// ---------- (d) nesting / size families ----------

func runFamilies(r *core.Run, bounds map[string]interface{}) bool {
	type fam struct {
		name             string
		open, mid, close string
	}
	fams := []fam{
		{"paren", "(", "1", ")"}, {"array", "[", "1", "]"}, {"object", "({a:", "1", "})"}, {"block", "{", "1", "}"},
		{"func", "(function(){return ", "1", "})()"}, {"arrow", "(()=>", "1", ")()"}, {"call", "f(", "1", ")"},
		{"template", "`${", "1", "}`"}, {"cond", "(1?", "1", ":0)"}, {"unary", "-", "1", ""}, {"not", "!", "1", ""},
		{"typeof", "typeof ", "1", ""}, {"new", "new ", "F", ""}, {"member", "o[", "1", "]"}, {"assign", "x=", "1", ""},
		{"binR", "1**", "1", ""}, {"binL", "", "1", "+1"}, {"comma", "(1,", "1", ")"}, {"and", "(0&&", "1", ")"}, {"or", "(1||", "1", ")"}, {"nullish", "(n??", "1", ")"},
		{"if", "if(1)", ";", ""}, {"ifelse", "if(0);else ", ";", ""}, {"while", "while(0)", ";", ""}, {"for", "for(;0;)", ";", ""}, {"forof", "for(var v of a)", ";", ""}, {"forin", "for(var v in o)", ";", ""},
		{"label", "L:", ";", ""}, {"try", "try{", "1", "}finally{}"}, {"catch", "try{throw 1}catch(e){", "1", "}"}, {"finally", "try{}finally{", "1", "}"},
		{"with", "with(o)", ";", ""}, {"switch", "switch(1){case 1:", ";", "}"}, {"class", "(class{m(){return ", "1", "}})"}, {"classext", "(class extends ", "K", "{})"},
		{"destr", "var [", "v", "]=[[[]]]"}, {"destro", "var {a:", "v", "}={}"}, {"spread", "[...", "a", "]"}, {"optchain", "o?.[", "1", "]"}, {"gen", "(function*(){yield ", "1", "})().next()"},
		{"async", "(async()=>await ", "1", ")()"}, {"dowhile", "do ", ";", " while(0)"}, {"evalnest", "eval(\"", "1", "\")"}, {"regex", "/(", "a", ")/"}, {"regexcls", "/[", "a", "]/"}, {"tagged", "f`${", "1", "}`"},
		{"defparam", "(function(p=", "1", "){return p})()"}, {"computed", "({[", "1", "]:1})"}, {"getter", "({get a(){return ", "1", "}}).a"}, {"privin", "(class{#q; static m(o){return #q in ", "o", "}}).m({})"},
	}
	depths := []int{1, 2, 3, 5, 10, 20, 50, 100, 150, 199, 200}
	ms := pickModes("global", "global/strict", "func", "eval", "newfunc", "generator/strict")
	type item struct {
		f fam
		d int
	}
	var items []item
	for _, f := range fams {
		for _, d := range depths {
			if f.name == "evalnest" && d > 1 {
				continue // quoting doubles per level; covered by the eval placement instead
			}
			items = append(items, item{f, d})
		}
	}
	// flat long programs up to 64 KiB
	type flat struct{ name, unit, sep string }
	flats := []flat{{"sum", "1", "+"}, {"assignchain", "x", "="}, {"stmts", "x++", ";"}, {"commas", "1", ","}, {"args", "", ""}, {"strcat", "'a'", "+"}, {"arr", "1", ","}, {"vars", "", ""}}
	ok := r.Parallel(int64(len(items)), 1, func(wk int, lo, hi int64) {
		w := newWorker(r)
		w.batch = 4
		for i := lo; i < hi; i++ {
			it := items[i]
			src := strings.Repeat(it.f.open, it.d) + it.f.mid + strings.Repeat(it.f.close, it.d)
			if len(src) > 65536 {
				continue
			}
			if it.d == 3 {
				r.Sample(map[string]interface{}{"family": "nest/" + it.f.name, "depth": it.d, "src": src})
			}
			w.do(src, fmt.Sprintf("nest/%s/depth=%d", it.f.name, it.d), ms)
		}
	})
	if !ok {
		bounds["nesting families"] = "cut by deadline"
		return false
	}
	ok = r.Parallel(int64(len(flats)), 1, func(wk int, lo, hi int64) {
		w := newWorker(r)
		w.batch = 1
		for i := lo; i < hi; i++ {
			fl := flats[i]
			for _, size := range []int{1000, 16000, 65000} {
				var src string
				switch fl.name {
				case "args":
					src = "f(" + strings.TrimSuffix(strings.Repeat("1,", size/2), ",") + ")"
				case "arr":
					src = "[" + strings.Repeat("1,", size/2) + "]"
				case "vars":
					var sb strings.Builder
					for k := 0; sb.Len() < size; k++ {
						fmt.Fprintf(&sb, "var v%d=%d;", k, k)
					}
					src = sb.String()
				default:
					n := size / (len(fl.unit) + len(fl.sep))
					src = strings.TrimSuffix(strings.Repeat(fl.unit+fl.sep, n), fl.sep)
					if fl.name == "assignchain" {
						src += "=1"
					}
				}
				w.do(src, fmt.Sprintf("flat/%s/size=%d", fl.name, len(src)), ms[:3])
			}
		}
	})
	bounds["nesting families"] = fmt.Sprintf("%d constructs x depths %v x %d placements; %d flat families up to 65000 bytes", len(fams), depths, len(ms), len(flats))
	return ok
}
