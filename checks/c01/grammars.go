package c01

import "verif/lib/jsseeds"

// Grammars (syntax of core.Grammar: tokens separated by single spaces are concatenated; "_" is a space).
// GW: wide  — every operator and leaf kind, small trees.
// GD: deep  — representative operators of each compiler code path, few leaves, larger trees.
// GS: statements — every statement kind around small expressions.

const leavesWide = `0 | 1 | -1 | 0.5 | 1n | "" | "s" | true | null | undefined | x | u | o | a | s | f | K | sym | lx | ly | lc | p | this | arguments | /r/g | [] | {} | new.target | super.p | NaN`

const gwText = `
P := E | var _ q = E ; q | E ; E | ( E ) | o.p = E | ly = E | [ E , E ] | ` + "`${ E }`" + ` | return _ E
E := ` + leavesWide + `
E := ( E BOP E ) | UOP E | ( E ? E : E ) | ( E , E )
E := ( A AOP E ) | ++ A | A ++ | -- A | A --
E := E ( E ) | E ( ) | E ( ... E ) | new _ E ( E ) | new _ E | E . p | E . f ( ) | E [ E ] | E ?. p | E ?. [ E ] | E ?. ( E ) | E . #p
E := [ E , ... E ] | [ , E ] | ({ p : E , ... E }) | ({ [ E ] : E }) | ({ E }) | ` + "`a${ E }b`" + ` | f` + "`${ E }`" + `
E := (function(v){ return _ E }) | (function(v = E ){}) | (( v )=> E ) | (function*(){ yield _ E }) | (async _ function(){ await _ E }) | (class _ extends _ E {})
E := (class{ [ E ] = E }) | (class{ static _ m(){ return _ E }}) | yield _ E | await _ E | delete _ E | #p _ in _ E | eval(" E ")
E := ([ v = E ] = E ) | ({ p : v = E } = E ) | ([ ... A ] = E )
A := x | o.p | o[ E ] | a[0] | ly | lc | u | q | this.p | super.p | arguments[0] | o.g | o?.p | f() | [ A ] | { p : A }
BOP := + | - | * | / | % | ** | < | > | <= | >= | == | != | === | !== | & | \| | ^ | << | >> | >>> | && | \|\| | ?? | _ in _ | _ instanceof _
UOP := - | + | ! | ~ | typeof _ | void _ | delete _ | ... | await _
AOP := = | += | -= | *= | /= | %= | **= | <<= | >>= | >>>= | &= | \|= | ^= | &&= | \|\|= | ??=
`

const gdText = `
P := E | E ; E | var _ q = E ; | if ( E ) E ; else _ E | return _ E
E := @1 0 | @1 1 | @1 x | @1 lx | @1 f() | @1 "s" | @1 o
E := ( E BOP E ) | UOP E | ( E ? E : E ) | ( E , E ) | ( A = E ) | ( A += E ) | ( A &&= E ) | A ++
E := E ( E ) | E . p | E [ E ] | E ?. p | [ E ] | ({ p : E }) | ` + "`${ E }`" + ` | (function(){ return _ E })() | (()=> E )()
A := x | lx | o.p | o[ E ]
BOP := + | - | < | === | & | >>> | && | \|\| | ?? | _ in _ | **
UOP := - | ! | typeof _ | void _
`

const gsText = `
P := @0 S | S S | S S S
S := E ; | var _ v = E ; | let _ w = E ; | const _ c = E ; | { S } | ;
S := if ( E ) S | if ( E ) S else _ S | while ( E ) { S break; } | do _ S while ( 0 ) ; | for ( var _ i = 0 ; i < 2 ; i ++ ) S | for ( let _ j = 0 ; j < 2 ; j ++ ) S
S := for ( var _ k _ in _ E ) S | for ( let _ e _ of _ E ) S | for ( const [ d ] of [[ E ]]) S | for ( A _ of _ a ) S | for ( A _ in _ o ) S | for await ( let _ e _ of _ E ) S
S := L: S | L: for (;;) { S J } | M: { S J } | switch ( E ) { case _ E : S default: S } | switch ( E ) { default: S J case _ 1 : S }
S := try { S } catch ( e ) { S } | try { S } finally { S } | try { S } catch { S } finally { S } | try { S } catch ({ message }) { S }
S := throw _ E ; | return _ E ; | return ; | with ( E ) S | function _ h ( v ) { S } | class _ C { m ( ) { S } } | class _ D extends _ K { constructor(){ S } } | debugger ; | yield _ E ; | await _ E ; | { let _ w = E ; function _ w2 ( ) { return _ w } S } | { let [] = [] ; eval("") ; S } | { const {} = o ; S eval("") ; }
J := break ; | continue ; | break _ L ; | continue _ L ; | break _ M ; | return ; | throw 1 ;
E := 0 | 1 | x | lx | w | o | a | f() | (()=> w ) | ( E , E ) | ( E && E ) | A = E | A ++ | typeof _ E | gen() | new.target | super.m() | this | ( eval("0") , E ) | [ E ] | lg()
A := x | w | c | o.p | [ x ] | { p : x } | lx | e
`

func grammarSpecs() []gspec {
	all := allModes()
	few := pickModes("global", "global/strict", "func", "eval", "newfunc/strict", "method", "generator", "async/strict")
	return []gspec{
		{name: "GW", start: "P", text: gwText, quickN: 3, thorN: 4, modes: all},
		{name: "GD", start: "P", text: gdText, quickN: 5, thorN: 7, modes: few},
		{name: "GS", start: "P", text: gsText, quickN: 4, thorN: 5, modes: few},
	}
}

// seed catalogue for token edits: every construct at least once (shared with C16)
var seeds = jsseeds.Programs
