package c01

// Grammars (syntax of core.Grammar: tokens separated by single spaces are concatenated; "_" is a space).
// GW: wide  — every operator and leaf kind, small trees.
// GD: deep  — representative operators of each compiler code path, few leaves, larger trees.
// GS: statements — every statement kind around small expressions.

const leavesWide = `0 | 1 | -1 | 0.5 | 1n | "" | "s" | true | null | undefined | x | u | o | a | s | f | K | sym | lx | ly | lc | p | this | arguments | /r/g | [] | {} | new.target | super.p | NaN`

const gwText = `
P := E | var _ q = E ; q | E ; E | ( E ) | o.p = E | ly = E | [ E , E ] | ` + "`${ E }`" + ` | return _ E
E := ` + leavesWide + `
E := ( E BOP E ) | UOP E | ( E ? E : E ) | ( E , E )
E := ( A AOP E ) | ++ A | A ++ | -- A | A --
E := E ( E ) | E ( ) | E ( ... E ) | new _ E ( E ) | new _ E | E . p | E . f ( ) | E [ E ] | E ?. p | E ?. [ E ] | E ?. ( E ) | E . #p
E := [ E , ... E ] | [ , E ] | ({ p : E , ... E }) | ({ [ E ] : E }) | ({ E }) | ` + "`a${ E }b`" + ` | f` + "`${ E }`" + `
E := (function(v){ return _ E }) | (function(v = E ){}) | (( v )=> E ) | (function*(){ yield _ E }) | (async _ function(){ await _ E }) | (class _ extends _ E {})
E := (class{ [ E ] = E }) | (class{ static _ m(){ return _ E }}) | yield _ E | await _ E | delete _ E | #p _ in _ E | eval(" E ")
E := ([ v = E ] = E ) | ({ p : v = E } = E ) | ([ ... A ] = E )
A := x | o.p | o[ E ] | a[0] | ly | lc | u | q | this.p | super.p | arguments[0] | o.g | o?.p | f() | [ A ] | { p : A }
BOP := + | - | * | / | % | ** | < | > | <= | >= | == | != | === | !== | & | \| | ^ | << | >> | >>> | && | \|\| | ?? | _ in _ | _ instanceof _
UOP := - | + | ! | ~ | typeof _ | void _ | delete _ | ... | await _
AOP := = | += | -= | *= | /= | %= | **= | <<= | >>= | >>>= | &= | \|= | ^= | &&= | \|\|= | ??=
`

const gdText = `
P := E | E ; E | var _ q = E ; | if ( E ) E ; else _ E | return _ E
E := @1 0 | @1 1 | @1 x | @1 lx | @1 f() | @1 "s" | @1 o
E := ( E BOP E ) | UOP E | ( E ? E : E ) | ( E , E ) | ( A = E ) | ( A += E ) | ( A &&= E ) | A ++
E := E ( E ) | E . p | E [ E ] | E ?. p | [ E ] | ({ p : E }) | ` + "`${ E }`" + ` | (function(){ return _ E })() | (()=> E )()
A := x | lx | o.p | o[ E ]
BOP := + | - | < | === | & | >>> | && | \|\| | ?? | _ in _ | **
UOP := - | ! | typeof _ | void _
`

const gsText = `
P := S | S S | S S S
S := E ; | var _ v = E ; | let _ w = E ; | const _ c = E ; | { S } | ;
S := if ( E ) S | if ( E ) S else _ S | while ( E ) { S break; } | do _ S while ( 0 ) ; | for ( var _ i = 0 ; i < 2 ; i ++ ) S | for ( let _ j = 0 ; j < 2 ; j ++ ) S
S := for ( var _ k _ in _ E ) S | for ( let _ e _ of _ E ) S | for ( const [ d ] of [[ E ]]) S | for ( A _ of _ a ) S | for ( A _ in _ o ) S | for await ( let _ e _ of _ E ) S
S := L: S | L: for (;;) { S J } | M: { S J } | switch ( E ) { case _ E : S default: S } | switch ( E ) { default: S J case _ 1 : S }
S := try { S } catch ( e ) { S } | try { S } finally { S } | try { S } catch { S } finally { S } | try { S } catch ({ message }) { S }
S := throw _ E ; | return _ E ; | return ; | with ( E ) S | function _ h ( v ) { S } | class _ C { m ( ) { S } } | class _ D extends _ K { constructor(){ S } } | debugger ; | yield _ E ; | await _ E ; | { let _ w = E ; function _ w2 ( ) { return _ w } S }
J := break ; | continue ; | break _ L ; | continue _ L ; | break _ M ; | return ; | throw 1 ;
E := 0 | 1 | x | lx | w | o | a | f() | (()=> w ) | ( E , E ) | ( E && E ) | A = E | A ++ | typeof _ E | gen() | new.target | super.m() | this
A := x | w | c | o.p | [ x ] | { p : x } | lx | e
`

func grammarSpecs() []gspec {
	all := allModes()
	few := pickModes("global", "global/strict", "func", "eval", "newfunc/strict", "method", "generator", "async/strict")
	return []gspec{
		{name: "GW", start: "P", text: gwText, quickN: 3, thorN: 4, modes: all},
		{name: "GD", start: "P", text: gdText, quickN: 5, thorN: 7, modes: few},
		{name: "GS", start: "P", text: gsText, quickN: 4, thorN: 5, modes: few},
	}
}

// seed catalogue for token edits: every construct at least once
var seeds = []string{
	`var q = 1, r; let w = 2; const c = 3; q = w + c;`,
	`function h(a, b = 1, ...rest) { return a + b + rest.length } h(1)`,
	`var g2 = function* (v) { var r = yield v; yield* [1, 2]; return r }; [...g2(1)]`,
	`async function k2(v) { try { await v } catch (e) { return e } finally { x++ } } k2(1)`,
	`var ar = (a, b) => a + b; var ar2 = a => { return a }; ar(1, ar2(2))`,
	`class A { #p = 1; static #s = 2; static s = 3; f = this.#p; constructor(v) { this.v = v } get g() { return this.#p } set g(v) { this.#p = v } static m() { return A.#s } #pm() { return 1 } static has(o) { return #p in o } }`,
	`class B extends K { constructor() { super(); this.q = super.m() } m() { return super.m() + 1 } static s2 = super.s } new B().m()`,
	`var { p, f: ff = 1, ...rest } = o; var [a0, , a2 = 5, ...ar3] = a; [x, y] = [y, x]; ({ p: x } = o);`,
	`for (var i = 0; i < 3; i++) { if (i == 1) continue; if (i == 2) break; }`,
	`for (let j = 0; j < 2; j++) { f(() => j) } for (const v of a) { x += v } for (var k in o) { x += k }`,
	`L: for (;;) { M: while (true) { do { break L } while (0) } }`,
	`switch (x) { case 1: x = 2; case 2: { break } default: x = 3 }`,
	`try { throw new Error("e") } catch ({ message }) { x = message } finally { y = 1 }`,
	`try { null.p } catch { x = 1 }`,
	`with (o) { p = 2; var wv = p }`,
	`var t = ` + "`a${x}b${`n${y}`}c`" + `; var tt = f` + "`q${x}`" + `;`,
	`var r1 = /a(b)?[c-d]+\d{1,2}(?<n>x)\k<n>/giu.exec("ab"); var r2 = "a/b".replace(/\//g, "$&");`,
	`x = o?.p?.[0]?.(1) ?? (x ||= 1, y &&= 2, u ??= 3);`,
	`x = a ? b : c ? d : e; y = (1, 2, 3); x = typeof q === "undefined" ? void 0 : delete o.p;`,
	`x = 1 + 2 * 3 ** 2 / 4 % 5 - -6 << 1 >> 2 >>> 3 & 4 | 5 ^ ~6; y = x < 1 || x >= 2 && x != 3 || x !== 4;`,
	`x = "p" in o && o instanceof F; x++; --y; o.p += 1; a[0] **= 2; o["p"]--;`,
	`var oo = { a: 1, "b": 2, 3: 3, [x]: 4, f() { return super.toString() }, get g() { return 1 }, set g(v) { }, *gen() { }, async am() { }, async *ag() { }, ...o, x };`,
	`var aa = [1, , 2, ...a, , ]; f(...a, 1, ...[2]); new F(...a); new F; new new.target;`,
	`function nt() { return new.target } (function () { "use strict"; return this })();`,
	`eval("var ev = 1; let el = 2; function ef(){}"); (0, eval)("var ev2 = 1");`,
	`(function () { arguments[0] = 1; return arguments.length + arguments.callee.length })(1, 2)`,
	`var sy = Symbol.iterator; var it = { [sy]() { return { next() { return { done: true } }, return() { return {} } } } }; for (var z of it) break; var [d1] = it;`,
	`label: { x = 1; break label; } if (x) ; else { } ;;; debugger;`,
	`x = 0x1f + 0b11 + 0o17 + 1e3 + .5 + 5. + 1_000 + 0.1e-2 + 10n ** 2n;`,
	`x = 'a\'b\n\x41A\u{1F600}\0' + "\"" + '\
';`,
	`// comment
/* multi
line */ x = 1 /* c */ + 2; <!-- html comment
--> also`,
	`if (x) function fi() { } else function fe() { }`,
	`var fn = function named() { return named }; var cl = class Named { static n = Named };`,
	`async function* ag() { for await (const v of [1]) { yield v } } ag().next()`,
	`new Promise((res, rej) => res(1)).then(v => { throw v }).catch(e => e).finally(() => 1);`,
	`var px = new Proxy({}, { get(t, k, r) { return k } }); px.a + Reflect.ownKeys(px).length;`,
	`o.g = 1; Object.defineProperty(o, "z", { get() { return 1 }, configurable: true }); delete o.z;`,
	`var get = 1, set = 2, of = 3, async = 4, let = 5, static = 6, yield = 7, await = 8; get + set + of + async`,
	`x = a.map(function (v, i) { return v * i }).filter(v => v).reduce((p, c) => p + c, 0);`,
	`function outer() { var cap = 1; function inner() { return cap++ } return inner } outer()()`,
	`function dflt({ a = 1, b: [c2 = 2] = [] } = {}, [d = 3] = []) { return a + c2 + d } dflt()`,
	`var tf = true, ff2 = false, nn = null, uu = undefined, th = this, inf = Infinity, nan = NaN;`,
	`do x++; while (x < 3) x--`,
	`for (var i2 = 0, j2 = 1; i2 < j2; i2++, j2--) ; for (; ;) break; for (x in o) ; for (x of a) ; for ([x, y] of [[1, 2]]) ; for ({ p: x } of [o]) ;`,
	`"use strict"; var se = 1; function sf(a, b) { "use strict"; return a }`,
	`x = a?.[0]; x = o?.f?.(); x = o?.["f"]?.(); x = (o?.f)(); delete o?.p;`,
	`x = class { static { x = 1 } static async *[Symbol.iterator]() { } 'q'() { } 1() { } static get [x]() { return 1 } };`,
	`import("m"); x = import.meta;`,
	`x = y => z => y + z; x = async y => await y; x = async (y, z) => { }; x = (y, z = 1, ...r) => r;`,
	`x = { __proto__: o, __proto__2: 1 }; x = { get: 1, set: 2, async: 3, static: 4, get get() { return 1 }, set set(v) { } };`,
}
