package c02

import (
	"verif/ref/irjs"
)

// Static validity of an IR program: the early errors of ECMA-262 that the generated subset can run into
// (redeclarations, break / continue / return / label targets, const without initialiser, super / arguments /
// this placement) plus the restrictions that make a program placement-insensitive (no top-level this /
// arguments / return) and interpretable by irjs. Programs that fail are not counted and not run.
//
// Info flags restrict the modes a program is run in.
type Info struct {
	StrictOnly bool // function declaration nested in a block: Annex B.3.3 (sloppy) is not modelled, run strict only
	SloppyOnly bool // uses a construct that is an early error in strict code (with, duplicate parameters)
}

type vctx struct {
	inFunc     bool // inside any function of the IR
	nonArrow   bool // inside a non-arrow function (arguments / this available)
	thisOK     bool
	superProp  bool // super.x allowed
	superCall  bool // super(...) allowed
	labels     []string
	loopLabels []string // labels that directly label an enclosing loop
	inLoop     bool
	inSwitch   bool
	strict     bool
}

type validator struct {
	ok   bool
	info Info
	why  string
}

func (v *validator) fail(why string) {
	if v.ok {
		v.ok = false
		v.why = why
	}
}

// Validate checks a (prog ...) node.
func Validate(p *irjs.Node) (bool, Info, string) {
	v := &validator{ok: true}
	if !p.Is("prog") {
		return false, Info{}, "not a program"
	}
	ctx := vctx{}
	v.scopeCheck(p.Kids, nil, true, false)
	v.stmtList(p.Kids, ctx, true)
	return v.ok, v.info, v.why
}

func dup(names []string) bool {
	for i, n := range names {
		for _, m := range names[:i] {
			if n == m {
				return true
			}
		}
	}
	return false
}

func intersects(a, b []string) bool {
	for _, x := range a {
		for _, y := range b {
			if x == y {
				return true
			}
		}
	}
	return false
}

// lexNames: names declared lexically directly in a statement list. blockLevel: function declarations count.
func lexNamesOf(list []*irjs.Node, blockLevel bool) (names []string, funcs []string) {
	for _, s := range list {
		for s.Is("label") {
			s = s.Kids[1]
		}
		switch {
		case s.Is("let"), s.Is("const"):
			names = irjs.BoundNames(s.Kids[0], names)
		case s.Is("classdecl"):
			names = append(names, s.Kids[0].Op)
		case s.Is("fdecl") && blockLevel:
			funcs = append(funcs, s.Kids[0].Op)
		}
	}
	return
}

// varNamesOf: VarDeclaredNames of a statement list (var declarations at any depth below, function boundaries not
// crossed); top: top-level function declarations count as var-scoped.
func varNamesOf(list []*irjs.Node, top bool) []string {
	var out []string
	var stmt func(s *irjs.Node, top bool)
	stmts := func(l []*irjs.Node, top bool) {
		for _, s := range l {
			stmt(s, top)
		}
	}
	stmt = func(s *irjs.Node, top bool) {
		if s == nil || s.Atom {
			return
		}
		switch s.Op {
		case "var":
			out = irjs.BoundNames(s.Kids[0], out)
		case "fdecl":
			if top {
				out = append(out, s.Kids[0].Op)
			}
		case "block":
			stmts(s.Kids, false)
		case "if":
			stmt(s.Kids[1], false)
			if len(s.Kids) > 2 {
				stmt(s.Kids[2], false)
			}
		case "for":
			if s.Kids[0].Is("var") {
				out = irjs.BoundNames(s.Kids[0].Kids[0], out)
			}
			stmt(s.Kids[3], false)
		case "forin", "forof":
			if s.Kids[0].Is("var") {
				out = irjs.BoundNames(s.Kids[0].Kids[0], out)
			}
			stmt(s.Kids[2], false)
		case "while", "with":
			stmt(s.Kids[1], false)
		case "dowhile":
			stmt(s.Kids[0], false)
		case "switch":
			for _, c := range s.Kids[1:] {
				if c.Is("case") {
					stmts(c.Kids[1:], false)
				} else {
					stmts(c.Kids, false)
				}
			}
		case "label":
			stmt(s.Kids[1], top)
		case "try":
			stmts(s.Kids[0].Kids, false)
			if c := s.Kids[1]; !c.IsNone() {
				stmts(c.Kids[1:], false)
			}
			if f := s.Kids[2]; !f.IsNone() {
				stmts(f.Kids, false)
			}
		}
	}
	stmts(list, top)
	return out
}

// scopeCheck: redeclaration errors of one scope. extra = names already bound in this scope by the construct
// (parameters, catch parameter, for-head bindings). top = function body / program level.
func (v *validator) scopeCheck(list []*irjs.Node, extra []string, top bool, extraAllowsVar bool) {
	lex, funcs := lexNamesOf(list, !top)
	if dup(lex) || intersects(lex, funcs) || dup(funcs) {
		v.fail("duplicate lexical declaration")
	}
	all := append(append([]string(nil), lex...), funcs...)
	vars := varNamesOf(list, top)
	if intersects(all, vars) {
		v.fail("lexical declaration conflicts with var")
	}
	if intersects(all, extra) {
		v.fail("lexical declaration conflicts with parameter / head binding")
	}
	if !extraAllowsVar && intersects(vars, extra) {
		v.fail("var conflicts with head binding")
	}
	if len(funcs) > 0 {
		v.info.StrictOnly = true
	}
}

func (v *validator) stmtList(list []*irjs.Node, c vctx, top bool) {
	for i, s := range list {
		if s.Is("directive") {
			// only meaningful at the start of a body; elsewhere it would be an ordinary expression statement
			for _, p := range list[:i] {
				if !p.Is("directive") {
					v.fail("directive not in prologue")
				}
			}
			continue
		}
		v.stmt(s, c, true)
	}
}

func (v *validator) stmt(s *irjs.Node, c vctx, inList bool) {
	if !v.ok {
		return
	}
	if s == nil || s.Atom {
		v.fail("atom in statement position")
		return
	}
	switch s.Op {
	case "expr":
		v.expr(s.Kids[0], c)
	case "var", "let", "const":
		if s.Op != "var" && !inList {
			v.fail("lexical declaration as sub-statement")
		}
		names := irjs.BoundNames(s.Kids[0], nil)
		if s.Op != "var" && dup(names) {
			v.fail("duplicate names in lexical pattern")
		}
		for _, n := range names {
			if n == "let" || n == "arguments" || n == "eval" || n == "undefined" {
				v.fail("reserved binding name")
			}
		}
		hasInit := len(s.Kids) > 1 && !s.Kids[1].IsNone()
		if !hasInit && (s.Op == "const" || !s.Kids[0].Atom) {
			v.fail("missing initialiser")
		}
		v.pattern(s.Kids[0], c, true)
		if hasInit {
			v.expr(s.Kids[1], c)
		}
	case "fdecl":
		if !inList {
			v.fail("function declaration as sub-statement")
		}
		v.function(s, c)
	case "classdecl":
		if !inList {
			v.fail("class declaration as sub-statement")
		}
		v.class(s, c)
	case "block":
		v.scopeCheck(s.Kids, nil, false, false)
		v.stmtList(s.Kids, c, false)
	case "if":
		v.expr(s.Kids[0], c)
		v.stmt(s.Kids[1], c, false)
		if len(s.Kids) > 2 && !s.Kids[2].IsNone() {
			v.stmt(s.Kids[2], c, false)
		}
	case "for":
		lc := c
		lc.inLoop = true
		init := s.Kids[0]
		switch {
		case init.IsNone():
		case init.Is("expr"):
			v.expr(init.Kids[0], c)
		case init.Is("var"), init.Is("let"), init.Is("const"):
			v.stmt(init, c, true)
			if !init.Is("var") {
				names := irjs.BoundNames(init.Kids[0], nil)
				if intersects(names, varNamesOf([]*irjs.Node{s.Kids[3]}, false)) {
					v.fail("var in loop body conflicts with loop binding")
				}
			}
		default:
			v.fail("bad for initialiser")
		}
		if !s.Kids[1].IsNone() {
			v.expr(s.Kids[1], c)
		}
		if !s.Kids[2].IsNone() {
			v.expr(s.Kids[2], c)
		}
		v.stmt(s.Kids[3], lc, false)
	case "forin", "forof":
		lc := c
		lc.inLoop = true
		h := s.Kids[0]
		switch {
		case h.Is("var"), h.Is("let"), h.Is("const"):
			if len(h.Kids) != 1 {
				v.fail("initialiser in for-in/of head")
			}
			names := irjs.BoundNames(h.Kids[0], nil)
			if !h.Is("var") {
				if dup(names) || intersects(names, varNamesOf([]*irjs.Node{s.Kids[2]}, false)) {
					v.fail("loop binding conflict")
				}
				for _, n := range names {
					if n == "let" {
						v.fail("let as binding name")
					}
				}
			}
			v.pattern(h.Kids[0], c, true)
		default:
			v.pattern(h, c, false)
		}
		v.expr(s.Kids[1], c)
		v.stmt(s.Kids[2], lc, false)
	case "while":
		lc := c
		lc.inLoop = true
		v.expr(s.Kids[0], c)
		v.stmt(s.Kids[1], lc, false)
	case "dowhile":
		lc := c
		lc.inLoop = true
		v.stmt(s.Kids[0], lc, false)
		v.expr(s.Kids[1], c)
	case "switch":
		v.expr(s.Kids[0], c)
		sc := c
		sc.inSwitch = true
		var all []*irjs.Node
		defaults := 0
		for _, cl := range s.Kids[1:] {
			switch {
			case cl.Is("case"):
				v.expr(cl.Kids[0], c)
				all = append(all, cl.Kids[1:]...)
			case cl.Is("default"):
				defaults++
				all = append(all, cl.Kids...)
			default:
				v.fail("bad switch clause")
				return
			}
		}
		if defaults > 1 {
			v.fail("more than one default clause")
		}
		v.scopeCheck(all, nil, false, false)
		for _, cl := range s.Kids[1:] {
			if cl.Is("case") {
				v.stmtList(cl.Kids[1:], sc, false)
			} else {
				v.stmtList(cl.Kids, sc, false)
			}
		}
	case "label":
		l := s.Kids[0].Op
		for _, x := range c.labels {
			if x == l {
				v.fail("duplicate label")
			}
		}
		lc := c
		lc.labels = append(append([]string(nil), c.labels...), l)
		body := s.Kids[1]
		inner := body
		for inner.Is("label") {
			inner = inner.Kids[1]
		}
		if inner.Is("for") || inner.Is("forin") || inner.Is("forof") || inner.Is("while") || inner.Is("dowhile") {
			lc.loopLabels = append(append([]string(nil), c.loopLabels...), l)
		}
		if body.Is("fdecl") || body.Is("let") || body.Is("const") || body.Is("classdecl") {
			v.fail("labelled declaration")
		}
		v.stmt(body, lc, false)
	case "break":
		if len(s.Kids) > 0 && !s.Kids[0].IsNone() {
			if !containsStr(c.labels, s.Kids[0].Op) {
				v.fail("undefined break label")
			}
		} else if !c.inLoop && !c.inSwitch {
			v.fail("break outside loop / switch")
		}
	case "continue":
		if len(s.Kids) > 0 && !s.Kids[0].IsNone() {
			if !containsStr(c.loopLabels, s.Kids[0].Op) {
				v.fail("continue label does not denote a loop")
			}
		} else if !c.inLoop {
			v.fail("continue outside loop")
		}
	case "return":
		if !c.inFunc {
			v.fail("return outside function")
		}
		if len(s.Kids) > 0 && !s.Kids[0].IsNone() {
			v.expr(s.Kids[0], c)
		}
	case "throw":
		v.expr(s.Kids[0], c)
	case "try":
		if s.Kids[1].IsNone() && s.Kids[2].IsNone() {
			v.fail("try without catch / finally")
		}
		v.scopeCheck(s.Kids[0].Kids, nil, false, false)
		v.stmtList(s.Kids[0].Kids, c, false)
		if cc := s.Kids[1]; !cc.IsNone() {
			var names []string
			if !cc.Kids[0].IsNone() {
				names = irjs.BoundNames(cc.Kids[0], nil)
				if dup(names) {
					v.fail("duplicate catch parameter names")
				}
				v.pattern(cc.Kids[0], c, true)
			}
			v.scopeCheck(cc.Kids[1:], names, false, false)
			v.stmtList(cc.Kids[1:], c, false)
		}
		if f := s.Kids[2]; !f.IsNone() {
			v.scopeCheck(f.Kids, nil, false, false)
			v.stmtList(f.Kids, c, false)
		}
	case "empty":
	case "with":
		v.info.SloppyOnly = true
		v.expr(s.Kids[0], c)
		v.stmt(s.Kids[1], c, false)
	case "directive":
		v.fail("directive outside a statement list")
	default:
		v.fail("unknown statement " + s.Op)
	}
}

func containsStr(list []string, s string) bool {
	for _, x := range list {
		if x == s {
			return true
		}
	}
	return false
}

// pattern checks a binding pattern (binding=true) or an assignment target.
func (v *validator) pattern(t *irjs.Node, c vctx, binding bool) {
	switch {
	case t.IsNone():
		v.fail("missing target")
	case t.Atom:
		if !t.IsIdent() {
			v.fail("literal as target")
		}
		if t.Op == "arguments" || t.Op == "eval" {
			v.fail("arguments / eval as target")
		}
	case t.Is("opat"):
		for _, e := range t.Kids {
			switch e.Op {
			case "p":
				v.pattern(e.Kids[1], c, binding)
				if len(e.Kids) > 2 && !e.Kids[2].IsNone() {
					v.expr(e.Kids[2], c)
				}
			case "ps":
				v.pattern(e.Kids[0], c, binding)
				if len(e.Kids) > 1 && !e.Kids[1].IsNone() {
					v.expr(e.Kids[1], c)
				}
			case "rest":
				if !e.Kids[0].Atom {
					v.fail("object rest target must be an identifier")
				}
				v.pattern(e.Kids[0], c, binding)
			default:
				v.fail("bad object pattern element")
			}
		}
	case t.Is("apat"):
		for i, e := range t.Kids {
			switch {
			case e.IsNone():
			case e.Is("def"):
				v.pattern(e.Kids[0], c, binding)
				v.expr(e.Kids[1], c)
			case e.Is("rest"):
				if i != len(t.Kids)-1 {
					v.fail("rest element must be last")
				}
				v.pattern(e.Kids[0], c, binding)
			default:
				v.pattern(e, c, binding)
			}
		}
	case t.Is("."), t.Is("[]"), t.Is("superdot"):
		if binding {
			v.fail("member expression as binding target")
		}
		v.expr(t, c)
	default:
		v.fail("bad target " + t.Op)
	}
}

func (v *validator) function(f *irjs.Node, c vctx) {
	var params *irjs.Node
	var body []*irjs.Node
	var exprBody *irjs.Node
	fc := vctx{inFunc: true, strict: c.strict}
	arrow := false
	switch f.Op {
	case "fdecl", "func":
		params, body = f.Kids[1], f.Kids[2:]
		fc.nonArrow, fc.thisOK = true, true
	case "arrow":
		params, body = f.Kids[0], f.Kids[1:]
		arrow = true
	case "arrowe":
		params, exprBody = f.Kids[0], f.Kids[1]
		arrow = true
	case "method", "smethod":
		params, body = f.Kids[1], f.Kids[2:]
		fc.nonArrow, fc.thisOK, fc.superProp = true, true, true
	case "get", "sget":
		params, body = irjs.N("params"), f.Kids[1:]
		fc.nonArrow, fc.thisOK, fc.superProp = true, true, true
	case "set", "sset":
		params, body = irjs.N("params", f.Kids[1]), f.Kids[2:]
		fc.nonArrow, fc.thisOK, fc.superProp = true, true, true
	case "ctor":
		params, body = f.Kids[0], f.Kids[1:]
		fc.nonArrow, fc.thisOK, fc.superProp = true, true, true
		fc.superCall = c.superCall // set by class()
	}
	if arrow {
		fc.nonArrow, fc.thisOK, fc.superProp, fc.superCall = c.nonArrow, c.thisOK, c.superProp, c.superCall
	}
	if !params.Is("params") {
		v.fail("bad parameter list")
		return
	}
	var names []string
	simple := true
	for i, p := range params.Kids {
		if !p.Atom {
			simple = false
		}
		if p.Is("rest") && i != len(params.Kids)-1 {
			v.fail("rest parameter must be last")
		}
		names = irjs.BoundNames(p, names)
		switch {
		case p.Is("def"):
			v.pattern(p.Kids[0], fc, true)
			v.expr(p.Kids[1], fc)
		case p.Is("rest"):
			v.pattern(p.Kids[0], fc, true)
		default:
			v.pattern(p, fc, true)
		}
	}
	useStrict := false
	for _, s := range body {
		if s.Is("directive") {
			if s.Kids[0].Op == `"use strict"` {
				useStrict = true
			}
			continue
		}
		break
	}
	if useStrict {
		fc.strict = true
		if !simple {
			v.fail("use strict with non-simple parameters")
		}
	}
	if dup(names) {
		if !simple || arrow || f.Op != "fdecl" && f.Op != "func" || fc.strict {
			v.fail("duplicate parameter names")
		}
		v.info.SloppyOnly = true
	}
	if exprBody != nil {
		v.expr(exprBody, fc)
		return
	}
	v.scopeCheck(body, names, true, true)
	v.stmtList(body, fc, true)
}

func (v *validator) class(n *irjs.Node, c vctx) {
	cc := c
	cc.strict = true
	derived := !n.Kids[1].IsNone()
	if derived {
		v.expr(n.Kids[1], cc)
	}
	ctors := 0
	for _, m := range n.Kids[2:] {
		switch m.Op {
		case "ctor":
			ctors++
			mc := cc
			mc.superCall = derived
			v.function(m, mc)
		case "method", "smethod", "get", "sget", "set", "sset":
			mc := cc
			mc.superCall = false
			if m.Kids[0].Op == "constructor" || m.Kids[0].Op == "prototype" && m.Op[0] == 's' {
				v.fail("reserved class member name")
			}
			v.function(m, mc)
		case "field", "sfield":
			if m.Kids[0].Op == "constructor" || m.Kids[0].Op == "prototype" {
				v.fail("reserved field name")
			}
			if len(m.Kids) > 1 && !m.Kids[1].IsNone() {
				fc := vctx{inFunc: true, thisOK: true, superProp: true, strict: true}
				v.expr(m.Kids[1], fc)
			}
		default:
			v.fail("bad class member " + m.Op)
		}
	}
	if ctors > 1 {
		v.fail("more than one constructor")
	}
}

func (v *validator) expr(e *irjs.Node, c vctx) {
	if !v.ok {
		return
	}
	if e == nil || e.IsNone() {
		v.fail("missing expression")
		return
	}
	if e.Atom {
		switch e.Op {
		case "this":
			if !c.thisOK {
				v.fail("this outside a function")
			}
		case "arguments":
			if !c.nonArrow {
				v.fail("arguments outside a non-arrow function")
			}
		case "eval":
			v.fail("eval in the base IR")
		}
		return
	}
	op := e.Op
	switch {
	case irjs.IsBinaryOp(op) || irjs.IsLogicalOp(op):
		v.expr(e.Kids[0], c)
		v.expr(e.Kids[1], c)
		return
	case irjs.IsAssignOp(op):
		t := e.Kids[0]
		if op != "=" && (t.Is("opat") || t.Is("apat")) {
			v.fail("compound assignment to a pattern")
		}
		v.pattern(t, c, false)
		v.expr(e.Kids[1], c)
		return
	case irjs.IsUpdateOp(op):
		t := e.Kids[0]
		if t.Is("opat") || t.Is("apat") {
			v.fail("update of a pattern")
		}
		v.pattern(t, c, false)
		return
	}
	switch op {
	case "neg", "pos", "!", "~", "void", "typeof":
		v.expr(e.Kids[0], c)
	case "delete":
		if !(e.Kids[0].Is(".") || e.Kids[0].Is("[]")) {
			v.fail("delete of a non-member expression")
		}
		v.expr(e.Kids[0], c)
	case "?:", ",", "[]", "new", "call", "tpl":
		for i, k := range e.Kids {
			if k.IsStr() && op == "tpl" {
				continue
			}
			if k.Is("spread") && (op == "call" || op == "new") && i > 0 {
				v.expr(k.Kids[0], c)
				continue
			}
			v.expr(k, c)
		}
	case ".":
		v.expr(e.Kids[0], c)
	case "super":
		if !c.superCall {
			v.fail("super call outside a derived constructor")
		}
		for _, k := range e.Kids {
			if k.Is("spread") {
				v.expr(k.Kids[0], c)
			} else {
				v.expr(k, c)
			}
		}
	case "superdot":
		if !c.superProp {
			v.fail("super property outside a method")
		}
	case "func", "arrow", "arrowe":
		v.function(e, c)
	case "class":
		v.class(e, c)
	case "obj":
		for _, pr := range e.Kids {
			switch pr.Op {
			case "prop":
				if pr.Kids[0].Op == "__proto__" {
					v.fail("__proto__ property")
				}
				v.expr(pr.Kids[1], c)
			case "cprop":
				v.expr(pr.Kids[0], c)
				v.expr(pr.Kids[1], c)
			case "short":
				v.expr(pr.Kids[0], c)
			case "spread":
				v.expr(pr.Kids[0], c)
			case "method", "get", "set":
				mc := c
				mc.superCall = false
				v.function(pr, mc)
			default:
				v.fail("bad property " + pr.Op)
			}
		}
	case "arr":
		for _, k := range e.Kids {
			switch {
			case k.IsNone():
			case k.Is("spread"):
				v.expr(k.Kids[0], c)
			default:
				v.expr(k, c)
			}
		}
	case "evalstr":
		v.fail("evalstr in the base IR")
	default:
		v.fail("unknown expression " + op)
	}
}
