package c02

import (
	"verif/ref/irjs"
)

// role of an operand within its parent construct.
type role uint8

const (
	rOther    role = iota // structural operand (case, catch, property, member, for-head ...): descend, no site
	rStmt                 // statement that is an element of a statement list
	rSub                  // sub-statement (body of if / loop / label / with)
	rExpr                 // expression in value position
	rCallee               // callee of a call
	rTypeofOp             // operand of typeof (value position, but an unresolvable identifier is legal)
	rTarget               // assignment / update / delete target or binding pattern
	rName                 // name, label, property key, literal chunk: not an expression
	rParams               // (params ...)
)

func nodeRoles(n *irjs.Node) []role {
	k := len(n.Kids)
	rs := make([]role, k)
	fill := func(from int, r role) {
		for i := from; i < k; i++ {
			rs[i] = r
		}
	}
	set := func(i int, r role) {
		if i < k {
			rs[i] = r
		}
	}
	op := n.Op
	switch {
	case irjs.IsBinaryOp(op) || irjs.IsLogicalOp(op):
		fill(0, rExpr)
		return rs
	case irjs.IsAssignOp(op):
		set(0, rTarget)
		set(1, rExpr)
		return rs
	case irjs.IsUpdateOp(op):
		set(0, rTarget)
		return rs
	}
	switch op {
	case "prog", "block", "default", "finally":
		fill(0, rStmt)
	case "directive":
		fill(0, rName)
	case "expr", "return", "throw", "spread", "evalstr":
		fill(0, rExpr)
	case "var", "let", "const":
		set(0, rTarget)
		set(1, rExpr)
	case "fdecl", "func":
		set(0, rName)
		set(1, rParams)
		fill(2, rStmt)
	case "arrow":
		set(0, rParams)
		fill(1, rStmt)
	case "arrowe":
		set(0, rParams)
		set(1, rExpr)
	case "classdecl", "class":
		set(0, rName)
		set(1, rExpr)
		fill(2, rOther)
	case "ctor":
		set(0, rParams)
		fill(1, rStmt)
	case "method", "smethod":
		set(0, rName)
		set(1, rParams)
		fill(2, rStmt)
	case "get", "sget":
		set(0, rName)
		fill(1, rStmt)
	case "set", "sset":
		set(0, rName)
		set(1, rTarget)
		fill(2, rStmt)
	case "field", "sfield":
		set(0, rName)
		set(1, rExpr)
	case "if":
		set(0, rExpr)
		set(1, rSub)
		set(2, rSub)
	case "for":
		set(0, rOther)
		set(1, rExpr)
		set(2, rExpr)
		set(3, rSub)
	case "forin", "forof":
		set(0, rOther)
		set(1, rExpr)
		set(2, rSub)
	case "while", "with":
		set(0, rExpr)
		set(1, rSub)
	case "dowhile":
		set(0, rSub)
		set(1, rExpr)
	case "switch":
		set(0, rExpr)
		fill(1, rOther)
	case "case":
		set(0, rExpr)
		fill(1, rStmt)
	case "label":
		set(0, rName)
		set(1, rSub)
	case "break", "continue":
		fill(0, rName)
	case "try":
		fill(0, rOther)
	case "catch":
		set(0, rTarget)
		fill(1, rStmt)
	case "empty":
	case "neg", "pos", "!", "~", "void":
		fill(0, rExpr)
	case "typeof":
		fill(0, rTypeofOp)
	case "delete":
		fill(0, rTarget)
	case "?:", ",", "arr", "super":
		fill(0, rExpr)
	case ".":
		set(0, rExpr)
		set(1, rName)
	case "[]":
		fill(0, rExpr)
	case "call":
		set(0, rCallee)
		fill(1, rExpr)
	case "new":
		fill(0, rExpr)
	case "superdot":
		fill(0, rName)
	case "obj":
		fill(0, rOther)
	case "prop":
		set(0, rName)
		set(1, rExpr)
	case "cprop":
		fill(0, rExpr)
	case "short":
		fill(0, rName)
	case "tpl":
		for i, c := range n.Kids {
			if c.IsStr() {
				rs[i] = rName
			} else {
				rs[i] = rExpr
			}
		}
	case "params":
		fill(0, rTarget)
	// patterns (reached through rTarget)
	case "opat", "apat":
		fill(0, rTarget)
	case "p":
		set(0, rName)
		set(1, rTarget)
		set(2, rExpr)
	case "ps":
		set(0, rName)
		set(1, rExpr)
	case "def":
		set(0, rTarget)
		set(1, rExpr)
	case "rest":
		set(0, rTarget)
	default:
		panic("c02: nodeRoles: unknown construct " + op)
	}
	return rs
}

// isFunctionNode: constructs that start a new function (for this / arguments / return / break scoping).
func isFunctionNode(n *irjs.Node) bool {
	if n == nil || n.Atom {
		return false
	}
	switch n.Op {
	case "fdecl", "func", "arrow", "arrowe", "ctor", "method", "smethod", "get", "sget", "set", "sset":
		return true
	}
	return false
}

func isArrowNode(n *irjs.Node) bool { return n.Is("arrow") || n.Is("arrowe") }

// site is one node of a program together with its position.
type site struct {
	n      *irjs.Node
	path   []int
	role   role
	parent *irjs.Node
	idx    int  // index in parent.Kids
	inFunc bool // inside a function of the program (completion values are not observable there)
	// function nesting: the innermost enclosing function node (nil at top level) and its path
	fn     *irjs.Node
	fnPath []int
}

// walkSites visits every node in pre-order.
func walkSites(root *irjs.Node, visit func(s *site)) {
	var rec func(n *irjs.Node, s *site)
	rec = func(n *irjs.Node, s *site) {
		visit(s)
		if n.Atom || n.IsNone() {
			return
		}
		roles := nodeRoles(n)
		for i, k := range n.Kids {
			if k == nil {
				continue
			}
			cs := &site{n: k, path: append(append([]int(nil), s.path...), i), role: roles[i], parent: n, idx: i,
				inFunc: s.inFunc, fn: s.fn, fnPath: s.fnPath}
			if isFunctionNode(n) || n.Is("field") || n.Is("sfield") {
				cs.inFunc = true
				if isFunctionNode(n) {
					cs.fn, cs.fnPath = n, s.path
				}
			}
			rec(k, cs)
		}
	}
	rec(root, &site{n: root, role: rOther})
}

// replaceAt returns a copy of root in which the node at path is replaced by repl (only the spine is copied).
func replaceAt(root *irjs.Node, path []int, repl *irjs.Node) *irjs.Node {
	if len(path) == 0 {
		return repl
	}
	c := &irjs.Node{Op: root.Op, Atom: root.Atom, Kids: append([]*irjs.Node(nil), root.Kids...)}
	c.Kids[path[0]] = replaceAt(root.Kids[path[0]], path[1:], repl)
	return c
}

// updateAt returns a copy of root in which the node at path is replaced by f(node).
func updateAt(root *irjs.Node, path []int, f func(*irjs.Node) *irjs.Node) *irjs.Node {
	if len(path) == 0 {
		return f(root)
	}
	c := &irjs.Node{Op: root.Op, Atom: root.Atom, Kids: append([]*irjs.Node(nil), root.Kids...)}
	c.Kids[path[0]] = updateAt(root.Kids[path[0]], path[1:], f)
	return c
}

func nodeAt(root *irjs.Node, path []int) *irjs.Node {
	for _, i := range path {
		root = root.Kids[i]
	}
	return root
}

// withKids returns a shallow copy of n with other operands.
func withKids(n *irjs.Node, kids []*irjs.Node) *irjs.Node {
	return &irjs.Node{Op: n.Op, Kids: kids}
}

// insertKid returns a copy of n with x inserted at operand position i.
func insertKid(n *irjs.Node, i int, x ...*irjs.Node) *irjs.Node {
	kids := make([]*irjs.Node, 0, len(n.Kids)+len(x))
	kids = append(kids, n.Kids[:i]...)
	kids = append(kids, x...)
	kids = append(kids, n.Kids[i:]...)
	return withKids(n, kids)
}

// bodyStart is the operand index at which the statement list of a list-holding construct begins
// (-1: n holds no statement list).
func bodyStart(n *irjs.Node) int {
	if n == nil || n.Atom {
		return -1
	}
	switch n.Op {
	case "prog", "block", "default", "finally":
		return 0
	case "case", "catch", "arrow", "ctor", "get", "sget":
		return 1
	case "fdecl", "func", "method", "smethod", "set", "sset":
		return 2
	}
	return -1
}

// afterDirectives: index of the first non-directive statement of the list held by n.
func afterDirectives(n *irjs.Node) int {
	i := bodyStart(n)
	for i < len(n.Kids) && n.Kids[i].Is("directive") {
		i++
	}
	return i
}
