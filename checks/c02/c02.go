// Package c02 decides C02 (compiled code = definitional semantics; compiler choices are invisible) by
// translation validation over a bounded-exhaustive space of programs: every IR tree (Go AST, package
// verif/ref/irjs) of a family of grammar slices up to a node bound, each run (a) by the definitional
// environment-record interpreter irjs and (b) compiled by the engine in five placements x two modes and under
// every single (thorough: every pair with a scope-affecting second) application of a catalogue of
// semantics-preserving rewrites that only alter compiler decisions. All runs of one IR must agree on the log of
// host calls, the exception (constructor / payload) and - where observable and preserved - the completion value.
package c02

import (
	"encoding/json"
	"fmt"
	"sort"
	"strings"
	"sync"

	"verif/core"
	"verif/ref/irjs"
)

func init() {
	core.Register(&core.Check{
		ID:    "C02",
		Level: "translation_validation",
		Rule: "bounded-exhaustive enumeration by rank of all IR trees of each grammar slice up to the reported node bound (simplest first), x {sloppy, strict} x placements {global, function, arrow, direct eval in function, direct eval in global code} x every applicable site of the rewrite catalogue R1..R8 (one rewrite; thorough: pairs whose second rewrite is scope-affecting). " +
			"programs = compiled program texts executed; disagreements_checked = comparisons between two runs of the same IR whose bytecode dumps (VerifProgramDump) really differ (rewrite vs base in the same placement) plus irjs-vs-engine comparisons whose bytecode dump had not been seen before; a case is non-trivial when the compared bytecode differs.",
		Run:    run,
		Replay: replay,
	})
}

// Case identifies one failing comparison (replay file).
type Case struct {
	IR        string `json:"ir"`                // S-expression of the base IR program
	Slice     string `json:"slice,omitempty"`   // grammar slice / corpus
	Strict    bool   `json:"strict"`            //
	Oracle    string `json:"oracle"`            // "def" (irjs vs engine) | "diff" (variant vs base) | "compile"
	Placement string `json:"placement"`         // placement of the compared run
	Rewrite   string `json:"rewrite,omitempty"` // rule@site[+rule@site]
	Kind      string `json:"kind"`              // what differs: log | value | exception | outcome | compile
	Sig       string `json:"sig"`
	BaseJS    string `json:"base_js,omitempty"`
	CaseJS    string `json:"case_js,omitempty"`
	Want      string `json:"want,omitempty"`
	Got       string `json:"got,omitempty"`
	Origin    string `json:"origin,omitempty"` // IR before shrinking
}

// dumpSeen is the global set of bytecode dump hashes already compared against irjs.
type shardedSet struct {
	mu [64]sync.Mutex
	m  [64]map[uint64]struct{}
}

func newShardedSet() *shardedSet {
	s := &shardedSet{}
	for i := range s.m {
		s.m[i] = map[uint64]struct{}{}
	}
	return s
}

func (s *shardedSet) add(h uint64) bool {
	i := h & 63
	s.mu[i].Lock()
	_, ok := s.m[i][h]
	if !ok {
		s.m[i][h] = struct{}{}
	}
	s.mu[i].Unlock()
	return !ok
}

type config struct {
	placements     []Placement // placements in which the base program is run
	allVarPl       bool        // variants run in {global, func, eval}; otherwise func (+ global for completion-sensitive rules)
	strictVariants bool        // variants also run in strict mode (otherwise only when the IR is strict-only)
	pairs          bool
}

// completionRules: rewrites that touch statement structure (completion-value tracking); in the quick tier their
// variants also run as global code, where the completion value is observable.
var completionRules = map[string]bool{"R3with": true, "R4cond": true, "R4void": true, "R4var": true, "R4seq": true, "R5iff": true, "R5after": true,
	"R5label": true, "R6block": true, "R6stmt": true, "R8let": true}

var plFunc = []Placement{PFunc}
var plFuncGlobal = []Placement{PFunc, PGlobal}
var plAllVar = []Placement{PFunc, PGlobal, PEval}

func (c *config) varPlacements(rule string) []Placement {
	if c.allVarPl {
		return plAllVar
	}
	if completionRules[rule] {
		return plFuncGlobal
	}
	return plFunc
}

// wantDump: placements whose program dump shows the compiled program text (eval code is compiled at run time and
// is not part of the dump of the calling script).
func wantDump(pl Placement) bool { return pl == PGlobal || pl == PFunc }

// worker holds the state of one explorer (one per worker process; replay uses one in-process).
type worker struct {
	cfg  *config
	in   *irjs.Interp
	eng  *engine
	seen *shardedSet
	// counters and findings, handed over by takeResults
	programs, disagreements, evals, nontrivial, trivialPairs, invalid, aborted int64
	perRule                                                                    map[string]int64
	violations                                                                 []violationRec
	samples                                                                    []map[string]interface{}
}

// violationRec is one reported failure (merged by signature in the parent / core).
type violationRec struct {
	Sig   string `json:"sig"`
	What  string `json:"what"`
	Case  Case   `json:"case"`
	Count int64  `json:"count"`
}

// results is what a worker hands over after a task.
type results struct {
	Programs      int64                    `json:"programs"`
	Disagreements int64                    `json:"disagreements"`
	Evals         int64                    `json:"evals"`
	Nontrivial    int64                    `json:"nontrivial"`
	TrivialPairs  int64                    `json:"trivial_pairs"`
	Invalid       int64                    `json:"invalid"`
	Aborted       int64                    `json:"aborted"`
	PerRule       map[string]int64         `json:"per_rule,omitempty"`
	Violations    []violationRec           `json:"violations,omitempty"`
	Samples       []map[string]interface{} `json:"samples,omitempty"`
}

func newWorker(cfg *config, seen *shardedSet) *worker {
	return &worker{cfg: cfg, in: irjs.NewInterp(irjs.NewHost()), eng: &engine{}, seen: seen, perRule: map[string]int64{}}
}

func (w *worker) violation(sig, what string, c Case) {
	for i := range w.violations {
		if w.violations[i].Sig == sig {
			w.violations[i].Count++
			return
		}
	}
	w.violations = append(w.violations, violationRec{Sig: sig, What: what, Case: c, Count: 1})
}

func (w *worker) takeResults() results {
	res := results{Programs: w.programs, Disagreements: w.disagreements, Evals: w.evals, Nontrivial: w.nontrivial, TrivialPairs: w.trivialPairs,
		Invalid: w.invalid, Aborted: w.aborted, PerRule: w.perRule, Violations: w.violations, Samples: w.samples}
	w.programs, w.disagreements, w.evals, w.nontrivial, w.trivialPairs, w.invalid, w.aborted = 0, 0, 0, 0, 0, 0, 0
	w.perRule = map[string]int64{}
	w.violations, w.samples = nil, nil
	return res
}

// merge adds a worker's results to the run.
func merge(r *core.Run, res *results) {
	r.Programs(res.Programs)
	r.Disagreements(res.Disagreements)
	r.Eval(res.Evals)
	r.NontrivialN(res.Nontrivial)
	r.Add("trivial_pairs_same_bytecode", res.TrivialPairs)
	r.Add("ir_rejected_static", res.Invalid)
	r.Add("ir_no_verdict_budget", res.Aborted)
	for k, v := range res.PerRule {
		r.Add("variants_"+k, v)
	}
	for _, v := range res.Violations {
		for i := int64(0); i < v.Count; i++ {
			r.Violation(v.Sig, v.What, v.Case)
		}
	}
	for _, s := range res.Samples {
		r.Sample(s)
	}
}

// refRun interprets the IR definitionally; an abort (budget / unsupported) discards the interpreter's runtime.
func (w *worker) refRun(p *irjs.Node, strict bool) *irjs.Result {
	res := w.in.Run(p, strict)
	if res.Abort != "" {
		w.in = irjs.NewInterp(irjs.NewHost())
	}
	return res
}

type failure struct {
	oracle, kind, placement, rewrite string
	strict                           bool
	want, got                        string
	baseJS, caseJS                   string
}

// diffKind compares two results; withValue: completion values are comparable.
func diffKind(a, b *irjs.Result, withValue bool) string {
	if a.Abort != "" || b.Abort != "" {
		if strings.HasPrefix(a.Abort, "PANIC") || strings.HasPrefix(b.Abort, "PANIC") {
			return "panic"
		}
		return ""
	}
	if len(a.Log) != len(b.Log) {
		return "log"
	}
	for i := range a.Log {
		if a.Log[i] != b.Log[i] {
			return "log"
		}
	}
	if a.Threw != b.Threw {
		return "outcome"
	}
	if a.Threw {
		if a.Exc != b.Exc {
			return "exception"
		}
		return ""
	}
	if withValue && a.Value != b.Value {
		return "value"
	}
	return ""
}

// checkProgram runs every comparison for one IR program and returns the failures found.
func (w *worker) checkProgram(p *irjs.Node) (fails []failure) {
	ok, info, _ := Validate(p)
	if !ok {
		w.invalid++
		return nil
	}
	names := identNames(p)
	var singles []Variant
	singlesDone := false
	var refs [2]*irjs.Result
	var bases [2][nPlacements]*runOut
	for mi, strict := range []bool{false, true} {
		if strict && info.SloppyOnly || !strict && info.StrictOnly {
			continue
		}
		mp := modeProg(p, strict)
		js := irjs.Print(mp)
		ref := w.refRun(mp, false)
		refs[mi] = ref
		if ref.Abort != "" {
			w.aborted++
			continue
		}
		// base runs in every placement
		for _, pl := range w.cfg.placements {
			out := w.eng.run(wrap(js, pl), pl, names, wantDump(pl))
			w.programs++
			w.evals++
			bases[mi][pl] = &out
			if out.compileErr != "" {
				fails = append(fails, failure{oracle: "compile", kind: "compile", placement: pl.String(), strict: strict, got: firstLine(out.compileErr), caseJS: js})
				continue
			}
			if out.res.Abort != "" && !strings.HasPrefix(out.res.Abort, "PANIC") {
				if pl == PGlobal {
					// the engine ran out of budget where the reference terminated quickly
					fails = append(fails, failure{oracle: "def", kind: "nontermination", placement: pl.String(), strict: strict, want: ref.Key(true), got: out.res.Key(true), caseJS: js})
				}
				continue
			}
			// definitional oracle: every placement against irjs
			if wantDump(pl) && w.seen.add(out.dumpHash) {
				w.disagreements++
				w.nontrivial++
			}
			if k := diffKind(ref, &out.res, pl.observesCompletion()); k != "" {
				fails = append(fails, failure{oracle: "def", kind: k, placement: pl.String(), strict: strict,
					want: ref.Key(pl.observesCompletion()), got: out.res.Key(pl.observesCompletion()), caseJS: js})
			}
		}
		// rewrites
		if !singlesDone {
			singles = singleVariants(p, 0)
			singlesDone = true
		}
		if strict && !w.cfg.strictVariants && !info.StrictOnly {
			continue
		}
		for vi := range singles {
			v := &singles[vi]
			if v.SloppyOnly && strict {
				continue
			}
			fails = append(fails, w.checkVariant(p, js, v, strict, names, &bases[mi], ref)...)
			if w.cfg.pairs {
				for _, v2 := range pairVariants(v) {
					v2 := v2
					if v2.SloppyOnly && strict {
						continue
					}
					fails = append(fails, w.checkVariant(p, js, &v2, strict, names, &bases[mi], ref)...)
				}
			}
		}
	}
	// R9: strict <-> sloppy where the reference semantics is mode-insensitive
	if refs[0] != nil && refs[1] != nil && refs[0].Abort == "" && refs[1].Abort == "" && modeInsensitive(refs[0], refs[1]) {
		for _, pl := range w.cfg.placements {
			a, b := bases[0][pl], bases[1][pl]
			if a == nil || b == nil || a.compileErr != "" || b.compileErr != "" {
				continue
			}
			if wantDump(pl) {
				if a.dumpHash != b.dumpHash {
					w.disagreements++
				} else {
					w.trivialPairs++
				}
			}
			if k := diffKind(&a.res, &b.res, false); k != "" {
				js := irjs.Print(p)
				fails = append(fails, failure{oracle: "diff", kind: k, placement: pl.String(), rewrite: "R9strict", strict: true,
					want: a.res.Key(false), got: b.res.Key(false), baseJS: js, caseJS: js})
			}
		}
	}
	return fails
}

// modeInsensitive: the reference runs of the sloppy and the strict form of a program agree (the strict form has
// an extra directive whose value is the completion value of an otherwise value-less program: values are
// compared only when neither run ended with the directive's value).
func modeInsensitive(sloppy, strict *irjs.Result) bool {
	if sloppy.Key(false) != strict.Key(false) {
		return false
	}
	return true
}

// scopeRules are the rules allowed as the second rewrite of a pair (they change allocation / scope decisions).
var scopeRules = map[string]bool{"R1var": true, "R2arrow": true, "R2call": true, "R3eval": true, "R3with": true, "R5iff": true, "R7evalstr": true}

func pairVariants(v *Variant) []Variant {
	var res []Variant
	for i := range catalogue {
		r := &catalogue[i]
		if !scopeRules[r.name] {
			continue
		}
		r.gen(v.Prog, 1, func(v2 Variant) {
			res = append(res, Variant{Prog: v2.Prog, Desc: v.Desc + "+" + r.name + v2.Desc, Exact: v.Exact && v2.Exact, SloppyOnly: v.SloppyOnly || v2.SloppyOnly})
		})
	}
	return res
}

func (w *worker) checkVariant(p *irjs.Node, js string, v *Variant, strict bool, names []string, bases *[nPlacements]*runOut, ref *irjs.Result) (fails []failure) {
	if crashShape(v.Prog) {
		w.perRule["skipped_known_fatal_shape"]++
		return nil
	}
	vjs := irjs.Print(modeProg(v.Prog, strict))
	vnames := identNames(v.Prog)
	rule := ruleOf(v.Desc)
	if i := strings.LastIndexByte(v.Desc, '+'); i >= 0 {
		rule = ruleOf(v.Desc[i+1:])
	}
	differs := false // the variant's bytecode differs from the base's in a placement whose dump shows the program
	for _, pl := range w.cfg.varPlacements(rule) {
		base := bases[pl]
		if base == nil || base.compileErr != "" || base.res.Abort != "" {
			continue
		}
		needDump := pl == PFunc // the other placements reuse the verdict of the function placement (same text change)
		out := w.eng.run(wrap(vjs, pl), pl, vnames, needDump)
		w.programs++
		w.evals++
		w.perRule[rule]++
		if out.compileErr != "" {
			fails = append(fails, failure{oracle: "compile", kind: "compile", placement: pl.String(), rewrite: v.Desc, strict: strict, got: firstLine(out.compileErr), baseJS: js, caseJS: vjs})
			continue
		}
		if needDump {
			differs = out.dumpHash != base.dumpHash
		}
		if differs {
			w.disagreements++
			w.nontrivial++
		} else {
			w.trivialPairs++
		}
		withValue := pl.observesCompletion() && v.Exact
		if k := diffKind(&base.res, &out.res, withValue); k != "" {
			fails = append(fails, failure{oracle: "diff", kind: k, placement: pl.String(), rewrite: v.Desc, strict: strict,
				want: base.res.Key(withValue), got: out.res.Key(withValue), baseJS: js, caseJS: vjs})
		} else if out.res.Abort != "" && base.res.Abort == "" && ref.Abort == "" {
			fails = append(fails, failure{oracle: "diff", kind: "nontermination", placement: pl.String(), rewrite: v.Desc, strict: strict,
				want: base.res.Key(withValue), got: out.res.Key(withValue), baseJS: js, caseJS: vjs})
		}
	}
	return fails
}

// ---------- reporting: confirmation, shrinking, signatures ----------

// sameClass: two failures of the same class (oracle, kind, rule, mode).
func sameClass(a, b *failure) bool {
	return a.oracle == b.oracle && a.kind == b.kind && ruleOf(a.rewrite) == ruleOf(b.rewrite) && a.strict == b.strict &&
		(a.oracle != "compile" || a.got == b.got)
}

// recheck re-runs exactly the comparison class of f on program q (used for confirmation, shrinking and replay):
// the reference run and the run in f's placement for a definitional failure; the base run plus every variant of
// f's rule(s) in f's placement for a differential failure.
func (w *worker) recheck(q *irjs.Node, f *failure) *failure {
	ok, info, _ := Validate(q)
	if !ok || f.strict && info.SloppyOnly || !f.strict && info.StrictOnly {
		return nil
	}
	pl, okp := placementByName(f.placement)
	if !okp {
		return nil
	}
	mq := modeProg(q, f.strict)
	js := irjs.Print(mq)
	names := identNames(q)
	withV := pl.observesCompletion()
	switch f.oracle {
	case "def":
		ref := w.refRun(mq, false)
		if ref.Abort != "" {
			return nil
		}
		out := w.eng.run(wrap(js, pl), pl, names, false)
		if out.compileErr != "" {
			return nil
		}
		k := diffKind(ref, &out.res, withV)
		if k == "" && out.res.Abort != "" {
			k = "nontermination"
		}
		if k == f.kind {
			return &failure{oracle: "def", kind: k, placement: f.placement, strict: f.strict, want: ref.Key(withV), got: out.res.Key(withV), caseJS: js}
		}
		return nil
	case "compile":
		if f.rewrite == "" {
			out := w.eng.run(wrap(js, pl), pl, names, false)
			if out.compileErr != "" && firstLine(out.compileErr) == f.got {
				return &failure{oracle: "compile", kind: "compile", placement: f.placement, strict: f.strict, got: f.got, caseJS: js}
			}
			return nil
		}
	}
	if f.rewrite == "R9strict" {
		sq := modeProg(q, true)
		a := w.eng.run(wrap(irjs.Print(q), pl), pl, names, false)
		b := w.eng.run(wrap(irjs.Print(sq), pl), pl, names, false)
		r0, r1 := w.refRun(q, false), w.refRun(sq, false)
		if a.compileErr != "" || b.compileErr != "" || r0.Abort != "" || r1.Abort != "" || !modeInsensitive(r0, r1) {
			return nil
		}
		if k := diffKind(&a.res, &b.res, false); k == f.kind {
			return &failure{oracle: "diff", kind: k, placement: f.placement, rewrite: "R9strict", strict: true, want: a.res.Key(false), got: b.res.Key(false), baseJS: js, caseJS: js}
		}
		return nil
	}
	// differential / compile failure of a rewritten program
	base := w.eng.run(wrap(js, pl), pl, names, false)
	if base.compileErr != "" || base.res.Abort != "" {
		return nil
	}
	parts := splitPlus(f.rewrite)
	var cands []Variant
	r1 := ruleByName(ruleOf(parts[0]))
	if r1 == nil {
		return nil
	}
	r1.gen(q, 0, func(v Variant) {
		v.Desc = r1.name + v.Desc
		if len(parts) == 1 {
			cands = append(cands, v)
			return
		}
		r2 := ruleByName(ruleOf(parts[1]))
		if r2 == nil {
			return
		}
		r2.gen(v.Prog, 1, func(v2 Variant) {
			cands = append(cands, Variant{Prog: v2.Prog, Desc: v.Desc + "+" + r2.name + v2.Desc, Exact: v.Exact && v2.Exact, SloppyOnly: v.SloppyOnly || v2.SloppyOnly})
		})
	})
	for i := range cands {
		v := &cands[i]
		if v.SloppyOnly && f.strict || crashShape(v.Prog) {
			continue
		}
		vjs := irjs.Print(modeProg(v.Prog, f.strict))
		out := w.eng.run(wrap(vjs, pl), pl, identNames(v.Prog), false)
		if out.compileErr != "" {
			if f.oracle == "compile" && firstLine(out.compileErr) == f.got {
				return &failure{oracle: "compile", kind: "compile", placement: f.placement, rewrite: v.Desc, strict: f.strict, got: f.got, baseJS: js, caseJS: vjs}
			}
			continue
		}
		if f.oracle != "diff" {
			continue
		}
		wv := withV && v.Exact
		k := diffKind(&base.res, &out.res, wv)
		if k == "" && out.res.Abort != "" {
			k = "nontermination"
		}
		if k == f.kind {
			return &failure{oracle: "diff", kind: k, placement: f.placement, rewrite: v.Desc, strict: f.strict, want: base.res.Key(wv), got: out.res.Key(wv), baseJS: js, caseJS: vjs}
		}
	}
	return nil
}

// shrink greedily reduces p while a failure of the same class persists.
func (w *worker) shrink(p *irjs.Node, f *failure, cls string) (*irjs.Node, *failure) {
	cur, curF := p, f
	budget := 600
	for improved := true; improved && budget > 0; {
		improved = false
		for _, q := range shrinkCandidates(cur) {
			budget--
			if budget <= 0 {
				break
			}
			if g := w.recheck(q, curF); g != nil {
				if cls != "" && classify(caseProgram(q, g), g) != cls {
					continue
				}
				cur, curF = q, g
				improved = true
				break
			}
		}
	}
	return cur, curF
}

// shrinkCandidates lists smaller programs, most aggressive reductions first.
func shrinkCandidates(p *irjs.Node) []*irjs.Node {
	var res []*irjs.Node
	size := p.Size()
	add := func(q *irjs.Node) {
		if q.Size() < size {
			res = append(res, q)
		}
	}
	var sites []*site
	walkSites(p, func(s *site) { sites = append(sites, s) })
	// 1. delete a statement from a list
	for _, s := range sites {
		if s.role == rStmt {
			s := s
			add(updateAt(p, s.path[:len(s.path)-1], func(h *irjs.Node) *irjs.Node {
				kids := append([]*irjs.Node(nil), h.Kids[:s.idx]...)
				kids = append(kids, h.Kids[s.idx+1:]...)
				return withKids(h, kids)
			}))
		}
	}
	// 2. replace a statement by one of its sub-statements / by the statements of its block
	for _, s := range sites {
		if s.role != rStmt && s.role != rSub {
			continue
		}
		n := s.n
		if n.Atom {
			continue
		}
		roles := nodeRoles(n)
		for i, k := range n.Kids {
			if roles[i] == rSub && !k.IsNone() {
				add(replaceAt(p, s.path, k))
			}
		}
		if s.role == rStmt && (n.Is("block") || n.Is("try")) {
			inner := n.Kids
			if n.Is("try") {
				inner = n.Kids[0].Kids
			}
			s := s
			add(updateAt(p, s.path[:len(s.path)-1], func(h *irjs.Node) *irjs.Node {
				kids := append([]*irjs.Node(nil), h.Kids[:s.idx]...)
				kids = append(kids, inner...)
				kids = append(kids, h.Kids[s.idx+1:]...)
				return withKids(h, kids)
			}))
		}
		// statement with an expression operand -> expression statement of that operand
		if !n.Is("expr") {
			for i, k := range n.Kids {
				if roles[i] == rExpr && !k.IsNone() {
					add(replaceAt(p, s.path, irjs.N("expr", k)))
				}
			}
		}
	}
	// 3. replace an expression by one of its operand expressions, or by 0
	for _, s := range sites {
		if s.role != rExpr || s.n.IsNone() {
			continue
		}
		n := s.n
		if !n.Atom {
			roles := nodeRoles(n)
			for i, k := range n.Kids {
				if (roles[i] == rExpr || roles[i] == rCallee || roles[i] == rTypeofOp) && !k.IsNone() && !k.Is("spread") {
					add(replaceAt(p, s.path, k))
				}
			}
			// immediately invoked function: its returned expression
			if n.Is("call") && len(n.Kids) == 1 {
				switch f := n.Kids[0]; {
				case f.Is("arrowe"):
					add(replaceAt(p, s.path, f.Kids[1]))
				case f.Is("func") && len(f.Kids) == 3 && f.Kids[2].Is("return") && len(f.Kids[2].Kids) == 1:
					add(replaceAt(p, s.path, f.Kids[2].Kids[0]))
				}
			}
			add(replaceAt(p, s.path, irjs.A("0")))
		}
	}
	// 3b. simpler host function
	for _, s := range sites {
		if s.n.IsAtom("mko") && s.role == rCallee {
			res = append(res, replaceAt(p, s.path, irjs.A("mk")))
		}
	}
	// 4. drop optional operands (else branch, catch / finally, initialisers, call arguments)
	for _, s := range sites {
		n := s.n
		if n.Atom {
			continue
		}
		switch {
		case n.Is("if") && len(n.Kids) > 2:
			add(replaceAt(p, s.path, withKids(n, n.Kids[:2])))
		case n.Is("try") && !n.Kids[1].IsNone() && !n.Kids[2].IsNone():
			add(replaceAt(p, s.path, withKids(n, []*irjs.Node{n.Kids[0], n.Kids[1], irjs.A(irjs.None)})))
			add(replaceAt(p, s.path, withKids(n, []*irjs.Node{n.Kids[0], irjs.A(irjs.None), n.Kids[2]})))
		case (n.Is("call") || n.Is("new")) && len(n.Kids) > 1:
			add(replaceAt(p, s.path, withKids(n, n.Kids[:len(n.Kids)-1])))
		case n.Is("params") && len(n.Kids) > 0:
			add(replaceAt(p, s.path, withKids(n, n.Kids[:len(n.Kids)-1])))
		case n.Is("def"):
			add(replaceAt(p, s.path, n.Kids[0]))
		}
	}
	return res
}

// skeleton is the canonical text of a (shrunk) program used in signatures: identifiers renamed by first
// occurrence, numbers -> #, strings -> $.
func skeleton(p *irjs.Node) string {
	ren := map[string]string{}
	keep := map[string]bool{"undefined": true, "arguments": true, "this": true, "true": true, "false": true, "null": true, "eval": true, "_": true}
	for _, h := range irjs.HostNames {
		keep[h] = true
	}
	var sb strings.Builder
	var rec func(n *irjs.Node)
	rec = func(n *irjs.Node) {
		if n.Atom {
			switch {
			case n.IsNum():
				sb.WriteString("#")
			case n.IsStr():
				sb.WriteString("$")
			case keep[n.Op]:
				sb.WriteString(n.Op)
			default:
				r, ok := ren[n.Op]
				if !ok {
					r = fmt.Sprintf("v%d", len(ren)+1)
					ren[n.Op] = r
				}
				sb.WriteString(r)
			}
			return
		}
		sb.WriteByte('(')
		switch {
		case irjs.IsUpdateOp(n.Op):
			sb.WriteString("update")
		case n.Op == "&&=" || n.Op == "||=" || n.Op == "??=":
			sb.WriteString("lop=")
		case irjs.IsAssignOp(n.Op) && n.Op != "=":
			sb.WriteString("op=")
		default:
			sb.WriteString(n.Op)
		}
		for _, k := range n.Kids {
			sb.WriteByte(' ')
			rec(k)
		}
		sb.WriteByte(')')
	}
	if p.Is("prog") {
		for i, k := range p.Kids {
			if i > 0 {
				sb.WriteByte(' ')
			}
			rec(k)
		}
	} else {
		rec(p)
	}
	s := sb.String()
	if len(s) > 140 {
		s = s[:140] + "..."
	}
	return s
}

// hasDeadJump: the program contains a break / continue statement in statically dead code (a branch of an if /
// loop with a constant condition, or after an unconditional break / continue / return / throw in the same list).
func hasDeadJump(p *irjs.Node) bool {
	found := false
	var stmt func(n *irjs.Node, dead bool)
	list := func(l []*irjs.Node, dead bool) {
		for _, s := range l {
			stmt(s, dead)
			if s.Is("break") || s.Is("continue") || s.Is("return") || s.Is("throw") {
				dead = true
			}
		}
	}
	var expr func(n *irjs.Node)
	expr = func(n *irjs.Node) {
		if n == nil || n.Atom {
			return
		}
		if b := bodyStart(n); b >= 0 && isFunctionNode(n) {
			list(n.Kids[b:], false)
			return
		}
		for _, k := range n.Kids {
			if irjs.IsStatement(k) {
				stmt(k, false)
			} else {
				expr(k)
			}
		}
	}
	stmt = func(n *irjs.Node, dead bool) {
		if n == nil || n.Atom || found {
			return
		}
		switch n.Op {
		case "break", "continue":
			if dead {
				found = true
			}
		case "block", "default", "finally":
			list(n.Kids, dead)
		case "case", "catch":
			list(n.Kids[1:], dead)
		case "if":
			t, known := constantTruth(n.Kids[0])
			isConst := constantExpr(n.Kids[0])
			stmt(n.Kids[1], dead || isConst && (!known || !t))
			if len(n.Kids) > 2 {
				stmt(n.Kids[2], dead || isConst && (!known || t))
			}
		case "while":
			t, known := constantTruth(n.Kids[0])
			stmt(n.Kids[1], dead || constantExpr(n.Kids[0]) && (!known || !t))
		case "dowhile":
			stmt(n.Kids[0], dead)
		case "for":
			t, known := constantTruth(n.Kids[1])
			stmt(n.Kids[3], dead || !n.Kids[1].IsNone() && constantExpr(n.Kids[1]) && (!known || !t))
		case "forin", "forof":
			stmt(n.Kids[2], dead)
		case "label", "with":
			stmt(n.Kids[1], dead)
		case "switch":
			for _, c := range n.Kids[1:] {
				stmt(c, dead)
			}
		case "try":
			list(n.Kids[0].Kids, dead)
			stmt(n.Kids[1], dead)
			stmt(n.Kids[2], dead)
		case "fdecl", "classdecl", "expr", "var", "let", "const", "return", "throw":
			expr(n)
		}
	}
	if p.Is("prog") {
		list(p.Kids, false)
	} else {
		stmt(p, false)
	}
	return found
}

// constantTruth: the truth value of a literal (known=false for anything else).
func constantTruth(e *irjs.Node) (truth, known bool) {
	if e == nil || !e.Atom {
		return false, false
	}
	switch {
	case e.Op == "true":
		return true, true
	case e.Op == "false" || e.Op == "null":
		return false, true
	case e.IsNum():
		return e.Op != "0", true
	case e.IsStr():
		return e.Op != `""`, true
	}
	return false, false
}

// constantExpr: built from literals and operators only (the compiler folds it).
func constantExpr(e *irjs.Node) bool {
	if e == nil || e.IsNone() {
		return false
	}
	if e.Atom {
		return e.IsNum() || e.IsStr() || e.Op == "true" || e.Op == "false" || e.Op == "null"
	}
	if irjs.IsBinaryOp(e.Op) || irjs.IsLogicalOp(e.Op) || e.Op == "neg" || e.Op == "pos" || e.Op == "!" || e.Op == "~" || e.Op == "void" || e.Op == "typeof" {
		for _, k := range e.Kids {
			if !constantExpr(k) {
				return false
			}
		}
		return true
	}
	return false
}

// caseProgram re-derives the program that actually failed (the rewritten one for a differential failure).
func caseProgram(p *irjs.Node, f *failure) *irjs.Node {
	if f.rewrite == "" || f.rewrite == "R9strict" {
		return p
	}
	if v, ok := applyDesc(p, f.rewrite); ok {
		return v.Prog
	}
	return p
}

const sigDeadJump = "dead-code|break-or-continue-in-dummy-compiled-code|enclosing-code-corrupted"

func signature(f *failure, shrunk *irjs.Node) string {
	if cls := classify(caseProgram(shrunk, f), f); cls != "" {
		return cls
	}
	if f.kind == "panic" {
		return fmt.Sprintf("%s|panic|%s|%s", f.oracle, normTok(strings.TrimPrefix(f.got, " ABORT ")), skeleton(shrunk))
	}
	mode := "sloppy"
	if f.strict {
		mode = "strict"
	}
	switch f.oracle {
	case "def":
		k := f.kind
		if f.placement != "global" {
			k += "@" + f.placement
		}
		return fmt.Sprintf("def|%s|%s", k, skeleton(shrunk))
	case "compile":
		return fmt.Sprintf("compile|%s|%s|%s", ruleOf(f.rewrite), normMsg(f.got), skeleton(shrunk))
	}
	_ = mode
	if ruleOf(f.rewrite) == "R7evalstr" && strings.Contains(f.got, "THROW error:SyntaxError") && !strings.Contains(f.want, "SyntaxError") {
		// the function's toString() text does not parse back: classify by the shape of the function, not by the program
		return "diff|R7evalstr|toString-not-reparseable|" + r7Shape(shrunk, f.rewrite)
	}
	return fmt.Sprintf("diff|%s|%s|%s", ruleOf(f.rewrite), f.kind, skeleton(shrunk))
}

// r7Shape describes the function that rule R7 replaced: its kind and, for an expression-bodied arrow, whether the
// body is printed in parentheses.
func r7Shape(p *irjs.Node, desc string) string {
	var k int
	fmt.Sscanf(desc[strings.IndexByte(desc, '@')+1:], "%d", &k)
	i := 0
	shape := "?"
	walkSites(p, func(s *site) {
		n := s.n
		if s.role != rExpr && s.role != rCallee {
			return
		}
		if !(n.Is("func") || n.Is("arrow") || n.Is("arrowe") || n.Is("class")) {
			return
		}
		if (n.Is("class") && !n.Kids[1].IsNone()) || (!n.Is("class") && usesSuper(n)) {
			return
		}
		if i == k {
			shape = n.Op
			if n.Is("arrowe") {
				b := n.Kids[1]
				if b.Atom || b.Is("call") || b.Is(".") || b.Is("[]") || b.Is("arr") || b.Is("tpl") {
					shape += "/bare-body"
				} else {
					shape += "/parenthesised-body"
				}
			}
		}
		i++
	})
	return shape
}

func normMsg(s string) string {
	if i := strings.Index(s, " at case.js"); i >= 0 {
		s = s[:i]
	}
	if len(s) > 80 {
		s = s[:80]
	}
	return s
}

// preSig is a cheap fingerprint of a failure (class + shape of the first difference). The first few failing
// programs of a fingerprint (the smallest, since enumeration is simplest-first) are confirmed and shrunk to get
// their signature; later ones are attributed to the signature those produced without repeating the work.
func preSig(f *failure) string {
	return fmt.Sprintf("%s|%s|%s|%v|%s", f.oracle, f.kind, ruleOf(f.rewrite), f.strict, firstDiff(f.want, f.got))
}

func normTok(s string) string {
	var sb strings.Builder
	for i := 0; i < len(s); i++ {
		c := s[i]
		if c >= '0' && c <= '9' {
			if sb.Len() == 0 || sb.String()[sb.Len()-1] != '#' {
				sb.WriteByte('#')
			}
			continue
		}
		sb.WriteByte(c)
	}
	return sb.String()
}

func firstDiff(a, b string) string {
	as, bs := strings.Split(a, ";"), strings.Split(b, ";")
	for i := 0; i < len(as) || i < len(bs); i++ {
		x, y := "<end>", "<end>"
		if i < len(as) {
			x = as[i]
		}
		if i < len(bs) {
			y = bs[i]
		}
		if x != y {
			return normTok(x) + "/" + normTok(y)
		}
	}
	return ""
}

type sigCacheT struct {
	mu sync.Mutex
	m  map[string]*sigEntry
}

type sigEntry struct {
	shrunk int
	sig    string
	what   string
	c      Case
}

var sigCache = sigCacheT{m: map[string]*sigEntry{}}

const shrinkPerFingerprint = 6

// report confirms a failure (5 fresh re-runs), shrinks the program and records the violation.
func (w *worker) report(p *irjs.Node, slice string, f failure) {
	cls := classify(caseProgram(p, &f), &f)
	key := cls
	if key == "" {
		key = preSig(&f)
	}
	sigCache.mu.Lock()
	e := sigCache.m[key]
	if e == nil {
		e = &sigEntry{}
		sigCache.m[key] = e
	}
	if e.sig != "" && (cls != "" || e.shrunk >= shrinkPerFingerprint) {
		sig, what, c := e.sig, e.what, e.c
		sigCache.mu.Unlock()
		w.violation(sig, what, c)
		return
	}
	e.shrunk++
	sigCache.mu.Unlock()

	fresh := newWorker(w.cfg, newShardedSet())
	for i := 0; i < 5; i++ {
		fresh.eng = &engine{}
		fresh.in = irjs.NewInterp(irjs.NewHost())
		if fresh.recheck(p, &f) == nil {
			w.violation("nondeterministic|"+f.oracle+"|"+f.kind, "a disagreement did not reproduce on fresh runtimes", w.mkCase(p, p, slice, &f, "nondeterministic"))
			return
		}
	}
	q, g := fresh.shrink(p, &f, cls)
	sig := signature(g, q)
	what := describe(g, q)
	c := w.mkCase(q, p, slice, g, sig)
	sigCache.mu.Lock()
	e.sig, e.what, e.c = sig, what, c
	sigCache.mu.Unlock()
	w.violation(sig, what, c)
}

func (w *worker) mkCase(q, origin *irjs.Node, slice string, f *failure, sig string) Case {
	c := Case{IR: q.String(), Slice: slice, Strict: f.strict, Oracle: f.oracle, Placement: f.placement, Rewrite: f.rewrite, Kind: f.kind,
		Sig: sig, BaseJS: f.baseJS, CaseJS: f.caseJS, Want: f.want, Got: f.got}
	if origin != q {
		c.Origin = origin.String()
	}
	return c
}

func describe(f *failure, q *irjs.Node) string {
	mode := "sloppy"
	if f.strict {
		mode = "strict"
	}
	js := strings.Join(strings.Fields(irjs.Print(q)), " ")
	switch f.oracle {
	case "def":
		return fmt.Sprintf("%s mode, %s placement: `%s` behaves differently (%s) from the definitional interpreter: expected %q, engine %q", mode, f.placement, js, f.kind, f.want, f.got)
	case "compile":
		return fmt.Sprintf("%s mode, %s placement, rewrite %q: a valid program is rejected: %s (program `%s`)", mode, f.placement, f.rewrite, f.got, js)
	}
	return fmt.Sprintf("%s mode, %s placement: rewrite %s of `%s` changes the behaviour (%s): base %q, variant %q", mode, f.placement, f.rewrite, js, f.kind, f.want, f.got)
}

// ---------- replay ----------

func replay(r *core.Run, raw json.RawMessage) {
	var c Case
	if err := json.Unmarshal(raw, &c); err != nil {
		r.Violation("replay|bad", err.Error(), nil)
		return
	}
	p, err := irjs.Parse(c.IR)
	if err != nil {
		r.Violation("replay|bad", err.Error(), nil)
		return
	}
	cfg := fullConfig(true)
	w := newWorker(cfg, newShardedSet())
	r.Eval(1)
	if c.Oracle == "fatal" {
		// the whole check of the program is repeated in this process: the fatal error, if it persists, ends the replay
		// with the Go runtime's own report and a non-zero exit status
		reportAll(w, p, c.Slice)
		res := w.takeResults()
		merge(r, &res)
		return
	}
	f := failure{oracle: c.Oracle, kind: c.Kind, rewrite: c.Rewrite, strict: c.Strict, got: c.Got}
	f.placement = c.Placement
	if g := w.recheck(p, &f); g != nil {
		r.Violation(c.Sig, describe(g, p), w.mkCase(p, p, c.Slice, g, c.Sig))
	}
}

// ---------- run ----------

var allPlacements = []Placement{PGlobal, PFunc, PArrow, PEval, PGEval}

// fullConfig: every variant in {func, global, eval} x both modes (thorough tier, corpus, replay).
func fullConfig(pairs bool) *config {
	return &config{placements: allPlacements, allVarPl: true, strictVariants: true, pairs: pairs}
}

// quickConfig: base program in all placements x both modes; variants in sloppy mode, function placement
// (+ global code for the completion-sensitive rules).
func quickConfig() *config {
	return &config{placements: allPlacements}
}

// reportAll checks one program and reports one failure per (oracle, kind, rule) class.
func reportAll(w *worker, p *irjs.Node, slice string) {
	fails := w.checkProgram(p)
	if len(fails) == 0 {
		return
	}
	sort.SliceStable(fails, func(i, j int) bool { return fails[i].oracle < fails[j].oracle }) // compile, def, diff
	done := []failure{}
next:
	for _, f := range fails {
		for i := range done {
			if sameClass(&done[i], &f) {
				continue next
			}
		}
		done = append(done, f)
		// a definitional failure usually explains the differential ones of the same program: report it first and
		// skip differentials of the same kind
		if f.oracle == "diff" {
			explained := false
			for i := range done {
				if done[i].oracle == "def" && done[i].kind == f.kind {
					explained = true
				}
			}
			if explained {
				continue
			}
		}
		w.report(p, slice, f)
	}
}
