// Package c02 decides C02 (compiled code = definitional semantics; compiler choices are invisible) by
// translation validation over a bounded-exhaustive space of programs: every IR tree (Go AST, package
// verif/ref/irjs) of a family of grammar slices up to a node bound, each run (a) by the definitional
// environment-record interpreter irjs and (b) compiled by the engine in five placements x two modes and under
// every single (thorough: every pair with a scope-affecting second) application of a catalogue of
// semantics-preserving rewrites that only alter compiler decisions. All runs of one IR must agree on the log of
// host calls, the exception (constructor / payload) and - where observable and preserved - the completion value.
package c02

import (
	"encoding/json"
	"fmt"
	"sort"
	"strings"
	"sync"

	"verif/core"
	"verif/ref/irjs"
)

func init() {
	core.Register(&core.Check{
		ID:    "C02",
		Level: "translation_validation",
		Rule: "bounded-exhaustive enumeration by rank of all IR trees of each grammar slice up to the reported node bound (simplest first), x {sloppy, strict} x placements {global, function, arrow, direct eval in function, direct eval in global code} x every applicable site of the rewrite catalogue R1..R8 (one rewrite; thorough: pairs whose second rewrite is scope-affecting). " +
			"programs = compiled program texts executed; disagreements_checked = comparisons between two runs of the same IR whose bytecode dumps (VerifProgramDump) really differ (rewrite vs base in the same placement) plus irjs-vs-engine comparisons whose bytecode dump had not been seen before; a case is non-trivial when the compared bytecode differs.",
		Run:    run,
		Replay: replay,
	})
}

// Case identifies one failing comparison (replay file).
type Case struct {
	IR        string `json:"ir"`                // S-expression of the base IR program
	Slice     string `json:"slice,omitempty"`   // grammar slice / corpus
	Strict    bool   `json:"strict"`            //
	Oracle    string `json:"oracle"`            // "def" (irjs vs engine) | "diff" (variant vs base) | "compile"
	Placement string `json:"placement"`         // placement of the compared run
	Rewrite   string `json:"rewrite,omitempty"` // rule@site[+rule@site]
	Kind      string `json:"kind"`              // what differs: log | value | exception | outcome | compile
	Sig       string `json:"sig"`
	BaseJS    string `json:"base_js,omitempty"`
	CaseJS    string `json:"case_js,omitempty"`
	Want      string `json:"want,omitempty"`
	Got       string `json:"got,omitempty"`
	Origin    string `json:"origin,omitempty"` // IR before shrinking
}

// dumpSeen is the global set of bytecode dump hashes already compared against irjs.
type shardedSet struct {
	mu [64]sync.Mutex
	m  [64]map[uint64]struct{}
}

func newShardedSet() *shardedSet {
	s := &shardedSet{}
	for i := range s.m {
		s.m[i] = map[uint64]struct{}{}
	}
	return s
}

func (s *shardedSet) add(h uint64) bool {
	i := h & 63
	s.mu[i].Lock()
	_, ok := s.m[i][h]
	if !ok {
		s.m[i][h] = struct{}{}
	}
	s.mu[i].Unlock()
	return !ok
}

type config struct {
	placements    []Placement // placements in which the base program is run
	varPlacements []Placement // placements in which single-rewrite variants are run
	pairs         bool
}

// worker holds the per-goroutine state.
type worker struct {
	r    *core.Run
	cfg  *config
	in   *irjs.Interp
	eng  *engine
	seen *shardedSet
	// counters, flushed at the end of a chunk
	programs, disagreements, evals, nontrivial, trivialPairs, invalid, aborted, compileRejected int64
	perRule                                                                                      map[string]int64
}

func newWorker(r *core.Run, cfg *config, seen *shardedSet) *worker {
	return &worker{r: r, cfg: cfg, in: irjs.NewInterp(irjs.NewHost()), eng: &engine{}, seen: seen, perRule: map[string]int64{}}
}

func (w *worker) flush() {
	w.r.Programs(w.programs)
	w.r.Disagreements(w.disagreements)
	w.r.Eval(w.evals)
	w.r.NontrivialN(w.nontrivial)
	w.r.Add("trivial_pairs_same_bytecode", w.trivialPairs)
	w.r.Add("ir_rejected_static", w.invalid)
	w.r.Add("ir_no_verdict_budget", w.aborted)
	for k, v := range w.perRule {
		w.r.Add("variants_"+k, v)
	}
	w.programs, w.disagreements, w.evals, w.nontrivial, w.trivialPairs, w.invalid, w.aborted = 0, 0, 0, 0, 0, 0, 0
	w.perRule = map[string]int64{}
}

// refRun interprets the IR definitionally; an abort (budget / unsupported) discards the interpreter's runtime.
func (w *worker) refRun(p *irjs.Node, strict bool) *irjs.Result {
	res := w.in.Run(p, strict)
	if res.Abort != "" {
		w.in = irjs.NewInterp(irjs.NewHost())
	}
	return res
}

type failure struct {
	oracle, kind, placement, rewrite string
	strict                           bool
	want, got                        string
	baseJS, caseJS                   string
}

// diffKind compares two results; withValue: completion values are comparable.
func diffKind(a, b *irjs.Result, withValue bool) string {
	if a.Abort != "" || b.Abort != "" {
		if strings.HasPrefix(a.Abort, "PANIC") || strings.HasPrefix(b.Abort, "PANIC") {
			return "panic"
		}
		return ""
	}
	if len(a.Log) != len(b.Log) {
		return "log"
	}
	for i := range a.Log {
		if a.Log[i] != b.Log[i] {
			return "log"
		}
	}
	if a.Threw != b.Threw {
		return "outcome"
	}
	if a.Threw {
		if a.Exc != b.Exc {
			return "exception"
		}
		return ""
	}
	if withValue && a.Value != b.Value {
		return "value"
	}
	return ""
}

// checkProgram runs every comparison for one IR program and returns the failures found.
func (w *worker) checkProgram(p *irjs.Node, collect bool) (fails []failure) {
	ok, info, _ := Validate(p)
	if !ok {
		w.invalid++
		return nil
	}
	js := irjs.Print(p)
	names := identNames(p)
	var singles []Variant
	singlesDone := false
	var refs [2]*irjs.Result
	var bases [2][nPlacements]*runOut
	for mi, strict := range []bool{false, true} {
		if strict && info.SloppyOnly || !strict && info.StrictOnly {
			continue
		}
		ref := w.refRun(p, strict)
		refs[mi] = ref
		if ref.Abort != "" {
			w.aborted++
			continue
		}
		// base runs in every placement
		for _, pl := range w.cfg.placements {
			out := w.eng.run(wrap(js, pl, strict), pl, names, true)
			w.programs++
			w.evals++
			bases[mi][pl] = &out
			if out.compileErr != "" {
				fails = append(fails, failure{oracle: "compile", kind: "compile", placement: pl.String(), strict: strict, got: firstLine(out.compileErr), caseJS: js})
				continue
			}
			if out.res.Abort != "" && !strings.HasPrefix(out.res.Abort, "PANIC") {
				if pl == PGlobal {
					// the engine ran out of budget where the reference terminated quickly
					fails = append(fails, failure{oracle: "def", kind: "nontermination", placement: pl.String(), strict: strict, want: ref.Key(true), got: out.res.Key(true), caseJS: js})
				}
				continue
			}
			// definitional oracle: every placement against irjs
			if w.seen.add(out.dumpHash) {
				w.disagreements++
				w.nontrivial++
			}
			if k := diffKind(ref, &out.res, pl.observesCompletion()); k != "" {
				fails = append(fails, failure{oracle: "def", kind: k, placement: pl.String(), strict: strict,
					want: ref.Key(pl.observesCompletion()), got: out.res.Key(pl.observesCompletion()), caseJS: js})
			}
		}
		// rewrites
		if !singlesDone {
			singles = singleVariants(p, 0)
			singlesDone = true
		}
		for vi := range singles {
			v := &singles[vi]
			if v.SloppyOnly && strict {
				continue
			}
			fails = append(fails, w.checkVariant(p, js, v, strict, names, &bases[mi], ref)...)
			if w.cfg.pairs {
				for _, v2 := range pairVariants(v) {
					v2 := v2
					if v2.SloppyOnly && strict {
						continue
					}
					fails = append(fails, w.checkVariant(p, js, &v2, strict, names, &bases[mi], ref)...)
				}
			}
		}
	}
	// R9: strict <-> sloppy where the reference semantics is mode-insensitive
	if refs[0] != nil && refs[1] != nil && refs[0].Abort == "" && refs[1].Abort == "" && refs[0].Key(true) == refs[1].Key(true) {
		for _, pl := range w.cfg.placements {
			a, b := bases[0][pl], bases[1][pl]
			if a == nil || b == nil || a.compileErr != "" || b.compileErr != "" {
				continue
			}
			if a.dumpHash != b.dumpHash {
				w.disagreements++
			} else {
				w.trivialPairs++
			}
			if k := diffKind(&a.res, &b.res, pl.observesCompletion()); k != "" {
				fails = append(fails, failure{oracle: "diff", kind: k, placement: pl.String(), rewrite: "R9strict", strict: true,
					want: a.res.Key(pl.observesCompletion()), got: b.res.Key(pl.observesCompletion()), baseJS: js, caseJS: js})
			}
		}
	}
	return fails
}

// scopeRules are the rules allowed as the second rewrite of a pair (they change allocation / scope decisions).
var scopeRules = map[string]bool{"R1var": true, "R2arrow": true, "R2call": true, "R3eval": true, "R3with": true, "R5iff": true, "R7evalstr": true}

func pairVariants(v *Variant) []Variant {
	var res []Variant
	for i := range catalogue {
		r := &catalogue[i]
		if !scopeRules[r.name] {
			continue
		}
		r.gen(v.Prog, 1, func(v2 Variant) {
			res = append(res, Variant{Prog: v2.Prog, Desc: v.Desc + "+" + r.name + v2.Desc, Exact: v.Exact && v2.Exact, SloppyOnly: v.SloppyOnly || v2.SloppyOnly})
		})
	}
	return res
}

func (w *worker) checkVariant(p *irjs.Node, js string, v *Variant, strict bool, names []string, bases *[nPlacements]*runOut, ref *irjs.Result) (fails []failure) {
	vjs := irjs.Print(v.Prog)
	vnames := names
	if strings.Contains(v.Desc, "R") {
		vnames = identNames(v.Prog)
	}
	rule := ruleOf(v.Desc)
	for _, pl := range w.cfg.varPlacements {
		base := bases[pl]
		if base == nil || base.compileErr != "" || base.res.Abort != "" {
			continue
		}
		out := w.eng.run(wrap(vjs, pl, strict), pl, vnames, true)
		w.programs++
		w.evals++
		w.perRule[rule]++
		if out.compileErr != "" {
			fails = append(fails, failure{oracle: "compile", kind: "compile", placement: pl.String(), rewrite: v.Desc, strict: strict, got: firstLine(out.compileErr), baseJS: js, caseJS: vjs})
			continue
		}
		if out.dumpHash != base.dumpHash {
			w.disagreements++
			w.nontrivial++
		} else {
			w.trivialPairs++
		}
		withValue := pl.observesCompletion() && v.Exact
		if k := diffKind(&base.res, &out.res, withValue); k != "" {
			fails = append(fails, failure{oracle: "diff", kind: k, placement: pl.String(), rewrite: v.Desc, strict: strict,
				want: base.res.Key(withValue), got: out.res.Key(withValue), baseJS: js, caseJS: vjs})
		} else if out.res.Abort != "" && base.res.Abort == "" && ref.Abort == "" {
			fails = append(fails, failure{oracle: "diff", kind: "nontermination", placement: pl.String(), rewrite: v.Desc, strict: strict,
				want: base.res.Key(withValue), got: out.res.Key(withValue), baseJS: js, caseJS: vjs})
		}
	}
	return fails
}

// ---------- reporting: confirmation, shrinking, signatures ----------

// sameFailure: does program q still exhibit a failure of the same class as f?
func sameClass(a, b *failure) bool {
	return a.oracle == b.oracle && a.kind == b.kind && ruleOf(a.rewrite) == ruleOf(b.rewrite) && a.strict == b.strict &&
		(a.oracle != "compile" || a.got == b.got)
}

func (w *worker) findSame(q *irjs.Node, f *failure) *failure {
	for _, g := range w.checkProgram(q, true) {
		g := g
		if sameClass(&g, f) {
			return &g
		}
	}
	return nil
}

// shrink greedily reduces p while a failure of the same class persists.
func (w *worker) shrink(p *irjs.Node, f *failure) (*irjs.Node, *failure) {
	cur, curF := p, f
	budget := 400
	for improved := true; improved && budget > 0; {
		improved = false
		for _, q := range shrinkCandidates(cur) {
			budget--
			if budget <= 0 {
				break
			}
			if ok, _, _ := Validate(q); !ok {
				continue
			}
			if g := w.findSame(q, curF); g != nil {
				cur, curF = q, g
				improved = true
				break
			}
		}
	}
	return cur, curF
}

// shrinkCandidates lists smaller programs, most aggressive reductions first.
func shrinkCandidates(p *irjs.Node) []*irjs.Node {
	var res []*irjs.Node
	size := p.Size()
	add := func(q *irjs.Node) {
		if q.Size() < size {
			res = append(res, q)
		}
	}
	var sites []*site
	walkSites(p, func(s *site) { sites = append(sites, s) })
	// 1. delete a statement from a list
	for _, s := range sites {
		if s.role == rStmt {
			s := s
			add(updateAt(p, s.path[:len(s.path)-1], func(h *irjs.Node) *irjs.Node {
				kids := append([]*irjs.Node(nil), h.Kids[:s.idx]...)
				kids = append(kids, h.Kids[s.idx+1:]...)
				return withKids(h, kids)
			}))
		}
	}
	// 2. replace a statement by one of its sub-statements / by the statements of its block
	for _, s := range sites {
		if s.role != rStmt && s.role != rSub {
			continue
		}
		n := s.n
		if n.Atom {
			continue
		}
		roles := nodeRoles(n)
		for i, k := range n.Kids {
			if roles[i] == rSub && !k.IsNone() {
				add(replaceAt(p, s.path, k))
			}
		}
		if s.role == rStmt && (n.Is("block") || n.Is("try")) {
			inner := n.Kids
			if n.Is("try") {
				inner = n.Kids[0].Kids
			}
			s := s
			add(updateAt(p, s.path[:len(s.path)-1], func(h *irjs.Node) *irjs.Node {
				kids := append([]*irjs.Node(nil), h.Kids[:s.idx]...)
				kids = append(kids, inner...)
				kids = append(kids, h.Kids[s.idx+1:]...)
				return withKids(h, kids)
			}))
		}
		// statement with an expression operand -> expression statement of that operand
		if !n.Is("expr") {
			for i, k := range n.Kids {
				if roles[i] == rExpr && !k.IsNone() {
					add(replaceAt(p, s.path, irjs.N("expr", k)))
				}
			}
		}
	}
	// 3. replace an expression by one of its operand expressions, or by 0
	for _, s := range sites {
		if s.role != rExpr || s.n.IsNone() {
			continue
		}
		n := s.n
		if !n.Atom {
			roles := nodeRoles(n)
			for i, k := range n.Kids {
				if (roles[i] == rExpr || roles[i] == rCallee) && !k.IsNone() && !k.Is("spread") {
					add(replaceAt(p, s.path, k))
				}
			}
			add(replaceAt(p, s.path, irjs.A("0")))
		}
	}
	// 4. drop optional operands (else branch, catch / finally, initialisers, call arguments)
	for _, s := range sites {
		n := s.n
		if n.Atom {
			continue
		}
		switch {
		case n.Is("if") && len(n.Kids) > 2:
			add(replaceAt(p, s.path, withKids(n, n.Kids[:2])))
		case n.Is("try") && !n.Kids[1].IsNone() && !n.Kids[2].IsNone():
			add(replaceAt(p, s.path, withKids(n, []*irjs.Node{n.Kids[0], n.Kids[1], irjs.A(irjs.None)})))
			add(replaceAt(p, s.path, withKids(n, []*irjs.Node{n.Kids[0], irjs.A(irjs.None), n.Kids[2]})))
		case (n.Is("call") || n.Is("new")) && len(n.Kids) > 1:
			add(replaceAt(p, s.path, withKids(n, n.Kids[:len(n.Kids)-1])))
		case n.Is("params") && len(n.Kids) > 0:
			add(replaceAt(p, s.path, withKids(n, n.Kids[:len(n.Kids)-1])))
		case n.Is("def"):
			add(replaceAt(p, s.path, n.Kids[0]))
		}
	}
	return res
}

// skeleton is the canonical text of a (shrunk) program used in signatures: identifiers renamed by first
// occurrence, numbers -> #, strings -> $.
func skeleton(p *irjs.Node) string {
	ren := map[string]string{}
	keep := map[string]bool{"undefined": true, "arguments": true, "this": true, "true": true, "false": true, "null": true, "eval": true, "_": true}
	for _, h := range irjs.HostNames {
		keep[h] = true
	}
	var sb strings.Builder
	var rec func(n *irjs.Node)
	rec = func(n *irjs.Node) {
		if n.Atom {
			switch {
			case n.IsNum():
				sb.WriteString("#")
			case n.IsStr():
				sb.WriteString("$")
			case keep[n.Op]:
				sb.WriteString(n.Op)
			default:
				r, ok := ren[n.Op]
				if !ok {
					r = fmt.Sprintf("v%d", len(ren)+1)
					ren[n.Op] = r
				}
				sb.WriteString(r)
			}
			return
		}
		sb.WriteByte('(')
		sb.WriteString(n.Op)
		for _, k := range n.Kids {
			sb.WriteByte(' ')
			rec(k)
		}
		sb.WriteByte(')')
	}
	if p.Is("prog") {
		for i, k := range p.Kids {
			if i > 0 {
				sb.WriteByte(' ')
			}
			rec(k)
		}
	} else {
		rec(p)
	}
	s := sb.String()
	if len(s) > 140 {
		s = s[:140] + "..."
	}
	return s
}

func signature(f *failure, shrunk *irjs.Node) string {
	mode := "sloppy"
	if f.strict {
		mode = "strict"
	}
	switch f.oracle {
	case "def":
		return fmt.Sprintf("def|%s|%s", f.kind, skeleton(shrunk))
	case "compile":
		return fmt.Sprintf("compile|%s|%s|%s", ruleOf(f.rewrite), normMsg(f.got), skeleton(shrunk))
	}
	_ = mode
	return fmt.Sprintf("diff|%s|%s|%s", ruleOf(f.rewrite), f.kind, skeleton(shrunk))
}

func normMsg(s string) string {
	if i := strings.Index(s, " at case.js"); i >= 0 {
		s = s[:i]
	}
	if len(s) > 80 {
		s = s[:80]
	}
	return s
}

// report confirms a failure (5 fresh re-runs), shrinks the program and records the violation.
func (w *worker) report(p *irjs.Node, slice string, f failure) {
	fresh := newWorker(w.r, w.cfg, newShardedSet())
	for i := 0; i < 5; i++ {
		fresh.eng = &engine{}
		fresh.in = irjs.NewInterp(irjs.NewHost())
		if fresh.findSame(p, &f) == nil {
			w.r.Violation("nondeterministic|"+f.oracle+"|"+f.kind, "a disagreement did not reproduce on fresh runtimes", w.mkCase(p, p, slice, &f, "nondeterministic"))
			return
		}
	}
	q, g := fresh.shrink(p, &f)
	sig := signature(g, q)
	what := describe(g, q)
	w.r.Violation(sig, what, w.mkCase(q, p, slice, g, sig))
}

func (w *worker) mkCase(q, origin *irjs.Node, slice string, f *failure, sig string) Case {
	c := Case{IR: q.String(), Slice: slice, Strict: f.strict, Oracle: f.oracle, Placement: f.placement, Rewrite: f.rewrite, Kind: f.kind,
		Sig: sig, BaseJS: f.baseJS, CaseJS: f.caseJS, Want: f.want, Got: f.got}
	if origin != q {
		c.Origin = origin.String()
	}
	return c
}

func describe(f *failure, q *irjs.Node) string {
	mode := "sloppy"
	if f.strict {
		mode = "strict"
	}
	js := strings.Join(strings.Fields(irjs.Print(q)), " ")
	switch f.oracle {
	case "def":
		return fmt.Sprintf("%s mode, %s placement: `%s` behaves differently (%s) from the definitional interpreter: expected %q, engine %q", mode, f.placement, js, f.kind, f.want, f.got)
	case "compile":
		return fmt.Sprintf("%s mode, %s placement, rewrite %q: a valid program is rejected: %s (program `%s`)", mode, f.placement, f.rewrite, f.got, js)
	}
	return fmt.Sprintf("%s mode, %s placement: rewrite %s of `%s` changes the behaviour (%s): base %q, variant %q", mode, f.placement, f.rewrite, js, f.kind, f.want, f.got)
}

// ---------- replay ----------

func replay(r *core.Run, raw json.RawMessage) {
	var c Case
	if err := json.Unmarshal(raw, &c); err != nil {
		r.Violation("replay|bad", err.Error(), nil)
		return
	}
	p, err := irjs.Parse(c.IR)
	if err != nil {
		r.Violation("replay|bad", err.Error(), nil)
		return
	}
	cfg := fullConfig(true)
	w := newWorker(r, cfg, newShardedSet())
	f := failure{oracle: c.Oracle, kind: c.Kind, rewrite: c.Rewrite, strict: c.Strict, got: c.Got}
	r.Eval(1)
	if g := w.findSame(p, &f); g != nil {
		r.Violation(c.Sig, describe(g, p), w.mkCase(p, p, c.Slice, g, c.Sig))
	}
	w.flush()
}

// ---------- run ----------

func fullConfig(pairs bool) *config {
	return &config{
		placements:    []Placement{PGlobal, PFunc, PArrow, PEval, PGEval},
		varPlacements: []Placement{PGlobal, PFunc, PEval},
		pairs:         pairs,
	}
}

func run(r *core.Run) {
	r.Assume("the reference interpreter irjs uses the engine only for primitive operators on primitive values and for object primitives (get/set/define/delete/has, allocation, error construction) through pre-compiled one-line lambdas; every conversion of an object operand, every scoping, ordering, control-flow and completion-value decision is taken by irjs itself")
	r.Assume("engine-created errors are compared by constructor name only (messages are implementation-defined and depend on the instruction selected); thrown program values by their rendered value")
	r.Assume("programs whose reference run exceeds 4000 interpreter steps / call depth 40 give no verdict (counted as ir_no_verdict_budget); engine runs are cut at 200000 VM instructions")
	r.Assume("sloppy-mode block-level function declarations (Annex B.3.3 hoisting, not implemented by the engine) are kept out of the alphabet: programs with a function declaration in a block run in strict mode only")
	seen := newShardedSet()
	bounds := map[string]interface{}{}
	complete := true

	// 1. regression corpus (known findings + hand-written anchors), single rewrites, all placements
	cfgCorpus := fullConfig(r.Thorough())
	complete = runCorpus(r, cfgCorpus, seen, bounds) && complete

	// 2. grammar slices, by increasing size across all slices
	complete = runSlices(r, seen, bounds) && complete

	r.Set("bounds_completed", bounds)
	r.Exhaustive(complete)
}

func runCorpus(r *core.Run, cfg *config, seen *shardedSet, bounds map[string]interface{}) bool {
	ok := r.Parallel(int64(len(corpus)), 1, func(_ int, lo, hi int64) {
		w := newWorker(r, cfg, seen)
		for i := lo; i < hi; i++ {
			p := irjs.MustParse(corpus[i])
			if v, _, why := Validate(p); !v {
				r.Violation("corpus|invalid", "corpus program rejected by the static validity check: "+why, Case{IR: corpus[i]})
				continue
			}
			if i < 3 {
				r.Sample(map[string]interface{}{"slice": "corpus", "ir": corpus[i], "js": irjs.Print(p)})
			}
			reportAll(w, p, "corpus")
		}
		w.flush()
	})
	bounds["corpus"] = fmt.Sprintf("%d fixed programs x all placements x modes x single rewrites", len(corpus))
	return ok
}

// reportAll checks one program and reports one failure per (oracle, kind, rule) class.
func reportAll(w *worker, p *irjs.Node, slice string) {
	fails := w.checkProgram(p, false)
	if len(fails) == 0 {
		return
	}
	sort.SliceStable(fails, func(i, j int) bool { return fails[i].oracle < fails[j].oracle }) // compile, def, diff
	done := []failure{}
next:
	for _, f := range fails {
		for i := range done {
			if sameClass(&done[i], &f) {
				continue next
			}
		}
		done = append(done, f)
		// a definitional failure usually explains the differential ones of the same program: report it first and
		// skip differentials of the same kind
		if f.oracle == "diff" {
			explained := false
			for i := range done {
				if done[i].oracle == "def" && done[i].kind == f.kind {
					explained = true
				}
			}
			if explained {
				continue
			}
		}
		w.report(p, slice, f)
	}
}

func runSlices(r *core.Run, seen *shardedSet, bounds map[string]interface{}) bool {
	maxN := 0
	for _, s := range slices {
		if n := r.Pick(s.quickN, s.thorN); n > maxN {
			maxN = n
		}
	}
	gs := make([]*Grammar, len(slices))
	for i, s := range slices {
		gs[i] = MustGrammar(s.text, r.Pick(s.quickN, s.thorN))
	}
	cfg := fullConfig(false)
	cfgPairs := fullConfig(true)
	for n := 1; n <= maxN; n++ {
		for i, s := range slices {
			bound := r.Pick(s.quickN, s.thorN)
			if n > bound {
				continue
			}
			cnt := int64(gs[i].Count(s.start, n))
			if cnt == 0 {
				continue
			}
			g, sp := gs[i], s
			c := cfg
			if r.Thorough() && n <= s.pairN {
				c = cfgPairs
			}
			ok := r.Parallel(cnt, 64, func(_ int, lo, hi int64) {
				w := newWorker(r, c, seen)
				for idx := lo; idx < hi; idx++ {
					p := g.Unrank(sp.start, n, uint64(idx))
					if r.WantSample(idx) && idx > 16 {
						r.Sample(map[string]interface{}{"slice": sp.name, "nodes": n, "rank": idx, "ir": p.String(), "js": irjs.Print(p)})
					}
					reportAll(w, p, fmt.Sprintf("%s/n=%d/rank=%d", sp.name, n, idx))
				}
				w.flush()
			})
			if !ok {
				bounds["slice "+s.name] = fmt.Sprintf("nodes<=%d complete; size %d (%d trees) cut by the deadline", n-1, n, cnt)
				return false
			}
			bounds["slice "+s.name] = fmt.Sprintf("nodes<=%d complete (%d trees at the last size)", n, cnt)
		}
	}
	return true
}
