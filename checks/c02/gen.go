package c02

import (
	"fmt"
	"math"
	"strings"

	"verif/ref/irjs"
)

// Grammar is a rank-addressable generator of IR trees (engine E1): every derivation tree of a nonterminal with
// exactly n grammar nodes has a rank in [0, Count(nt,n)), and Unrank builds the IR tree (an *irjs.Node, not
// text) with that rank. Alternatives are listed simplest-first, so rank order is simplest-first within a size.
//
// Grammar text: one rule per line, "NT := alt | alt | ...". An alternative is an IR template in S-expression
// form whose atoms naming a nonterminal are slots. "(@ X Y)" splices its operands into the surrounding operand
// list (statement lists). An alternative costs 1 node unless prefixed by "@k " (k >= 0; k == 0 only for an
// alternative that is a single slot).
type Grammar struct {
	nts   map[string]*gnt
	order []string
	maxN  int
}

type gnt struct {
	name  string
	prods []*gprod
	count []uint64
}

type gprod struct {
	cost  int
	tmpl  *irjs.Node
	slots []*gnt
	ways  [][]uint64
}

func satAdd(a, b uint64) uint64 {
	if a > math.MaxUint64-b {
		return math.MaxUint64
	}
	return a + b
}

func satMul(a, b uint64) uint64 {
	if a == 0 || b == 0 {
		return 0
	}
	if a > math.MaxUint64/b {
		return math.MaxUint64
	}
	return a * b
}

func splitTop(s string) []string {
	var res []string
	depth, start := 0, 0
	inStr := false
	for i := 0; i < len(s); i++ {
		c := s[i]
		switch {
		case inStr:
			if c == '\\' {
				i++
			} else if c == '"' {
				inStr = false
			}
		case c == '"':
			inStr = true
		case c == '(':
			depth++
		case c == ')':
			depth--
		case c == '|' && depth == 0 && i > 0 && s[i-1] == ' ' && i+1 < len(s) && s[i+1] == ' ':
			res = append(res, strings.TrimSpace(s[start:i]))
			start = i + 1
		}
	}
	return append(res, strings.TrimSpace(s[start:]))
}

func MustGrammar(text string, maxN int) *Grammar {
	g := &Grammar{nts: map[string]*gnt{}, maxN: maxN}
	type raw struct{ lhs, rhs string }
	var rules []raw
	for _, line := range strings.Split(text, "\n") {
		line = strings.TrimSpace(line)
		if line == "" || strings.HasPrefix(line, "#") {
			continue
		}
		i := strings.Index(line, ":=")
		if i < 0 {
			// continuation line: more alternatives of the previous rule
			if len(rules) == 0 || !strings.HasPrefix(line, "|") {
				panic("c02 grammar: bad line " + line)
			}
			rules[len(rules)-1].rhs += " " + line
			continue
		}
		lhs := strings.TrimSpace(line[:i])
		rules = append(rules, raw{lhs, strings.TrimSpace(line[i+2:])})
		if g.nts[lhs] == nil {
			g.nts[lhs] = &gnt{name: lhs}
			g.order = append(g.order, lhs)
		}
	}
	for _, r := range rules {
		nt := g.nts[r.lhs]
		for _, alt := range splitTop(r.rhs) {
			if alt == "" {
				continue
			}
			p := &gprod{cost: 1}
			if strings.HasPrefix(alt, "@") && !strings.HasPrefix(alt, "@ ") {
				sp := strings.IndexByte(alt, ' ')
				fmt.Sscanf(alt[1:sp], "%d", &p.cost)
				alt = strings.TrimSpace(alt[sp:])
			}
			t, err := irjs.Parse(alt)
			if err != nil {
				panic(fmt.Sprintf("c02 grammar: %q: %v", alt, err))
			}
			p.tmpl = t
			t.Walk(func(n *irjs.Node) bool {
				// an atom naming a nonterminal is a slot; so is the head of a compound node (operator slot,
				// filled by an atom-producing nonterminal)
				if c, ok := g.nts[n.Op]; ok {
					p.slots = append(p.slots, c)
				}
				return true
			})
			if p.cost == 0 && len(p.slots) == 0 {
				panic("c02 grammar: zero-cost alternative needs a slot: " + alt)
			}
			nt.prods = append(nt.prods, p)
		}
	}
	for _, name := range g.order {
		g.nts[name].count = make([]uint64, maxN+1)
	}
	for size := 1; size <= maxN; size++ {
		for pass := 0; pass < 4; pass++ {
			for _, name := range g.order {
				nt := g.nts[name]
				var total uint64
				for _, p := range nt.prods {
					total = satAdd(total, g.prodCount(p, size))
				}
				nt.count[size] = total
			}
		}
	}
	for _, name := range g.order {
		for _, p := range g.nts[name].prods {
			g.buildWays(p)
		}
	}
	return g
}

func (g *Grammar) prodCount(p *gprod, n int) uint64 {
	m := n - p.cost
	if m < 0 {
		return 0
	}
	if len(p.slots) == 0 {
		if m == 0 {
			return 1
		}
		return 0
	}
	cur := make([]uint64, m+1)
	cur[0] = 1
	for _, c := range p.slots {
		next := make([]uint64, m+1)
		for used := 0; used <= m; used++ {
			if cur[used] == 0 {
				continue
			}
			for s := 1; used+s <= m; s++ {
				if c.count[s] != 0 {
					next[used+s] = satAdd(next[used+s], satMul(cur[used], c.count[s]))
				}
			}
		}
		cur = next
	}
	return cur[m]
}

func (g *Grammar) buildWays(p *gprod) {
	k := len(p.slots)
	p.ways = make([][]uint64, k+1)
	for j := range p.ways {
		p.ways[j] = make([]uint64, g.maxN+1)
	}
	p.ways[k][0] = 1
	for j := k - 1; j >= 0; j-- {
		c := p.slots[j]
		for m := 0; m <= g.maxN; m++ {
			var t uint64
			for s := 1; s <= m; s++ {
				if c.count[s] != 0 && p.ways[j+1][m-s] != 0 {
					t = satAdd(t, satMul(c.count[s], p.ways[j+1][m-s]))
				}
			}
			p.ways[j][m] = t
		}
	}
}

// Count is the number of trees of nonterminal name with exactly n nodes.
func (g *Grammar) Count(name string, n int) uint64 {
	if n < 1 || n > g.maxN {
		return 0
	}
	return g.nts[name].count[n]
}

// Unrank builds tree number idx of nonterminal name with n nodes.
func (g *Grammar) Unrank(name string, n int, idx uint64) *irjs.Node {
	return g.unrank(g.nts[name], n, idx)
}

func (g *Grammar) unrank(nt *gnt, size int, idx uint64) *irjs.Node {
	for _, p := range nt.prods {
		m := size - p.cost
		var c uint64
		if m >= 0 {
			if len(p.slots) == 0 {
				if m == 0 {
					c = 1
				}
			} else {
				c = p.ways[0][m]
			}
		}
		if idx >= c {
			idx -= c
			continue
		}
		kids := make([]*irjs.Node, len(p.slots))
		rem := m
		for j, ch := range p.slots {
			for s := 1; s <= rem; s++ {
				w := satMul(ch.count[s], p.ways[j+1][rem-s])
				if idx >= w {
					idx -= w
					continue
				}
				rest := p.ways[j+1][rem-s]
				kids[j] = g.unrank(ch, s, idx/rest)
				idx = idx % rest
				rem -= s
				break
			}
		}
		k := 0
		return g.instantiate(p.tmpl, kids, &k)
	}
	panic(fmt.Sprintf("c02 grammar: rank out of range for %s size %d", nt.name, size))
}

func (g *Grammar) instantiate(t *irjs.Node, kids []*irjs.Node, k *int) *irjs.Node {
	if t.Atom {
		if _, ok := g.nts[t.Op]; ok {
			r := kids[*k]
			*k++
			return r
		}
		return t // atoms are immutable and may be shared
	}
	n := &irjs.Node{Op: t.Op}
	if _, ok := g.nts[t.Op]; ok {
		h := kids[*k]
		*k++
		if !h.Atom {
			panic("c02 grammar: operator slot " + t.Op + " filled by a compound node")
		}
		n.Op = h.Op
	}
	for _, c := range t.Kids {
		x := g.instantiate(c, kids, k)
		if x.Is("@") {
			n.Kids = append(n.Kids, x.Kids...)
		} else {
			n.Kids = append(n.Kids, x)
		}
	}
	return n
}
