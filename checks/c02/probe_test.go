package c02

import (
	"fmt"
	"testing"

	"github.com/dop251/goja"
)

func TestProbe(t *testing.T) {
	for _, src := range []string{
		"function f(a = () => b, b = 1) { return b }; f(undefined, 2)",
		"function f(a = () => b, b = 1) { return b }; f(undefined)",
		"function f(a = () => b, b) { return b }; f(undefined, 2)",
		"function f(b = b) { return b }; f(2)",
		"function f(a, b = eval('1')) { return b }; f(1, 2)",
		"function f(a, b = eval('1')) { return b }; f(1)",
		"function f(a = eval('1'), b = 5) { return b }; f(1, 2)",
		"function f(a = eval('1'), b = 5) { return a+b }; f(1)",
	} {
		func() {
			defer func() {
				if x := recover(); x != nil {
					t.Logf("%s\n   => PANIC %v", src, x)
				}
			}()
			r := goja.New()
			v, err := r.RunString(src)
			t.Logf("%s\n   => %v %v", src, v, fmt.Sprint(err))
		}()
	}
}
