package c02

import "testing"

func TestCounts(t *testing.T) {
	for _, s := range slices {
		g := MustGrammar(s.text, s.thorN)
		for n := 1; n <= s.thorN; n++ {
			t.Logf("%s n=%d count=%d", s.name, n, g.Count(s.start, n))
		}
		for i := uint64(0); i < 5 && i < g.Count(s.start, s.quickN); i++ {
			t.Logf("  %s", g.Unrank(s.start, s.quickN, g.Count(s.start, s.quickN)-1-i*7919%g.Count(s.start, s.quickN)).String())
		}
	}
}
