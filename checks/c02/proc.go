package c02

import (
	"bufio"
	"encoding/binary"
	"encoding/json"
	"fmt"
	"io"
	"os"
	"os/exec"
	"strings"
	"sync"
	"syscall"
	"time"

	"verif/core"
	"verif/ref/irjs"
)

// Process isolation (engine E5). A Go fatal error of the engine under test (out of memory because of a corrupt
// length, stack exhaustion) cannot be recovered in-process, so the exploration runs in worker PROCESSES: the
// parent (the check itself) hands out tasks - index ranges of a slice at a size, or corpus entries - over a
// pipe, the children (this same binary started with C02_CHILD=1) run them and answer with counters and
// findings. A child announces every program before it checks it; when a child dies, the parent reports a
// "fatal" violation for exactly that program, restarts a child and re-queues the rest of the range.

type task struct {
	Kind  string `json:"kind"` // "corpus" | "slice"
	Slice int    `json:"slice"`
	N     int    `json:"n"`
	Lo    int64  `json:"lo"`
	Hi    int64  `json:"hi"`
	Cfg   string `json:"cfg"` // "quick" | "full" | "pairs"
}

type childMsg struct {
	Done *results `json:"done,omitempty"`
}

var parentGrammars sync.Map

// programOf re-derives (in the parent) the IR of program idx of a task.
func programOf(t task, idx int64) string {
	if t.Kind == "corpus" {
		if idx >= 0 && idx < int64(len(corpus)) {
			return corpus[idx]
		}
		return ""
	}
	s := slices[t.Slice]
	g, ok := parentGrammars.Load(s.name)
	if !ok {
		g, _ = parentGrammars.LoadOrStore(s.name, MustGrammar(s.text, s.thorN))
	}
	return g.(*Grammar).Unrank(s.start, t.N, uint64(idx)).String()
}

func init() {
	if os.Getenv("C02_CHILD") != "" {
		childMain()
		os.Exit(0)
	}
	if f := os.Getenv("C02_PROBE"); f != "" { // development aid / fatal probes: run one script file in this process
		src, err := os.ReadFile(f)
		if err != nil {
			fmt.Println(err)
			os.Exit(2)
		}
		limitMemory()
		e := &engine{}
		out := e.run(string(src), PGlobal, nil, false)
		fmt.Printf("compileErr=%q result=%s\n", out.compileErr, out.res.Key(true))
		os.Exit(0)
	}
}

// limitMemory: a corrupt length in the engine must fail fast instead of eating the machine.
func limitMemory() {
	var lim syscall.Rlimit
	if syscall.Getrlimit(syscall.RLIMIT_AS, &lim) == nil {
		lim.Cur = 8 << 30
		if lim.Max != 0 && lim.Max < lim.Cur {
			lim.Cur = lim.Max
		}
		syscall.Setrlimit(syscall.RLIMIT_AS, &lim)
	}
}

func configByName(name string) *config {
	switch name {
	case "quick":
		return quickConfig()
	case "pairs":
		return fullConfig(true)
	}
	return fullConfig(false)
}

func wantSample(i int64) bool { return i > 16 && i&(i-1) == 0 }

// childMain: read tasks from stdin, write progress / results to stdout.
func childMain() {
	limitMemory()
	progress := openProgress(os.Getenv("C02_PROGRESS"))
	in := bufio.NewReaderSize(os.Stdin, 1<<16)
	out := bufio.NewWriterSize(os.Stdout, 1<<16)
	enc := json.NewEncoder(out)
	seen := newShardedSet()
	grammars := map[string]*Grammar{}
	workers := map[string]*worker{}
	for {
		line, err := in.ReadBytes('\n')
		if len(line) == 0 && err != nil {
			return
		}
		var t task
		if json.Unmarshal(line, &t) != nil {
			return
		}
		w := workers[t.Cfg]
		if w == nil {
			w = newWorker(configByName(t.Cfg), seen)
			workers[t.Cfg] = w
		}
		announce := func(i int64, p *irjs.Node) { progress.set(i) }
		switch t.Kind {
		case "corpus":
			for i := t.Lo; i < t.Hi; i++ {
				p, perr := irjs.Parse(corpus[i])
				if perr != nil {
					w.violation("corpus|bad", perr.Error(), Case{IR: corpus[i]})
					continue
				}
				announce(i, p)
				if v, _, why := Validate(p); !v {
					w.violation("corpus|invalid", "corpus program rejected by the static validity check: "+why, Case{IR: corpus[i]})
					continue
				}
				if i < 3 {
					w.samples = append(w.samples, map[string]interface{}{"slice": "corpus", "ir": corpus[i], "js": irjs.Print(p)})
				}
				reportAll(w, p, "corpus")
			}
		case "slice":
			s := slices[t.Slice]
			key := fmt.Sprintf("%s/%d", s.name, t.N)
			g := grammars[s.name]
			if g == nil {
				g = MustGrammar(s.text, s.thorN)
				grammars[s.name] = g
			}
			_ = key
			for idx := t.Lo; idx < t.Hi; idx++ {
				p := g.Unrank(s.start, t.N, uint64(idx))
				announce(idx, p)
				if wantSample(idx) {
					w.samples = append(w.samples, map[string]interface{}{"slice": s.name, "nodes": t.N, "rank": idx, "ir": p.String(), "js": irjs.Print(p)})
				}
				reportAll(w, p, fmt.Sprintf("%s/n=%d/rank=%d", s.name, t.N, idx))
			}
		}
		res := w.takeResults()
		enc.Encode(childMsg{Done: &res})
		out.Flush()
		if err != nil {
			return
		}
	}
}

// progressCell is an 8-byte counter in a memory-mapped file: the child stores the index of the program it is about
// to check (a plain memory store, no system call); the parent reads the file after the child has died.
type progressCell struct {
	mem []byte
}

func openProgress(path string) *progressCell {
	pc := &progressCell{}
	if path == "" {
		return pc
	}
	f, err := os.OpenFile(path, os.O_RDWR|os.O_CREATE, 0o600)
	if err != nil {
		return pc
	}
	defer f.Close()
	if f.Truncate(8) != nil {
		return pc
	}
	mem, err := syscall.Mmap(int(f.Fd()), 0, 8, syscall.PROT_READ|syscall.PROT_WRITE, syscall.MAP_SHARED)
	if err == nil {
		pc.mem = mem
		pc.set(-1)
	}
	return pc
}

func (pc *progressCell) set(i int64) {
	if pc.mem != nil {
		binary.LittleEndian.PutUint64(pc.mem, uint64(i))
	}
}

func readProgress(path string) int64 {
	b, err := os.ReadFile(path)
	if err != nil || len(b) < 8 {
		return -1
	}
	return int64(binary.LittleEndian.Uint64(b))
}

// ---------- parent ----------

type child struct {
	progress string
	cmd      *exec.Cmd
	stdin    io.WriteCloser
	stdout   *bufio.Reader
	stderr   *tailBuffer
}

type tailBuffer struct {
	mu  sync.Mutex
	buf []byte
}

func (t *tailBuffer) Write(p []byte) (int, error) {
	t.mu.Lock()
	t.buf = append(t.buf, p...)
	if len(t.buf) > 1<<16 {
		t.buf = t.buf[len(t.buf)-(1<<15):]
	}
	t.mu.Unlock()
	return len(p), nil
}

func (t *tailBuffer) String() string { t.mu.Lock(); defer t.mu.Unlock(); return string(t.buf) }

func startChild() (*child, error) {
	exe, err := os.Executable()
	if err != nil {
		return nil, err
	}
	pf, err := os.CreateTemp("", "c02-progress-*")
	if err != nil {
		return nil, err
	}
	pf.Close()
	cmd := exec.Command(exe)
	cmd.Env = append(os.Environ(), "C02_CHILD=1", "GOMAXPROCS=2", "C02_PROGRESS="+pf.Name())
	stdin, err := cmd.StdinPipe()
	if err != nil {
		return nil, err
	}
	stdout, err := cmd.StdoutPipe()
	if err != nil {
		return nil, err
	}
	tb := &tailBuffer{}
	cmd.Stderr = tb
	if err := cmd.Start(); err != nil {
		return nil, err
	}
	return &child{progress: pf.Name(), cmd: cmd, stdin: stdin, stdout: bufio.NewReaderSize(stdout, 1<<20), stderr: tb}, nil
}

func (c *child) stop() {
	c.stdin.Close()
	c.cmd.Wait()
	os.Remove(c.progress)
}

// fatalLine extracts the Go runtime's first report line from a dead child's stderr.
func fatalLine(stderr string) string {
	for _, l := range strings.Split(stderr, "\n") {
		if strings.HasPrefix(l, "fatal error:") || strings.HasPrefix(l, "panic:") || strings.HasPrefix(l, "runtime:") || strings.HasPrefix(l, "signal:") {
			return strings.TrimSpace(l)
		}
	}
	if len(stderr) > 120 {
		return strings.TrimSpace(stderr[:120])
	}
	return strings.TrimSpace(stderr)
}

// pool keeps the worker processes alive across the steps of a run.
type pool struct {
	children []*child
}

func (pl *pool) stopAll() {
	for _, c := range pl.children {
		if c != nil {
			c.stop()
		}
	}
}

// runTasks runs tasks on the pool's worker processes. It returns false if the deadline cut the work.
func (pl *pool) runTasks(r *core.Run, tasks []task, sliceName func(t task) string) bool {
	if len(tasks) == 0 {
		return true
	}
	if pl.children == nil {
		pl.children = make([]*child, r.Workers)
	}
	var mu sync.Mutex
	stoppedEarly := false
	defer func() {
		if stoppedEarly {
			for !r.Expired() { // record the cap truthfully (a few seconds at most)
				time.Sleep(20 * time.Millisecond)
			}
		}
	}()
	queue := append([]task(nil), tasks...)
	complete := true
	next := func() (task, bool) {
		mu.Lock()
		defer mu.Unlock()
		if len(queue) == 0 {
			return task{}, false
		}
		if r.Expired() || time.Until(r.Deadline) < 3500*time.Millisecond {
			// a task takes 1-2 s: stop handing out work shortly before the deadline
			complete = false
			stoppedEarly = true
			queue = nil
			return task{}, false
		}
		t := queue[0]
		queue = queue[1:]
		return t, true
	}
	requeue := func(t task) {
		mu.Lock()
		queue = append([]task{t}, queue...)
		mu.Unlock()
	}
	n := r.Workers
	if n > len(tasks) {
		n = len(tasks)
	}
	var wg sync.WaitGroup
	for i := 0; i < n; i++ {
		wg.Add(1)
		go func(slot int) {
			defer wg.Done()
			c := pl.children[slot]
			defer func() { pl.children[slot] = c }()
			for {
				t, ok := next()
				if !ok {
					return
				}
				if c == nil {
					var err error
					if c, err = startChild(); err != nil {
						r.Violation("harness|cannot start worker process", err.Error(), nil)
						mu.Lock()
						complete = false
						mu.Unlock()
						return
					}
				}
				b, _ := json.Marshal(t)
				c.stdin.Write(append(b, '\n'))
				done := false
				for !done {
					line, err := c.stdout.ReadBytes('\n')
					if len(line) > 0 {
						var m childMsg
						if json.Unmarshal(line, &m) == nil {
							if m.Done != nil {
								merge(r, m.Done)
								done = true
							}
						}
					}
					if err != nil && !done {
						// the worker process died while checking program `at`
						c.cmd.Wait()
						msg := fatalLine(c.stderr.String())
						at := readProgress(c.progress)
						os.Remove(c.progress)
						c = nil
						atIR := ""
						if at >= t.Lo && at < t.Hi {
							atIR = programOf(t, at)
						}
						if atIR == "" {
							r.Violation("harness|worker process died before its first program", msg, nil)
							mu.Lock()
							complete = false
							mu.Unlock()
							return
						}
						sig := "fatal|" + normTok(msg)
						if p, perr := irjs.Parse(atIR); perr == nil {
							if cls := classifyFatal(p); cls != "" {
								sig = cls
							} else {
								sig += "|" + skeleton(p)
							}
						}
						r.Violation(sig, fmt.Sprintf("a worker process died with a Go fatal error (%s) while checking the program (some variant / placement of it): %s", msg, atIR),
							Case{IR: atIR, Slice: sliceName(t), Oracle: "fatal", Kind: "fatal", Sig: sig, Got: msg})
						if at+1 < t.Hi {
							rest := t
							rest.Lo = at + 1
							requeue(rest)
						}
						break
					}
				}
			}
		}(i)
	}
	wg.Wait()
	return complete
}

// runFatalProbes runs every fatal probe in a child process; a probe that kills its process is reported and
// switches on the guard that keeps its shape out of the exploration (the children inherit the environment).
func runFatalProbes(r *core.Run) {
	exe, err := os.Executable()
	if err != nil {
		return
	}
	for _, fp := range fatalProbes {
		f, err := os.CreateTemp("", "c02-probe-*.js")
		if err != nil {
			continue
		}
		f.WriteString(fp.script)
		f.Close()
		cmd := exec.Command(exe)
		cmd.Env = append(os.Environ(), "C02_PROBE="+f.Name())
		out, err := cmd.CombinedOutput()
		os.Remove(f.Name())
		r.Programs(1)
		r.Eval(1)
		if err != nil && (strings.Contains(string(out), "fatal error") || strings.Contains(string(out), "out of memory")) {
			os.Setenv(fp.guardEnv, "1")
			r.Violation(fp.sig, fp.what, Case{Oracle: "fatal", Kind: "fatal", Sig: fp.sig, CaseJS: fp.script, Got: fatalLine(string(out)),
				IR: `(prog (switch 1 (case 1 (let y 1) (expr (arrowe (params) y)))))`, Rewrite: "R7evalstr@0", Placement: "global"})
			r.Set("guard_"+fp.guardEnv, "on: the probe still kills its process; programs of this shape are not run in the workers")
		} else {
			r.Set("guard_"+fp.guardEnv, "off: the probe survives")
		}
	}
}

// ---------- run ----------

func run(r *core.Run) {
	r.Assume("the reference interpreter irjs uses the engine only for primitive operators on primitive values and for object primitives (get/set/define/delete/has, allocation, error construction) through pre-compiled one-line lambdas; every conversion of an object operand, every scoping, ordering, control-flow and completion-value decision is taken by irjs itself")
	r.Assume("engine-created errors are compared by constructor name only (messages are implementation-defined and depend on the instruction selected); thrown program values by their rendered value")
	r.Assume("programs whose reference run exceeds 4000 interpreter steps / call depth 40, or converts a function to a primitive (source text), give no verdict (counted as ir_no_verdict_budget); engine runs are cut at 200000 VM instructions")
	r.Assume("sloppy-mode block-level function declarations (Annex B.3.3 hoisting, not implemented by the engine) are kept out of the alphabet: programs with a function declaration in a block run in strict mode only")
	r.Assume("exploration runs in worker processes (a Go fatal error of the engine kills only the worker and is reported for the program being checked); 'bytecode not seen before' is judged per worker process")
	bounds := map[string]interface{}{}
	complete := true

	// 0. probes for known Go fatal errors, each in a process of its own
	runFatalProbes(r)
	pl := &pool{}
	defer pl.stopAll()

	sl := slices
	only := os.Getenv("C02_SLICES") // development aid: restrict the run to some slices
	sliceName := func(t task) string {
		if t.Kind == "corpus" {
			return "corpus"
		}
		return fmt.Sprintf("%s/n=%d", slices[t.Slice].name, t.N)
	}

	// 1. regression corpus (minimal inputs of the known findings + hand-written anchors): all rewrites, all
	//    placements, both modes (thorough: also pairs)
	cfgCorpus := "full"
	if r.Thorough() {
		cfgCorpus = "pairs"
	}
	var ctasks []task
	for i := range corpus {
		ctasks = append(ctasks, task{Kind: "corpus", Lo: int64(i), Hi: int64(i + 1), Cfg: cfgCorpus})
	}
	if !pl.runTasks(r, ctasks, sliceName) {
		complete = false
		bounds["corpus"] = "cut by the deadline"
	} else {
		bounds["corpus"] = fmt.Sprintf("%d fixed programs x all placements x modes x single rewrites", len(corpus))
		if r.Thorough() {
			bounds["corpus"] = fmt.Sprintf("%d fixed programs x all placements x modes x single rewrites and rewrite pairs", len(corpus))
		}
	}

	// 2. grammar slices, by increasing size across all slices
	maxN := 0
	gs := make([]*Grammar, len(sl))
	for i, s := range sl {
		if n := r.Pick(s.quickN, s.thorN); n > maxN {
			maxN = n
		}
		gs[i] = MustGrammar(s.text, s.thorN)
	}
	cfgName := "quick"
	if r.Thorough() {
		cfgName = "full"
	}
sizes:
	for n := 1; n <= maxN && complete; n++ {
		for i, s := range sl {
			if only != "" && !strings.Contains(","+only+",", ","+s.name+",") {
				continue
			}
			if n > r.Pick(s.quickN, s.thorN) {
				continue
			}
			cnt := int64(gs[i].Count(s.start, n))
			if cnt == 0 {
				continue
			}
			c := cfgName
			if r.Thorough() && n <= s.pairN {
				c = "pairs"
			}
			chunk := int64(8)
			if c == "pairs" {
				chunk = 2
			}
			var tasks []task
			for lo := int64(0); lo < cnt; lo += chunk {
				hi := lo + chunk
				if hi > cnt {
					hi = cnt
				}
				tasks = append(tasks, task{Kind: "slice", Slice: i, N: n, Lo: lo, Hi: hi, Cfg: c})
			}
			if !pl.runTasks(r, tasks, sliceName) {
				complete = false
				bounds["slice "+s.name] = fmt.Sprintf("nodes<=%d complete; size %d (%d trees) cut by the deadline", n-1, n, cnt)
				break sizes
			}
			bounds["slice "+s.name] = fmt.Sprintf("nodes<=%d complete (%d trees at the last size)", n, cnt)
		}
	}
	if only != "" {
		complete = false
		r.Set("slices_restricted_by_env", only)
	}
	r.Set("bounds_completed", bounds)
	r.Exhaustive(complete)
}
