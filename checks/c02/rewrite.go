package c02

import (
	"fmt"

	"verif/ref/irjs"
)

// Variant is a program derived from a base IR by one or more semantics-preserving rewrites.
type Variant struct {
	Prog       *irjs.Node
	Desc       string // "rule@site" (joined by "+" for pairs); re-derivable: site = ordinal among the rule's sites
	Exact      bool   // the completion value of the program is preserved too (otherwise only log + exception)
	SloppyOnly bool   // contains a with statement
}

// rule is one entry of the rewrite catalogue: it emits every single application of itself to p.
// gen distinguishes the fresh names of nested applications (pairs).
type rule struct {
	name string
	doc  string
	gen  func(p *irjs.Node, g int, emit func(v Variant))
}

func fresh(prefix string, g int) string { return fmt.Sprintf("%s%d", prefix, 9-g) }

// catalogue is the fixed rewrite catalogue R1..R8 (R9, strict <-> sloppy, is realised by running every program in
// both modes; placements are realised by wrap()).
var catalogue = []rule{
	{"R1var", "literal -> var holding it, declared at the start of the program", r1(false)},
	{"R1const", "literal -> const holding it, declared at the start of the innermost function body", r1(true)},
	{"R2fd", "binding also referenced from an uncalled nested function declaration", r2("fd")},
	{"R2arrow", "binding also referenced from an uncalled arrow function", r2("arrow")},
	{"R2call", "binding also read by a called arrow function (inside try/catch)", r2("call")},
	{"R3eval", "var e = eval(\"\") at the start of a function body / the program (dynamic scope)", r3eval},
	{"R3with", "statement wrapped in with({})", r3with},
	{"R3withbody", "whole function body wrapped in with({})", r3withBody},
	{"R4void", "expression statement E -> void E", r4("void")},
	{"R4var", "expression statement E -> var t = E", r4("var")},
	{"R4seq", "expression statement E -> (E, 0)", r4("seq")},
	{"R4cond", "if (c) A; else B; <-> c ? A : B;", r4cond},
	{"R5iff", "if (false) { dead } inserted before a statement", r5iff},
	{"R5after", "dead code after return / throw / break / continue", r5after},
	{"R5label", "L: { break L; dead } inserted before a statement", r5label},
	{"R5expr", "E -> true && E / false || E / null ?? E / true ? E : dead", r5expr},
	{"R6block", "statement wrapped in a block", r6block},
	{"R6iife", "expression wrapped in an immediately invoked function expression", r6expr(false)},
	{"R6arrow", "expression wrapped in an immediately invoked arrow function", r6expr(true)},
	{"R6stmt", "statement wrapped in an immediately invoked function expression", r6stmt},
	{"R7evalstr", "function expression F -> eval(\"(\" + F.toString() + \")\")", r7},
	{"R8let", "first-evaluated sub-expression hoisted into a let", r8},
}

func ruleByName(name string) *rule {
	for i := range catalogue {
		if catalogue[i].name == name {
			return &catalogue[i]
		}
	}
	return nil
}

// ---------- helpers ----------

func isDeclStmt(s *irjs.Node) bool {
	return s.Is("let") || s.Is("const") || s.Is("fdecl") || s.Is("classdecl") || s.Is("directive")
}

// alwaysValue: the completion value of s, when it completes normally or by break/continue, is never empty.
func alwaysValue(s *irjs.Node) bool {
	if s == nil || s.Atom {
		return false
	}
	switch s.Op {
	case "expr", "if", "for", "forin", "forof", "while", "dowhile", "switch", "try", "with":
		return true
	case "label":
		return alwaysValue(s.Kids[1])
	case "block":
		// the first statement decides (later ones may be skipped by an abrupt completion)
		for _, k := range s.Kids {
			if alwaysValue(k) {
				return true
			}
			if !(k.Is("var") || k.Is("let") || k.Is("const") || k.Is("fdecl") || k.Is("classdecl") || k.Is("empty")) {
				return false
			}
		}
	}
	return false
}

// freeOf: none of the given atoms / constructs occurs in e outside nested non-arrow functions.
func usesThisOrArguments(e *irjs.Node) bool {
	found := false
	var rec func(n *irjs.Node)
	rec = func(n *irjs.Node) {
		if n == nil || found {
			return
		}
		if n.Atom {
			if n.Op == "this" || n.Op == "arguments" {
				found = true
			}
			return
		}
		if n.Is("super") || n.Is("superdot") {
			found = true
			return
		}
		if isFunctionNode(n) && !isArrowNode(n) {
			// parameters and body have their own this / arguments; class heritage etc. are not functions
			return
		}
		if n.Is("class") || n.Is("classdecl") {
			rec(n.Kids[1])
			return
		}
		for _, k := range n.Kids {
			rec(k)
		}
	}
	rec(e)
	return found
}

func usesSuper(e *irjs.Node) bool {
	found := false
	e.Walk(func(n *irjs.Node) bool {
		if n.Is("super") || n.Is("superdot") {
			found = true
		}
		return !found
	})
	return found
}

// hasFreeJump: s contains break / continue / return that would leave s, or var declarations / function declarations
// that would change scope when s is moved into a function.
func unsafeToWrapInFunction(s *irjs.Node) bool {
	bad := false
	var rec func(n *irjs.Node, loop, sw int, labels []string)
	rec = func(n *irjs.Node, loop, sw int, labels []string) {
		if n == nil || n.Atom || bad {
			return
		}
		switch n.Op {
		case "return", "var", "fdecl", "let", "const", "classdecl":
			if n.Op == "let" || n.Op == "const" || n.Op == "classdecl" {
				// fine when nested in a block of s; the caller never passes a bare declaration
				for _, k := range n.Kids {
					rec(k, loop, sw, labels)
				}
				return
			}
			bad = true
			return
		case "break":
			if len(n.Kids) > 0 && !n.Kids[0].IsNone() {
				if !containsStr(labels, n.Kids[0].Op) {
					bad = true
				}
			} else if loop == 0 && sw == 0 {
				bad = true
			}
			return
		case "continue":
			if len(n.Kids) > 0 && !n.Kids[0].IsNone() {
				if !containsStr(labels, n.Kids[0].Op) {
					bad = true
				}
			} else if loop == 0 {
				bad = true
			}
			return
		case "for", "forin", "forof", "while", "dowhile":
			if (n.Op == "for" || n.Op == "forin" || n.Op == "forof") && n.Kids[0].Is("var") {
				bad = true
				return
			}
			for _, k := range n.Kids {
				rec(k, loop+1, sw, labels)
			}
			return
		case "switch":
			for _, k := range n.Kids {
				rec(k, loop, sw+1, labels)
			}
			return
		case "label":
			rec(n.Kids[1], loop, sw, append(append([]string(nil), labels...), n.Kids[0].Op))
			return
		}
		if isFunctionNode(n) {
			return
		}
		for _, k := range n.Kids {
			rec(k, loop, sw, labels)
		}
	}
	rec(s, 0, 0, nil)
	return bad
}

// declaredNames: every name bound anywhere in p (used for dead-code payloads that mention live bindings).
func firstDeclaredName(p *irjs.Node) string {
	name := ""
	p.Walk(func(n *irjs.Node) bool {
		if name != "" {
			return false
		}
		if n.Is("var") || n.Is("let") || n.Is("const") {
			if ns := irjs.BoundNames(n.Kids[0], nil); len(ns) > 0 {
				name = ns[0]
			}
		}
		return true
	})
	return name
}

// deadPayload returns the i-th kind of dead statement.
func deadPayload(p *irjs.Node, i int, g int) *irjs.Node {
	switch i % 3 {
	case 0:
		return irjs.N("expr", irjs.N("call", irjs.A("log"), irjs.A("99")))
	case 1:
		if x := firstDeclaredName(p); x != "" {
			return irjs.N("block", irjs.N("expr", irjs.N("arrowe", irjs.N("params"), irjs.N("=", irjs.A(x), irjs.A("98")))))
		}
		return irjs.N("expr", irjs.N("call", irjs.A("log"), irjs.A("98")))
	default:
		return irjs.N("var", irjs.A(fresh("d", g)), irjs.N("call", irjs.A("log"), irjs.A("97")))
	}
}

// listSites enumerates (list-holding node, its path, operand index of a statement) for every statement in a list.
type listSite struct {
	holder *irjs.Node
	hpath  []int
	idx    int
	s      *site
}

func stmtSites(p *irjs.Node) (res []listSite) {
	walkSites(p, func(s *site) {
		if s.role == rStmt {
			res = append(res, listSite{holder: s.parent, hpath: s.path[:len(s.path)-1], idx: s.idx, s: s})
		}
	})
	return
}

// exactHere: a rewrite at this site that replaces / inserts a statement whose own completion value changes is
// exact when the site lies inside a function (completion values are unobservable there).
func exactInFunc(s *site) bool { return s.inFunc }

// ---------- R1 ----------

func r1(useConst bool) func(p *irjs.Node, g int, emit func(Variant)) {
	return func(p *irjs.Node, g int, emit func(Variant)) {
		k := 0
		walkSites(p, func(s *site) {
			if !(s.n.IsNum() || s.n.IsStr()) {
				return
			}
			if s.role != rExpr && s.role != rTypeofOp {
				return
			}
			if s.parent.Is("directive") || s.parent.Is("tpl") && s.n.IsStr() {
				return
			}
			name := fresh("k", g)
			q := replaceAt(p, s.path, irjs.A(name))
			kw := "var"
			holderPath := []int{}
			if useConst {
				kw = "const"
				// innermost enclosing function whose BODY contains the literal (not its parameters)
				if s.fn != nil && bodyStart(s.fn) >= 0 && len(s.path) > len(s.fnPath) && s.path[len(s.fnPath)] >= bodyStart(s.fn) {
					holderPath = s.fnPath
				}
			}
			decl := irjs.N(kw, irjs.A(name), s.n)
			q = updateAt(q, holderPath, func(h *irjs.Node) *irjs.Node { return insertKid(h, afterDirectives(h), decl) })
			emit(Variant{Prog: q, Desc: fmt.Sprintf("@%d", k), Exact: true})
			k++
		})
	}
}

// ---------- R2 ----------

// bindingSites: statements / constructs that declare names, with the list where a capturing closure can be added.
func r2(form string) func(p *irjs.Node, g int, emit func(Variant)) {
	return func(p *irjs.Node, g int, emit func(Variant)) {
		k := 0
		cname := fresh("c", g)
		closure := func(x string) *irjs.Node {
			switch form {
			case "fd":
				return irjs.N("fdecl", irjs.A(cname), irjs.N("params"), irjs.N("return", irjs.A(x)))
			case "arrow":
				return irjs.N("var", irjs.A(cname), irjs.N("arrowe", irjs.N("params"), irjs.A(x)))
			default:
				return irjs.N("var", irjs.A(cname), irjs.N("call", irjs.N("arrow", irjs.N("params"),
					irjs.N("try", irjs.N("block", irjs.N("return", irjs.A(x))), irjs.N("catch", irjs.A(fresh("x", g))), irjs.A(irjs.None)))))
			}
		}
		add := func(holderPath []int, at int, x string) {
			// at < 0: append at the end of the list
			q := updateAt(p, holderPath, func(h *irjs.Node) *irjs.Node {
				pos := at
				if pos < 0 {
					pos = len(h.Kids)
				}
				return insertKid(h, pos, closure(x))
			})
			emit(Variant{Prog: q, Desc: fmt.Sprintf("@%d", k), Exact: true})
			k++
		}
		walkSites(p, func(s *site) {
			n := s.n
			switch {
			case s.role == rStmt && (n.Is("var") || n.Is("let") || n.Is("const")):
				for _, x := range irjs.BoundNames(n.Kids[0], nil) {
					if form == "call" {
						add(s.path[:len(s.path)-1], s.idx+1, x)
					} else {
						add(s.path[:len(s.path)-1], -1, x)
					}
				}
			case s.role == rStmt && (n.Is("fdecl") || n.Is("classdecl")):
				if form == "call" {
					add(s.path[:len(s.path)-1], s.idx+1, n.Kids[0].Op)
				} else {
					add(s.path[:len(s.path)-1], -1, n.Kids[0].Op)
				}
			case n.Is("params") && bodyStart(s.parent) >= 0:
				for _, x := range irjs.BoundNames(irjs.N("apat", n.Kids...), nil) {
					at := -1
					if form == "call" {
						at = afterDirectives(s.parent)
					}
					add(s.path[:len(s.path)-1], at, x)
				}
			case n.Is("set") || n.Is("sset"):
				for _, x := range irjs.BoundNames(n.Kids[1], nil) {
					at := -1
					if form == "call" {
						at = 2
					}
					add(s.path, at, x)
				}
			case n.Is("catch") && !n.Kids[0].IsNone():
				for _, x := range irjs.BoundNames(n.Kids[0], nil) {
					at := -1
					if form == "call" {
						at = 1
					}
					add(s.path, at, x)
				}
			case n.Is("for") && (n.Kids[0].Is("let") || n.Kids[0].Is("const") || n.Kids[0].Is("var")),
				(n.Is("forin") || n.Is("forof")) && (n.Kids[0].Is("let") || n.Kids[0].Is("const") || n.Kids[0].Is("var")):
				bi := 3
				if !n.Is("for") {
					bi = 2
				}
				for _, x := range irjs.BoundNames(n.Kids[0].Kids[0], nil) {
					body := n.Kids[bi]
					var nb *irjs.Node
					if body.Is("block") {
						if form == "call" {
							nb = insertKid(body, 0, closure(x))
						} else {
							nb = insertKid(body, len(body.Kids), closure(x))
						}
					} else if isDeclStmt(body) {
						continue
					} else if form == "call" {
						nb = irjs.N("block", closure(x), body)
					} else {
						nb = irjs.N("block", body, closure(x))
					}
					q := replaceAt(p, append(append([]int(nil), s.path...), bi), nb)
					emit(Variant{Prog: q, Desc: fmt.Sprintf("@%d", k), Exact: true})
					k++
				}
			}
		})
	}
}

// ---------- R3 ----------

func evalDecl(g int) *irjs.Node {
	return irjs.N("var", irjs.A(fresh("e", g)), irjs.N("call", irjs.A("eval"), irjs.Str("")))
}

func r3eval(p *irjs.Node, g int, emit func(Variant)) {
	k := 0
	walkSites(p, func(s *site) {
		n := s.n
		if n.Is("prog") || isFunctionNode(n) && bodyStart(n) >= 0 {
			q := updateAt(p, s.path, func(h *irjs.Node) *irjs.Node { return insertKid(h, afterDirectives(h), evalDecl(g)) })
			emit(Variant{Prog: q, Desc: fmt.Sprintf("@%d", k), Exact: true})
			k++
		}
	})
}

func emptyObj() *irjs.Node { return irjs.N("obj") }

func r3with(p *irjs.Node, g int, emit func(Variant)) {
	k := 0
	walkSites(p, func(s *site) {
		if s.role != rStmt && s.role != rSub {
			return
		}
		n := s.n
		if isDeclStmt(n) || n.Is("empty") || n.IsNone() || s.parent.Is("label") {
			return
		}
		if insideStrictCode(p, s.path) {
			return
		}
		q := replaceAt(p, s.path, irjs.N("with", emptyObj(), n))
		emit(Variant{Prog: q, Desc: fmt.Sprintf("@%d", k), Exact: s.inFunc || alwaysValue(n), SloppyOnly: true})
		k++
	})
}

func r3withBody(p *irjs.Node, g int, emit func(Variant)) {
	k := 0
	walkSites(p, func(s *site) {
		n := s.n
		if !isFunctionNode(n) || bodyStart(n) < 0 {
			return
		}
		if n.Is("ctor") || n.Is("method") || n.Is("smethod") || n.Is("get") || n.Is("sget") || n.Is("set") || n.Is("sset") {
			if insideClass(p, s.path) {
				return
			}
		}
		b := bodyStart(n)
		body := n.Kids[b:]
		if len(body) == 0 {
			return
		}
		for _, st := range body {
			if isDeclStmt(st) {
				return
			}
		}
		if insideStrictCode(p, append(append([]int(nil), s.path...), b)) {
			return
		}
		kids := append(append([]*irjs.Node(nil), n.Kids[:b]...), irjs.N("with", emptyObj(), irjs.N("block", body...)))
		q := replaceAt(p, s.path, withKids(n, kids))
		emit(Variant{Prog: q, Desc: fmt.Sprintf("@%d", k), Exact: true, SloppyOnly: true})
		k++
	})
}

// insideStrictCode: the node at path lies in code that is strict regardless of the run mode (class bodies,
// functions with a "use strict" directive).
func insideStrictCode(p *irjs.Node, path []int) bool {
	n := p
	for _, i := range path {
		if n.Is("class") || n.Is("classdecl") {
			return true
		}
		if b := bodyStart(n); b >= 0 {
			for _, s := range n.Kids[b:] {
				if !s.Is("directive") {
					break
				}
				if s.Kids[0].Op == `"use strict"` {
					return true
				}
			}
		}
		n = n.Kids[i]
	}
	return false
}

func insideClass(p *irjs.Node, path []int) bool {
	n := p
	for _, i := range path {
		if n.Is("class") || n.Is("classdecl") {
			return true
		}
		n = n.Kids[i]
	}
	return false
}

// ---------- R4 ----------

func r4(form string) func(p *irjs.Node, g int, emit func(Variant)) {
	return func(p *irjs.Node, g int, emit func(Variant)) {
		k := 0
		walkSites(p, func(s *site) {
			if !s.n.Is("expr") || (s.role != rStmt && s.role != rSub) {
				return
			}
			e := s.n.Kids[0]
			var repl *irjs.Node
			switch form {
			case "void":
				repl = irjs.N("expr", irjs.N("void", e))
			case "var":
				repl = irjs.N("var", irjs.A(fresh("t", g)), e)
			default:
				repl = irjs.N("expr", irjs.N(",", e, irjs.A("0")))
			}
			emit(Variant{Prog: replaceAt(p, s.path, repl), Desc: fmt.Sprintf("@%d", k), Exact: s.inFunc})
			k++
		})
	}
}

func r4cond(p *irjs.Node, g int, emit func(Variant)) {
	k := 0
	walkSites(p, func(s *site) {
		n := s.n
		if s.role != rStmt && s.role != rSub {
			return
		}
		switch {
		case n.Is("if") && n.Kids[1].Is("expr") && len(n.Kids) > 2 && n.Kids[2].Is("expr"):
			repl := irjs.N("expr", irjs.N("?:", n.Kids[0], n.Kids[1].Kids[0], n.Kids[2].Kids[0]))
			emit(Variant{Prog: replaceAt(p, s.path, repl), Desc: fmt.Sprintf("@%d", k), Exact: true})
			k++
		case n.Is("if") && n.Kids[1].Is("expr") && (len(n.Kids) == 2 || n.Kids[2].IsNone()):
			repl := irjs.N("expr", irjs.N("&&", n.Kids[0], n.Kids[1].Kids[0]))
			emit(Variant{Prog: replaceAt(p, s.path, repl), Desc: fmt.Sprintf("@%d", k), Exact: s.inFunc})
			k++
		case n.Is("expr") && n.Kids[0].Is("?:"):
			c := n.Kids[0]
			repl := irjs.N("if", c.Kids[0], irjs.N("expr", c.Kids[1]), irjs.N("expr", c.Kids[2]))
			emit(Variant{Prog: replaceAt(p, s.path, repl), Desc: fmt.Sprintf("@%d", k), Exact: true})
			k++
		}
	})
}

// ---------- R5 ----------

func r5iff(p *irjs.Node, g int, emit func(Variant)) {
	k := 0
	for _, ls := range stmtSites(p) {
		if ls.s.n.Is("directive") {
			continue
		}
		dead := irjs.N("if", irjs.A("false"), irjs.N("block", deadPayload(p, k, g)))
		q := updateAt(p, ls.hpath, func(h *irjs.Node) *irjs.Node { return insertKid(h, ls.idx, dead) })
		emit(Variant{Prog: q, Desc: fmt.Sprintf("@%d", k), Exact: ls.s.inFunc || alwaysValue(ls.s.n)})
		k++
	}
}

func r5after(p *irjs.Node, g int, emit func(Variant)) {
	k := 0
	walkSites(p, func(s *site) {
		n := s.n
		if !(n.Is("return") || n.Is("throw") || n.Is("break") || n.Is("continue")) {
			return
		}
		dead := deadPayload(p, k, g)
		var q *irjs.Node
		switch s.role {
		case rStmt:
			q = updateAt(p, s.path[:len(s.path)-1], func(h *irjs.Node) *irjs.Node { return insertKid(h, s.idx+1, dead) })
		case rSub:
			q = replaceAt(p, s.path, irjs.N("block", n, dead))
		default:
			return
		}
		emit(Variant{Prog: q, Desc: fmt.Sprintf("@%d", k), Exact: true})
		k++
	})
}

func r5label(p *irjs.Node, g int, emit func(Variant)) {
	k := 0
	l := fresh("L", g)
	for _, ls := range stmtSites(p) {
		if ls.s.n.Is("directive") {
			continue
		}
		dead := irjs.N("label", irjs.A(l), irjs.N("block", irjs.N("break", irjs.A(l)), deadPayload(p, k, g)))
		q := updateAt(p, ls.hpath, func(h *irjs.Node) *irjs.Node { return insertKid(h, ls.idx, dead) })
		emit(Variant{Prog: q, Desc: fmt.Sprintf("@%d", k), Exact: true})
		k++
	}
}

// valueSite: an expression in value position that can be replaced by any other expression of the same value.
func valueSite(s *site) bool {
	if s.role != rExpr {
		return false
	}
	n := s.n
	if n.IsNone() || n.Is("spread") {
		return false
	}
	if s.parent.Is("classdecl") || s.parent.Is("class") {
		return true // heritage
	}
	return true
}

func r5expr(p *irjs.Node, g int, emit func(Variant)) {
	k := 0
	deadE := irjs.N("call", irjs.A("log"), irjs.A("96"))
	walkSites(p, func(s *site) {
		if !valueSite(s) {
			return
		}
		var repl *irjs.Node
		switch k % 4 {
		case 0:
			repl = irjs.N("&&", irjs.A("true"), s.n)
		case 1:
			repl = irjs.N("||", irjs.A("false"), s.n)
		case 2:
			repl = irjs.N("??", irjs.A("null"), s.n)
		default:
			repl = irjs.N("?:", irjs.A("true"), s.n, deadE)
		}
		emit(Variant{Prog: replaceAt(p, s.path, repl), Desc: fmt.Sprintf("@%d", k), Exact: true})
		k++
	})
}

// ---------- R6 ----------

func r6block(p *irjs.Node, g int, emit func(Variant)) {
	k := 0
	walkSites(p, func(s *site) {
		if s.role != rStmt && s.role != rSub {
			return
		}
		if isDeclStmt(s.n) || s.n.IsNone() || s.parent.Is("label") {
			return
		}
		emit(Variant{Prog: replaceAt(p, s.path, irjs.N("block", s.n)), Desc: fmt.Sprintf("@%d", k), Exact: true})
		k++
	})
}

func r6expr(arrow bool) func(p *irjs.Node, g int, emit func(Variant)) {
	return func(p *irjs.Node, g int, emit func(Variant)) {
		k := 0
		walkSites(p, func(s *site) {
			if !valueSite(s) {
				return
			}
			e := s.n
			var repl *irjs.Node
			if arrow {
				if e.Is("super") {
					return
				}
				repl = irjs.N("call", irjs.N("arrowe", irjs.N("params"), e))
			} else {
				if usesThisOrArguments(e) {
					return
				}
				repl = irjs.N("call", irjs.N("func", irjs.A(irjs.None), irjs.N("params"), irjs.N("return", e)))
			}
			emit(Variant{Prog: replaceAt(p, s.path, repl), Desc: fmt.Sprintf("@%d", k), Exact: true})
			k++
		})
	}
}

func r6stmt(p *irjs.Node, g int, emit func(Variant)) {
	k := 0
	walkSites(p, func(s *site) {
		if s.role != rStmt && s.role != rSub {
			return
		}
		n := s.n
		if isDeclStmt(n) || n.IsNone() || n.Is("empty") || s.parent.Is("label") {
			return
		}
		if unsafeToWrapInFunction(n) || usesThisOrArguments(n) {
			return
		}
		repl := irjs.N("expr", irjs.N("call", irjs.N("func", irjs.A(irjs.None), irjs.N("params"), n)))
		emit(Variant{Prog: replaceAt(p, s.path, repl), Desc: fmt.Sprintf("@%d", k), Exact: s.inFunc})
		k++
	})
}

// ---------- R7 ----------

func r7(p *irjs.Node, g int, emit func(Variant)) {
	k := 0
	walkSites(p, func(s *site) {
		n := s.n
		if s.role != rExpr && s.role != rCallee {
			return
		}
		switch {
		case n.Is("func"), n.Is("arrow"), n.Is("arrowe"):
			if usesSuper(n) {
				return
			}
		case n.Is("class"):
			if !n.Kids[1].IsNone() {
				return
			}
		default:
			return
		}
		emit(Variant{Prog: replaceAt(p, s.path, irjs.N("evalstr", n)), Desc: fmt.Sprintf("@%d", k), Exact: true})
		k++
	})
}

// ---------- R8 ----------

// firstEvalPath returns the paths (relative to e) of the sub-expressions that are evaluated before anything else
// in e, outermost first: e itself, then its first-evaluated operand, and so on.
func firstEvalPath(e *irjs.Node) [][]int {
	var res [][]int
	var cur []int
	n := e
	for {
		if n == nil || n.IsNone() || n.Is("spread") {
			return res
		}
		res = append(res, append([]int(nil), cur...))
		if n.Atom {
			return res
		}
		next := -1
		op := n.Op
		switch {
		case irjs.IsBinaryOp(op), irjs.IsLogicalOp(op), op == "?:", op == ",", op == "neg", op == "pos", op == "!", op == "~", op == "void",
			op == ".", op == "[]", op == "new":
			next = 0
		case op == "typeof":
			if !n.Kids[0].Atom {
				next = 0
			}
		case op == "=":
			if n.Kids[0].IsIdent() {
				next = 1
			} else if n.Kids[0].Is(".") || n.Kids[0].Is("[]") {
				cur = append(cur, 0)
				n = n.Kids[0]
				next = 0
				// the member target itself is not a value: drop it, continue with its object
				cur = append(cur, 0)
				n = n.Kids[0]
				continue
			}
		case op == "call":
			c := n.Kids[0]
			if c.IsIdent() && c.Op != "eval" {
				next = 0
			} else if c.Is(".") || c.Is("[]") {
				cur = append(cur, 0, 0)
				n = c.Kids[0]
				continue
			} else if !c.Atom && !c.Is("superdot") {
				next = 0
			}
		}
		if next < 0 {
			return res
		}
		cur = append(cur, next)
		n = n.Kids[next]
	}
}

func r8(p *irjs.Node, g int, emit func(Variant)) {
	k := 0
	t := fresh("t", g)
	walkSites(p, func(s *site) {
		if s.role != rStmt && s.role != rSub {
			return
		}
		n := s.n
		ei := -1 // operand index of the expression evaluated first by the statement
		switch n.Op {
		case "expr", "throw", "if", "switch":
			ei = 0
		case "return":
			if len(n.Kids) > 0 && !n.Kids[0].IsNone() {
				ei = 0
			}
		case "var", "let", "const":
			if len(n.Kids) > 1 && !n.Kids[1].IsNone() {
				ei = 1
			}
		}
		if ei < 0 {
			return
		}
		e := n.Kids[ei]
		for _, rel := range firstEvalPath(e) {
			sub := nodeAt(e, rel)
			if sub.IsAtom(t) {
				continue
			}
			ns := replaceAt(n, append([]int{ei}, rel...), irjs.A(t))
			decl := irjs.N("let", irjs.A(t), sub)
			var q *irjs.Node
			if s.role == rStmt {
				q = updateAt(p, s.path[:len(s.path)-1], func(h *irjs.Node) *irjs.Node {
					kids := append([]*irjs.Node(nil), h.Kids...)
					kids[s.idx] = ns
					return insertKid(withKids(h, kids), s.idx, decl)
				})
			} else {
				if isDeclStmt(n) {
					continue
				}
				q = replaceAt(p, s.path, irjs.N("block", decl, ns))
			}
			emit(Variant{Prog: q, Desc: fmt.Sprintf("@%d", k), Exact: true})
			k++
		}
	})
}

// ---------- application ----------

// singleVariants lists every single application of every rule of the catalogue.
func singleVariants(p *irjs.Node, g int) []Variant {
	var res []Variant
	for i := range catalogue {
		r := &catalogue[i]
		r.gen(p, g, func(v Variant) {
			v.Desc = r.name + v.Desc
			res = append(res, v)
		})
	}
	return res
}

// applyDesc re-derives a variant from its description ("rule@k" or "rule@k+rule@k").
func applyDesc(p *irjs.Node, desc string) (Variant, bool) {
	cur := Variant{Prog: p, Exact: true}
	g := 0
	for _, part := range splitPlus(desc) {
		var found *Variant
		for _, v := range singleVariants(cur.Prog, g) {
			if v.Desc == part {
				vv := v
				found = &vv
				break
			}
		}
		if found == nil {
			return Variant{}, false
		}
		cur = Variant{Prog: found.Prog, Desc: joinDesc(cur.Desc, found.Desc), Exact: cur.Exact && found.Exact, SloppyOnly: cur.SloppyOnly || found.SloppyOnly}
		g++
	}
	return cur, true
}

func splitPlus(s string) []string {
	var res []string
	cur := ""
	for _, c := range s {
		if c == '+' {
			res = append(res, cur)
			cur = ""
		} else {
			cur += string(c)
		}
	}
	return append(res, cur)
}

func joinDesc(a, b string) string {
	if a == "" {
		return b
	}
	return a + "+" + b
}

func ruleOf(desc string) string {
	for i, c := range desc {
		if c == '@' {
			return desc[:i]
		}
	}
	return desc
}
