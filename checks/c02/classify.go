package c02

import (
	"os"
	"strings"

	"verif/ref/irjs"
)

// Recognisers of defect classes. A failing comparison whose program has the static shape of a class and whose
// difference has the class's form gets the class's signature directly (all the many programs that run into one
// defect then share one signature, and no shrinking is needed to find it). Everything else is classified by
// the skeleton of the shrunk program (see signature()).
//
// A recogniser only NAMES a failure that the oracle has already established; it never suppresses one. Its
// precondition is deliberately narrow (shape of the program AND form of the difference); a different defect
// that happens to show up only in programs of that shape with the same form of difference would be attributed
// to the class (stated limitation).
type recogniser struct {
	sig   string
	match func(cp *irjs.Node, f *failure) bool
}

const (
	sigNegTwice       = "unary-minus|object-operand|converted-twice"
	sigKeyTwice       = "computed-member|update-or-compound-assignment|key-converted-twice"
	sigUnresCallee    = "call|unresolvable-callee|arguments-evaluated-before-ReferenceError"
	sigGEvalFunc      = "direct-eval-in-global-code|function-declaration|cannot-see-lexical-declarations-of-the-eval-code"
	sigArrowToStr     = "diff|R7evalstr|toString-not-reparseable|arrowe/parenthesised-body"
	sigConstTDZ       = "const|assignment-in-temporal-dead-zone|TypeError-instead-of-ReferenceError"
	sigSurplusArgs    = "function-prologue|arguments-in-stash|surplus-argument-overwrites-captured-variable"
	sigVarParam       = "function-body|var-redeclares-rest-or-destructured-parameter|rejected-as-already-declared"
	sigParamSelfRef   = "function-prologue|self-or-forward-referencing-default-parameter|arguments-object-or-TDZ-check-wrong"
	sigSuperField     = "class-field-initialiser|super-property|rejected-as-unexpected-super"
	sigNestedLabel    = "label|continue-to-outer-label-of-doubly-labelled-loop|rejected-as-illegal-continue"
	sigFinallyJump    = "completion-value|finally-left-by-nested-break-or-continue|value-of-try-block-kept"
	sigNestedJump     = "completion-value|statement-list-left-by-nested-break-or-continue|value-before-the-jump-lost"
	sigStrictEvalArgs = "strict-function|direct-eval|arguments-object-not-visible"
	sigEvalThisSuper  = "derived-constructor|this-or-super-property-before-super()|in-direct-eval-code|no-ReferenceError"
	sigNestedEval     = "function-prologue|non-simple-parameters|direct-eval-inside-the-function|panic-or-corrupted-parameters"
	sigDefaultParam   = "function-prologue|default-parameter-after-forward-reference-or-eval|supplied-argument-left-uninitialised"
)

var recognisers = []recogniser{
	{sigDeadJump, func(cp *irjs.Node, f *failure) bool { return hasDeadJump(cp) }},
	{sigNegTwice, func(cp *irjs.Node, f *failure) bool {
		return f.kind == "log" && extraLog(f) && anyNode(cp, func(n *irjs.Node) bool { return n.Is("neg") && !isLiteral(n.Kids[0]) })
	}},
	{sigKeyTwice, func(cp *irjs.Node, f *failure) bool {
		return f.kind == "log" && extraLog(f) && anyNode(cp, func(n *irjs.Node) bool {
			if !(irjs.IsUpdateOp(n.Op) || irjs.IsAssignOp(n.Op) && n.Op != "=") || n.Atom {
				return false
			}
			t := n.Kids[0]
			return t.Is("[]") && !isLiteral(t.Kids[1])
		})
	}},
	{sigUnresCallee, func(cp *irjs.Node, f *failure) bool {
		if f.kind != "log" || !extraLog(f) || !strings.Contains(f.want, "THROW error:ReferenceError") || !strings.Contains(f.got, "THROW error:ReferenceError") {
			return false
		}
		decl := declaredNames(cp)
		return anyNode(cp, func(n *irjs.Node) bool {
			return n.Is("call") && len(n.Kids) > 1 && n.Kids[0].IsIdent() && !decl[n.Kids[0].Op] && !isHostName(n.Kids[0].Op)
		})
	}},
	{sigGEvalFunc, func(cp *irjs.Node, f *failure) bool {
		if f.placement != "geval" || f.strict || !cp.Is("prog") {
			return false
		}
		fd, lex := false, false
		for _, s := range cp.Kids {
			if s.Is("fdecl") {
				fd = true
			}
			if s.Is("let") || s.Is("const") || s.Is("classdecl") {
				lex = true
			}
		}
		return fd && lex
	}},
	{sigConstTDZ, func(cp *irjs.Node, f *failure) bool {
		if d := firstDiff(f.want, f.got); !(f.kind == "exception" || f.kind == "log") || !strings.Contains(d, "ReferenceError") || !strings.Contains(d, "TypeError") {
			return false
		}
		consts := map[string]bool{}
		cp.Walk(func(n *irjs.Node) bool {
			if n.Is("const") {
				for _, x := range irjs.BoundNames(n.Kids[0], nil) {
					consts[x] = true
				}
			}
			return true
		})
		return anyNode(cp, func(n *irjs.Node) bool {
			return !n.Atom && (irjs.IsAssignOp(n.Op) || irjs.IsUpdateOp(n.Op)) && n.Kids[0].IsIdent() && consts[n.Kids[0].Op]
		})
	}},
	{sigVarParam, func(cp *irjs.Node, f *failure) bool {
		if !(f.oracle == "compile" && strings.Contains(f.got, "has already been declared")) && !(strings.Contains(f.got, "THROW error:SyntaxError") && !strings.Contains(f.want, "SyntaxError")) {
			return false
		}
		return anyNode(cp, func(n *irjs.Node) bool {
			if !isFunctionNode(n) || bodyStart(n) < 0 {
				return false
			}
			var names []string
			for _, k := range n.Kids {
				if k.Is("params") {
					for _, p := range k.Kids {
						if !p.Atom && !(p.Is("def") && p.Kids[0].Atom) {
							names = irjs.BoundNames(p, names)
						}
					}
				}
			}
			return len(names) > 0 && intersects(names, varNamesOf(n.Kids[bodyStart(n):], true))
		})
	}},
	{sigSuperField, func(cp *irjs.Node, f *failure) bool {
		if !(f.oracle == "compile" && strings.Contains(f.got, "'super' keyword unexpected")) && !(strings.Contains(f.got, "THROW error:SyntaxError") && !strings.Contains(f.want, "SyntaxError")) {
			return false
		}
		return anyNode(cp, func(n *irjs.Node) bool {
			return (n.Is("field") || n.Is("sfield")) && len(n.Kids) > 1 && anyNode(n.Kids[1], func(m *irjs.Node) bool { return m.Is("superdot") })
		})
	}},
	{sigNestedLabel, func(cp *irjs.Node, f *failure) bool {
		if !(f.oracle == "compile" && strings.Contains(f.got, "does not denote an iteration statement")) && !(strings.Contains(f.got, "THROW error:SyntaxError") && !strings.Contains(f.want, "SyntaxError")) {
			return false
		}
		return anyNode(cp, func(n *irjs.Node) bool {
			if !n.Is("label") || !n.Kids[1].Is("label") {
				return false
			}
			outer := n.Kids[0].Op
			return anyNode(n.Kids[1], func(m *irjs.Node) bool { return m.Is("continue") && len(m.Kids) > 0 && m.Kids[0].IsAtom(outer) })
		})
	}},
	{sigFinallyJump, func(cp *irjs.Node, f *failure) bool {
		if f.kind != "value" {
			return false
		}
		return anyNode(cp, func(n *irjs.Node) bool {
			if !n.Is("try") || n.Kids[2].IsNone() {
				return false
			}
			// a break / continue somewhere inside the finally block, but not as its direct statement
			for _, st := range n.Kids[2].Kids {
				if st.Is("break") || st.Is("continue") {
					continue
				}
				if anyNode(st, func(m *irjs.Node) bool { return m.Is("break") || m.Is("continue") }) {
					return true
				}
			}
			return false
		})
	}},
	{sigNestedJump, func(cp *irjs.Node, f *failure) bool {
		if f.kind != "value" {
			return false
		}
		// a statement list in which a value-producing statement is followed by a block / labelled block that
		// contains a break / continue, followed by another value-producing statement
		return anyNode(cp, func(n *irjs.Node) bool {
			b := bodyStart(n)
			if b < 0 {
				return false
			}
			seenValue, seenJump := false, false
			for _, st := range n.Kids[b:] {
				switch {
				case st.Is("expr"):
					if seenJump {
						return true
					}
					seenValue = true
				case st.Is("block") || st.Is("label") || st.Is("try") || st.Is("switch"):
					if seenValue && anyNode(st, func(m *irjs.Node) bool { return m.Is("break") || m.Is("continue") }) {
						seenJump = true
					}
				}
			}
			return false
		})
	}},
	{sigStrictEvalArgs, func(cp *irjs.Node, f *failure) bool {
		strict := f.strict || anyNode(cp, func(n *irjs.Node) bool { return n.Is("directive") })
		if !strict || f.kind == "panic" || f.kind == "compile" {
			return false
		}
		return anyNode(cp, func(n *irjs.Node) bool {
			return n.Is("evalstr") && anyNode(n, func(m *irjs.Node) bool { return m.IsAtom("arguments") })
		})
	}},
	{sigEvalThisSuper, func(cp *irjs.Node, f *failure) bool {
		// form: the base throws ReferenceError at a point where the variant carries on
		d := strings.SplitN(firstDiff(f.want, f.got), "/", 2)
		if len(d) != 2 || !strings.Contains(d[0], "ReferenceError") || strings.Contains(d[1], "ReferenceError") {
			return false
		}
		// shape: eval code (R7: eval of a function's own text) inside the constructor of a derived class that
		// mentions this / super.x
		return anyNode(cp, func(n *irjs.Node) bool {
			if !(n.Is("classdecl") || n.Is("class")) || n.Kids[1].IsNone() {
				return false
			}
			for _, m := range n.Kids[2:] {
				if m.Is("ctor") && anyNode(m, func(x *irjs.Node) bool {
					return x.Is("evalstr") && anyNode(x, func(y *irjs.Node) bool { return y.IsAtom("this") || y.Is("superdot") })
				}) {
					return true
				}
			}
			return false
		})
	}},
	{sigSurplusArgs, func(cp *irjs.Node, f *failure) bool {
		if f.kind == "panic" || f.kind == "compile" || f.kind == "outcome" {
			return false
		}
		// a named function with k simple parameters that contains a closure, called with more than k arguments
		arity := map[string]int{}
		cp.Walk(func(n *irjs.Node) bool {
			if (n.Is("fdecl") || n.Is("func")) && n.Kids[0].IsIdent() {
				hasClosure := false
				for _, b := range n.Kids[2:] {
					b.Walk(func(m *irjs.Node) bool {
						if isFunctionNode(m) || m.Is("evalstr") || m.Is("class") || m.Is("classdecl") {
							hasClosure = true
						}
						return !hasClosure
					})
				}
				hasDecl := false
				for _, b := range n.Kids[2:] {
					if b.Is("var") || b.Is("let") || b.Is("const") || b.Is("fdecl") || b.Is("classdecl") {
						hasDecl = true
					}
				}
				if hasClosure && hasDecl {
					arity[n.Kids[0].Op] = len(n.Kids[1].Kids)
				}
			}
			return true
		})
		return anyNode(cp, func(n *irjs.Node) bool {
			if !n.Is("call") || !n.Kids[0].IsIdent() {
				return false
			}
			k, ok := arity[n.Kids[0].Op]
			return ok && len(n.Kids)-1 > k
		})
	}},
	{sigDefaultParam, func(cp *irjs.Node, f *failure) bool {
		if !strings.Contains(f.got, "THROW error:ReferenceError") || strings.Contains(f.want, "THROW error:ReferenceError") {
			return false
		}
		return anyNode(cp, forwardRefParams) || anyNode(cp, func(n *irjs.Node) bool {
			if !isFunctionNode(n) || bodyStart(n) < 0 {
				return false
			}
			var params *irjs.Node
			for _, k := range n.Kids {
				if k.Is("params") {
					params = k
				}
			}
			if params == nil || !anyNode(params, func(m *irjs.Node) bool { return m.Is("def") }) {
				return false
			}
			return anyNode(n, func(m *irjs.Node) bool { return m.IsAtom("eval") || m.Is("evalstr") })
		})
	}},
	{sigNestedEval, func(cp *irjs.Node, f *failure) bool {
		if f.kind == "compile" {
			return false
		}
		return anyNode(cp, func(n *irjs.Node) bool {
			if !isFunctionNode(n) || bodyStart(n) < 0 {
				return false
			}
			nonSimple := false
			for _, k := range n.Kids {
				if k.Is("params") {
					for _, p := range k.Kids {
						if !p.Atom {
							nonSimple = true
						}
					}
				}
			}
			// a direct eval anywhere inside the function (also in a nested function: it makes the enclosing scopes dynamic)
			return nonSimple && anyNode(n, func(x *irjs.Node) bool { return x.Is("evalstr") || x.Is("call") && x.Kids[0].IsAtom("eval") })
		})
	}},
	{sigParamSelfRef, func(cp *irjs.Node, f *failure) bool {
		if f.kind == "panic" || f.kind == "compile" {
			return false
		}
		return anyNode(cp, func(n *irjs.Node) bool {
			if !isFunctionNode(n) {
				return false
			}
			for _, k := range n.Kids {
				if k.Is("params") && forwardRefParams(k) {
					return true
				}
			}
			return false
		})
	}},
}

// forwardRefParams: a (params ...) list in which the default value of a parameter mentions that parameter or a
// later one, or uses eval.
func forwardRefParams(n *irjs.Node) bool {
	if !n.Is("params") {
		return false
	}
	var names [][]string
	for _, p := range n.Kids {
		names = append(names, irjs.BoundNames(p, nil))
	}
	hasDef, forward := false, false
	for i, p := range n.Kids {
		if !p.Is("def") {
			continue
		}
		hasDef = true
		p.Kids[1].Walk(func(m *irjs.Node) bool {
			if m.IsAtom("eval") || m.Is("evalstr") {
				forward = true
			}
			if m.IsIdent() {
				for j := i; j < len(names); j++ {
					if containsStr(names[j], m.Op) {
						forward = true
					}
				}
			}
			return true
		})
	}
	return hasDef && forward
}

func classify(cp *irjs.Node, f *failure) string {
	if strings.Contains(f.rewrite, "R7evalstr") && strings.Contains(f.got, "SyntaxError") && !strings.Contains(f.want, "SyntaxError") {
		// the text of an expression-bodied arrow function with a parenthesised body does not parse back
		if anyNode(cp, func(n *irjs.Node) bool {
			if !n.Is("evalstr") || !n.Kids[0].Is("arrowe") {
				return false
			}
			b := n.Kids[0].Kids[1]
			return !(b.Atom || b.Is("call") || b.Is(".") || b.Is("[]") || b.Is("arr") || b.Is("tpl") || b.Is("evalstr"))
		}) {
			return sigArrowToStr
		}
	}
	for _, r := range recognisers {
		if r.match(cp, f) {
			return r.sig
		}
	}
	return ""
}

// cp2base: r7Shape works on the base program; classify is given the case program. For R7 the base is recovered
// by undoing the evalstr wrappers.
func cp2base(cp *irjs.Node, f *failure) *irjs.Node {
	var undo func(n *irjs.Node) *irjs.Node
	undo = func(n *irjs.Node) *irjs.Node {
		if n == nil || n.Atom {
			return n
		}
		if n.Is("evalstr") {
			return undo(n.Kids[0])
		}
		kids := make([]*irjs.Node, len(n.Kids))
		for i, k := range n.Kids {
			kids[i] = undo(k)
		}
		return withKids(n, kids)
	}
	return undo(cp)
}

func anyNode(p *irjs.Node, pred func(*irjs.Node) bool) bool {
	found := false
	p.Walk(func(n *irjs.Node) bool {
		if !found && pred(n) {
			found = true
		}
		return !found
	})
	return found
}

func isLiteral(n *irjs.Node) bool {
	return n.Atom && (n.IsNum() || n.IsStr() || n.IsKeywordLit() || n.Op == "undefined")
}

func isHostName(s string) bool {
	for _, h := range irjs.HostNames {
		if h == s {
			return true
		}
	}
	return false
}

// declaredNames: every name bound by a declaration, parameter, catch clause, function or class anywhere in p.
func declaredNames(p *irjs.Node) map[string]bool {
	res := map[string]bool{}
	p.Walk(func(n *irjs.Node) bool {
		if n.Atom {
			return true
		}
		switch n.Op {
		case "var", "let", "const":
			for _, x := range irjs.BoundNames(n.Kids[0], nil) {
				res[x] = true
			}
		case "fdecl", "func", "classdecl", "class":
			if n.Kids[0].IsIdent() {
				res[n.Kids[0].Op] = true
			}
		case "params":
			for _, k := range n.Kids {
				for _, x := range irjs.BoundNames(k, nil) {
					res[x] = true
				}
			}
		case "catch", "set", "sset":
			i := 0
			if n.Op != "catch" {
				i = 1
			}
			for _, x := range irjs.BoundNames(n.Kids[i], nil) {
				res[x] = true
			}
		}
		return true
	})
	return res
}

// extraLog: the engine's log has more entries than expected.
func extraLog(f *failure) bool {
	return strings.Count(logPart(f.got), ";") > strings.Count(logPart(f.want), ";")
}

func logPart(key string) string {
	for _, sep := range []string{" => ", " THROW ", " ABORT "} {
		if i := strings.LastIndex(key, sep); i >= 0 {
			return key[:i]
		}
	}
	return key
}

// ---------- Go fatal errors ----------

const sigSwitchEval = "fatal|switch-with-lexical-declaration|direct-eval-inside|enterBlock-stack-size-underflow"

// fatalProbe: a script that is run in a process of its own at the start of every run. If it kills the process the
// finding is reported and the shape is kept out of the in-process exploration (guard); once the defect is fixed
// the probe survives and the guard is lifted automatically.
type fatalProbe struct {
	sig, what, script, guardEnv string
}

var fatalProbes = []fatalProbe{
	{sigSwitchEval, "a switch statement that declares a let/const/class/function in a case clause and contains a direct eval (anywhere inside, also in a nested function) kills the host: `switch (1) { case 1: let y = 1; eval(\"\") }` makes the Go runtime die with 'fatal error: out of memory' (compileSwitchStatement decrements enterBlock.stackSize, which is 0 when the scope is dynamic, to 4294967295)",
		`switch (1) { case 1: let y = 1; eval("") }`, "C02_GUARD_SWITCH_EVAL"},
}

var guardSwitchEval = os.Getenv("C02_GUARD_SWITCH_EVAL") != ""

// crashShape: the program would run into a known Go fatal error (only consulted while the corresponding probe
// still dies).
func crashShape(p *irjs.Node) bool {
	if !guardSwitchEval {
		return false
	}
	found := false
	var rec func(n *irjs.Node, inLexSwitch bool)
	rec = func(n *irjs.Node, inLexSwitch bool) {
		if n == nil || found {
			return
		}
		if n.Is("evalstr") || n.Is("call") && n.Kids[0].IsAtom("eval") {
			if inLexSwitch {
				found = true
				return
			}
		}
		if n.Is("switch") && switchHasLexical(n) {
			rec(n.Kids[0], inLexSwitch)
			for _, c := range n.Kids[1:] {
				rec(c, true)
			}
			return
		}
		for _, k := range n.Kids {
			rec(k, inLexSwitch)
		}
	}
	rec(p, false)
	return found
}

func switchHasLexical(n *irjs.Node) bool {
	for _, c := range n.Kids[1:] {
		list := c.Kids
		if c.Is("case") {
			list = c.Kids[1:]
		}
		for _, s := range list {
			for s.Is("label") {
				s = s.Kids[1]
			}
			if s.Is("let") || s.Is("const") || s.Is("classdecl") || s.Is("fdecl") {
				return true
			}
		}
	}
	return false
}

// classifyFatal names the known classes of Go fatal errors by the shape of the base program.
func classifyFatal(p *irjs.Node) string {
	if anyNode(p, func(n *irjs.Node) bool { return n.Is("switch") && switchHasLexical(n) }) {
		return sigSwitchEval
	}
	return ""
}
