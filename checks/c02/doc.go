// Package c02 holds the check for property C02.
package c02
