package c02

// slice is one grammar of IR programs, enumerated exhaustively up to a node bound.
type slice struct {
	name, start   string
	quickN, thorN int // node bounds (quick / thorough tier)
	pairN         int // thorough: programs up to this size also get rewrite pairs
	text          string
}

// The slices share the statement / expression constructs of the IR but use small, colliding name alphabets
// (a, b / f) so that shadowing, capture, TDZ and redeclaration interactions occur within a few nodes.
var slices = []slice{
	{name: "tdz", start: "P", quickN: 4, thorN: 4, pairN: 4, text: `
P   := @0 (prog (fdecl f PS CAP (try (block ACC (expr (call log "no throw"))) (catch e (expr (call log e))) _) DECL (return (arr (typeof x) (typeof g)))) (expr (call log (call f 7))))
PS  := (params) | (params a) | (params a b)
CAP := (empty) | (var g (func _ (params) (return a))) | (var g (call (arrowe (params) (typeof a)))) | (var g (arrowe (params) x)) | (expr (= a 3))
ACC := (expr (= x 1)) | (expr (call log (= x 1))) | (expr x) | (expr (call log x)) | (expr (+= x 1)) | (expr (call log (+= x 1))) | (expr (post++ x)) | (expr (call log (++pre x)))
     | (expr (call log (typeof x))) | (var y (= x 1)) | (expr (= (apat x) (arr 1))) | (block (expr (= x 1)))
DECL := (let x 2) | (const x 2) | (classdecl x _) | (block (let x 2)) | (let (apat x) (arr 2))
`},
	{name: "scope", start: "P", quickN: 6, thorN: 8, pairN: 5, text: `
P  := @0 (prog SL)
SL := @0 S | @0 (@ S SL)
S  := (expr E) | (var V E) | (let V E) | (const V E) | (let V) | (var V) | (block SL) | (if E S) | (return E)
    | (fdecl f (params) SL) | (fdecl f (params V) SL) | (try (block SL) (catch V SL) _) | (classdecl V _)
E  := V | 1 | (call log E) | (call f) | (call f E) | (= V E) | (+= V E) | (post++ V) | (typeof V) | (+ E E)
    | (arrowe (params) E) | (call (arrowe (params) E)) | (func _ (params V) (return E)) | (func V (params) (return E))
V  := a | b
`},
	{name: "ops", start: "P", quickN: 5, thorN: 6, pairN: 4, text: `
P  := @0 (prog (var o (obj (prop p 1) (prop q "s"))) (var a 2) SL)
SL := @0 S | @0 (@ S SL)
S  := (expr E) | (expr (call log E)) | (var b E)
E  := A | @0 (U E) | @0 (B E E) | @0 (L E E) | (?: E E E) | (, E E) | @0 (AS T E) | (= T E) | @0 (UP T)
A  := 1 | 0.5 | "s" | a | undefined | null | (call mk 1) | (call mk 0.5) | (call mk "p") | (call mko 1) | (call log 3)
U  := neg | pos | ! | ~ | typeof | void
B  := + | - | * | / | % | ** | << | >>> | & | < | >= | == | !== | in | instanceof
L  := && | || | ??
AS := += | -= | *= | &&= | ||= | ??=
UP := ++pre | post++ | --pre | post--
T  := a | (. o p) | ([] o K)
K  := "p" | (call mk "p") | (call log "q")
`},
	{name: "func", start: "P", quickN: 5, thorN: 7, pairN: 4, text: `
P   := @0 (prog (fdecl f PS BL) (expr (call log CALL)))
PS  := (params) | (params a) | (params a b) | (params (def a DV)) | (params a (def b DV)) | (params (rest a)) | (params a (rest b))
     | (params (apat a b)) | (params (opat (ps a) (ps b DV))) | (params (def (apat a) (arr DV)))
DV  := 1 | a | b | (call log 2) | (arrowe (params) a) | ([] arguments 0)
BL  := @0 BB | @0 (@ BB BL)
BB  := (return XX) | (expr (= TT XX)) | (var a XX) | (var b) | (let c XX) | (expr (call log XX)) | (fdecl a (params) (return 3)) | (expr (post++ TT))
TT  := a | b | ([] arguments 0) | ([] arguments 1)
XX  := a | b | c | 1 | ([] arguments 0) | (. arguments length) | (arrowe (params) a) | (call (arrowe (params) ([] arguments 0))) | (typeof a) | (arr a b)
CALL := (call f) | (call f 1) | (call f 1 2) | (call f undefined 2)
`},
	{name: "loops", start: "P", quickN: 5, thorN: 7, pairN: 4, text: `
P   := @0 (prog (var fs (arr)) (var x 0) LOOP (forof (var g) fs (expr (call log (call g)))))
LOOP := (for (let x 0) (< x 2) UPD BODY) | (for (var x 0) (< x 2) UPD BODY) | (for (let x 0) (< (post++ x) 2) _ BODY)
     | (forof (let x) (arr 1 2) BODY) | (forof (const x) (arr 1 2) BODY) | (forof (var x) (arr 1 2) BODY) | (forof x (arr 1 2) BODY)
     | (forin (let x) (obj (prop p 1) (prop q 2)) BODY) | (while (< (post++ x) 2) BODY) | (dowhile BODY (< (post++ x) 2))
     | (forof (let (apat x y)) (arr (arr 1 2) (arr 3 4)) BODY) | (label L1 (forof (let x) (call it 2) BODY))
UPD := (post++ x) | (+= x 1) | (, (call (. fs push) (arrowe (params) x)) (post++ x))
BODY := (block BS) | BB
BS  := @0 BB | @0 (@ BB BS)
BB  := (expr (call (. fs push) (arrowe (params) XX))) | (expr (post++ XX)) | (let j XX) | (continue) | (break) | (if (== XX 1) BB) | (var v XX) | (expr (call log XX)) | (block BS) | (continue L1)
XX  := x | j | v | y
`},
	{name: "class", start: "P", quickN: 5, thorN: 7, pairN: 4, text: `
P   := @0 (prog (classdecl B _ (ctor (params) (expr (call log "B"))) (method m (params) (return "Bm"))) (classdecl A HR MS) (var o (new A 1)) US)
HR  := _ | B
MS  := @0 MM | @0 (@ MM MS)
MM  := (ctor (params x) CS) | (method m (params) (return XX)) | (get g (return XX)) | (set g v (expr (call log v))) | (smethod s (params) (return XX))
     | (field f XX) | (sfield t XX) | (method n (params) (return (arrowe (params) XX)))
CS  := @0 CC | @0 (@ CC CS)
CC  := (expr (super)) | (expr (= (. this p) XX)) | (expr (call log XX)) | (return (obj))
XX  := 1 | x | this | (. this p) | (call log 2) | (call (superdot m)) | A | (typeof A)
US  := @0 UU | @0 (@ UU US)
UU  := (expr (call log (. o g))) | (expr (= (. o g) 1)) | (expr (call log (call (. o m)))) | (expr (call log (call (. A s)))) | (expr (call log (. o f)))
     | (expr (call log (. A t))) | (expr (call log (call (call (. o n))))) | (expr (call log (. o p)))
`},
	{name: "accessors", start: "P", quickN: 5, thorN: 7, pairN: 4, text: `
P   := @0 (prog (var c 0) (var o (obj PRS)) US)
PRS := @0 PR | @0 (@ PR PRS)
PR  := (prop p XX) | (get g GS) | (set g v SS) | (method m (params) GS) | (cprop (call log "k") XX) | (short c) | (get p GS)
GS  := @0 GG | @0 (@ GG GS)
GG  := (return XX) | (expr (call log "g")) | (expr (post++ c))
SS  := @0 SX | @0 (@ SX SS)
SX  := (expr (call log v)) | (expr (= c v)) | (expr (= (. this p) v))
XX  := 1 | c | this | (. this p) | (call log 2) | (arrowe (params) this)
US  := @0 UU | @0 (@ UU US)
UU  := (expr (call log (. o g))) | (expr (= (. o g) 5)) | (expr (+= (. o g) 1)) | (expr (*= (. o g) (call log 2))) | (expr (post++ (. o g))) | (expr (call log (call (. o m)))) | (expr (call log (. o p))) | (expr (call log (. o k)))
     | (expr (call log (typeof (. o g)))) | (expr (delete (. o g)))
`},
	{name: "destructuring", start: "P", quickN: 5, thorN: 7, pairN: 4, text: `
P   := @0 (prog (var a 0) (var b 0) (var o (obj (prop p 0))) ST (expr (call log (arr a b (. o p)))))
ST  := (expr (= PAT SRC)) | (block (let PAT SRC) (expr (call log (arr a b)))) | (forof (var PAT) (arr SRC) (empty)) | (try (block (throw SRC)) (catch PAT (expr (call log (arr a b)))) _)
PAT := (apat EL) | (apat EL EL) | (apat EL (rest a)) | (opat PP) | (opat PP PP) | (opat PP (rest b))
EL  := a | b | (def a DV) | _ | (apat a) | (. o p) | (def (. o p) DV)
PP  := (ps a) | (ps a DV) | (p x b) | (p x b DV) | (p y (apat a)) | (p x (. o p))
DV  := 1 | (call log 5) | b | (call thr 1)
SRC := (arr 1 2) | (call it 2) | (obj (prop a 1) (prop x 2)) | (obj (get a (expr (call log "ga")) (return 1))) | undefined | "st" | (arr) | (obj (prop y (call it 1)))
`},
	{name: "completion", start: "P", quickN: 5, thorN: 7, pairN: 4, text: `
P  := @0 (prog (var n 0) SL)
SL := @0 S | @0 (@ S SL)
S  := (expr N) | (var c N) | (empty) | (block SL) | (if C S) | (if C S S) | (label LB S) | (break) | (break LB) | (continue)
    | (dowhile S false) | (while (< (post++ n) 2) S) | (while false S) | (for (var j 0) (< j 0) _ S) | (for (let i 0) (< i 2) (post++ i) S) | (forof (var x) (arr 1 2) S)
    | (try (block SL) (catch e SL) _) | (try (block SL) _ (finally SL))
    | (switch N (case 1 SL) (default SL)) | (switch N (default SL) (case 2 SL)) | (throw N)
N  := 1 | 2
C  := true | false | (call log 1)
LB := L1 | L2
`},
}

// corpus: fixed regression programs, run first in every tier: the minimal inputs of the known findings and
// hand-written anchors for constructs that are too large for the enumerated slices.
var corpus = []string{
	// known finding: unary minus converts an object operand twice when the result is not an integer
	`(prog (expr (neg (call mk 0.5))))`,
	// known finding: compound assignment / update on o[k] converts the key twice
	`(prog (var o (obj (prop a 1))) (expr (post++ ([] o (call mk "a")))))`,
	`(prog (var o (obj (prop a 1))) (expr (+= ([] o (call mk "a")) 1)))`,
	// ---- minimal inputs of the other known findings ----
	`(prog (try (block (expr (call f (call log 1)))) (catch e (expr (call log e))) _))`,
	`(prog (let a 1) (fdecl f (params) (return a)) (expr (call log (call f))))`,
	`(prog (expr (call log (call (arrowe (params) (+ 1 2))))))`,
	`(prog (try (block (const a (= a 1))) (catch e (expr (call log e))) _))`,
	`(prog (var r 0) (for (let i 0) (< i 3) (post++ i) (block (if false (continue)) (expr (+= r i)))) (expr (call log r)))`,
	`(prog (var r 0) (for (let i 0) (< i 3) (post++ i) (block (if false (break)) (expr (+= r i)))) (expr (call log r)))`,
	`(prog (fdecl f (params a) (var b) (return (call (arrowe (params) (arr a b))))) (expr (call log (call f 1 2))))`,
	`(prog (fdecl f (params (def a (arrowe (params) b)) (def b 1)) (return b)) (expr (call log (call f undefined 2))))`,
	`(prog (fdecl f (params (rest a)) (var a 1) (return a)) (expr (call log (call f))))`,
	`(prog (fdecl f (params (def a a)) (return ([] arguments 0))) (expr (call log (call f 1))))`,
	`(prog (classdecl B _ (method m (params) (return 1))) (classdecl A B (field f (superdot m))) (expr (call log (typeof (. (new A) f)))))`,
	`(prog (fdecl g (params a (rest r)) (return (arr (call (func _ (params) (return a))) r))) (expr (call log (call g 1 2))))`,
	`(prog (fdecl h (params) (directive "use strict") (return (call (arrowe (params) (typeof arguments))))) (expr (call log (call h 5))))`,
	`(prog (var n 0) (while (< (post++ n) 1) (block (expr 1) (block (break)) (expr 2))))`,
	`(prog (label L (try (block (expr 1)) _ (finally (block (break L))))))`,
	`(prog (label L1 (label L2 (for (var i 0) (< i 2) (post++ i) (block (expr (call log i)) (continue L1))))))`,
	`(prog (classdecl B _) (classdecl A B (ctor (params) (expr (call log (typeof (call (arrowe (params) this))))) (expr (super)))) (try (block (expr (new A))) (catch e (expr (call log e))) _))`,
	`(prog (classdecl B _ (method m (params) (return 1))) (classdecl A B (ctor (params) (expr (call log (call (arrowe (params) (call (superdot m)))))) (expr (super)))) (try (block (expr (new A))) (catch e (expr (call log e))) _))`,
	`(prog (classdecl B _ (method m (params) (return 1))) (classdecl A B (ctor (params) (var f (arrowe (params) (arr (=== this o) (call (superdot m))))) (expr (super)) (var o this) (expr (call log (call f))))) (expr (new A)))`,
	// ---- anchors: TDZ writes / reads of stack-resident lexical locals in functions whose parameters are (not) captured ----
	`(prog (fdecl f (params a) (var g (func _ (params) (return a))) (try (block (expr (= x 1)) (expr (call log "no throw"))) (catch e (expr (call log e))) _) (let x 2) (return (arr x (call g)))) (expr (call log (call f 7))))`,
	`(prog (fdecl f (params a) (try (block (expr (= x 1)) (expr (call log "no throw"))) (catch e (expr (call log e))) _) (let x 2) (return (arr x a))) (expr (call log (call f 7))))`,
	`(prog (fdecl f (params a) (var g (call (arrowe (params) a))) (try (block (expr (call log (= x 1))) (expr (call log "no throw"))) (catch e (expr (call log e))) _) (try (block (expr (+= x 1))) (catch e (expr (call log e))) _) (try (block (expr (post++ x))) (catch e (expr (call log e))) _) (try (block (expr x)) (catch e (expr (call log e))) _) (const x 2) (return (arr x g))) (expr (call log (call f 7))))`,
	`(prog (fdecl f (params a) (var g (arrowe (params) a)) (block (try (block (expr (= x 1)) (expr (call log "no throw"))) (catch e (expr (call log e))) _) (let x 2) (expr (call log x))) (return (call g))) (expr (call log (call f 7))))`,
	`(prog (fdecl f (params) (try (block (expr (= x 1)) (expr (call log "no throw"))) (catch e (expr (call log e))) _) (let x 2) (return x)) (expr (call log (call f))))`,
	// ---- anchors: scopes, closures, TDZ ----
	`(prog (const a 1) (expr (call log (call (arrowe (params) (call (arrowe (params) a)))))))`,
	`(prog (let a 1) (var f (arrowe (params) a)) (expr (= a 2)) (expr (call log (call f))))`,
	`(prog (fdecl f (params) (return a)) (try (block (expr (call log (call f)))) (catch e (expr (call log e))) _) (let a 1) (expr (call log (call f))))`,
	`(prog (let a 1) (block (let a 2) (expr (call log a)) (block (let a 3) (expr (call log a)))) (expr (call log a)))`,
	`(prog (var e 1) (var f) (try (block (throw 2)) (catch e (expr (= f (arrowe (params) e))) (expr (= e 3))) _) (expr (call log (arr e (call f)))))`,
	`(prog (var g (func f (params n) (return (?: (< n 1) 0 (+ n (call f (- n 1))))))) (expr (call log (call g 3))))`,
	`(prog (expr (call log (typeof a))) (block (var a 1)) (expr (call log a)))`,
	`(prog (classdecl A _ (smethod s (params) (return (typeof A)))) (var B A) (expr (= A 1)) (expr (call log (call (. B s)))))`,
	`(prog (switch 1 (case 0 (let a 1)) (case 1 (try (block (expr (call log a))) (catch e (expr (call log e))) _))))`,
	`(prog (var fs (arr)) (for (let i 0) (< i 2) (, (call (. fs push) (arrowe (params) i)) (post++ i)) (empty)) (forof (var g) fs (expr (call log (call g)))))`,
	`(prog (var fs (arr)) (forof (const x) (arr 1 2) (expr (call (. fs push) (arrowe (params) x)))) (expr (call log (call ([] fs 0)))) (expr (call log (call ([] fs 1)))))`,
	`(prog (var fs (arr)) (forin (let k) (obj (prop p 1) (prop q 2)) (expr (call (. fs push) (arrowe (params) k)))) (expr (call log (call ([] fs 0)))) (expr (call log (call ([] fs 1)))))`,
	`(prog (var fs (arr)) (var n 0) (while (< (post++ n) 2) (block (let j n) (expr (call (. fs push) (arrowe (params) (post++ j)))))) (expr (call log (arr (call ([] fs 0)) (call ([] fs 0)) (call ([] fs 1))))))`,
	`(prog (var fs (arr)) (label L (for (let i 0) (< i 3) (post++ i) (for (let j 0) (< j 3) (post++ j) (block (if (== j 1) (continue L)) (expr (call (. fs push) (arrowe (params) (+ (* i 10) j)))))))) (forof (var g) fs (expr (call log (call g)))))`,
	`(prog (fdecl mk2 (params) (var c 0) (return (obj (method inc (params) (return (++pre c))) (method get (params) (return c))))) (var p (call mk2)) (var q (call mk2)) (expr (call (. p inc))) (expr (call (. p inc))) (expr (call (. q inc))) (expr (call log (arr (call (. p get)) (call (. q get))))))`,
	`(prog (var a 1) (fdecl f (params) (expr (call log a)) (var a 2) (expr (call log a))) (expr (call f)) (expr (call log a)))`,
	`(prog (fdecl f (params) (return (typeof g)) (fdecl g (params))) (expr (call log (call f))))`,
	`(prog (fdecl f (params a) (block (let a 2) (expr (call log a))) (return a)) (expr (call log (call f 1))))`,
	// ---- anchors: operators, conversions, evaluation order ----
	`(prog (var o (obj (get g (expr (call log "g")) (return 2)) (set g v (expr (call log v))))) (expr (*= (. o g) (call log 3))) (expr (call log "end")))`,
	`(prog (var o (obj (get g (expr (call log "g")) (return 0)) (set g v (expr (call log v))))) (expr (||= (. o g) (call log 3))) (expr (&&= (. o g) (call log 4))) (expr (??= (. o g) (call log 5))) (expr (call log "end")))`,
	`(prog (var o (obj (get g (expr (call log "g")) (return 2)) (set g v (expr (call log v))))) (expr (call log (post++ (. o g)))) (expr (call log (--pre (. o g)))) (expr (-= (. o g) 1)))`,
	`(prog (expr (call log (+ (call mk 1) (call mk 2)))) (expr (call log (< (call mk 2) (call mk 1)))) (expr (call log (> (call mk 2) (call mk 1)))) (expr (call log (== (call mk 1) 1))) (expr (call log (== 1 (call mk 1)))))`,
	`(prog (var o (obj (prop p 1))) (expr (call log (in (call mk "p") o))) (expr (call log ([] o (call mk "p")))) (expr (call log (tpl "a" (call mk 1) "b"))) (expr (call log (+ "" (call mk 1)))) (expr (call log (* (call mko 2) (call mk 3)))))`,
	`(prog (expr (call log (&& (call log 0) (call log 1)))) (expr (call log (|| (call log 0) (call log 1)))) (expr (call log (?? null (call log 2)))) (expr (call log (?? (call log null) 3))) (expr (?: (call log 0) (call log 1) (call log 2))))`,
	`(prog (var o (obj)) (expr (= (. (call log o) p) (call log 2))) (expr (= ([] o (call log "q")) (call log 3))) (expr (call log (arr (. o p) (. o q)))) (expr (call log (delete (. o p)))) (expr (call log (typeof (. o p)))) (expr (call log (typeof nope))) (expr (call log (void (call log 1)))))`,
	`(prog (var o (obj (method m (params a b) (return (arr (=== this o) a b))))) (expr (call log (call (. (call log o) m) (call log 1) (call log 2)))) (expr (call log (call ([] o "m") 3))))`,
	`(prog (var a 1) (expr (call log (+ a (= a 5)))) (expr (call log (+ (post++ a) a))) (expr (call log (, (= a 2) (+= a (*= a 3))))) (expr (call log a)))`,
	`(prog (var a (arr 1 2)) (var i 0) (expr (= ([] a (post++ i)) (post++ i))) (expr (call log (arr a i))) (expr (+= ([] a (call log 0)) (call log 5))) (expr (call log a)))`,
	`(prog (expr (call log (arr (neg (call mk 1)) (pos (call mk "2")) (~ (call mk 1)) (! (call mk 0)) (typeof (call mk 1)) (neg 0) (neg (neg 0.5))))))`,
	`(prog (expr (call log (arr (+ 1 2) (+ "a" 1) (- "3" 1) (* 2 0.5) (/ 1 0) (% 5 3) (** 2 3) (<< 1 3) (>>> (neg 1) 28) (& 6 3) (| 6 3) (^ 6 3) (< "a" "b") (== null undefined) (=== 1 "1") (!= 1 2)))))`,
	`(prog (try (block (expr (+ (call thr 1) (call log 2)))) (catch e (expr (call log e))) _) (try (block (expr (call log (+ (call mko 1) 1)))) (catch e (expr (call log e))) _) (try (block (expr (call (. undefined x)))) (catch e (expr (call log e))) _) (try (block (expr (call (call log 5)))) (catch e (expr (call log e))) _))`,
	// ---- anchors: completion values ----
	`(prog (dowhile (expr 1) false))`,
	`(prog (expr 1) (if true (block)))`,
	`(prog (expr 1) (label L (block (expr 2) (break L))))`,
	`(prog (label L (try (block (expr 1)) _ (finally (break L)))))`,
	`(prog (var n 0) (dowhile (try (block (expr 1) (continue)) _ (finally (expr 2))) (< (post++ n) 1)))`,
	`(prog (expr 9) (var n 0) (while (< (post++ n) 3) (block (if (== n 2) (block (expr n) (break))) (expr 7))))`,
	`(prog (expr 9) (forof (var x) (arr 1 2 3) (switch x (case 1 (expr 10)) (case 2 (expr 20) (break)) (default (continue)))))`,
	`(prog (expr 9) (try (block (throw 1)) (catch e (var q 1)) _))`,
	`(prog (expr 9) (try (block (expr 1)) _ (finally (expr 2))))`,
	`(prog (expr 9) (block (var a 1) (fdecl g (params))) (empty))`,
	`(prog (label L1 (label L2 (for (var i 0) (< i 2) (post++ i) (block (expr i) (if (== i 0) (continue L1)) (break L2))))))`,
	// ---- anchors: functions, parameters, arguments ----
	`(prog (fdecl f (params a (def b (+ a 1)) (def c (arrowe (params) b))) (return (arr a b (call c)))) (expr (call log (call f 1))) (expr (call log (call f 1 5))) (expr (call log (call f 1 undefined (arrowe (params) 9)))))`,
	`(prog (fdecl f (params a (rest r)) (return (arr a r (. arguments length)))) (expr (call log (call f))) (expr (call log (call f 1 2 3))) (expr (call log (call f (spread (arr 1 2))))))`,
	`(prog (fdecl f (params (opat (ps a) (ps b 2)) (apat c (def d 4))) (return (arr a b c d))) (expr (call log (call f (obj (prop a 1)) (arr 3)))) (try (block (expr (call f))) (catch e (expr (call log e))) _))`,
	`(prog (fdecl f (params) (return (call (arrowe (params) (arr ([] arguments 0) (typeof this)))))) (expr (call log (call f 5))) (expr (call log (call (. f call) 7 6))))`,
	`(prog (fdecl f (params a b) (expr (= ([] arguments 1) 9)) (expr (= a 8)) (return (arr a b ([] arguments 0) ([] arguments 1) (. arguments length)))) (expr (call log (call f 1 2))) (expr (call log (call f 1))))`,
	`(prog (fdecl f (params a) (directive "use strict") (expr (= ([] arguments 0) 9)) (expr (= a 8)) (return (arr a ([] arguments 0)))) (expr (call log (call f 1))))`,
	`(prog (fdecl f (params a) (expr (delete ([] arguments 0))) (expr (= a 2)) (return (arr a ([] arguments 0) (. arguments length)))) (expr (call log (call f 1))))`,
	`(prog (fdecl f (params (def a 1)) (var a) (return a)) (expr (call log (call f))) (fdecl g (params a) (var a) (return a)) (expr (call log (call g 2))) (fdecl h (params a) (var a 3) (return (arr a ([] arguments 0)))) (expr (call log (call h 2))))`,
	`(prog (fdecl f (params a) (fdecl a (params)) (return (arr (typeof a) (typeof ([] arguments 0))))) (expr (call log (call f 1))))`,
	`(prog (fdecl f (params (def a (call log 1)) (def b (call log 2))) (return (+ a b))) (expr (call log (call f))) (expr (call log (call f 5))) (expr (call log (call f undefined 5))))`,
	`(prog (var x 1) (fdecl f (params (def a (arrowe (params) x))) (var x 2) (return (arr (call a) x))) (expr (call log (call f))))`,
	`(prog (fdecl F (params a) (expr (= (. this a) a))) (var o (new F 1)) (expr (call log (arr (. o a) (instanceof o F) (=== (. o constructor) F)))) (fdecl G (params) (return (obj (prop z 1)))) (expr (call log (. (new G) z))))`,
	// ---- anchors: classes, accessors, this ----
	`(prog (classdecl A _ (ctor (params x) (expr (call log "A")) (expr (= (. this x) x))) (get g (return (. this x))) (set g v (expr (= (. this x) v))) (smethod s (params) (return "s")) (sfield t (call log "t")) (field f (call log "f"))) (var o (new A 1)) (expr (= (. o g) 2)) (expr (call log (arr (. o g) (. o f) (. A t) (call (. A s))))))`,
	`(prog (classdecl B _ (ctor (params x) (expr (call log "B")) (expr (= (. this x) x))) (method m (params) (return (+ "Bm" (. this x))))) (classdecl A B (ctor (params) (try (block (expr (call log this))) (catch e (expr (call log e))) _) (expr (super 5)) (expr (call log (call (superdot m))))) (method m (params) (return "Am"))) (var o (new A)) (expr (call log (arr (call (. o m)) (instanceof o B)))))`,
	`(prog (classdecl B _) (classdecl A B (ctor (params) (return (obj (prop z 1))))) (expr (call log (. (new A) z))) (classdecl C B (ctor (params))) (try (block (expr (new C))) (catch e (expr (call log e))) _) (try (block (expr (call A))) (catch e (expr (call log e))) _))`,
	`(prog (classdecl B _ (ctor (params (rest r)) (expr (call log r)))) (classdecl A B (field f 1)) (expr (call log (. (new A 1 2) f))))`,
	`(prog (var o (obj (prop x 1) (method m (params) (return (arrowe (params) (. this x)))) (get g (return (. this x))) (cprop (call log "k") (call log "v")) (short o2) (spread (obj (prop y 2))))) (var o2 3) (expr (call log (arr (call (call (. o m))) (. o g) (. o k) (. o y) (. o o2)))))`,
	`(prog (var C (class K _ (smethod s (params) (return (typeof K))))) (expr (call log (arr (call (. C s)) (typeof K)))))`,
	// ---- anchors: destructuring ----
	`(prog (let (apat a) (call it 3)) (expr (call log a)) (let (apat b c d) (call it 2)) (expr (call log (arr b c d))) (let (apat _ e (rest r)) (call it 4)) (expr (call log (arr e r))))`,
	`(prog (var o (obj)) (expr (= (apat (. (call log o) p) ([] o (call log "q"))) (arr 1 2))) (expr (call log (arr (. o p) (. o q)))))`,
	`(prog (var a) (var b) (expr (= (opat (ps a (call log 1)) (p x b (call log 2))) (obj (prop a undefined) (prop x 5)))) (expr (call log (arr a b))))`,
	`(prog (forof (let (apat a b)) (arr (arr 1 2) (arr 3 4)) (expr (call log (+ a b)))) (forof (let (opat (ps x))) (arr (obj (prop x 1))) (expr (call log x))))`,
	`(prog (try (block (let (apat a (def b (call thr 1))) (call it 3))) (catch e (expr (call log e))) _) (try (block (let (opat (ps a)) null)) (catch e (expr (call log e))) _))`,
	`(prog (var a 1) (var b 2) (expr (= (apat a b) (arr b a))) (expr (call log (arr a b))) (let (opat (p x (opat (ps y))) (rest r)) (obj (prop x (obj (prop y 1))) (prop z 2))) (expr (call log (arr y (. r z)))))`,
	// ---- anchors: control flow ----
	`(prog (fdecl f (params) (try (block (return (call log 1))) _ (finally (expr (call log "f"))))) (expr (call log (call f))) (fdecl g (params) (try (block (return 1)) _ (finally (return 2)))) (expr (call log (call g))) (fdecl h (params) (forof (var x) (call it 3) (try (block (return x)) _ (finally (expr (call log "fin")))))) (expr (call log (call h))))`,
	`(prog (label L (for (var i 0) (< i 3) (post++ i) (try (block (if (== i 1) (continue L)) (if (== i 2) (break L)) (expr (call log i))) _ (finally (expr (call log (+ "f" i))))))))`,
	`(prog (forof (var x) (arr 1 2 3) (switch x (case 2 (let y x) (expr (call log (arrowe (params) y))) (break)) (default (expr (call log x))) (case 3 (expr (call log "three"))))))`,
	`(prog (try (block (try (block (throw 1)) _ (finally (expr (call log "f1"))))) (catch e (expr (call log e)) (try (block (throw 2)) (catch e (expr (call log e))) (finally (expr (call log "f2"))))) _))`,
	`(prog (var i 0) (label L (dowhile (block (expr (post++ i)) (if (< i 3) (continue L)) (expr (call log i))) (< i 5))))`,
	// anchors
	`(prog (let a 1) (fdecl f (params) (return a)) (expr (call log (call f))))`,
	`(prog (expr (call log (typeof a))) (var a 1))`,
	`(prog (var fs (arr)) (for (let i 0) (< i 3) (post++ i) (expr (call (. fs push) (arrow (params) (return i))))) (expr (call log (call ([] fs 0)))) (expr (call log (call ([] fs 2)))))`,
	`(prog (var o (obj (get p (expr (call log 1)) (return 5)) (set p v (expr (call log v))))) (expr (+= (. o p) 2)))`,
	`(prog (label L (block (expr 1) (if true (break L)) (expr 3))))`,
	`(prog (try (block (expr 1) (throw 2)) (catch e (expr (call log e)) (expr 3)) (finally (expr 4))))`,
	`(prog (fdecl f (params a (def b (+ a 1))) (expr (call log b)) (return arguments)) (expr (call log (. (call f 1) length))))`,
	`(prog (fdecl f (params a) (expr (= ([] arguments 0) 5)) (return a)) (expr (call log (call f 1))))`,
	`(prog (fdecl f (params a) (expr (= a 5)) (return ([] arguments 0))) (expr (call log (call f 1))))`,
	`(prog (switch 2 (case 1 (expr 10)) (default (expr 20)) (case 2 (expr 30)) (case 3 (expr 40) (break))))`,
	`(prog (classdecl A _ (ctor (params x) (expr (= (. this x) x))) (method m (params) (return (. this x))) (smethod s (params) (return 7)) (field f (call log 9))) (expr (call log (call (. (new A 3) m)))) (expr (call log (call (. A s)))))`,
	`(prog (classdecl A _ (method m (params) (return 1))) (classdecl B A (ctor (params) (expr (super)) (expr (call log (call (superdot m)))))) (expr (new B)))`,
	`(prog (let (apat a (def b 2) (rest c)) (arr 1 undefined 3 4)) (expr (call log (arr a b c))))`,
	`(prog (let (opat (ps a) (p x y 5) (rest r)) (obj (prop a 1) (prop z 3))) (expr (call log (arr a y (. r z)))))`,
	`(prog (forof (let x) (call it 3) (block (expr (call log x)) (if (== x 2) (break)))))`,
	`(prog (forin (var k) (obj (prop a 1) (prop b 2)) (expr (call log k))))`,
	`(prog (var x (func f (params) (expr (= f 1)) (return (typeof f)))) (expr (call log (call x))))`,
	`(prog (expr (= q 1)) (expr (call log q)))`,
	`(prog (fdecl f (params) (return this)) (expr (call log (typeof (call f)))))`,
	`(prog (const c 1) (try (block (expr (= c 2))) (catch e (expr (call log e))) _))`,
	`(prog (expr (tpl "a" (call mk 1) "b")))`,
	`(prog (var a 1) (expr (, (= a 2) (+= a (= a 5)))) (expr (call log a)))`,
	`(prog (expr 7) (label L (for (var i 0) (< i 2) (post++ i) (block (expr i) (continue L)))))`,
	`(prog (expr 7) (label L (try (block (expr 1) (break L)) _ (finally (expr 2)))))`,
}
