package c02

// slice is one grammar of IR programs, enumerated exhaustively up to a node bound.
type slice struct {
	name, start   string
	quickN, thorN int // node bounds (quick / thorough tier)
	pairN         int // thorough: programs up to this size also get rewrite pairs
	text          string
}

// The slices share the statement / expression constructs of the IR but use small, colliding name alphabets
// (a, b / f) so that shadowing, capture, TDZ and redeclaration interactions occur within a few nodes.
var slices = []slice{
	{name: "scope", start: "P", quickN: 6, thorN: 8, pairN: 5, text: `
P  := @0 (prog SL)
SL := @0 S | @0 (@ S SL)
S  := (expr E) | (var V E) | (let V E) | (const V E) | (let V) | (var V) | (block SL) | (if E S) | (return E)
    | (fdecl f (params) SL) | (fdecl f (params V) SL) | (try (block SL) (catch V SL) _) | (classdecl V _)
E  := V | 1 | (call log E) | (call f) | (call f E) | (= V E) | (+= V E) | (post++ V) | (typeof V) | (+ E E)
    | (arrowe (params) E) | (call (arrowe (params) E)) | (func _ (params V) (return E)) | (func V (params) (return E))
V  := a | b
`},
	{name: "ops", start: "P", quickN: 5, thorN: 6, pairN: 4, text: `
P  := @0 (prog (var o (obj (prop p 1) (prop q "s"))) (var a 2) SL)
SL := @0 S | @0 (@ S SL)
S  := (expr E) | (expr (call log E)) | (var b E)
E  := A | @0 (U E) | @0 (B E E) | @0 (L E E) | (?: E E E) | (, E E) | @0 (AS T E) | (= T E) | @0 (UP T)
A  := 1 | 0.5 | "s" | a | undefined | null | (call mk 1) | (call mk 0.5) | (call mk "p") | (call mko 1) | (call log 3)
U  := neg | pos | ! | ~ | typeof | void
B  := + | - | * | / | % | ** | << | >>> | & | < | >= | == | !== | in | instanceof
L  := && | || | ??
AS := += | -= | *= | &&= | ||= | ??=
UP := ++pre | post++ | --pre | post--
T  := a | (. o p) | ([] o K)
K  := "p" | (call mk "p") | (call log "q")
`},
	{name: "completion", start: "P", quickN: 6, thorN: 8, pairN: 5, text: `
P  := @0 (prog (var n 0) SL)
SL := @0 S | @0 (@ S SL)
S  := (expr N) | (var c N) | (empty) | (block SL) | (block) | (if C S) | (if C S S) | (label LB S) | (break) | (break LB) | (continue) | (continue LB)
    | (dowhile S false) | (while (< (post++ n) 2) S) | (while false S) | (for (var j 0) (< j 0) _ S) | (for (let i 0) (< i 2) (post++ i) S) | (forof (var x) (arr 1 2) S) | (forin (var k) (obj (prop p 1)) S)
    | (try (block SL) (catch e SL) _) | (try (block SL) _ (finally SL)) | (try (block SL) (catch e SL) (finally SL))
    | (switch N (case 1 SL) (default SL)) | (switch N (default SL) (case 2 SL)) | (throw N) | (let d N)
N  := 1 | 2
C  := true | false | (call log 1) | (call log 0)
LB := L1 | L2
`},
	{name: "func", start: "P", quickN: 5, thorN: 7, pairN: 4, text: `
P   := @0 (prog (fdecl f PS BL) (expr (call log CALL)))
PS  := (params) | (params a) | (params a b) | (params (def a DV)) | (params a (def b DV)) | (params (rest a)) | (params a (rest b))
     | (params (apat a b)) | (params (opat (ps a) (ps b DV))) | (params (def (apat a) (arr DV)))
DV  := 1 | a | b | (call log 2) | (arrowe (params) a) | ([] arguments 0)
BL  := @0 BB | @0 (@ BB BL)
BB  := (return XX) | (expr (= TT XX)) | (var a XX) | (var b) | (let c XX) | (expr (call log XX)) | (fdecl a (params) (return 3)) | (expr (post++ TT))
TT  := a | b | ([] arguments 0) | ([] arguments 1)
XX  := a | b | c | 1 | ([] arguments 0) | (. arguments length) | (arrowe (params) a) | (call (arrowe (params) ([] arguments 0))) | (typeof a) | (arr a b)
CALL := (call f) | (call f 1) | (call f 1 2) | (call f undefined 2)
`},
	{name: "loops", start: "P", quickN: 5, thorN: 7, pairN: 4, text: `
P   := @0 (prog (var fs (arr)) (var x 0) LOOP (forof (var g) fs (expr (call log (call g)))))
LOOP := (for (let x 0) (< x 2) UPD BODY) | (for (var x 0) (< x 2) UPD BODY) | (for (let x 0) (< (post++ x) 2) _ BODY)
     | (forof (let x) (arr 1 2) BODY) | (forof (const x) (arr 1 2) BODY) | (forof (var x) (arr 1 2) BODY) | (forof x (arr 1 2) BODY)
     | (forin (let x) (obj (prop p 1) (prop q 2)) BODY) | (while (< (post++ x) 2) BODY) | (dowhile BODY (< (post++ x) 2))
     | (forof (let (apat x y)) (arr (arr 1 2) (arr 3 4)) BODY) | (label L1 (forof (let x) (call it 2) BODY))
UPD := (post++ x) | (+= x 1) | (, (call (. fs push) (arrowe (params) x)) (post++ x))
BODY := (block BS) | BB
BS  := @0 BB | @0 (@ BB BS)
BB  := (expr (call (. fs push) (arrowe (params) XX))) | (expr (post++ XX)) | (let j XX) | (continue) | (break) | (if (== XX 1) BB) | (var v XX) | (expr (call log XX)) | (block BS) | (continue L1)
XX  := x | j | v | y
`},
	{name: "class", start: "P", quickN: 5, thorN: 7, pairN: 4, text: `
P   := @0 (prog (classdecl B _ (ctor (params) (expr (call log "B"))) (method m (params) (return "Bm"))) (classdecl A HR MS) (var o (new A 1)) US)
HR  := _ | B
MS  := @0 MM | @0 (@ MM MS)
MM  := (ctor (params x) CS) | (method m (params) (return XX)) | (get g (return XX)) | (set g v (expr (call log v))) | (smethod s (params) (return XX))
     | (field f XX) | (sfield t XX) | (method n (params) (return (arrowe (params) XX)))
CS  := @0 CC | @0 (@ CC CS)
CC  := (expr (super)) | (expr (= (. this p) XX)) | (expr (call log XX)) | (return (obj))
XX  := 1 | x | this | (. this p) | (call log 2) | (call (superdot m)) | A | (typeof A)
US  := @0 UU | @0 (@ UU US)
UU  := (expr (call log (. o g))) | (expr (= (. o g) 1)) | (expr (call log (call (. o m)))) | (expr (call log (call (. A s)))) | (expr (call log (. o f)))
     | (expr (call log (. A t))) | (expr (call log (call (call (. o n))))) | (expr (call log (. o p)))
`},
	{name: "accessors", start: "P", quickN: 5, thorN: 7, pairN: 4, text: `
P   := @0 (prog (var c 0) (var o (obj PRS)) US)
PRS := @0 PR | @0 (@ PR PRS)
PR  := (prop p XX) | (get g GS) | (set g v SS) | (method m (params) GS) | (cprop (call log "k") XX) | (short c) | (get p GS)
GS  := @0 GG | @0 (@ GG GS)
GG  := (return XX) | (expr (call log "g")) | (expr (post++ c))
SS  := @0 SX | @0 (@ SX SS)
SX  := (expr (call log v)) | (expr (= c v)) | (expr (= (. this p) v))
XX  := 1 | c | this | (. this p) | (call log 2) | (arrowe (params) this)
US  := @0 UU | @0 (@ UU US)
UU  := (expr (call log (. o g))) | (expr (= (. o g) 5)) | (expr (+= (. o g) 1)) | (expr (*= (. o g) (call log 2))) | (expr (post++ (. o g))) | (expr (call log (call (. o m)))) | (expr (call log (. o p))) | (expr (call log (. o k)))
     | (expr (call log (typeof (. o g)))) | (expr (delete (. o g)))
`},
	{name: "destructuring", start: "P", quickN: 5, thorN: 7, pairN: 4, text: `
P   := @0 (prog (var a 0) (var b 0) (var o (obj (prop p 0))) ST (expr (call log (arr a b (. o p)))))
ST  := (expr (= PAT SRC)) | (block (let PAT SRC) (expr (call log (arr a b)))) | (forof (var PAT) (arr SRC) (empty)) | (try (block (throw SRC)) (catch PAT (expr (call log (arr a b)))) _)
PAT := (apat EL) | (apat EL EL) | (apat EL (rest a)) | (opat PP) | (opat PP PP) | (opat PP (rest b))
EL  := a | b | (def a DV) | _ | (apat a) | (. o p) | (def (. o p) DV)
PP  := (ps a) | (ps a DV) | (p x b) | (p x b DV) | (p y (apat a)) | (p x (. o p))
DV  := 1 | (call log 5) | b | (call thr 1)
SRC := (arr 1 2) | (call it 2) | (obj (prop a 1) (prop x 2)) | (obj (get a (expr (call log "ga")) (return 1))) | undefined | "st" | (arr) | (obj (prop y (call it 1)))
`},
}

// corpus: fixed regression programs, run first in every tier: the minimal inputs of the known findings and
// hand-written anchors for constructs that are too large for the enumerated slices.
var corpus = []string{
	// known finding: unary minus converts an object operand twice when the result is not an integer
	`(prog (expr (neg (call mk 0.5))))`,
	// known finding: compound assignment / update on o[k] converts the key twice
	`(prog (var o (obj (prop a 1))) (expr (post++ ([] o (call mk "a")))))`,
	`(prog (var o (obj (prop a 1))) (expr (+= ([] o (call mk "a")) 1)))`,
	// anchors
	`(prog (let a 1) (fdecl f (params) (return a)) (expr (call log (call f))))`,
	`(prog (expr (call log (typeof a))) (var a 1))`,
	`(prog (var fs (arr)) (for (let i 0) (< i 3) (post++ i) (expr (call (. fs push) (arrow (params) (return i))))) (expr (call log (call ([] fs 0)))) (expr (call log (call ([] fs 2)))))`,
	`(prog (var o (obj (get p (expr (call log 1)) (return 5)) (set p v (expr (call log v))))) (expr (+= (. o p) 2)))`,
	`(prog (label L (block (expr 1) (if true (break L)) (expr 3))))`,
	`(prog (try (block (expr 1) (throw 2)) (catch e (expr (call log e)) (expr 3)) (finally (expr 4))))`,
	`(prog (fdecl f (params a (def b (+ a 1))) (expr (call log b)) (return arguments)) (expr (call log (. (call f 1) length))))`,
	`(prog (fdecl f (params a) (expr (= ([] arguments 0) 5)) (return a)) (expr (call log (call f 1))))`,
	`(prog (fdecl f (params a) (expr (= a 5)) (return ([] arguments 0))) (expr (call log (call f 1))))`,
	`(prog (switch 2 (case 1 (expr 10)) (default (expr 20)) (case 2 (expr 30)) (case 3 (expr 40) (break))))`,
	`(prog (classdecl A _ (ctor (params x) (expr (= (. this x) x))) (method m (params) (return (. this x))) (smethod s (params) (return 7)) (field f (call log 9))) (expr (call log (call (. (new A 3) m)))) (expr (call log (call (. A s)))))`,
	`(prog (classdecl A _ (method m (params) (return 1))) (classdecl B A (ctor (params) (expr (super)) (expr (call log (call (superdot m)))))) (expr (new B)))`,
	`(prog (let (apat a (def b 2) (rest c)) (arr 1 undefined 3 4)) (expr (call log (arr a b c))))`,
	`(prog (let (opat (ps a) (p x y 5) (rest r)) (obj (prop a 1) (prop z 3))) (expr (call log (arr a y (. r z)))))`,
	`(prog (forof (let x) (call it 3) (block (expr (call log x)) (if (== x 2) (break)))))`,
	`(prog (forin (var k) (obj (prop a 1) (prop b 2)) (expr (call log k))))`,
	`(prog (var x (func f (params) (expr (= f 1)) (return (typeof f)))) (expr (call log (call x))))`,
	`(prog (expr (= q 1)) (expr (call log q)))`,
	`(prog (fdecl f (params) (return this)) (expr (call log (typeof (call f)))))`,
	`(prog (const c 1) (try (block (expr (= c 2))) (catch e (expr (call log e))) _))`,
	`(prog (expr (tpl "a" (call mk 1) "b")))`,
	`(prog (var a 1) (expr (, (= a 2) (+= a (= a 5)))) (expr (call log a)))`,
	`(prog (expr 7) (label L (for (var i 0) (< i 2) (post++ i) (block (expr i) (continue L)))))`,
	`(prog (expr 7) (label L (try (block (expr 1) (break L)) _ (finally (expr 2)))))`,
}
