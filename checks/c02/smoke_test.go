package c02

import (
	"testing"

	"verif/ref/irjs"
)

// smoke: hand-written programs on which the reference interpreter and the engine must agree (global code, both
// modes); a quick sanity test of irjs + printer + runner.
var smoke = []string{
	`(prog (expr (call log (+ 1 2))))`,
	`(prog (let a 1) (fdecl f (params) (return a)) (expr (call log (call f))))`,
	`(prog (expr (call log a)) (let a 1))`,
	`(prog (expr (call log (typeof a))) (var a 1))`,
	`(prog (var fs (arr)) (for (let i 0) (< i 3) (post++ i) (expr (call (. fs push) (arrow (params) (return i))))) (expr (call log (call ([] fs 0)))) (expr (call log (call ([] fs 2)))))`,
	`(prog (expr (+ (call mk 1) (call mk 2))))`,
	`(prog (expr (< (call mk 1) (call mk 2))))`,
	`(prog (var o (obj (get p (expr (call log 1)) (return 5)) (set p v (expr (call log v))))) (expr (+= (. o p) 2)) )`,
	`(prog (label L (block (expr 1) (if true (break L)) (expr 3))))`,
	`(prog (expr 1) (if false (expr 2)))`,
	`(prog (expr 1) (dowhile (block (expr 2) (break)) false))`,
	`(prog (try (block (expr 1) (throw 2)) (catch e (expr (call log e)) (expr 3)) (finally (expr 4))))`,
	`(prog (fdecl f (params a (def b (+ a 1))) (expr (call log b)) (return arguments)) (expr (call log (. (call f 1) length))))`,
	`(prog (fdecl f (params a) (expr (= ([] arguments 0) 5)) (return a)) (expr (call log (call f 1))))`,
	`(prog (fdecl f (params a) (expr (= a 5)) (return ([] arguments 0))) (expr (call log (call f 1))))`,
	`(prog (switch 2 (case 1 (expr 10)) (default (expr 20)) (case 2 (expr 30) ) (case 3 (expr 40) (break))))`,
	`(prog (classdecl A _ (ctor (params x) (expr (= (. this x) x))) (method m (params) (return (. this x))) (smethod s (params) (return 7)) (field f (call log 9))) (expr (call log (call (. (new A 3) m)))) (expr (call log (call (. A s)))))`,
	`(prog (classdecl A _ (method m (params) (return 1))) (classdecl B A (ctor (params) (expr (super)) (expr (call log (call (superdot m))))) ) (expr (new B)))`,
	`(prog (let (apat a (def b 2) (rest c)) (arr 1 undefined 3 4)) (expr (call log (arr a b c))))`,
	`(prog (let (opat (ps a) (p x y 5) (rest r)) (obj (prop a 1) (prop z 3))) (expr (call log (arr a y (. r z)))))`,
	`(prog (forof (let x) (call it 3) (block (expr (call log x)) (if (== x 2) (break)))))`,
	`(prog (forin (var k) (obj (prop a 1) (prop b 2)) (expr (call log k))))`,
	`(prog (var x (func f (params) (expr (= f 1)) (return (typeof f)))) (expr (call log (call x))))`,
	`(prog (expr (= q 1)) (expr (call log q)))`,
	`(prog (fdecl f (params) (return this)) (expr (call log (typeof (call f)))))`,
	`(prog (const c 1) (try (block (expr (= c 2))) (catch e (expr (call log e))) _))`,
	`(prog (expr (tpl "a" (call mk 1) "b")))`,
	`(prog (let a (arrowe (params x) (* x 2))) (expr (call log (call a 4))))`,
	`(prog (expr (call log (?: (call mk 1) 1 2))) (expr (call log (&& 0 (call log 5)))) (expr (?? null 3)))`,
	`(prog (var a 1) (expr (, (= a 2) (+= a (= a 5)))) (expr (call log a)))`,
	`(prog (while true (block (expr 1) (break))))`,
	`(prog (expr 7) (for _ _ _ (block (break))))`,
	`(prog (expr 7) (label L (for (var i 0) (< i 2) (post++ i) (block (expr i) (continue L)))))`,
	`(prog (expr 7) (try (block (expr 1)) _ (finally (expr 2))))`,
	`(prog (expr 7) (label L (try (block (expr 1) (break L)) _ (finally (expr 2)))))`,
}

func TestSmoke(t *testing.T) {
	in := irjs.NewInterp(irjs.NewHost())
	e := &engine{}
	for _, src := range smoke {
		p, err := irjs.Parse(src)
		if err != nil {
			t.Fatalf("%s: %v", src, err)
		}
		for _, strict := range []bool{false, true} {
			mp := modeProg(p, strict)
			js := irjs.Print(mp)
			want := in.Run(mp, false)
			got := e.run(wrap(js, PGlobal), PGlobal, identNames(p), true)
			if got.compileErr != "" {
				t.Errorf("compile error strict=%v: %s\n%s", strict, got.compileErr, js)
				continue
			}
			if want.Key(true) != got.res.Key(true) {
				t.Errorf("MISMATCH strict=%v\n%s\n irjs: %s\n goja: %s", strict, js, want.Key(true), got.res.Key(true))
			} else {
				t.Logf("ok strict=%v %s   %s", strict, src, want.Key(true))
			}
		}
	}
}
