package c02

import (
	"fmt"
	"hash/fnv"
	"os"
	"strconv"
	"strings"

	"verif/ref/irjs"

	"github.com/dop251/goja"
)

// Placement of a program text.
type Placement int

const (
	PGlobal Placement = iota // the program is the script
	PFunc                    // (function(){ P })()                       completion value not observable
	PArrow                   // (() => { P })()                           completion value not observable
	PEval                    // (function(){ return eval("P") })()        direct eval in a function
	PGEval                   // eval("P") at script level                 direct eval in global code
	nPlacements
)

var placementNames = [...]string{"global", "func", "arrow", "eval", "geval"}

func (p Placement) String() string { return placementNames[p] }

func placementByName(s string) (Placement, bool) {
	for i, n := range placementNames {
		if n == s {
			return Placement(i), true
		}
	}
	return 0, false
}

// observesCompletion: the completion value of the program text is the result of the run.
func (p Placement) observesCompletion() bool { return p == PGlobal || p == PEval || p == PGEval }

// wrap builds the script for a program text in a placement. Strict-mode runs use a program that starts with a
// "use strict" directive (see modeProg), so the directive is part of the text in every placement.
func wrap(src string, pl Placement) string {
	switch pl {
	case PGlobal:
		return src
	case PFunc:
		return "(function(){\n" + src + "})();"
	case PArrow:
		return "(() => {\n" + src + "})();"
	case PEval:
		return "(function(){\nreturn eval(" + strconv.Quote(src) + ");\n})();"
	case PGEval:
		return "eval(" + strconv.Quote(src) + ");"
	}
	panic("bad placement")
}

// modeProg returns the program as run in a mode: strict = a "use strict" directive is prepended (it is part of
// the IR, so the reference interpreter sees - and evaluates - exactly the same program).
func modeProg(p *irjs.Node, strict bool) *irjs.Node {
	if !strict {
		return p
	}
	return insertKid(p, 0, irjs.N("directive", irjs.A(`"use strict"`)))
}

const gojaStepBudget = 200000

// traceFile (env C02_TRACE, development aid): the script about to be compiled and run is written there, so that
// the input of an unrecoverable Go fatal error (out of memory, stack exhaustion) can be identified.
var traceFile = os.Getenv("C02_TRACE")

// engine runs compiled programs on the engine under test. Function / arrow / eval placements reuse one runtime
// (the names a program may leak into the global object are deleted afterwards); global-code placements get a
// fresh runtime each (global lexical declarations cannot be undone).
type engine struct {
	shared     *irjs.Host
	sharedUsed int
	steps      int
}

type runOut struct {
	res        irjs.Result
	compileErr string
	dumpHash   uint64
	prg        *goja.Program
}

func setBudget(e *engine, h *irjs.Host) {
	h.RT.SetMaxCallStackSize(400)
	goja.VerifSetStepHook(h.RT, func(r *goja.Runtime) {
		e.steps++
		if e.steps == gojaStepBudget {
			r.Interrupt("budget")
		}
	})
}

func (e *engine) host(pl Placement) *irjs.Host {
	if pl == PGlobal || pl == PGEval {
		h := irjs.NewHost()
		setBudget(e, h)
		return h
	}
	if e.shared == nil || e.sharedUsed >= 2000 {
		e.shared = irjs.NewHost()
		setBudget(e, e.shared)
		e.sharedUsed = 0
	}
	e.sharedUsed++
	return e.shared
}

func hashString(s string) uint64 {
	h := fnv.New64a()
	h.Write([]byte(s))
	return h.Sum64()
}

// run compiles and executes one script. names = identifiers the program may have leaked into the global object.
func (e *engine) run(script string, pl Placement, names []string, wantDump bool) (out runOut) {
	if traceFile != "" {
		os.WriteFile(traceFile, []byte(script), 0o644)
	}
	prg, err := goja.Compile("case.js", script, false)
	if err != nil {
		out.compileErr = err.Error()
		return
	}
	out.prg = prg
	if wantDump {
		out.dumpHash = hashString(goja.VerifProgramDump(prg))
	}
	h := e.host(pl)
	h.Log = h.Log[:0]
	e.steps = 0
	var v goja.Value
	var perr interface{}
	func() {
		defer func() { perr = recover() }()
		v, err = h.RT.RunProgram(prg)
	}()
	out.res.Log = append([]string(nil), h.Log...)
	discard := false
	switch {
	case perr != nil:
		out.res.Abort = fmt.Sprintf("PANIC: %v", perr)
		discard = true
	case err == nil:
		if v == nil {
			out.res.Value = "<nil>"
		} else {
			out.res.Value = irjs.Render(v)
		}
	default:
		switch x := err.(type) {
		case *goja.Exception:
			out.res.Threw = true
			out.res.Exc = irjs.Render(x.Value())
		case *goja.InterruptedError:
			out.res.Abort = "steps"
			discard = true
		case *goja.StackOverflowError:
			out.res.Abort = "depth"
			discard = true
		default:
			out.res.Abort = fmt.Sprintf("error %T: %v", err, err)
			discard = true
		}
	}
	if h == e.shared {
		if discard {
			e.shared = nil
		} else {
			g := h.RT.GlobalObject()
			for _, n := range names {
				g.Delete(n)
			}
		}
	}
	return
}

// identNames lists the identifier atoms of a program (candidates for leaked globals), host names excluded.
func identNames(p *irjs.Node) []string {
	seen := map[string]bool{}
	for _, h := range irjs.HostNames {
		seen[h] = true
	}
	for _, h := range []string{"undefined", "eval", "arguments", "Object", "Symbol", "NaN", "Infinity"} {
		seen[h] = true
	}
	var res []string
	p.Walk(func(n *irjs.Node) bool {
		if n.IsIdent() && !seen[n.Op] {
			seen[n.Op] = true
			res = append(res, n.Op)
		}
		return true
	})
	return res
}

func firstLine(s string) string {
	if i := strings.IndexByte(s, '\n'); i >= 0 {
		return s[:i]
	}
	return s
}
