package c02

import (
	"testing"

	"verif/ref/irjs"

	"github.com/dop251/goja"
)

const benchIR = `(prog (let a 1) (fdecl f (params b) (return (+ a b))) (expr (call log (call f 2))))`

func BenchmarkCompile(b *testing.B) {
	js := irjs.Print(irjs.MustParse(benchIR))
	for i := 0; i < b.N; i++ {
		goja.Compile("x", js, false)
	}
}
func BenchmarkDump(b *testing.B) {
	js := irjs.Print(irjs.MustParse(benchIR))
	p, _ := goja.Compile("x", js, false)
	for i := 0; i < b.N; i++ {
		hashString(goja.VerifProgramDump(p))
	}
}
func BenchmarkNewHost(b *testing.B) {
	for i := 0; i < b.N; i++ {
		irjs.NewHost()
	}
}
func BenchmarkRunGlobalFresh(b *testing.B) {
	js := irjs.Print(irjs.MustParse(benchIR))
	e := &engine{}
	for i := 0; i < b.N; i++ {
		e.run(js, PGlobal, nil, false)
	}
}
func BenchmarkRunFuncShared(b *testing.B) {
	p := irjs.MustParse(benchIR)
	js := wrap(irjs.Print(p), PFunc)
	e := &engine{}
	n := identNames(p)
	for i := 0; i < b.N; i++ {
		e.run(js, PFunc, n, false)
	}
}
func BenchmarkIrjs(b *testing.B) {
	p := irjs.MustParse(benchIR)
	in := irjs.NewInterp(irjs.NewHost())
	for i := 0; i < b.N; i++ {
		in.Run(p, false)
	}
}
func BenchmarkVariants(b *testing.B) {
	p := irjs.MustParse(benchIR)
	for i := 0; i < b.N; i++ {
		singleVariants(p, 0)
	}
}
func BenchmarkPrint(b *testing.B) {
	p := irjs.MustParse(benchIR)
	for i := 0; i < b.N; i++ {
		irjs.Print(p)
	}
}
func BenchmarkCheckProgram(b *testing.B) {
	p := irjs.MustParse(benchIR)
	w := newWorker(fullConfig(false), newShardedSet())
	n := 0
	for i := 0; i < b.N; i++ {
		w.programs = 0
		w.checkProgram(p)
		n = int(w.programs)
	}
	b.Logf("runs per program: %d", n)
}
