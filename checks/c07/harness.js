// JavaScript side of the C07 harness. Everything printed here has a byte-identical counterpart in
// /verif/ref/arrmodel/format.go (FV, SD, Dump, DumpValues, Completion).
"use strict";
var LOG = "", MUTE = false, CNT = {}, CUR = null, FLO = 0, FHI = 0, PROBE = [];
var hasOwn = Object.prototype.hasOwnProperty;

// the log is a string, not an array: the alphabets put setters on Array.prototype[0]
function lg(s) { if (!MUTE) LOG += (LOG === "" ? "" : ";") + s; }
function cnt(n) { return CNT[n] = (CNT[n] || 0) + 1; }

function FV(v) {
	if (v === undefined) return "u";
	if (v === null) return "n";
	if (v === true) return "T";
	if (v === false) return "F";
	var t = typeof v;
	if (t === "number") return "#" + (v === 0 && 1 / v < 0 ? "-0" : String(v));
	if (t === "string") return '"' + v + '"';
	if (t === "function") return "fn:" + v.name;
	if (v === CUR) return "A";
	if (v === Array.prototype) return "AP";
	return SD(v, 0, 0);
}

function PD(o, k) {
	var d = Object.getOwnPropertyDescriptor(o, k);
	if (!d) return String(k) + ":?,";
	var s = String(k) + ":";
	if ("value" in d || "writable" in d) s += FV(d.value) + (d.writable ? "w" : "-");
	else s += "G(" + (d.get ? "fn:" + d.get.name : "u") + ")S(" + (d.set ? "fn:" + d.set.name : "u") + ")";
	return s + (d.enumerable ? "e" : "-") + (d.configurable ? "c" : "-") + ",";
}

function isFiller(o, k, flo, fhi) {
	var n = Number(k);
	if (!(n >= flo && n < fhi) || String(n) !== k) return false;
	var d = Object.getOwnPropertyDescriptor(o, k);
	return d !== undefined && d.value === n && d.writable === true && d.enumerable === true && d.configurable === true;
}

function SD(o, flo, fhi) {
	var keys = Reflect.ownKeys(o), arr = Array.isArray(o), s = (arr ? "[" : "{") + (Object.isExtensible(o) ? "" : "!"), fill = 0;
	// two-level concatenation: goja copies the whole left operand on every +=
	var blk = "";
	for (var i = 0; i < keys.length; i++) {
		var k = keys[i];
		if (fhi > flo && typeof k === "string" && isFiller(o, k, flo, fhi)) { fill++; continue; }
		blk += PD(o, k);
		if ((i & 63) === 63) { s += blk; blk = ""; }
	}
	s += blk;
	if (fhi > flo) s += "fill=" + fill;
	return s + (arr ? "]" : "}");
}

function DUMP(a) {
	CUR = a; MUTE = true;
	try {
		var s = SD(a, FLO, FHI) + "|len=" + FV(a.length) + "|K=", ks = Object.keys(a), fill = 0, i;
		var blk = "";
		for (i = 0; i < ks.length; i++) {
			var k = ks[i], n = Number(k);
			if (FHI > FLO && n >= FLO && n < FHI && String(n) === k) { fill++; continue; }
			blk += k + ",";
			if ((i & 63) === 63) { s += blk; blk = ""; }
		}
		s += blk;
		if (FHI > FLO) s += "fill=" + fill;
		s += "|P=";
		for (i = 0; i < PROBE.length; i++) {
			var p = PROBE[i];
			s += (p in a ? "1" : "0") + (hasOwn.call(a, p) ? "1" : "0") + FV(a[p]) + ",";
		}
		return s;
	} finally { MUTE = false; }
}

function DUMPVALUES(a) {
	CUR = a; MUTE = true;
	try {
		var n = a.length, s = "len=" + n + "|";
		var blk = "";
		for (var i = 0; i < n; i++) {
			blk += FV(a[i]) + ",";
			if ((i & 63) === 63) { s += blk; blk = ""; }
		}
		return s + blk;
	} finally { MUTE = false; }
}

// multiset of the values at present indices below length, number of holes, length
function MULTISET(a) {
	CUR = a; MUTE = true;
	try {
		var n = a.length, v = [], holes = 0;
		for (var i = 0; i < n; i++) {
			if (i in a) Object.defineProperty(v, v.length, { value: FV(a[i]), writable: true, enumerable: true, configurable: true });
			else holes++;
		}
		v.sort();
		return "len=" + n + "|holes=" + holes + "|" + v.join(",");
	} finally { MUTE = false; }
}

// sequence of values at present indices (for the stability / undefined-last / holes-last checks)
function SEQ(a) {
	CUR = a; MUTE = true;
	try {
		var n = a.length, s = "";
		for (var i = 0; i < n; i++) s += (i in a ? FV(a[i]) : "-") + ",";
		return s;
	} finally { MUTE = false; }
}

// toSorted with a comparator whose order is implementation-defined: the result must be a new array
// holding exactly the values a[0..len) (holes read as undefined)
function TSORTED(a, cmp) {
	function ms(x) {
		var v = [], n = x.length;
		for (var i = 0; i < n; i++) Object.defineProperty(v, i, { value: FV(x[i]), writable: true, enumerable: true, configurable: true });
		v.sort();
		return n + "|" + v.join(",");
	}
	var pre, r;
	MUTE = true; try { pre = ms(a); } finally { MUTE = false; }
	try { r = a.toSorted(cmp); } catch (e) { if (e === "boom") return "ok"; throw e; }
	if (r === a || !Array.isArray(r)) return "not a new array";
	MUTE = true; try { var post = ms(r); } finally { MUTE = false; }
	return post === pre ? "ok" : "elements " + pre + " became " + post;
}

function RUN(f, a) {
	CUR = a; LOG = ""; CNT = {};
	var r;
	try { r = "=" + FV(f(a)); }
	catch (e) { r = "!" + (e instanceof Error ? e.name : FV(e)); }
	return r + " L" + LOG;
}

// quiet replay of a prefix: results are not needed
function STEP(f, a) { CUR = a; LOG = ""; CNT = {}; try { f(a); } catch (e) { } }

// one whole transition: flags 1 = multiset oracle, 2 = value dump (host slices), 4 = dump prototypes
function TRANS(mk, path, f, flags) {
	var a = mk(), i;
	for (i = 0; i < path.length; i++) STEP(path[i], a);
	var out = [WB(a), "", "", "", "", ""];
	if (flags & 1) out[4] = MULTISET(a);
	out[1] = RUN(f, a);
	out[2] = (flags & 2) ? DUMPVALUES(a) : DUMP(a);
	if (flags & 4) out[2] += "|" + PROTOS();
	if (flags & 1) out[5] = MULTISET(a);
	out[3] = WB(a);
	return out;
}

function SETUP(probe, flo, fhi) { PROBE = probe; FLO = flo; FHI = fhi; }

function protoIdx(p) {
	var s = "";
	for (var i = 0; i < 3; i++) if (hasOwn.call(p, i)) s += PD(p, String(i));
	return s;
}

function PROTOS() {
	MUTE = true;
	try { return "AP=" + protoIdx(Array.prototype) + "len=" + FV(Array.prototype.length) + "|OP=" + protoIdx(Object.prototype); }
	finally { MUTE = false; }
}

function RESETPROTO() {
	delete Array.prototype[0]; delete Array.prototype[1]; delete Array.prototype[2];
	delete Object.prototype[0]; delete Object.prototype[1]; delete Object.prototype[2];
	Array.prototype.length = 0;
}

// ---- user functions shared with the model (same names, same behaviour: see funcs.go) --------------
function G() { lg("G"); return "gv"; }
function S(v) { lg("S" + FV(v)); }
function G2() { lg("G2"); return 2; }

function cbLog(v, i, o) { lg("c" + FV(v) + "@" + i); return v; }
function cbTrue(v, i, o) { lg("c" + FV(v) + "@" + i); return true; }
function cbIdx(v, i, o) { lg("c" + FV(v) + "@" + i); return i; }
function cbPush(v, i, o) { lg("c" + FV(v) + "@" + i); if (cnt("cbPush") === 1) Array.prototype.push.call(o, 7); return v; }
function cbDel(v, i, o) { lg("c" + FV(v) + "@" + i); if (cnt("cbDel") === 1) delete o[i + 1]; return v; }
function cbTrunc(v, i, o) { lg("c" + FV(v) + "@" + i); if (cnt("cbTrunc") === 1) o.length = 1; return v; }
function cbFar(v, i, o) { lg("c" + FV(v) + "@" + i); if (cnt("cbFar") === 1) o[5000] = 5; return v; }
function cbThrow2(v, i, o) { lg("c" + FV(v) + "@" + i); if (cnt("cbThrow2") === 2) throw "boom"; return v; }
function cbWrap(v, i, o) { lg("c" + FV(v) + "@" + i); return [v, [i]]; }
function rdSum(acc, v, i, o) { lg("r" + FV(acc) + FV(v) + "@" + i); return acc + v; }
function rdLast(acc, v, i, o) { lg("r" + FV(acc) + FV(v) + "@" + i); return v; }
function rdTrunc(acc, v, i, o) { lg("r" + FV(acc) + FV(v) + "@" + i); if (cnt("rdTrunc") === 1) o.length = 1; return v; }

// comparators (no logging: the sequence of calls is implementation-defined)
function key(x) { return typeof x === "number" ? x : (typeof x === "string" ? x.length : 0); }
function cmpNum(x, y) { return key(x) - key(y); }
function cmpRev(x, y) { return key(y) - key(x); }
function cmpMod2(x, y) { return key(x) % 2 - key(y) % 2; }
function cmpZero(x, y) { return 0; }
function cmpNegZero(x, y) { return -0; }
function cmpNaN(x, y) { return NaN; }
function cmpNaNdiv(x, y) { var z = key(x) - key(x); return z / z; }
function cmpUndef(x, y) { }
function cmpStr(x, y) { return key(x) < key(y) ? "-1" : (key(x) > key(y) ? "1" : "0"); }
function cmpBig(x, y) { return key(x) < key(y) ? -1e300 : (key(x) > key(y) ? 1e-300 : 0); }
function cmpOne(x, y) { return 1; }
function cmpMinus(x, y) { return -1; }
function cmpAlt(x, y) { return cnt("cmpAlt") % 2 ? 1 : -1; }
function cmpThrow1(x, y) { if (cnt("cmpThrow") === 1) throw "boom"; return key(x) - key(y); }
function cmpThrow3(x, y) { if (cnt("cmpThrow") === 3) throw "boom"; return key(x) - key(y); }
function cmpCyc(x, y) { var d = (key(x) - key(y) + 3) % 3; return d === 0 ? 0 : (d === 1 ? 1 : -1); }
