// Package c07 holds the check for property C07.
package c07
