package c07

import (
	"fmt"

	"github.com/dop251/goja"

	M "verif/ref/arrmodel"
)

// selfTest checks the harness itself before anything is explored: for every scenario the model, the
// subject and the twin must start in the same observable state, and the twin must really live in
// another storage strategy than the subject (otherwise the differential would be vacuous).
func selfTest() error {
	x := newRtx()
	noop := op{js: "0", class: "noop", model: func(w *M.World, a *M.Obj) M.Val { return 0.0 }}
	for _, sc := range scenarios(true) {
		t := x.exec(sc, nil, nil, &noop)
		if t.model.res != t.main.res || t.model.dump != t.main.dump {
			return fmt.Errorf("scenario %s: start state of subject %q differs from model %q", sc.name, t.main.dump, t.model.dump)
		}
		if t.hasTwin {
			if t.model.dump != t.twin.dump {
				return fmt.Errorf("scenario %s: start state of twin %q differs from model %q", sc.name, t.twin.dump, t.model.dump)
			}
			if t.main.pre.Kind == t.twin.pre.Kind {
				return fmt.Errorf("scenario %s: twin uses the same storage (%s) as the subject", sc.name, t.main.pre.Kind)
			}
		}
	}
	// every shared user function must exist on both sides
	for name := range fnDefs {
		if _, ok := goja.AssertFunction(x.vm.Get(name)); !ok {
			return fmt.Errorf("function %s is missing in harness.js", name)
		}
	}
	return nil
}
