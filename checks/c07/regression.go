package c07

import "fmt"

// corpus holds the minimal failing input of every listed finding (findings.d/C07.jsonl; grouped by root
// cause in NOTES.md). It is executed before any exploration, so the quick tier reaches every listed finding
// deterministically even when the BFS is cut by the deadline, and so that the example recorded for a
// signature is the minimal one.
var corpus = []struct {
	sc   string
	path []string
}{
	// copyWithin|dense|calls
	{"proto-indexed", []string{`Object.defineProperty(a,1,{get:G,set:S,enumerable:true,configurable:true})`, `Object.freeze(a)`, `a.copyWithin(1,0,2)`}},
	// define-index[accessor-undefined on data-nonconfigurable]|dense|result(ok/reject)
	{"core-small", []string{`Object.defineProperty(a,0,{value:7})`, `Object.defineProperty(a,0,{get:undefined})`}},
	// define-index[value on accessor]|dense|state:props:attrs(wec/-ec)
	{"core-small", []string{`a[0]=1`, `Object.defineProperty(a,0,{get:G,enumerable:true,configurable:true})`, `Object.defineProperty(a,0,{value:7})`}},
	// define-index[writable-only on accessor-nonconfigurable]|dense|result(ok/reject)
	{"core-small", []string{`Object.defineProperty(a,0,{get:G,set:S,configurable:false})`, `Object.defineProperty(a,0,{writable:false})`}},
	// define-index[writable-only on accessor]|dense|state:probes
	{"core-small", []string{`Object.defineProperty(a,0,{get:G,enumerable:true,configurable:true})`, `Object.defineProperty(a,0,{writable:false})`}},
	// define-length[non-configurable element above the new length]|sparse|result(ok/reject)
	{"core-transition", []string{`Object.defineProperty(a,4097,{value:7})`, `Object.defineProperty(a,"length",{value:0})`}},
	// define-length[non-configurable element at the new length]|sparse|result(ok/reject)
	{"core-small", []string{`Object.defineProperty(a,0,{value:7})`, `Object.defineProperty(a,"length",{value:0})`}},
	// delete-index|dense|calls
	{"core-small", []string{`Object.defineProperty(a,0,{get:G,set:S,configurable:false})`, `delete a[0]`}},
	// filter|sparse|result(ok/reject)
	{"methods-small", []string{`Object.defineProperty(a,1,{value:8,writable:true,enumerable:true,configurable:false})`, `a.filter(cbTrunc)`}},
	// find|sparse|result(ok/reject)
	{"methods-small", []string{`Object.defineProperty(a,1,{value:8,writable:true,enumerable:true,configurable:false})`, `a.find(cbTrunc)`}},
	// isFrozen|dense|result(value)
	{"core-small", []string{`Object.preventExtensions(a)`, `Object.isFrozen(a)`}},
	// pop|dense|calls
	{"core-huge", []string{`Object.defineProperty(a,0,{get:G,set:S,configurable:false})`, `a.pop()`}},
	// push|dense|result(RangeError/reject)
	{"core-huge", []string{`a.length=4294967295`, `Object.defineProperty(a,"length",{writable:false})`, `a.push(1)`}},
	// reduce|sparse|result(ok/reject)
	{"methods-small", []string{`a[0]=1`, `Object.defineProperty(a,1,{value:8,writable:true,enumerable:true,configurable:false})`, `a.reduce(rdTrunc)`}},
	// set-index|dense|result(ok/reject)
	{"core-small", []string{`a[0]=1`, `Object.defineProperty(a,0,{get:G,enumerable:true,configurable:true})`, `a[0]=1`}},
	// set-length[invalid length]|dense|result(RangeError/reject)
	{"core-small", []string{`Object.defineProperty(a,"length",{writable:false})`, `a.length=-1`}},
	// set-length[non-configurable element above the new length]|sparse|result(ok/reject)
	{"core-transition", []string{`Object.defineProperty(a,4097,{value:7})`, `a.length=0`}},
	// set-length[non-configurable element at the new length]|sparse|result(ok/reject)
	{"core-small", []string{`Object.defineProperty(a,0,{value:7})`, `a.length=0`}},
	// sort(cmpNegZero)|arraylike|calls
	{"array-like", []string{`Object.defineProperty(a,1,{get:G,set:S,enumerable:true,configurable:true})`, `Array.prototype.push.call(a,1,undefined)`, `Array.prototype.sort.call(a,cmpNegZero)`}},
	// sort(cmpNegZero)|arraylike|state:props:value
	{"array-like", []string{`Array.prototype.splice.call(a,1,1,"x","y")`, `Array.prototype.sort.call(a,cmpNegZero)`}},
	// sort(cmpNegZero)|dense|calls
	{"proto-indexed", []string{`Array.prototype[0]=7`, `Object.defineProperty(a,1,{get:G,set:S,enumerable:true,configurable:true})`, `a.sort(cmpNegZero)`}},
	// sort(cmpNegZero)|dense|state:props:value
	{"sort-inputs", []string{`a.push(1)`, `a.push(2)`, `a.sort(cmpNegZero)`}},
	// sort(cmpNegZero)|goslice-reflect|state:values
	{"go-slice", []string{`a[1]=1`, `a.sort(cmpNegZero)`}},
	// splice|dense|calls
	{"proto-indexed", []string{`Object.defineProperty(Array.prototype,0,{get:G,set:S,enumerable:true,configurable:true})===a`, `a.splice(1,0,"x")`}},
	// splice|dense|result(ok/reject)
	{"proto-indexed", []string{`Object.defineProperty(Array.prototype,0,{value:8,writable:false,enumerable:true,configurable:true})===a`, `a.splice(1,0,"x")`}},
	// splice|dense|state:props:extra-key
	{"methods-small", []string{`Object.freeze(a)`, `a.splice(1,0,"x")`}},
	// splice|dense|state:props:value
	{"methods-small", []string{`a.push(1,undefined)`, `Object.defineProperty(a,"length",{writable:false})`, `a.splice(1,0,"x")`}},
	// splice|sparse|calls
	{"proto-indexed", []string{`Object.defineProperty(a,1,{get:G,set:S,enumerable:true,configurable:true})`, `Object.freeze(a)`, `a.splice(-1)`}},
	// stale-objCount after define-index|dense|fast path misreads the array
	{"methods-small", []string{`a[2]=1`, `Object.defineProperty(a,1,{value:7,writable:true,enumerable:true,configurable:true})`, `Object.defineProperty(a,1,{value:7,writable:true,enumerable:true,configurable:true})`, `a.includes(undefined)`}},
	// stale-objCount after filter|dense|fast path misreads the array
	{"methods-small", []string{`Object.defineProperty(a,1,{value:8,writable:false,enumerable:true,configurable:true})`, `a.filter(cbTrunc)`, `a.splice(0,1)`}},
	// stale-objCount after pop|dense|fast path misreads the array
	{"methods-small", []string{`a[1]=1`, `a.pop()`, `a.includes(undefined)`}},
	// stale-objCount after set-length|dense|fast path misreads the array
	{"methods-small", []string{`a[0]=1`, `a.length=0`, `a[1]=1`, `a.includes(undefined)`}},
	// stale-propValueCount after define-index switching sparse->dense|dense|fast path misreads the array
	{"prefilled-1024", []string{`Object.defineProperty(a,1023,{value:8,writable:false,enumerable:true,configurable:true})`, `a.length=1024`, `EXPORT(a)`}},
	// toSorted(cmpNegZero)|dense|result(value)
	{"sort-inputs", []string{`a.push(1)`, `a.push(2)`, `a.toSorted(cmpNegZero)`}},
	// guards: sequences that pass on the unchanged tree but pin down seeded / formerly fixed defects
	// (shrink, then a gapped write within the old capacity must leave holes)
	{"shrink-regrow", []string{`a.splice(1,3)`, `a[4]=7`}},
	{"shrink-regrow", []string{`a.splice(0,2)`, `Object.defineProperty(a,5,{get:G,set:S,enumerable:true,configurable:true})`}},
	{"shrink-regrow", []string{`a.splice(-2)`, `a[5]=7`, `JSON.stringify(a)`}},
	{"shrink-regrow", []string{`a.pop()`, `a.pop()`, `a[5]=7`}},
	{"shrink-regrow", []string{`a.shift()`, `a.shift()`, `a[5]=7`}},
	{"shrink-regrow", []string{`a.length=2`, `a[4]=7`}},
}

func corpusCheck() error {
	for _, c := range corpus {
		sc := findScenario(c.sc)
		if sc == nil {
			return fmt.Errorf("regression corpus: unknown scenario %s", c.sc)
		}
		for _, js := range c.path {
			if sc.opIndex(js) < 0 {
				return fmt.Errorf("regression corpus: scenario %s has no letter %q", c.sc, js)
			}
		}
	}
	return nil
}

func regression(e *explorer, scs []*scenario) {
	x := newRtx()
	var n int64
	for _, sc := range scs {
		any := false
		for _, c := range corpus {
			if c.sc != sc.name {
				continue
			}
			var path []uint16
			for _, js := range c.path {
				path = append(path, uint16(sc.opIndex(js)))
			}
			oi := int(path[len(path)-1])
			path = path[:len(path)-1]
			t := x.exec(sc, path, nil, &sc.ops[oi])
			n++
			if !t.enabled {
				continue
			}
			if fs := x.judge(sc, path, &sc.ops[oi], &t); len(fs) > 0 {
				e.report(sc, path, &sc.ops[oi], oi, &t, fs)
				any = true
			}
		}
		if any {
			e.flush(sc)
		}
	}
	e.r.Transitions(n)
	e.r.Traces(n)
	e.r.Eval(n)
	e.r.Add("regression_corpus_cases", n)
}
