package c07

import "fmt"

// corpus holds the minimal failing inputs of every defect found so far (one per root cause, see
// NOTES.md). It is executed before any exploration, so the quick tier reaches every listed finding
// deterministically even when the BFS is cut by the deadline, and so that the example recorded for a
// signature is the minimal one.
var corpus = []struct {
	sc   string
	path []string
}{
	// sparse truncation deletes a non-configurable element sitting exactly at the new length
	{"core-small", []string{`Object.defineProperty(a,0,{value:7})`, `a.length=0`}},
	{"core-small", []string{`Object.defineProperty(a,0,{value:7})`, `Object.defineProperty(a,"length",{value:0})`}},
	// objCount is not decremented by length truncation / fast pop, and is incremented by every redefinition
	{"methods-small", []string{`a[0]=1`, `a.length=0`, `a[1]=1`, `a.includes(undefined)`}},
	{"methods-small", []string{`a[1]=1`, `a.pop()`, `a.includes(undefined)`}},
	{"methods-small", []string{`a[2]=1`, `Object.defineProperty(a,1,{value:7,writable:true,enumerable:true,configurable:true})`, `Object.defineProperty(a,1,{value:7,writable:true,enumerable:true,configurable:true})`, `a.includes(undefined)`}},
	// a failing delete renders the whole array into its error message (runs getters; 2 GiB string on huge arrays)
	{"core-small", []string{`Object.defineProperty(a,0,{get:G,set:S,configurable:false})`, `delete a[0]`}},
	// comparator result -0 is treated as "less"
	{"sort-inputs", []string{`a.push(1)`, `a.push(2)`, `a.sort(cmpNegZero)`}},
	{"sort-inputs", []string{`a.push(1)`, `a.push(2)`, `a.toSorted(cmpNegZero)`}},
	// splice fast path ignores extensibility, read-only length and inherited setters / read-only inherited elements
	{"methods-small", []string{`Object.freeze(a)`, `a.splice(1,0,"x")`}},
	{"methods-small", []string{`a.push(1,undefined)`, `Object.defineProperty(a,"length",{writable:false})`, `a.splice(1,0,"x")`}},
	{"proto-indexed", []string{`Object.defineProperty(Array.prototype,0,{get:G,set:S,enumerable:true,configurable:true})===a`, `a.splice(1,0,"x")`}},
	// length is converted (RangeError) before its writability is checked (TypeError)
	{"core-small", []string{`Object.defineProperty(a,"length",{writable:false})`, `a.length=-1`}},
	{"core-huge", []string{`a.length=4294967295`, `Object.defineProperty(a,"length",{writable:false})`, `a.push(1)`}},
	// element descriptors (shared _defineOwnProperty)
	{"core-small", []string{`Object.defineProperty(a,0,{value:7})`, `Object.defineProperty(a,0,{get:undefined})`}},
	{"core-small", []string{`Object.defineProperty(a,0,{get:G,set:S,configurable:false})`, `Object.defineProperty(a,0,{writable:false})`}},
	{"core-small", []string{`Object.defineProperty(a,0,{get:G,enumerable:true,configurable:true})`, `Object.defineProperty(a,0,{writable:false})`}},
	{"core-small", []string{`a[0]=1`, `Object.defineProperty(a,0,{get:G,enumerable:true,configurable:true})`, `Object.defineProperty(a,0,{value:7})`}},
	{"core-small", []string{`a[0]=1`, `Object.defineProperty(a,0,{get:G,enumerable:true,configurable:true})`, `a[0]=1`}},
	// isFrozen on a non-extensible array whose length was never read
	{"core-small", []string{`Object.preventExtensions(a)`, `Object.isFrozen(a)`}},
}

func corpusCheck() error {
	for _, c := range corpus {
		sc := findScenario(c.sc)
		if sc == nil {
			return fmt.Errorf("regression corpus: unknown scenario %s", c.sc)
		}
		for _, js := range c.path {
			if sc.opIndex(js) < 0 {
				return fmt.Errorf("regression corpus: scenario %s has no letter %q", c.sc, js)
			}
		}
	}
	return nil
}

func regression(e *explorer, scs []*scenario) {
	x := newRtx()
	var n int64
	for _, sc := range scs {
		any := false
		for _, c := range corpus {
			if c.sc != sc.name {
				continue
			}
			var path []uint16
			for _, js := range c.path {
				path = append(path, uint16(sc.opIndex(js)))
			}
			oi := int(path[len(path)-1])
			path = path[:len(path)-1]
			t := x.exec(sc, path, nil, &sc.ops[oi])
			n++
			if !t.enabled {
				continue
			}
			if fs := t.judge(sc, &sc.ops[oi]); len(fs) > 0 {
				e.report(sc, path, &sc.ops[oi], oi, &t, fs)
				any = true
			}
		}
		if any {
			e.flush(sc)
		}
	}
	e.r.Transitions(n)
	e.r.Traces(n)
	e.r.Eval(n)
	e.r.Add("regression_corpus_cases", n)
}
