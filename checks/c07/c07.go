package c07

import (
	"encoding/json"
	"fmt"
	"os"
	"runtime/pprof"
	"strings"
	"time"

	"verif/core"
)

func init() {
	core.Register(&core.Check{
		ID:    "C07",
		Level: "model_checking",
		Rule: "explicit-state BFS over a real goja array: a state is the shortest letter path reaching it (fresh array + replay + 1 letter per transition), " +
			"de-duplicated by length + own keys + descriptors + probes + white-box storage kind/objCount/propValueCount of subject and twin; every transition runs in lock-step on the Go reference model " +
			"(arrmodel) and on a twin array built through the other storage strategy. Non-trivial = transitions during which goja.VerifArray shows subject and twin in different storage kinds (dense vs sparse, []interface{} vs reflect slice)",
		Run:    run,
		Replay: replay,
	})
}

func run(r *core.Run) {
	e := &explorer{r: r, pool: make([]*rtx, r.Workers), perSc: map[string]map[string]int64{}, pending: map[string]*pendingFail{}, cur: make([]string, r.Workers), since: make([]time.Time, r.Workers), warned: map[string]bool{}, driftBy: map[string]int64{}}
	go e.watchdog()
	if pf := os.Getenv("C07_CPUPROFILE"); pf != "" {
		if f, err := os.Create(pf); err == nil {
			pprof.StartCPUProfile(f)
			defer pprof.StopCPUProfile()
		}
	}
	r.Assume("ArraySpeciesCreate always sees the default constructor (the alphabets never touch 'constructor' / @@species / @@isConcatSpreadable)")
	r.Assume("element values are primitives, fresh nested arrays and a fixed set of named functions; relative-index arguments are numbers or undefined (string coercions belong to C05)")
	r.Assume("methods that iterate over the length are only applied while the model length is at most the scenario bound (a conforming engine would loop 2^32 times otherwise)")
	r.Assume("for comparators that are not consistent (or throw) only 'no element lost or duplicated, holes and length preserved' is demanded; the order is implementation-defined")
	if err := selfTest(); err != nil {
		r.Violation("selftest", err.Error(), nil)
		return
	}
	if err := corpusCheck(); err != nil {
		r.Violation("selftest", err.Error(), nil)
		return
	}
	scs := scenarios(r.Thorough())
	regression(e, scs)
	if only := os.Getenv("C07_ONLY"); only != "" { // development aid: restrict to some scenarios (never exhaustive)
		var keep []*scenario
		for _, sc := range scs {
			if strings.Contains(","+only+",", ","+sc.name+",") {
				keep = append(keep, sc)
			}
		}
		scs = keep
		defer r.Exhaustive(false)
	}
	// Levels are explored round-robin over the scenarios (level 1 of every scenario, then level 2, ...),
	// so that a run cut by the deadline still has balanced, completed bounds everywhere.
	complete := true
	bounds := map[string]interface{}{}
	var descr []string
	var searches []*search
	maxDepth := 0
	target := func(sc *scenario) int {
		if r.Thorough() {
			return sc.depthT
		}
		return sc.depthQ
	}
	for _, sc := range scs {
		descr = append(descr, sc.describe())
		searches = append(searches, e.newSearch(sc))
		if d := target(sc); d > maxDepth {
			maxDepth = d
		}
	}
	// high-yield scenarios first: two levels = every 2-letter sequence + its observation
	for _, s := range searches {
		for s.sc.first && s.depth < 2 && s.depth < target(s.sc) && !s.cut && !s.exhausted {
			s.level(false)
		}
	}
	for d := 1; d <= maxDepth+1; d++ {
		for _, s := range searches {
			switch t := target(s.sc); {
			case d <= t && s.depth >= d:
				// already done by the priority pass
			case d <= t:
				s.level(false)
			case d == t+1:
				s.level(true) // final probe sweep over the states found by the last level
			}
		}
	}
	for _, s := range searches {
		s.finish(target(s.sc))
		bounds[s.sc.name] = s.depth
		if !(s.exhausted || (s.depth >= target(s.sc) && s.swept)) {
			complete = false
		}
	}
	r.Set("bounds_completed", bounds)
	r.Set("scenarios", e.perSc)
	r.Set("alphabets", descr)
	r.Set("stale_counters_introduced_by", e.driftBy) // letters after which objCount over-counts / propValueCount misses an element (diagnostic)
	r.Exhaustive(complete)
}

// replay re-executes one recorded transition (scenario + letter path + letter) on fresh objects.
func replay(r *core.Run, raw json.RawMessage) {
	var c caseRec
	if err := json.Unmarshal(raw, &c); err != nil {
		r.Violation("replay|bad-case", err.Error(), nil)
		return
	}
	sc := findScenario(c.Scenario)
	if sc == nil {
		r.Violation("replay|unknown-scenario", c.Scenario, nil)
		return
	}
	var path []uint16
	for _, js := range append(append([]string{}, c.Path...), c.Op) {
		i := sc.opIndex(js)
		if i < 0 {
			r.Violation("replay|unknown-letter", js, nil)
			return
		}
		path = append(path, uint16(i))
	}
	o := &sc.ops[path[len(path)-1]]
	path = path[:len(path)-1]
	x := newRtx()
	t := x.exec(sc, path, nil, o)
	if !t.enabled {
		fmt.Println("replay: letter not enabled in this state")
		return
	}
	fmt.Printf("spec     %s\n         %s\nsubject  %s\n         %s\n         storage %s -> %s\n", t.model.res, t.model.dump, t.main.res, t.main.dump, t.main.pre.s, t.main.post.s)
	if t.hasTwin {
		fmt.Printf("twin     %s\n         %s\n         storage %s -> %s\n", t.twin.res, t.twin.dump, t.twin.pre.s, t.twin.post.s)
	}
	for _, f := range x.judge(sc, path, o, &t) {
		r.Violation(f.sig, f.what, mkCase(sc, path, o, &t))
	}
}
