package c07

import (
	"math"
	"strconv"

	M "verif/ref/arrmodel"
)

// Model-side twins of the user functions declared in harness.js (same names, same behaviour).
// Keeping the two lists in sync is part of the trusted base; every one of them is exercised by the
// self-test in selftest.go on plain inputs before any exploration starts.

func cnt(w *M.World, n string) int { w.Cnt[n]++; return w.Cnt[n] }

func key(v M.Val) float64 {
	switch x := v.(type) {
	case float64:
		return x
	case string:
		return float64(len(x))
	}
	return 0
}

func fmtIdx(v M.Val) string {
	if f, ok := v.(float64); ok {
		return strconv.FormatInt(int64(f), 10)
	}
	return "?"
}

func a3(args []M.Val) (M.Val, M.Val, *M.Obj) {
	for len(args) < 3 {
		args = append(args, M.Undef)
	}
	o, _ := args[2].(*M.Obj)
	return args[0], args[1], o
}

func cbEnter(w *M.World, args []M.Val) (M.Val, M.Val, *M.Obj) {
	v, i, o := a3(args)
	w.LogF("c" + w.FV(v) + "@" + fmtIdx(i))
	return v, i, o
}

var lenKey = M.Key{Str: "length"}

// fnDefs holds the behaviour of every shared function; function objects are created per world on
// first use (getFn).
var fnDefs = map[string]M.Fn{}

func getFn(w *M.World, name string) *M.Obj {
	if f := w.Fns[name]; f != nil {
		return f
	}
	d := fnDefs[name]
	if d == nil {
		// functions the model never runs (inconsistent comparators) still need an identity
		d = func(*M.World, M.Val, []M.Val) M.Val { panic("c07: model asked to run " + name) }
	}
	f := w.NewFunction(name, d)
	w.Fns[name] = f
	return f
}

func init() {
	def := func(name string, f M.Fn) { fnDefs[name] = f }
	def("G", func(w *M.World, this M.Val, args []M.Val) M.Val { w.LogF("G"); return "gv" })
	def("G2", func(w *M.World, this M.Val, args []M.Val) M.Val { w.LogF("G2"); return 2.0 })
	def("S", func(w *M.World, this M.Val, args []M.Val) M.Val {
		var v M.Val = M.Undef
		if len(args) > 0 {
			v = args[0]
		}
		w.LogF("S" + w.FV(v))
		return M.Undef
	})
	def("cbLog", func(w *M.World, this M.Val, args []M.Val) M.Val { v, _, _ := cbEnter(w, args); return v })
	def("cbTrue", func(w *M.World, this M.Val, args []M.Val) M.Val { cbEnter(w, args); return true })
	def("cbIdx", func(w *M.World, this M.Val, args []M.Val) M.Val { _, i, _ := cbEnter(w, args); return i })
	def("cbPush", func(w *M.World, this M.Val, args []M.Val) M.Val {
		v, _, o := cbEnter(w, args)
		if cnt(w, "cbPush") == 1 {
			w.Push(o, []M.Val{7.0})
		}
		return v
	})
	def("cbDel", func(w *M.World, this M.Val, args []M.Val) M.Val {
		v, i, o := cbEnter(w, args)
		if cnt(w, "cbDel") == 1 {
			w.DeleteThrow(o, M.NumKey(int64(i.(float64))+1))
		}
		return v
	})
	def("cbTrunc", func(w *M.World, this M.Val, args []M.Val) M.Val {
		v, _, o := cbEnter(w, args)
		if cnt(w, "cbTrunc") == 1 {
			w.SetThrow(o, lenKey, 1.0)
		}
		return v
	})
	def("cbFar", func(w *M.World, this M.Val, args []M.Val) M.Val {
		v, _, o := cbEnter(w, args)
		if cnt(w, "cbFar") == 1 {
			w.SetThrow(o, M.IdxKey(5000), 5.0)
		}
		return v
	})
	def("cbThrow2", func(w *M.World, this M.Val, args []M.Val) M.Val {
		v, _, _ := cbEnter(w, args)
		if cnt(w, "cbThrow2") == 2 {
			panic(&M.Throw{Val: "boom"})
		}
		return v
	})
	def("cbWrap", func(w *M.World, this M.Val, args []M.Val) M.Val {
		v, i, _ := cbEnter(w, args)
		return w.ArrayFromList([]M.Val{v, w.ArrayFromList([]M.Val{i})})
	})
	rd := func(w *M.World, args []M.Val) (M.Val, M.Val, M.Val, *M.Obj) {
		for len(args) < 4 {
			args = append(args, M.Undef)
		}
		o, _ := args[3].(*M.Obj)
		w.LogF("r" + w.FV(args[0]) + w.FV(args[1]) + "@" + fmtIdx(args[2]))
		return args[0], args[1], args[2], o
	}
	def("rdSum", func(w *M.World, this M.Val, args []M.Val) M.Val {
		acc, v, _, _ := rd(w, args)
		return jsAdd(w, acc, v)
	})
	def("rdLast", func(w *M.World, this M.Val, args []M.Val) M.Val { _, v, _, _ := rd(w, args); return v })
	def("rdTrunc", func(w *M.World, this M.Val, args []M.Val) M.Val {
		_, v, _, o := rd(w, args)
		if cnt(w, "rdTrunc") == 1 {
			w.SetThrow(o, lenKey, 1.0)
		}
		return v
	})

	cmp := func(name string, f func(w *M.World, x, y M.Val) M.Val) {
		def(name, func(w *M.World, this M.Val, args []M.Val) M.Val {
			for len(args) < 2 {
				args = append(args, M.Undef)
			}
			return f(w, args[0], args[1])
		})
	}
	cmp("cmpNum", func(w *M.World, x, y M.Val) M.Val { return key(x) - key(y) })
	cmp("cmpRev", func(w *M.World, x, y M.Val) M.Val { return key(y) - key(x) })
	cmp("cmpMod2", func(w *M.World, x, y M.Val) M.Val { return math.Mod(key(x), 2) - math.Mod(key(y), 2) })
	cmp("cmpZero", func(w *M.World, x, y M.Val) M.Val { return 0.0 })
	cmp("cmpNegZero", func(w *M.World, x, y M.Val) M.Val { return math.Copysign(0, -1) })
	cmp("cmpNaN", func(w *M.World, x, y M.Val) M.Val { return math.NaN() })
	cmp("cmpNaNdiv", func(w *M.World, x, y M.Val) M.Val { return math.NaN() })
	cmp("cmpUndef", func(w *M.World, x, y M.Val) M.Val { return M.Undef })
	cmp("cmpStr", func(w *M.World, x, y M.Val) M.Val {
		switch {
		case key(x) < key(y):
			return "-1"
		case key(x) > key(y):
			return "1"
		}
		return "0"
	})
	cmp("cmpBig", func(w *M.World, x, y M.Val) M.Val {
		switch {
		case key(x) < key(y):
			return -1e300
		case key(x) > key(y):
			return 1e-300
		}
		return 0.0
	})
	// the remaining comparators are not consistent (or throw): the model is never asked to run them
}

// jsAdd is the + operator on the primitive pool (number + number, otherwise string concatenation).
func jsAdd(w *M.World, a, b M.Val) M.Val {
	_, as := a.(string)
	_, bs := b.(string)
	_, ao := a.(*M.Obj)
	_, bo := b.(*M.Obj)
	if as || bs || ao || bo {
		return w.ToString(a) + w.ToString(b)
	}
	return M.ToNumber(a) + M.ToNumber(b)
}
