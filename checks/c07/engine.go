package c07

import (
	"crypto/sha1"
	_ "embed"
	"fmt"
	"math"
	"os"
	"reflect"
	"sort"
	"strconv"
	"strings"
	"sync"
	"time"

	"github.com/dop251/goja"

	"verif/core"
	M "verif/ref/arrmodel"
)

//go:embed harness.js
var harnessSrc string

var harnessPrg = goja.MustCompile("harness.js", harnessSrc, false)

// rtx is one engine instance owned by one worker goroutine.
type rtx struct {
	vm                      *goja.Runtime
	trans, setup, resetProt goja.Callable
	fns                     map[string]goja.Value // compiled op functions by JS text
	cur                     *scenario
	dirty                   bool
}

func newRtx() *rtx {
	x := &rtx{vm: goja.New(), fns: map[string]goja.Value{}}
	x.vm.Set("WB", func(call goja.FunctionCall) goja.Value {
		if o, ok := call.Argument(0).(*goja.Object); ok {
			return x.vm.ToValue(wbString(goja.VerifArray(o)) + "/" + strconv.Itoa(staleTail(o)))
		}
		return x.vm.ToValue("none/0/0/0/0")
	})
	goProbe := func(name string, f func(v goja.Value) interface{}) {
		x.vm.Set(name, func(call goja.FunctionCall) (res goja.Value) {
			defer func() {
				if e := recover(); e != nil {
					if _, isJS := e.(*goja.Exception); isJS {
						panic(e)
					}
					res = x.vm.ToValue(fmt.Sprintf("GO-PANIC: %v", e))
				}
			}()
			return x.vm.ToValue(renderExport(f(call.Argument(0))))
		})
	}
	goProbe("EXPORT", func(v goja.Value) interface{} { return v.Export() })
	goProbe("EXPORTTO", func(v goja.Value) interface{} {
		var dst []interface{}
		if err := x.vm.ExportTo(v, &dst); err != nil {
			return "error: " + err.Error()
		}
		return dst
	})
	if _, err := x.vm.RunProgram(harnessPrg); err != nil {
		panic(err)
	}
	get := func(n string) goja.Callable {
		f, ok := goja.AssertFunction(x.vm.Get(n))
		if !ok {
			panic("c07: harness function missing: " + n)
		}
		return f
	}
	x.trans, x.setup, x.resetProt = get("TRANS"), get("SETUP"), get("RESETPROTO")
	return x
}

// fn compiles `(function(a){ "use strict"; return (<js>); })` once per runtime.
func (x *rtx) fn(js string) goja.Value {
	if f, ok := x.fns[js]; ok {
		return f
	}
	v, err := x.vm.RunString("(function(a){\"use strict\"; return (" + js + ");})")
	if err != nil {
		panic(fmt.Sprintf("c07: cannot compile op %q: %v", js, err))
	}
	x.fns[js] = v
	return v
}

func (x *rtx) call(f goja.Callable, args ...goja.Value) string {
	v, err := f(goja.Undefined(), args...)
	if err != nil {
		return "HARNESS-ERROR: " + err.Error()
	}
	return v.String()
}

func (x *rtx) use(sc *scenario) {
	if x.cur == sc {
		return
	}
	x.cur = sc
	probe := make([]interface{}, len(sc.probes))
	for i, p := range sc.probes {
		if sc.c.strKeys {
			probe[i] = fmt.Sprint(p)
		} else {
			probe[i] = int64(p)
		}
	}
	if _, err := x.setup(goja.Undefined(), x.vm.ToValue(probe), x.vm.ToValue(int64(sc.flo)), x.vm.ToValue(int64(sc.fhi))); err != nil {
		panic(err)
	}
}

// scenario = start state (two construction routes) + alphabet + bounds.
type scenario struct {
	name      string
	about     string
	c         ctx
	mainJS    string // expression building the subject
	twinJS    string // expression building the twin by another storage route ("" = no twin)
	mkHost    func(x *rtx) (goja.Value, goja.Value)
	mkModel   func(w *M.World) *M.Obj
	ops       []op
	probes    []uint64
	flo, fhi  uint32
	depthQ    int
	depthT    int
	first     bool // small high-yield scenario: its first two levels run before the round-robin starts
	proto     bool // alphabet touches Array.prototype / Object.prototype: reset between runs, dump them
	valueDump bool // host slice: compare length and element values only
	probeKeys []M.Key
}

func (sc *scenario) init() {
	for _, p := range sc.probes {
		sc.probeKeys = append(sc.probeKeys, mkey(p))
	}
}

// one side's observation of a transition
type obs struct {
	res, dump  string
	pre, post  wb
	msPre, msP string
}

// wb is the white-box view of the subject (goja.VerifArray): storage kind and bookkeeping counters.
type wb struct {
	s                     string
	Kind                  string
	Stored, ObjCount, PVC int
	Tail                  int // non-nil slots in values[len:cap] (dense only)
}

func parseWB(s string) wb {
	w := wb{s: s}
	p := strings.Split(s, "/")
	if len(p) >= 4 {
		w.Kind = p[0]
		w.Stored, _ = strconv.Atoi(p[1])
		w.ObjCount, _ = strconv.Atoi(p[2])
		w.PVC, _ = strconv.Atoi(p[3])
	}
	if len(p) >= 5 {
		w.Tail, _ = strconv.Atoi(p[4])
	}
	return w
}

type transition struct {
	enabled      bool
	model        obs
	main, twin   obs
	hasTwin      bool
	modelIdxCnt  int // own index properties of the model before the op
	modelNonPlan bool
	postIdxCnt   int
	postNonPlain bool
	detail       string
}

// staleTail counts the non-nil slots in values[len:cap] of a dense array (-1 = not readable). The
// slots beyond len must be nil: arrayObject.expand grows by reslicing within the capacity, so anything
// left there comes back as an own element. goja.VerifArray does not expose the capacity, so this reads
// Object.self.(*arrayObject).values through reflect (read-only, no change to /repo; a VerifArray field
// would replace it, see NOTES.md). It is only hidden state for the state key and for root-cause
// attribution; a stale tail alone is never reported.
func staleTail(o *goja.Object) (n int) {
	defer func() {
		if recover() != nil {
			n = -1
		}
	}()
	self := reflect.ValueOf(o).Elem().FieldByName("self")
	if !self.IsValid() || self.IsNil() {
		return -1
	}
	impl := self.Elem()
	if impl.Kind() != reflect.Ptr || impl.Elem().Type().Name() != "arrayObject" {
		return 0
	}
	vals := impl.Elem().FieldByName("values")
	if !vals.IsValid() || vals.Kind() != reflect.Slice {
		return -1
	}
	full := vals.Slice3(0, vals.Cap(), vals.Cap())
	for i := vals.Len(); i < full.Len(); i++ {
		if !full.Index(i).IsNil() {
			n++
		}
	}
	return n
}

func wbString(i goja.VerifArrayInfo) string {
	return i.Kind + "/" + strconv.Itoa(i.Stored) + "/" + strconv.Itoa(i.ObjCount) + "/" + strconv.Itoa(i.PropValueCount)
}

// renderExport prints an exported Go value the way exportModel (ops.go) predicts it.
func renderExport(v interface{}) string {
	switch x := v.(type) {
	case nil:
		return "nil"
	case int64:
		return "#" + strconv.FormatInt(x, 10)
	case float64:
		if x == 0 && math.Signbit(x) {
			return "#-0"
		}
		return "#" + M.NumToString(x)
	case string:
		return strconv.Quote(x)
	case bool:
		if x {
			return "T"
		}
		return "F"
	case []interface{}:
		parts := make([]string, len(x))
		for i, e := range x {
			parts[i] = renderExport(e)
		}
		return "[" + strings.Join(parts, " ") + "]"
	case *[]interface{}:
		return renderExport(*x)
	}
	return fmt.Sprintf("%T", v)
}

// pathFns is the JS array of the compiled letters of a path (built once per frontier state).
func (x *rtx) pathFns(sc *scenario, path []uint16) goja.Value {
	fs := make([]interface{}, len(path))
	for i, pi := range path {
		fs[i] = x.fn(sc.ops[pi].js)
	}
	return x.vm.NewArray(fs...)
}

// execImpl performs one whole transition on the engine inside a single JS call (TRANS in harness.js):
// build the subject, replay the path, read the white-box view, run the letter, dump, white-box again.
func (x *rtx) execImpl(sc *scenario, mk goja.Value, pathFns goja.Value, o *op) obs {
	var r obs
	flags := 0
	if o.oracle == oMultiset {
		flags |= 1
	}
	if sc.valueDump {
		flags |= 2
	}
	if sc.proto {
		flags |= 4
	}
	v, err := x.trans(goja.Undefined(), mk, pathFns, x.fn(o.js), x.vm.ToValue(flags))
	if err != nil {
		r.res = "HARNESS-ERROR: " + err.Error()
		x.dirty = true
		return r
	}
	out, _ := v.Export().([]interface{})
	if len(out) != 6 {
		r.res = "HARNESS-ERROR: bad TRANS result"
		return r
	}
	str := func(i int) string { s, _ := out[i].(string); return s }
	r.pre, r.res, r.dump, r.post, r.msPre, r.msP = parseWB(str(0)), str(1), str(2), parseWB(str(3)), str(4), str(5)
	return r
}

func modelProtoIdx(w *M.World, p *M.Obj) string {
	var sb strings.Builder
	for i := uint32(0); i < 3; i++ {
		if pr := p.GetOwn(M.IdxKey(i)); pr != nil {
			sb.WriteString(pdString(w, M.IdxKey(i), pr))
		}
	}
	return sb.String()
}

func pdString(w *M.World, k M.Key, p *M.Prop) string {
	o := w.NewObject()
	o.Proto = nil
	// reuse SD on a throw-away object holding just this property
	w.DefineOwn(o, k, M.Desc{})
	*o.GetOwn(k) = *p
	s := w.SD(o, 0, 0)
	return s[1 : len(s)-1]
}

func newModel(sc *scenario) (*M.World, *M.Obj) {
	w := M.NewWorld()
	a := sc.mkModel(w)
	w.Subject = a
	return w, a
}

// exec runs path+op on the model, the subject and the twin (fresh objects every time).
func (x *rtx) exec(sc *scenario, path []uint16, pf goja.Value, o *op) transition {
	x.use(sc)
	var t transition
	w, a := newModel(sc)
	for _, pi := range path {
		p := &sc.ops[pi]
		w.Completion(func() M.Val { return p.model(w, a) })
	}
	if o.enabled != nil && !o.enabled(w, a) {
		return t
	}
	t.enabled = true
	if o.detail != nil {
		t.detail = o.detail(w, a)
	}
	t.modelIdxCnt = len(a.IndexKeys())
	for _, i := range a.IndexKeys() {
		p := a.GetOwn(M.IdxKey(i))
		if p.Accessor || !p.W || !p.E || !p.C {
			t.modelNonPlan = true
		}
	}
	if o.oracle == oLock {
		t.model.res = w.Completion(func() M.Val { return o.model(w, a) })
		if sc.valueDump {
			t.model.dump = w.DumpValues(a)
		} else {
			t.model.dump = w.Dump(a, sc.probeKeys, sc.flo, sc.fhi)
		}
		if sc.proto {
			t.model.dump += "|AP=" + modelProtoIdx(w, w.ArrayProto) + "len=" + w.FV(w.ArrayProto.GetOwn(lenKey).Value) + "|OP=" + modelProtoIdx(w, w.ObjectProto)
		}
	}
	t.postIdxCnt = len(a.IndexKeys())
	for _, i := range a.IndexKeys() {
		p := a.GetOwn(M.IdxKey(i))
		if p.Accessor || !p.W || !p.E || !p.C {
			t.postNonPlain = true
		}
	}
	var mkMain, mkTwin goja.Value
	if sc.mkHost != nil {
		mkMain, mkTwin = sc.mkHost(x)
	} else {
		mkMain = x.fn(sc.mainJS)
		if sc.twinJS != "" {
			mkTwin = x.fn(sc.twinJS)
		}
	}
	if pf == nil {
		pf = x.pathFns(sc, path)
	}
	if sc.proto {
		x.resetProt(goja.Undefined())
	}
	t.main = x.execImpl(sc, mkMain, pf, o)
	if mkTwin != nil {
		if sc.proto {
			x.resetProt(goja.Undefined())
		}
		t.twin = x.execImpl(sc, mkTwin, pf, o)
		t.hasTwin = true
	}
	if sc.proto {
		x.resetProt(goja.Undefined())
		ap := goja.VerifArray(x.vm.Get("Array").ToObject(x.vm).Get("prototype").(*goja.Object))
		if ap.ObjCount != 0 || ap.PropValueCount != 0 || ap.Stored != 0 {
			x.dirty = true // bookkeeping of Array.prototype itself drifted: do not reuse this runtime
		}
	}
	return t
}

// ---- judging -------------------------------------------------------------------------------------

type failure struct {
	sig, what string
	drift     string // stale counter of the failing side before the op ("" = none)
	twin      bool   // the failing side is the twin
}

// judge = transition.judge + root-cause attribution: a fast-path letter failing on a state whose
// bookkeeping counters are stale is classified by the letter that made them stale (found by replaying
// the path prefix by prefix), not by the letter that happened to expose it.
func (x *rtx) judge(sc *scenario, path []uint16, o *op, t *transition) []failure {
	fs := t.judge(sc, o)
	for i := range fs {
		f := &fs[i]
		if f.drift == "" {
			continue
		}
		culprit := "start-state"
		for k := 1; k <= len(path); k++ {
			po := &sc.ops[path[k-1]]
			pt := x.exec(sc, path[:k-1], nil, po)
			side := pt.main
			if f.twin {
				side = pt.twin
			}
			if !pt.enabled || side.post.Kind != "dense" {
				continue
			}
			if (f.drift == "+stale-objCount" && side.post.ObjCount != pt.postIdxCnt) || (f.drift == "+stale-propValueCount" && pt.postNonPlain && side.post.PVC == 0) ||
				(f.drift == "+stale-tail" && side.post.Tail > 0) {
				culprit = po.class
				if side.pre.Kind != "dense" {
					culprit += " switching sparse->dense"
				}
				break
			}
		}
		kind := "dense"
		f.what = "exposed by " + o.class + ": " + f.what
		symptom := "fast path misreads the array"
		if f.drift == "+stale-tail" {
			symptom = "regrowth within the capacity resurrects removed elements"
		}
		f.sig = "stale" + strings.TrimPrefix(f.drift, "+stale") + " after " + culprit + "|" + kind + "|" + symptom
	}
	if len(fs) == 2 && fs[0].sig == fs[1].sig {
		fs = fs[:1]
	}
	return fs
}

func splitRes(s string) (completion, log string) {
	if i := strings.Index(s, " L"); i >= 0 {
		return s[:i], s[i+2:]
	}
	return s, ""
}

// diffPart names the first section of a state dump that differs and, for the property list, what
// kind of difference it is (keys / attributes got-vs-spec / value), so that unrelated defects of one
// operation get different signatures.
func diffPart(spec, got string) string {
	pa, pb := strings.Split(spec, "|"), strings.Split(got, "|")
	names := []string{"props", "length", "keys", "probes", "arrayproto", "objectproto"}
	if strings.HasPrefix(spec, "len=") {
		names = []string{"length", "values"}
	}
	for i := 0; i < len(pa) && i < len(pb); i++ {
		if pa[i] == pb[i] {
			continue
		}
		name := "part" + fmt.Sprint(i)
		if i < len(names) {
			name = names[i]
		}
		if name == "props" {
			name += ":" + entryDiff(pa[0], pb[0])
		}
		return name
	}
	return "shape"
}

func entryDiff(spec, got string) string {
	ea, eb := strings.Split(strings.Trim(spec, "[]{}!"), ","), strings.Split(strings.Trim(got, "[]{}!"), ",")
	if strings.Contains(spec, "!") != strings.Contains(got, "!") {
		return "extensible"
	}
	for i := 0; i < len(ea) && i < len(eb); i++ {
		if ea[i] == eb[i] {
			continue
		}
		ka, kb := strings.SplitN(ea[i], ":", 2), strings.SplitN(eb[i], ":", 2)
		if ka[0] != kb[0] || len(ka) < 2 || len(kb) < 2 {
			if len(eb) > len(ea) {
				return "extra-key"
			}
			if len(eb) < len(ea) {
				return "missing-key"
			}
			return "key-order"
		}
		va, vb := ka[1], kb[1]
		if strings.HasPrefix(va, "G(") != strings.HasPrefix(vb, "G(") {
			return "kind"
		}
		if len(va) >= 3 && len(vb) >= 3 && va[:len(va)-3] == vb[:len(vb)-3] {
			return "attrs(" + vb[len(vb)-3:] + "/" + va[len(va)-3:] + ")"
		}
		if strings.HasPrefix(va, "G(") {
			return "accessor-functions"
		}
		return "value"
	}
	if len(eb) > len(ea) {
		return "extra-key"
	}
	return "missing-key"
}

func compClass(c string, reflectStyle bool) string {
	switch {
	case c == "=F" && reflectStyle:
		return "reject" // Reflect.* style: false == the operation was rejected
	case c == "=T" && reflectStyle:
		return "ok"
	case strings.HasPrefix(c, "!TypeError"):
		return "reject"
	case strings.HasPrefix(c, "!RangeError"):
		return "RangeError"
	case strings.HasPrefix(c, "!"):
		return "throw"
	}
	return "ok"
}

func (t *transition) drift(o obs) bool { return t.driftTag(o) != "" }

// driftTag names the stale counter of a dense subject before the op: objCount over-counting the own
// index properties, or propValueCount == 0 although a non-plain element exists.
func (t *transition) driftTag(o obs) string {
	if o.pre.Kind != "dense" {
		return ""
	}
	if o.pre.Tail > 0 {
		return "+stale-tail"
	}
	if t.modelNonPlan && o.pre.PVC == 0 {
		return "+stale-propValueCount"
	}
	if o.pre.ObjCount != t.modelIdxCnt {
		return "+stale-objCount"
	}
	return ""
}

func kindName(sc *scenario, o obs) string {
	k := o.pre.Kind
	switch {
	case strings.Contains(k, "objectGoSliceReflect"):
		return "goslice-reflect"
	case strings.Contains(k, "objectGoSlice"):
		return "goslice"
	case strings.Contains(k, "baseObject"):
		return "arraylike"
	}
	return k
}

// judgeSide compares one implementation side with the model.
func (t *transition) judgeSide(sc *scenario, o *op, side obs) *failure {
	kind := kindName(sc, side)
	dr := ""
	if hasFastPath[o.class] || side.pre.Tail > 0 {
		dr = t.driftTag(side)
	}
	cls := o.class + t.detail
	if strings.HasPrefix(side.res, "HARNESS-ERROR") || strings.HasPrefix(side.dump, "HARNESS-ERROR") {
		return &failure{sig: cls + "|" + kind + "|go-panic-or-harness-error", what: side.res + " / " + side.dump}
	}
	if o.oracle == oMultiset {
		comp, _ := splitRes(side.res)
		if comp != "=A" && comp != `!"boom"` && !(strings.HasPrefix(o.class, "toSorted") && strings.HasPrefix(comp, "=[")) {
			return &failure{sig: cls + "|" + kind + "|result", what: "sort returned " + comp}
		}
		if side.msPre != side.msP {
			return &failure{sig: cls + "|" + kind + "|multiset", what: "elements before: " + side.msPre + " after: " + side.msP, drift: dr}
		}
		return nil
	}
	mc, ml := splitRes(t.model.res)
	sc2, sl := splitRes(side.res)
	if mc != sc2 {
		rs := strings.HasPrefix(o.js, "Reflect.")
		rc := compClass(sc2, rs) + "/" + compClass(mc, rs)
		if rc == "ok/ok" {
			rc = "value"
		}
		return &failure{sig: cls + "|" + kind + "|result(" + rc + ")", what: fmt.Sprintf("completion %s, spec %s", sc2, mc), drift: dr}
	}
	if ml != sl {
		return &failure{sig: cls + "|" + kind + "|calls", what: fmt.Sprintf("user-function call log %q, spec %q", sl, ml), drift: dr}
	}
	if t.model.dump != side.dump {
		return &failure{sig: cls + "|" + kind + "|state:" + diffPart(t.model.dump, side.dump), what: fmt.Sprintf("state after the operation %s, spec %s", side.dump, t.model.dump), drift: dr}
	}
	return nil
}

// judge returns the failures of a transition, one per side (signatures carry the storage kind of the
// side that failed, so a storage-independent defect is listed once per storage kind).
func (t *transition) judge(sc *scenario, o *op) []failure {
	var fs []failure
	if f := t.judgeSide(sc, o, t.main); f != nil {
		fs = append(fs, *f)
	}
	if t.hasTwin {
		if f := t.judgeSide(sc, o, t.twin); f != nil && (len(fs) == 0 || fs[0].sig != f.sig || fs[0].drift != f.drift) {
			f.twin = true
			fs = append(fs, *f)
		}
	}
	return fs
}

func (t *transition) key() string {
	s := t.main.dump + "#" + t.main.post.s
	if t.hasTwin {
		s += "#" + t.twin.post.s
	}
	return s
}

// ---- explicit-state BFS --------------------------------------------------------------------------

type caseRec struct {
	Scenario string   `json:"scenario"`
	Main     string   `json:"subject"`
	Twin     string   `json:"twin,omitempty"`
	Path     []string `json:"path"`
	Op       string   `json:"op"`
	Model    string   `json:"spec_result,omitempty"`
	MainRes  string   `json:"subject_result,omitempty"`
	TwinRes  string   `json:"twin_result,omitempty"`
	ModelSt  string   `json:"spec_state,omitempty"`
	MainSt   string   `json:"subject_state,omitempty"`
	TwinSt   string   `json:"twin_state,omitempty"`
	MainWB   string   `json:"subject_storage_before,omitempty"`
	TwinWB   string   `json:"twin_storage_before,omitempty"`
}

func mkCase(sc *scenario, path []uint16, o *op, t *transition) caseRec {
	c := caseRec{Scenario: sc.name, Main: sc.mainJS, Twin: sc.twinJS, Op: o.js, Path: []string{}}
	for _, p := range path {
		c.Path = append(c.Path, sc.ops[p].js)
	}
	if t != nil {
		c.Model, c.MainRes, c.ModelSt, c.MainSt = t.model.res, t.main.res, t.model.dump, t.main.dump
		c.MainWB = t.main.pre.s
		if t.hasTwin {
			c.TwinRes, c.TwinSt, c.TwinWB = t.twin.res, t.twin.dump, t.twin.pre.s
		}
	}
	return c
}

type explorer struct {
	r       *core.Run
	mu      sync.Mutex
	pool    []*rtx
	perSc   map[string]map[string]int64
	outSeen sync.Map
	pending map[string]*pendingFail
	wmu     sync.Mutex
	cur     []string
	since   []time.Time
	warned  map[string]bool
	driftBy map[string]int64
}

func (e *explorer) rt(worker int) *rtx {
	x := e.pool[worker]
	if x == nil || x.dirty {
		x = newRtx()
		e.pool[worker] = x
	}
	return x
}

// watch records what a worker is executing; the watchdog prints a transition that runs for more
// than 20 s (a native loop over a huge length cannot be interrupted from outside).
func (e *explorer) watch(wk int, sc *scenario, path []uint16, o *op) {
	e.wmu.Lock()
	if sc == nil {
		e.cur[wk] = ""
	} else {
		c := mkCase(sc, path, o, nil)
		e.cur[wk] = fmt.Sprintf("%s: var a=%s; %s; %s", sc.name, sc.mainJS, strings.Join(c.Path, "; "), o.js)
		e.since[wk] = time.Now()
	}
	e.wmu.Unlock()
}

func (e *explorer) watchdog() {
	for {
		time.Sleep(5 * time.Second)
		e.wmu.Lock()
		for i, c := range e.cur {
			if c != "" && time.Since(e.since[i]) > 20*time.Second && !e.warned[c] {
				e.warned[c] = true
				fmt.Fprintf(os.Stderr, "C07 watchdog: worker %d has been executing for more than 20 s: %s\n", i, c)
			}
		}
		e.wmu.Unlock()
	}
}

// confirm re-runs a failing transition on fresh engines and requires the same failure every time.
func confirm(sc *scenario, path []uint16, o *op, f failure) bool {
	for i := 0; i < 5; i++ {
		x := newRtx()
		t := x.exec(sc, path, nil, o)
		ok := false
		for _, g := range x.judge(sc, path, o, &t) {
			if g.sig == f.sig {
				ok = true
			}
		}
		if !ok {
			return false
		}
	}
	return true
}

// report buffers a failure; flush hands the smallest case of every signature to core in a fixed
// order, so that the reported example does not depend on worker scheduling.
func (e *explorer) report(sc *scenario, path []uint16, o *op, oi int, t *transition, fs []failure) {
	e.mu.Lock()
	defer e.mu.Unlock()
	for _, f := range fs {
		p := e.pending[f.sig]
		if p == nil {
			p = &pendingFail{}
			e.pending[f.sig] = p
		}
		p.count++
		np := append(append([]uint16{}, path...), uint16(oi))
		if p.path == nil || len(np) < len(p.path) || (len(np) == len(p.path) && lessPath(np, p.path)) {
			p.path, p.f, p.t = np, f, *t
		}
	}
}

type pendingFail struct {
	count int64
	path  []uint16 // letters including the failing one
	f     failure
	t     transition
}

func (e *explorer) flush(sc *scenario) {
	e.mu.Lock()
	defer e.mu.Unlock()
	sigs := make([]string, 0, len(e.pending))
	for s := range e.pending {
		sigs = append(sigs, s)
	}
	sort.Strings(sigs)
	for _, sig := range sigs {
		p := e.pending[sig]
		path, o := p.path[:len(p.path)-1], &sc.ops[p.path[len(p.path)-1]]
		f := p.f
		// the smallest case of every signature is re-run 5 times on fresh engines before it is believed
		if !confirm(sc, path, o, f) {
			f = failure{sig: "nondeterministic|" + f.sig, what: "failure did not reproduce 5 times on fresh engines: " + f.what}
		}
		steps := append(append([]string{}, mkCase(sc, path, o, nil).Path...), o.js)
		what := fmt.Sprintf("var a=%s; %s  =>  %s", sc.mainJS, strings.Join(steps, "; "), f.what)
		if len(what) > 700 {
			what = what[:700] + "…"
		}
		c := mkCase(sc, path, o, &p.t)
		for i := int64(0); i < p.count; i++ {
			e.r.Violation(f.sig, what, c)
		}
	}
	e.pending = map[string]*pendingFail{}
}

type cand struct {
	h    [16]byte
	path []uint16
}

func lessPath(a, b []uint16) bool {
	for i := 0; i < len(a) && i < len(b); i++ {
		if a[i] != b[i] {
			return a[i] < b[i]
		}
	}
	return len(a) < len(b)
}

// bfs explores sc to the given depth; returns false if the deadline cut it short. Level d is complete
// when every state first reached at depth d-1 had every enabled letter applied.
// search is the resumable BFS of one scenario: level(false) applies every enabled letter to the states
// found by the previous level, level(true) is the final probe sweep (read-only letters only).
type search struct {
	e                                              *explorer
	sc                                             *scenario
	seen                                           map[[16]byte]struct{}
	frontier                                       [][]uint16
	depth                                          int // completed levels
	swept, cut, exhausted                          bool
	states, transitions, nontrivial, storageSwitch int64
}

func (e *explorer) newSearch(sc *scenario) *search {
	return &search{e: e, sc: sc, seen: map[[16]byte]struct{}{}, frontier: [][]uint16{{}}, states: 1}
}

// level runs one BFS level; it returns false if the deadline cut it short (the level then does not count).
func (s *search) level(sweep bool) bool {
	e, sc, r := s.e, s.sc, s.e.r
	if s.cut || s.exhausted {
		return !s.cut
	}
	nw := r.Workers
	frontier := s.frontier
	locals := make([]map[[16]byte][]uint16, nw)
	type cnts struct{ tr, nt, flips int64 }
	lc := make([]cnts, nw)
	for i := range locals {
		locals[i] = map[[16]byte][]uint16{}
	}
	ok := r.Parallel(int64(len(frontier)), 1, func(wk int, lo, hi int64) {
		for fi := lo; fi < hi; fi++ {
			path := frontier[fi]
			var pf goja.Value
			var pfOwner *rtx
			for oi := range sc.ops {
				o := &sc.ops[oi]
				if sweep && !(o.probe || o.oracle != oLock) {
					continue
				}
				x := e.rt(wk)
				if pfOwner != x {
					pf, pfOwner = x.pathFns(sc, path), x
				}
				e.watch(wk, sc, path, o)
				t := x.exec(sc, path, pf, o)
				e.watch(wk, nil, nil, nil)
				if !t.enabled {
					continue
				}
				lc[wk].tr++
				if t.hasTwin && t.main.pre.Kind != t.twin.pre.Kind {
					lc[wk].nt++
				}
				if t.main.pre.Kind != t.main.post.Kind || (t.hasTwin && t.twin.pre.Kind != t.twin.post.Kind) {
					lc[wk].flips++
				}
				comp, _ := splitRes(t.main.res)
				oh := core.HashString(o.class + comp)
				if _, dup := e.outSeen.LoadOrStore(oh, true); !dup {
					r.OutcomeH(oh)
				}
				if fs := x.judge(sc, path, o, &t); len(fs) > 0 {
					e.report(sc, path, o, oi, &t, fs)
					continue
				}
				if r.WantSample(int64(s.depth)*1000003 + fi*int64(len(sc.ops)) + int64(oi)) {
					r.Sample(map[string]interface{}{"scenario": sc.name, "subject": sc.mainJS, "twin": sc.twinJS,
						"path": mkCase(sc, path, o, nil).Path, "op": o.js, "result": t.main.res, "state": t.main.dump,
						"storage_subject": t.main.pre.s + " -> " + t.main.post.s,
						"storage_twin":    t.twin.pre.s + " -> " + t.twin.post.s})
				}
				if t.main.post.Kind == "dense" && t.main.pre.Kind == "dense" && !t.drift(t.main) &&
					(t.main.post.ObjCount > t.postIdxCnt || (t.postNonPlain && t.main.post.PVC == 0) || t.main.post.Tail > 0) {
					e.mu.Lock()
					e.driftBy[o.class]++
					e.mu.Unlock()
				}
				if sweep || o.probe || o.oracle != oLock {
					continue
				}
				sum := sha1.Sum([]byte(t.key()))
				var h [16]byte
				copy(h[:], sum[:16])
				if _, dup := s.seen[h]; dup { // seen is read-only during a level
					continue
				}
				np := append(append(make([]uint16, 0, len(path)+1), path...), uint16(oi))
				if old, dup := locals[wk][h]; !dup || lessPath(np, old) {
					locals[wk][h] = np
				}
			}
		}
	})
	for i := range lc {
		s.transitions += lc[i].tr
		s.nontrivial += lc[i].nt
		s.storageSwitch += lc[i].flips
	}
	e.flush(sc)
	if !ok {
		s.cut = true
		return false
	}
	if sweep {
		s.swept = true
		return true
	}
	// deterministic merge: the lexicographically smallest path represents a new state
	merged := map[[16]byte][]uint16{}
	for _, l := range locals {
		for h, p := range l {
			if old, dup := merged[h]; !dup || lessPath(p, old) {
				merged[h] = p
			}
		}
	}
	s.frontier = make([][]uint16, 0, len(merged))
	for h, p := range merged {
		s.seen[h] = struct{}{}
		s.frontier = append(s.frontier, p)
	}
	sort.Slice(s.frontier, func(i, j int) bool { return lessPath(s.frontier[i], s.frontier[j]) })
	s.states += int64(len(s.frontier))
	s.depth++
	if len(s.frontier) == 0 {
		s.exhausted, s.swept = true, true // the whole reachable state space was explored
	}
	return true
}

func (s *search) finish(target int) {
	r, e := s.e.r, s.e
	r.States(s.states)
	r.Transitions(s.transitions)
	r.Traces(s.transitions)
	r.Eval(s.transitions)
	r.NontrivialN(s.nontrivial)
	e.mu.Lock()
	b := func(v bool) int64 {
		if v {
			return 1
		}
		return 0
	}
	e.perSc[s.sc.name] = map[string]int64{"depth_completed": int64(s.depth), "depth_target": int64(target), "probe_sweep_done": b(s.swept), "state_space_exhausted": b(s.exhausted), "states": s.states,
		"transitions": s.transitions, "twin_storage_differs": s.nontrivial, "storage_switches": s.storageSwitch, "letters": int64(len(s.sc.ops))}
	e.mu.Unlock()
}
