package c07

import (
	"strconv"
	"strings"

	M "verif/ref/arrmodel"
)

// An op is one letter of an alphabet: a JavaScript expression over the subject `a` (executed on the
// real engine inside a strict-mode function) and the same step on the model. Both are generated from
// one structured description so that they cannot drift apart.
type op struct {
	js      string
	class   string // what the signature of a failure is classified by (operation kind / method name)
	model   func(w *M.World, a *M.Obj) M.Val
	probe   bool                              // read-only: checked on every state, never extended
	enabled func(w *M.World, a *M.Obj) bool   // nil = always
	oracle  int                               // oLock | oMultiset
	detail  func(w *M.World, a *M.Obj) string // extra input class for the signature, read off the model pre-state
}

const (
	oLock     = iota // completion, log and full state must equal the model's
	oMultiset        // implementation-defined order: multiset of elements, holes and length preserved
)

// val is a value literal usable on both sides.
type val struct {
	js string
	mk func(w *M.World) M.Val
}

func vnum(f float64) val {
	js := M.NumToString(f)
	if f == 0 && 1/f < 0 {
		js = "-0"
	}
	return val{js, func(*M.World) M.Val { return f }}
}
func vstr(s string) val { return val{strconv.Quote(s), func(*M.World) M.Val { return s }} }
func vbool(b bool) val {
	return val{strconv.FormatBool(b), func(*M.World) M.Val { return b }}
}

var vundef = val{"undefined", func(*M.World) M.Val { return M.Undef }}
var vnull = val{"null", func(*M.World) M.Val { return M.Nul }}

func vfn(name string) val {
	return val{name, func(w *M.World) M.Val { return getFn(w, name) }}
}

// varr is a fresh array literal.
func varr(el ...val) val {
	parts := make([]string, len(el))
	for i, e := range el {
		parts[i] = e.js
	}
	return val{"[" + strings.Join(parts, ",") + "]", func(w *M.World) M.Val {
		vs := make([]M.Val, len(el))
		for i, e := range el {
			vs[i] = e.mk(w)
		}
		return w.ArrayFromList(vs)
	}}
}

// dsc is a property descriptor literal.
type dsc struct {
	js string
	mk func(w *M.World) M.Desc
}

// mkDesc builds a descriptor from optional fields; w/e/c: 0 absent, 1 true, 2 false.
func mkDesc(value *val, get, set *val, wf, ef, cf M.Tri) dsc {
	var parts []string
	if value != nil {
		parts = append(parts, "value:"+value.js)
	}
	if get != nil {
		parts = append(parts, "get:"+get.js)
	}
	if set != nil {
		parts = append(parts, "set:"+set.js)
	}
	tri := func(n string, t M.Tri) {
		if t != M.Unset {
			parts = append(parts, n+":"+strconv.FormatBool(t == M.True))
		}
	}
	tri("writable", wf)
	tri("enumerable", ef)
	tri("configurable", cf)
	return dsc{"{" + strings.Join(parts, ",") + "}", func(w *M.World) M.Desc {
		d := M.Desc{W: wf, E: ef, C: cf}
		if value != nil {
			d.HasValue, d.Value = true, value.mk(w)
		}
		fn := func(v *val) *M.Obj {
			if o, ok := v.mk(w).(*M.Obj); ok {
				return o
			}
			return nil // undefined
		}
		if get != nil {
			d.HasGet, d.Get = true, fn(get)
		}
		if set != nil {
			d.HasSet, d.Set = true, fn(set)
		}
		return d
	}}
}

// ctx fixes the surface syntax of a scenario: key form, throwing vs Reflect style, call form.
type ctx struct {
	strKeys bool // property keys written as strings ("5") instead of numbers (5)
	reflect bool // Reflect.set / defineProperty / deleteProperty (boolean results) instead of strict-mode operators
	call    bool // Array.prototype.m.call(a, ...) instead of a.m(...) (array-likes)
}

func (c ctx) key(i uint64) string {
	s := strconv.FormatUint(i, 10)
	if c.strKeys {
		return `"` + s + `"`
	}
	return s
}

func mkey(i uint64) M.Key { return M.StrKey(strconv.FormatUint(i, 10)) }

func (c ctx) set(i uint64, v val) op {
	k := mkey(i)
	if c.reflect {
		return op{js: "Reflect.set(a," + c.key(i) + "," + v.js + ")", class: "set-index",
			model: func(w *M.World, a *M.Obj) M.Val { return w.Set(a, k, v.mk(w), a) }}
	}
	return op{js: "a[" + c.key(i) + "]=" + v.js, class: "set-index",
		model: func(w *M.World, a *M.Obj) M.Val { x := v.mk(w); w.SetThrow(a, k, x); return x }}
}

func (c ctx) del(i uint64) op {
	k := mkey(i)
	// goja renders the whole array into the error message of a failing delete (join over the length):
	// on a huge array that is a multi-gigabyte string, so the letter is disabled there (see NOTES.md,
	// finding delete-index|...|calls).
	guard := func(w *M.World, a *M.Obj) bool {
		p := a.GetOwn(k)
		return p == nil || p.C || modelLen(w, a) <= 100000
	}
	if c.reflect {
		return op{js: "Reflect.deleteProperty(a," + c.key(i) + ")", class: "delete-index", enabled: guard,
			model: func(w *M.World, a *M.Obj) M.Val { return w.Delete(a, k) }}
	}
	return op{js: "delete a[" + c.key(i) + "]", class: "delete-index", enabled: guard,
		model: func(w *M.World, a *M.Obj) M.Val { w.DeleteThrow(a, k); return true }}
}

func (c ctx) defKey(kjs string, k M.Key, d dsc, class string) op {
	// input class: shape of the descriptor x kind of the existing property
	detail := func(w *M.World, a *M.Obj) string {
		dd := d.mk(w)
		shape := "generic"
		switch {
		case dd.IsAccessor() && dd.Get == nil && dd.Set == nil:
			shape = "accessor-undefined"
		case dd.IsAccessor():
			shape = "accessor"
		case dd.HasValue:
			shape = "value"
		case dd.W != M.Unset:
			shape = "writable-only"
		}
		ex := "absent"
		if p := a.GetOwn(k); p != nil {
			ex = "data"
			if p.Accessor {
				ex = "accessor"
			}
			if !p.C {
				ex += "-nonconfigurable"
			}
		}
		return "[" + shape + " on " + ex + "]"
	}
	if c.reflect {
		return op{js: "Reflect.defineProperty(a," + kjs + "," + d.js + ")", class: class, detail: detail,
			model: func(w *M.World, a *M.Obj) M.Val { return w.DefineOwn(a, k, d.mk(w)) }}
	}
	return op{js: "Object.defineProperty(a," + kjs + "," + d.js + ")", class: class, detail: detail,
		model: func(w *M.World, a *M.Obj) M.Val { w.DefineOrThrow(a, k, d.mk(w)); return a }}
}

func (c ctx) def(i uint64, d dsc) op { return c.defKey(c.key(i), mkey(i), d, "define-index") }
func (c ctx) defLen(d dsc) op {
	o := c.defKey(`"length"`, lenKey, d, "define-length")
	o.detail = lenDetail(func(w *M.World) M.Val {
		if dd := d.mk(w); dd.HasValue {
			return dd.Value
		}
		return nil
	})
	return o
}

// lenDetail classifies a length write by where the highest non-configurable element sits relative to
// the new length (the boundary cases of ArraySetLength).
func lenDetail(v func(w *M.World) M.Val) func(w *M.World, a *M.Obj) string {
	return func(w *M.World, a *M.Obj) string {
		if a.Kind != M.KArray || v == nil {
			return ""
		}
		x := v(w)
		if x == nil {
			return "[attributes only]"
		}
		if _, isObj := x.(*M.Obj); isObj {
			return ""
		}
		n := M.ToNumber(x)
		if n < 0 || n != float64(uint32(n)) {
			return "[invalid length]"
		}
		keys := a.IndexKeys()
		for i := len(keys) - 1; i >= 0 && float64(keys[i]) >= n; i-- {
			if !a.GetOwn(M.IdxKey(keys[i])).C {
				if float64(keys[i]) == n {
					return "[non-configurable element at the new length]"
				}
				return "[non-configurable element above the new length]"
			}
		}
		return ""
	}
}

func (c ctx) setLen(v val) op {
	if c.reflect {
		return op{js: `Reflect.set(a,"length",` + v.js + ")", class: "set-length", detail: lenDetail(v.mk),
			model: func(w *M.World, a *M.Obj) M.Val { return w.Set(a, lenKey, v.mk(w), a) }}
	}
	return op{js: "a.length=" + v.js, class: "set-length", detail: lenDetail(v.mk),
		model: func(w *M.World, a *M.Obj) M.Val { x := v.mk(w); w.SetThrow(a, lenKey, x); return x }}
}

func integrity(name string) op {
	return op{js: "Object." + name + "(a)", class: name, model: func(w *M.World, a *M.Obj) M.Val {
		switch name {
		case "freeze":
			w.SetIntegrityLevel(a, true)
		case "seal":
			w.SetIntegrityLevel(a, false)
		default:
			w.PreventExtensions(a)
		}
		return a
	}}
}

func integrityTest(name string) op {
	return op{js: "Object." + name + "(a)", class: name, probe: true, model: func(w *M.World, a *M.Obj) M.Val {
		switch name {
		case "isFrozen":
			return w.TestIntegrityLevel(a, true)
		case "isSealed":
			return w.TestIntegrityLevel(a, false)
		}
		return a.Ext
	}}
}

// protoSet / protoDef / protoDel act on Array.prototype or Object.prototype (indexed properties only).
func protoSet(onObject bool, i uint64, v val) op {
	t, k := protoName(onObject), mkey(i)
	return op{js: t + "[" + strconv.FormatUint(i, 10) + "]=" + v.js, class: "proto-set", model: func(w *M.World, a *M.Obj) M.Val {
		p := protoObj(w, onObject)
		x := v.mk(w)
		if !w.Set(p, k, x, p) {
			M.ThrowType()
		}
		return x
	}}
}

func protoDef(onObject bool, i uint64, d dsc) op {
	t, k := protoName(onObject), mkey(i)
	return op{js: "Object.defineProperty(" + t + "," + strconv.FormatUint(i, 10) + "," + d.js + ")===a", class: "proto-define", model: func(w *M.World, a *M.Obj) M.Val {
		w.DefineOrThrow(protoObj(w, onObject), k, d.mk(w))
		return false
	}}
}

func protoDel(onObject bool, i uint64) op {
	t, k := protoName(onObject), mkey(i)
	return op{js: "delete " + t + "[" + strconv.FormatUint(i, 10) + "]", class: "proto-delete", model: func(w *M.World, a *M.Obj) M.Val {
		w.DeleteThrow(protoObj(w, onObject), k)
		return true
	}}
}

func protoName(onObject bool) string {
	if onObject {
		return "Object.prototype"
	}
	return "Array.prototype"
}

func protoObj(w *M.World, onObject bool) *M.Obj {
	if onObject {
		return w.ObjectProto
	}
	return w.ArrayProto
}

// ---- guards --------------------------------------------------------------------------------------

func modelLen(w *M.World, a *M.Obj) int64 {
	old := w.Mute
	w.Mute = true
	defer func() { w.Mute = old }()
	return w.LengthOfArrayLike(a)
}

// lenAtMost enables an op only while the model length is small enough to iterate.
func lenAtMost(n int64) func(w *M.World, a *M.Obj) bool {
	return func(w *M.World, a *M.Obj) bool { return modelLen(w, a) <= n }
}

// plainElements: extensible, every own index property is a plain writable/enumerable/configurable
// data property and no index below length is inherited (the multiset oracle is only sound there).
func plainElements(max int64) func(w *M.World, a *M.Obj) bool {
	return func(w *M.World, a *M.Obj) bool {
		l := modelLen(w, a)
		if l > max || !a.Ext {
			return false
		}
		if a.Kind == M.KHostSlice {
			return true
		}
		if lp := a.GetOwn(lenKey); lp == nil || lp.Accessor || !lp.W {
			return false
		}
		for _, i := range a.IndexKeys() {
			p := a.GetOwn(M.IdxKey(i))
			if p.Accessor || !p.W || !p.E || !p.C {
				return false
			}
		}
		for k := int64(0); k < l; k++ {
			if a.Proto != nil && w.HasProperty(a.Proto, M.NumKey(k)) {
				return false
			}
		}
		return true
	}
}

// ---- methods -------------------------------------------------------------------------------------

func (c ctx) callJS(name string, args []val) string {
	parts := make([]string, len(args))
	for i, a := range args {
		parts[i] = a.js
	}
	if c.call {
		return "Array.prototype." + name + ".call(" + strings.Join(append([]string{"a"}, parts...), ",") + ")"
	}
	return "a." + name + "(" + strings.Join(parts, ",") + ")"
}

// mutating reports whether a method may change its receiver (these are BFS letters, the rest probes).
var mutating = map[string]bool{"push": true, "pop": true, "shift": true, "unshift": true, "splice": true,
	"reverse": true, "fill": true, "copyWithin": true, "sort": true}

// hasFastPath lists the letters whose implementation consults the bookkeeping counters (checkStdArray*
// gates, export): a failure of one of them on a state with stale counters is tagged as such.
var hasFastPath = map[string]bool{"includes": true, "indexOf": true, "lastIndexOf": true, "slice": true, "splice": true, "fill": true,
	"copyWithin": true, "reverse": true, "with": true, "toReversed": true, "toSpliced": true, "shift": true, "unshift": true,
	"Array.from": true, "toLocaleString": true, "iterator": true, "export": true, "pop": true, "map": true, "filter": true, "concat": true, "flat": true}

// constantTime methods do not iterate over the length and stay enabled on huge arrays.
var constantTime = map[string]bool{"push": true, "pop": true, "at": true}

// consistent comparators: the model can predict the unique stable order.
var consistentCmp = map[string]bool{"": true, "cmpNum": true, "cmpRev": true, "cmpMod2": true, "cmpZero": true,
	"cmpNegZero": true, "cmpNaN": true, "cmpNaNdiv": true, "cmpUndef": true, "cmpStr": true, "cmpBig": true}

func margs(w *M.World, args []val) []M.Val {
	vs := make([]M.Val, len(args))
	for i, a := range args {
		vs[i] = a.mk(w)
	}
	return vs
}

// method builds the op for a.<name>(args...). maxLen bounds the receiver length for iterating methods.
// mutatesViaCallback marks callbacks that change the receiver (then the op is a BFS letter, too).
func (c ctx) method(name string, maxLen int64, args ...val) op {
	o := op{js: c.callJS(name, args), class: name, probe: !mutating[name]}
	for _, a := range args {
		switch a.js {
		case "cbPush", "cbDel", "cbTrunc", "cbFar", "rdTrunc":
			o.probe = false
		}
	}
	if !constantTime[name] {
		o.enabled = lenAtMost(maxLen)
	}
	if name == "pop" {
		// same exclusion as for delete: a failing delete of the last element renders the whole array
		o.enabled = func(w *M.World, a *M.Obj) bool {
			l := modelLen(w, a)
			if l <= 100000 {
				return true
			}
			p := a.GetOwn(M.NumKey(l - 1))
			return p == nil || p.C
		}
	}
	if name == "sort" || name == "toSorted" {
		cmp := ""
		if len(args) > 0 && args[0].js != "undefined" {
			cmp = args[0].js
		}
		o.class = name + "(" + cmp + ")"
		hasFastPath[o.class] = true
		if strings.HasPrefix(cmp, "cmp") && !consistentCmp[cmp] {
			o.oracle = oMultiset
			o.probe = true
			o.enabled = plainElements(maxLen)
			return o
		}
	}
	o.model = func(w *M.World, a *M.Obj) M.Val { return callMethod(w, a, name, margs(w, args)) }
	return o
}

func callMethod(w *M.World, a *M.Obj, name string, args []M.Val) M.Val {
	switch name {
	case "at":
		return w.At(a, args)
	case "concat":
		return w.Concat(a, args)
	case "copyWithin":
		return w.CopyWithin(a, args)
	case "every":
		return w.Every(a, args)
	case "some":
		return w.Some(a, args)
	case "forEach":
		return w.ForEach(a, args)
	case "map":
		return w.Map(a, args)
	case "filter":
		return w.Filter(a, args)
	case "fill":
		return w.Fill(a, args)
	case "find":
		return w.FindVia(a, args, false, false)
	case "findIndex":
		return w.FindVia(a, args, false, true)
	case "findLast":
		return w.FindVia(a, args, true, false)
	case "findLastIndex":
		return w.FindVia(a, args, true, true)
	case "flat":
		return w.Flat(a, args)
	case "flatMap":
		return w.FlatMap(a, args)
	case "includes":
		return w.Includes(a, args)
	case "indexOf":
		return w.IndexOf(a, args)
	case "lastIndexOf":
		return w.LastIndexOf(a, args)
	case "join":
		return w.Join(a, args)
	case "toString":
		// Get(array, "join") is only callable when Array.prototype is on the chain
		for p := a.Proto; ; p = p.Proto {
			if p == nil {
				return "[object Object]"
			}
			if p == w.ArrayProto {
				return w.Join(a, nil)
			}
		}
	case "toLocaleString":
		return w.ToLocaleString(a)
	case "pop":
		return w.Pop(a)
	case "push":
		return w.Push(a, args)
	case "reduce":
		return w.Reduce(a, args, false)
	case "reduceRight":
		return w.Reduce(a, args, true)
	case "reverse":
		return w.Reverse(a)
	case "shift":
		return w.Shift(a)
	case "slice":
		return w.Slice(a, args)
	case "splice":
		return w.Splice(a, args)
	case "toSpliced":
		return w.ToSpliced(a, args)
	case "toReversed":
		return w.ToReversed(a)
	case "with":
		return w.With(a, args)
	case "unshift":
		return w.Unshift(a, args)
	case "sort":
		return w.Sort(a, args)
	case "toSorted":
		return w.ToSorted(a, args)
	}
	panic("c07: unknown method " + name)
}

// exprOp is a free-form probe (spread, Array.from, iterators).
func exprOp(js, class string, maxLen int64, model func(w *M.World, a *M.Obj) M.Val) op {
	return op{js: js, class: class, probe: true, enabled: lenAtMost(maxLen), model: model}
}

// exportModel predicts Value.Export() / Runtime.ExportTo(&[]interface{}) of an array: element i is the
// export of Get(a, i) (getters run, the prototype chain is consulted), undefined / null / holes are nil.
func exportModel(w *M.World, v M.Val) string {
	switch x := v.(type) {
	case M.Undefined, M.Null:
		return "nil"
	case float64:
		return w.FV(x)
	case string:
		return strconv.Quote(x)
	case bool:
		return w.FV(x)
	case *M.Obj:
		if !M.IsArray(x) {
			return "object"
		}
		l := w.LengthOfArrayLike(x)
		parts := make([]string, l)
		for i := int64(0); i < l; i++ {
			parts[i] = exportModel(w, w.Get(x, M.NumKey(i), x))
		}
		return "[" + strings.Join(parts, " ") + "]"
	}
	return "?"
}

func exportProbes(maxLen int64) []op {
	mk := func(js string) op {
		return op{js: js, class: "export", probe: true, enabled: lenAtMost(maxLen), model: func(w *M.World, a *M.Obj) M.Val { return exportModel(w, a) }}
	}
	return []op{mk("EXPORT(a)"), mk("EXPORTTO(a)")}
}

// jsonModel predicts JSON.stringify of an array of primitives (holes and undefined print as null).
func jsonModel(w *M.World, a *M.Obj) M.Val {
	l := w.LengthOfArrayLike(a)
	parts := make([]string, l)
	for i := int64(0); i < l; i++ {
		switch x := w.Get(a, M.NumKey(i), a).(type) {
		case float64:
			if x != x || x-x != 0 {
				parts[i] = "null"
			} else {
				parts[i] = M.NumToString(x)
			}
		case string:
			parts[i] = strconv.Quote(x)
		case bool:
			parts[i] = strconv.FormatBool(x)
		default:
			parts[i] = "null"
		}
	}
	return "[" + strings.Join(parts, ",") + "]"
}
