package c07

import (
	"fmt"
	"strconv"
	"strings"

	"github.com/dop251/goja"

	M "verif/ref/arrmodel"
)

// Twin construction routes. A twin reaches the same observable start state through another storage
// strategy; goja.VerifArray proves that (see coverage.twin_storage_differs).
const (
	emptyDense  = "[]"
	emptySparse = "(function(){var t=[];t[5000]=0;t.length=0;return t})()" // dense -> sparse, then emptied
)

var (
	gFn, sFn, g2Fn = vfn("G"), vfn("S"), vfn("G2")
	v1, v7, v8     = vnum(1), vnum(7), vnum(8)
)

// descriptor lattice (the C04 lattice restricted to what matters for element bookkeeping)
func descLattice(full bool) []dsc {
	T, F, U := M.True, M.False, M.Unset
	l := []dsc{
		mkDesc(&v7, nil, nil, U, U, U),   // {value:7}: attributes default to false when created
		mkDesc(&v7, nil, nil, T, T, T),   // plain element
		mkDesc(&v8, nil, nil, F, T, T),   // non-writable
		mkDesc(&v8, nil, nil, T, T, F),   // non-configurable
		mkDesc(nil, &gFn, nil, U, T, T),  // getter only
		mkDesc(nil, &gFn, &sFn, U, U, F), // non-configurable accessor
		mkDesc(nil, nil, nil, U, U, F),   // {configurable:false}
		mkDesc(nil, nil, nil, F, U, U),   // {writable:false}
	}
	if full {
		l = append(l,
			mkDesc(nil, nil, nil, U, U, U),     // {}
			mkDesc(nil, nil, nil, T, U, U),     // {writable:true}
			mkDesc(nil, nil, nil, U, F, U),     // {enumerable:false}
			mkDesc(nil, &vundef, nil, U, U, U), // {get:undefined}
			mkDesc(nil, &g2Fn, nil, U, U, U),   // other getter
			mkDesc(&vundef, nil, nil, U, U, U), // {value:undefined}
		)
	}
	return l
}

func lengthDescs(lens []uint64) []dsc {
	T, F, U := M.True, M.False, M.Unset
	var l []dsc
	for _, n := range lens {
		v := vnum(float64(n))
		l = append(l, mkDesc(&v, nil, nil, U, U, U))
	}
	v0 := vnum(float64(lens[0]))
	l = append(l,
		mkDesc(nil, nil, nil, F, U, U),
		mkDesc(&v0, nil, nil, F, U, U),
		mkDesc(nil, nil, nil, T, U, U),
		mkDesc(nil, nil, nil, U, U, T),
		mkDesc(nil, nil, nil, U, T, U),
		mkDesc(nil, &gFn, nil, U, U, U),
		mkDesc(nil, nil, nil, U, F, F),
	)
	return l
}

func emptyArrayModel(w *M.World) *M.Obj { return w.NewArray() }

// coreOps is the exotic-object alphabet over an index pool.
func coreOps(c ctx, idx []uint64, lens []uint64, vals []val, descs []dsc, badLens bool) []op {
	var ops []op
	for _, i := range idx {
		for _, v := range vals {
			ops = append(ops, c.set(i, v))
		}
	}
	for _, i := range idx {
		ops = append(ops, c.del(i))
	}
	for _, n := range lens {
		ops = append(ops, c.setLen(vnum(float64(n))))
	}
	for _, i := range idx {
		for _, d := range descs {
			ops = append(ops, c.def(i, d))
		}
	}
	for _, d := range lengthDescs(lens) {
		ops = append(ops, c.defLen(d))
	}
	ops = append(ops, integrity("preventExtensions"), integrity("seal"), integrity("freeze"))
	if badLens {
		ops = append(ops, c.setLen(vnum(-1)), c.setLen(vnum(1.5)), c.setLen(vnum(4294967296)), c.setLen(vstr("2")), c.setLen(vundef))
	}
	ops = append(ops, integrityTest("isFrozen"), integrityTest("isSealed"), integrityTest("isExtensible"))
	return ops
}

// methodProbes are the read-only Array.prototype letters (checked on every state, never extended).
func methodProbes(c ctx, maxLen int64, iter bool) []op {
	m := func(name string, args ...val) op { return c.method(name, maxLen, args...) }
	n := vnum
	hole := val{"[7,,8]", func(w *M.World) M.Val {
		a := w.ArrayFromList([]M.Val{7.0, M.Undef, 8.0})
		w.Delete(a, M.IdxKey(1))
		return a
	}}
	ops := []op{
		m("at", n(0)), m("at", n(-1)), m("at", n(5)),
		m("concat"), m("concat", hole, n(9)),
		m("every", vfn("cbTrue")), m("every", vfn("cbLog")), m("some", vfn("cbLog")), m("forEach", vfn("cbLog")),
		m("map", vfn("cbIdx")), m("filter", vfn("cbLog")), m("filter", vfn("cbTrue")),
		m("find", vfn("cbLog")), m("findIndex", vfn("cbLog")), m("findLast", vfn("cbLog")), m("findLastIndex", vfn("cbIdx")),
		m("flat"), m("flat", n(2)), m("flatMap", vfn("cbWrap")),
		m("includes", vundef), m("includes", n(1)), m("includes", n(1), n(1)), m("includes", vundef, n(-1)),
		m("indexOf", n(1)), m("indexOf", vundef), m("indexOf", n(1), n(-1)),
		m("lastIndexOf", n(1)), m("lastIndexOf", vundef), m("lastIndexOf", n(1), n(-2)), m("lastIndexOf", n(1), n(0)),
		m("join"), m("join", vstr("-")), m("toString"), m("toLocaleString"),
		m("reduce", vfn("rdSum")), m("reduce", vfn("rdSum"), n(0)), m("reduceRight", vfn("rdSum")), m("reduceRight", vfn("rdLast"), vstr("i")),
		m("slice"), m("slice", n(1)), m("slice", n(-2), n(-1)), m("slice", n(0), n(1)),
		m("toReversed"), m("toSorted"), m("toSorted", vfn("cmpRev")), m("toSpliced", n(1), n(1), vstr("x")), m("toSpliced", n(0), n(0)),
		m("with", n(0), n(9)), m("with", n(-1), n(9)), m("with", n(5), n(9)),
		m("every", vfn("cbThrow2")), m("map", vfn("cbThrow2")),
		m("sort", vfn("cmpOne")), m("sort", vfn("cmpMinus")), m("sort", vfn("cmpAlt")), m("sort", vfn("cmpCyc")),
		m("sort", vfn("cmpThrow1")), m("sort", vfn("cmpThrow3")),
		m("forEach", n(1)), m("sort", n(1)),
	}
	if iter {
		it := func(js string, kind int) op {
			return exprOp(js, "iterator", maxLen, func(w *M.World, a *M.Obj) M.Val { return w.SpreadVia(a, kind) })
		}
		ops = append(ops, it("[...a.keys()]", 0), it("[...a.values()]", 1), it("[...a.entries()]", 2), it("[...a]", 1),
			exprOp("Array.from(a)", "Array.from", maxLen, func(w *M.World, a *M.Obj) M.Val { return w.ArrayFrom(a, true) }))
	} else {
		ops = append(ops, exprOp("Array.from(a)", "Array.from", maxLen, func(w *M.World, a *M.Obj) M.Val { return w.ArrayFrom(a, false) }))
	}
	return ops
}

// methodLetters are the state-changing Array.prototype letters.
func methodLetters(c ctx, maxLen int64, callbacks bool) []op {
	m := func(name string, args ...val) op { return c.method(name, maxLen, args...) }
	n := vnum
	ops := []op{
		m("push", n(3)), m("push", n(1), vundef), m("pop"), m("shift"), m("unshift", n(2)), m("unshift", vundef, n(1)),
		m("splice", n(0), n(1)), m("splice", n(1), n(0), vstr("x")), m("splice", n(1), n(1), vstr("x"), vstr("y")), m("splice", n(-1)),
		m("reverse"), m("fill", n(0)), m("fill", n(9), n(1), n(2)), m("copyWithin", n(0), n(1)), m("copyWithin", n(1), n(0), n(2)),
		m("sort"), m("sort", vfn("cmpRev")), m("sort", vfn("cmpMod2")), m("sort", vfn("cmpNegZero")), m("sort", vfn("cmpNaNdiv")),
	}
	if callbacks {
		ops = append(ops, m("forEach", vfn("cbPush")), m("map", vfn("cbDel")), m("filter", vfn("cbTrunc")), m("forEach", vfn("cbFar")),
			m("reduce", vfn("rdTrunc")), m("find", vfn("cbTrunc")), m("flatMap", vfn("cbDel")))
	}
	return ops
}

// smallLetters: element writes / deletes / a few descriptors / length / integrity on a small index pool.
func smallLetters(c ctx, idx []uint64, vals []val, lens []uint64, descs []dsc, descIdx []uint64) []op {
	var ops []op
	for _, i := range idx {
		for _, v := range vals {
			ops = append(ops, c.set(i, v))
		}
	}
	for _, i := range idx {
		ops = append(ops, c.del(i))
	}
	for _, l := range lens {
		ops = append(ops, c.setLen(vnum(float64(l))))
	}
	for _, i := range descIdx {
		for _, d := range descs {
			ops = append(ops, c.def(i, d))
		}
	}
	return ops
}

// sortLetters: every comparator class on sort (state-changing for consistent comparators, multiset
// probes otherwise) and toSorted.
func sortLetters(c ctx, maxLen int64) []op {
	var ops []op
	consistent := []string{"", "cmpNum", "cmpRev", "cmpMod2", "cmpZero", "cmpNegZero", "cmpNaN", "cmpNaNdiv", "cmpUndef", "cmpStr", "cmpBig"}
	other := []string{"cmpOne", "cmpMinus", "cmpAlt", "cmpCyc", "cmpThrow1", "cmpThrow3"}
	for _, n := range consistent {
		if n == "" {
			ops = append(ops, c.method("sort", maxLen), c.method("toSorted", maxLen))
		} else {
			ops = append(ops, c.method("sort", maxLen, vfn(n)), c.method("toSorted", maxLen, vfn(n)))
		}
	}
	for _, n := range other {
		ops = append(ops, c.method("sort", maxLen, vfn(n)))
		recv := "a"
		ops = append(ops, op{js: "TSORTED(" + recv + "," + n + ")", class: "toSorted(" + n + ")", probe: true, enabled: lenAtMost(maxLen),
			model: func(w *M.World, a *M.Obj) M.Val { return "ok" }})
	}
	return ops
}

// longPattern is a fixed sequence with many comparator ties between distinguishable elements
// (numbers 0..9 and strings of length 1..4; key = number or string length).
func longPattern(n int) []val {
	strs := []string{"b", "cd", "efg", "hijk"}
	vs := make([]val, n)
	for i := range vs {
		if i%3 == 2 {
			vs[i] = vstr(strs[(i/3)%4])
		} else {
			vs[i] = vnum(float64((i * 7) % 10))
		}
	}
	return vs
}

func hostSliceModel(w *M.World) *M.Obj { return M.NewHostSlice(w, nil) }

type namedSlice []interface{}

func mkHostSlices(x *rtx) (goja.Value, goja.Value) {
	mk := func(reflectBased bool) goja.Value {
		return x.vm.ToValue(func(call goja.FunctionCall) goja.Value {
			if reflectBased {
				s := namedSlice{}
				return x.vm.ToValue(&s)
			}
			s := []interface{}{}
			return x.vm.ToValue(&s)
		})
	}
	return mk(false), mk(true)
}

func arrayLikeModel(w *M.World) *M.Obj {
	o := w.NewObject()
	w.CreateDataProperty(o, lenKey, 0.0)
	return o
}

const prefillMain = "(function(){var t=[];for(var i=0;i<1023;i++)t[i]=i;t[5000]=5000;return t})()" // dense (5001 slots)
const prefillTwin = "(function(){var t=[];t[5000]=5000;for(var i=0;i<1023;i++)t[i]=i;return t})()" // sparse with 1024 items: the next new element converts it to dense

func prefillModel(w *M.World) *M.Obj {
	a := w.NewArray()
	for i := 0; i < 1023; i++ {
		w.CreateDataProperty(a, M.IdxKey(uint32(i)), float64(i))
	}
	w.CreateDataProperty(a, M.IdxKey(5000), 5000.0)
	return a
}

func scenarios(thorough bool) []*scenario {
	var scs []*scenario
	add := func(sc *scenario) {
		sc.init()
		scs = append(scs, sc)
	}
	num := ctx{}
	refl := ctx{strKeys: true, reflect: true}
	T, F, U := M.True, M.False, M.Unset

	// ---- shrink, then regrow within the old capacity ----
	// A removing operation leaves len(values) < cap(values); a later write ABOVE the length (leaving a
	// gap) makes arrayObject.expand reslice within the capacity: whatever the shrink left behind in
	// values[len:cap] comes back as own elements instead of holes. Runs first (2 letters suffice).
	six := varr(vnum(1), vnum(2), vnum(3), vnum(4), vnum(5), vnum(6))
	plain7 := mkDesc(&v7, nil, nil, T, T, T)
	acc := mkDesc(nil, &gFn, &sFn, U, T, T)
	mr := func(name string, args ...val) op { return num.method(name, 64, args...) }
	rOps := []op{
		// shrinking letters
		mr("splice", vnum(1), vnum(3)), mr("splice", vnum(0), vnum(2)), mr("splice", vnum(-2)), mr("splice", vnum(2), vnum(2), vstr("x")), mr("splice", vnum(0), vnum(1)),
		mr("pop"), mr("shift"), num.setLen(vnum(4)), num.setLen(vnum(2)), num.del(5), mr("sort", vfn("cmpRev")), mr("copyWithin", vnum(0), vnum(3)),
		// regrowing letters: writes at length+1.. (gap), at the length, via push / unshift / length / growing splice
		num.set(3, v7), num.set(4, v7), num.set(5, v7), num.set(6, v7), num.set(8, v7), num.def(4, plain7), num.def(5, acc),
		mr("push", v7), mr("unshift", v7), num.setLen(vnum(6)), mr("splice", vnum(1), vnum(0), vstr("y"), vstr("z")), mr("fill", vnum(0), vnum(1), vnum(2)),
		// observers beyond the state dump
		mr("includes", vundef), mr("indexOf", vnum(4)), mr("lastIndexOf", vnum(5)), mr("join"), mr("at", vnum(-1)), mr("slice"), mr("toReversed"), mr("with", vnum(0), vnum(9)),
		mr("reduce", vfn("rdSum")), mr("forEach", vfn("cbLog")), mr("flat"), mr("toSorted"), exportProbes(64)[0], exportProbes(64)[1],
		exprOp("Array.from(a)", "Array.from", 64, func(w *M.World, a *M.Obj) M.Val { return w.ArrayFrom(a, true) }),
		exprOp("JSON.stringify(a)", "JSON.stringify", 64, func(w *M.World, a *M.Obj) M.Val { return jsonModel(w, a) }),
	}
	add(&scenario{name: "shrink-regrow", about: "6-element literal (len == cap): every shrinking letter (splice variants, pop, shift, length, delete) followed by writes / defineProperty above, at and below the new length, push, unshift, length growth, growing splice; explored before everything else",
		c: num, first: true, mainJS: six.js, twinJS: "(function(){var t=[];t[5000]=0;t.length=0;var s=" + six.js + ";for(var i=0;i<s.length;i++)t[i]=s[i];return t})()",
		mkModel: func(w *M.World) *M.Obj { return six.mk(w).(*M.Obj) }, ops: rOps,
		probes: []uint64{0, 1, 2, 3, 4, 5, 6, 7, 8}, depthQ: 3, depthT: 4})

	small := []uint64{0, 1, 2}
	add(&scenario{name: "core-small", about: "exotic-object core on indices 0..2, full descriptor lattice",
		c: num, mainJS: emptyDense, twinJS: emptySparse, mkModel: emptyArrayModel,
		ops:    coreOps(num, small, []uint64{0, 1, 2, 3}, []val{v1, vundef}, descLattice(true), true),
		probes: []uint64{0, 1, 2, 3}, depthQ: 3, depthT: 5})
	add(&scenario{name: "core-small-reflect", about: "same with string keys and Reflect.* (non-throwing paths)",
		c: refl, mainJS: emptyDense, twinJS: emptySparse, mkModel: emptyArrayModel,
		ops:    coreOps(refl, small, []uint64{0, 1, 2, 3}, []val{v1}, descLattice(false), false),
		probes: []uint64{0, 1, 2, 3}, depthQ: 3, depthT: 5})
	thr := []uint64{0, 15, 16, 17}
	add(&scenario{name: "core-shrink", about: "indices around the 16-element shrink threshold",
		c: num, mainJS: emptyDense, twinJS: emptySparse, mkModel: emptyArrayModel,
		ops:    coreOps(num, thr, []uint64{0, 15, 16, 17, 18}, []val{v1}, descLattice(false)[:6], false),
		probes: []uint64{0, 14, 15, 16, 17, 18}, depthQ: 3, depthT: 5})
	tr := []uint64{0, 1, 4095, 4096, 4097, 5000}
	add(&scenario{name: "core-transition", about: "indices around the dense->sparse threshold (4096) and 5000",
		c: num, mainJS: emptyDense, twinJS: emptySparse, mkModel: emptyArrayModel,
		ops:    coreOps(num, tr, []uint64{0, 1, 4096, 4097, 5001}, []val{v1}, descLattice(false)[:6], false),
		probes: []uint64{0, 1, 2, 4095, 4096, 4097, 4098, 5000, 5001}, depthQ: 3, depthT: 4})
	huge := []uint64{0, 65536, 2147483647, 2147483648, 4294967294, 4294967295}
	hugeOps := coreOps(num, huge, []uint64{0, 1, 65537, 2147483648, 4294967295}, []val{v1}, descLattice(false)[:6], true)
	hugeOps = append(hugeOps, num.method("push", 0, v1), num.method("push", 0, v1, v7), num.method("pop", 0), num.method("at", 0, vnum(-1)))
	add(&scenario{name: "core-huge", about: "indices 2^16, 2^31-1, 2^31, 2^32-2 and the non-index 2^32-1; push/pop at the 2^32 boundary",
		c: num, mainJS: emptyDense, twinJS: emptySparse, mkModel: emptyArrayModel, ops: hugeOps,
		probes: []uint64{0, 1, 65536, 2147483647, 2147483648, 4294967294, 4294967295}, depthQ: 3, depthT: 4})

	// ---- prototype carrying indexed properties ----
	pd := []dsc{mkDesc(nil, &gFn, &sFn, U, T, T), mkDesc(&v8, nil, nil, F, T, T)}
	protoOps := []op{protoSet(false, 0, v7), protoSet(false, 1, v7), protoDel(false, 0), protoDel(false, 1), protoSet(true, 1, v8), protoDel(true, 1)}
	for _, d := range pd {
		protoOps = append(protoOps, protoDef(false, 0, d), protoDef(false, 1, d))
	}
	protoOps = append(protoOps, smallLetters(num, small, []val{v1, vundef}, []uint64{0, 2, 3}, []dsc{mkDesc(&v8, nil, nil, F, T, T), mkDesc(nil, &gFn, &sFn, U, T, T)}, []uint64{1})...)
	protoOps = append(protoOps, integrity("freeze"))
	protoOps = append(protoOps, methodLetters(num, 64, false)...)
	protoOps = append(protoOps, methodProbes(num, 64, true)...)
	protoOps = append(protoOps, exportProbes(64)...)
	add(&scenario{name: "proto-indexed", about: "Array.prototype[0|1] / Object.prototype[1] defined as data, read-only data or accessor: holes read and write through the chain, every method",
		c: num, mainJS: emptyDense, twinJS: emptySparse, mkModel: emptyArrayModel, ops: protoOps, proto: true,
		probes: []uint64{0, 1, 2, 3}, depthQ: 3, depthT: 4})

	// ---- every Array.prototype method on small arrays ----
	md := []dsc{mkDesc(&v8, nil, nil, F, T, T), mkDesc(nil, &gFn, &sFn, U, T, T), mkDesc(&v8, nil, nil, T, T, F), mkDesc(&v7, nil, nil, T, T, T)}
	mOps := smallLetters(num, small, []val{v1, vnum(2), vundef}, []uint64{0, 2, 3}, md, []uint64{1})
	mOps = append(mOps, num.defLen(mkDesc(nil, nil, nil, F, U, U)), integrity("freeze"), integrity("preventExtensions"))
	mOps = append(mOps, methodLetters(num, 64, true)...)
	mOps = append(mOps, methodProbes(num, 64, true)...)
	mOps = append(mOps, exportProbes(64)...)
	add(&scenario{name: "methods-small", about: "every Array.prototype method (argument pools, mutating / throwing callbacks, comparators) on arrays over indices 0..2 with holes, read-only, accessor, non-configurable elements, frozen, non-writable length",
		c: num, mainJS: emptyDense, twinJS: emptySparse, mkModel: emptyArrayModel, ops: mOps,
		probes: []uint64{0, 1, 2, 3, 4}, depthQ: 3, depthT: 4})

	// ---- methods across the storage thresholds ----
	tOps := smallLetters(num, []uint64{0, 1, 4097, 5000}, []val{v1}, []uint64{0, 2, 4098, 5001}, md[:2], []uint64{1, 5000})
	m5 := func(name string, args ...val) op { return num.method(name, 5200, args...) }
	tOps = append(tOps, m5("push", vnum(3)), m5("pop"), m5("shift"), m5("unshift", vnum(2)), m5("splice", vnum(0), vnum(1)), m5("splice", vnum(1), vnum(0), vstr("x")),
		m5("reverse"), m5("fill", vnum(0), vnum(4096)), m5("copyWithin", vnum(0), vnum(4097)), m5("sort"), m5("sort", vfn("cmpRev")),
		m5("forEach", vfn("cbFar")), m5("includes", vundef), m5("includes", vnum(1), vnum(4097)), m5("indexOf", vnum(1), vnum(2)), m5("lastIndexOf", vnum(1)),
		m5("at", vnum(-1)), m5("slice", vnum(4096)), m5("slice", vnum(0), vnum(2)), m5("with", vnum(-1), vnum(9)), m5("toSpliced", vnum(2), vnum(4990)),
		exportProbes(5200)[0], exportProbes(5200)[1], m5("findLast", vfn("cbTrue")), m5("reduceRight", vfn("rdLast")), m5("sort", vfn("cmpOne")), m5("sort", vfn("cmpThrow1")),
		exprOp("a.join().length", "join", 5200, func(w *M.World, a *M.Obj) M.Val { return float64(len(w.Join(a, nil))) }),
		exprOp("a.toReversed().indexOf(1)", "toReversed", 5200, func(w *M.World, a *M.Obj) M.Val {
			return w.IndexOf(w.ToReversed(a).(*M.Obj), []M.Val{1.0})
		}))
	add(&scenario{name: "methods-transition", about: "methods on arrays whose indices straddle the dense->sparse threshold (4097, 5000)",
		c: num, mainJS: emptyDense, twinJS: emptySparse, mkModel: emptyArrayModel, ops: tOps,
		probes: []uint64{0, 1, 2, 4096, 4097, 4098, 5000, 5001}, depthQ: 3, depthT: 4})

	// ---- sparse -> dense: 1024 stored items ----
	pIdx := []uint64{0, 1022, 1023, 1024, 4097, 5000, 65536}
	pOps := smallLetters(num, pIdx, []val{v1}, []uint64{0, 1023, 1024, 5000, 5001, 5002}, md[:2], []uint64{1023, 5000})
	m6 := func(name string, args ...val) op { return num.method(name, 5200, args...) }
	pOps = append(pOps, m6("push", vnum(3)), m6("pop"), m6("shift"), m6("unshift", vnum(2)), m6("splice", vnum(1023), vnum(0), vstr("x")), m6("reverse"),
		exportProbes(5200)[0], exportProbes(5200)[1], m6("includes", vundef), m6("indexOf", vnum(5000)), m6("lastIndexOf", vnum(0)), m6("at", vnum(-1)), m6("sort"), m6("sort", vfn("cmpRev")))
	add(&scenario{name: "prefilled-1024", about: "start with 1023 elements + a[5000]: the subject is dense, the twin sparse with exactly 1024 items, so the next new element switches the twin sparse->dense; writing 65536 switches the subject dense->sparse",
		c: num, mainJS: prefillMain, twinJS: prefillTwin, mkModel: prefillModel, ops: pOps, flo: 1, fhi: 1022,
		probes: []uint64{0, 1, 1021, 1022, 1023, 1024, 4097, 5000, 5001, 65536}, depthQ: 3, depthT: 4})

	// ---- array-like plain object ----
	al := ctx{call: true}
	aOps := smallLetters(al, small, []val{v1, vnum(2), vundef}, nil, md[:2], []uint64{1})
	for _, l := range []val{vnum(0), vnum(2), vnum(3), vstr("2"), vnum(-1), vundef} {
		aOps = append(aOps, al.setLen(l))
	}
	aOps = append(aOps, op{js: "delete a.length", class: "delete-length", model: func(w *M.World, a *M.Obj) M.Val { w.DeleteThrow(a, lenKey); return true }},
		integrity("freeze"))
	aOps = append(aOps, methodLetters(al, 64, true)...)
	aOps = append(aOps, methodProbes(al, 64, false)...)
	add(&scenario{name: "array-like", about: "Array.prototype methods invoked with .call on a plain object {length:n, 0:.., 1:..} (generic algorithms only; no twin)",
		c: al, mainJS: "({length:0})", mkModel: arrayLikeModel, ops: aOps,
		probes: []uint64{0, 1, 2, 3, 4}, depthQ: 3, depthT: 4})

	// ---- Go []interface{} wrapper ----
	gOps := smallLetters(num, []uint64{0, 1, 2, 4}, []val{v1, vnum(2), vstr("s"), vnull}, []uint64{0, 2, 3}, nil, nil)
	gOps = append(gOps, methodLetters(num, 64, false)...)
	gOps = append(gOps, methodProbes(num, 64, true)...)
	add(&scenario{name: "go-slice", about: "wrapped Go *[]interface{} (subject) and reflect-based named slice (twin) under the documented host semantics: no holes, delete => null, growth fills with null; primitives only",
		c: num, mkHost: mkHostSlices, mkModel: hostSliceModel, ops: gOps, valueDump: true, mainJS: "vm.ToValue(&[]interface{}{})",
		probes: nil, depthQ: 3, depthT: 4})
	// ---- sorting: all short inputs, and long inputs beyond the insertion-sort block of sort.Stable ----
	sOps := []op{}
	for _, v := range []val{vnum(1), vnum(2), vnum(3), vstr("b"), vstr("ab"), vundef} {
		sOps = append(sOps, num.method("push", 64, v))
	}
	sOps = append(sOps, op{js: "a.length=a.length+1", class: "set-length", model: func(w *M.World, a *M.Obj) M.Val {
		l := float64(modelLen(w, a)) + 1
		w.SetThrow(a, lenKey, l)
		return l
	}})
	sOps = append(sOps, sortLetters(num, 64)...)
	add(&scenario{name: "sort-inputs", about: "every array over {1,2,3,\"b\",\"ab\",undefined,hole} up to the depth bound x every comparator class (consistent incl. -0 / NaN / undefined / string / huge results: exact stable order; inconsistent / throwing: multiset)",
		c: num, mainJS: emptyDense, twinJS: emptySparse, mkModel: emptyArrayModel, ops: sOps,
		probes: []uint64{0, 1, 2, 3, 4, 5}, depthQ: 4, depthT: 6})
	for _, n := range []int{21, 45} {
		pat := longPattern(n)
		lit := varr(pat...)
		lOps := []op{num.method("reverse", 64), num.method("push", 64, vnum(5)), num.method("shift", 64), num.set(3, vundef), num.del(7), num.method("unshift", 64, vstr("zz"))}
		lOps = append(lOps, sortLetters(num, 64)...)
		add(&scenario{name: fmt.Sprintf("sort-long-%d", n), about: fmt.Sprintf("%d-element pattern with many ties (symMerge path of sort.Stable), a few rearrangements, every comparator class", n),
			c: num, mainJS: lit.js, twinJS: "(function(){var t=[];t[5000]=0;t.length=0;var s=" + lit.js + ";for(var i=0;i<s.length;i++)t[i]=s[i];return t})()",
			mkModel: func(w *M.World) *M.Obj { return lit.mk(w).(*M.Obj) }, ops: lOps,
			probes: []uint64{0, 1, 2, 3, 7, 20, 21, 44, 45, 46}, depthQ: 2, depthT: 3})
	}
	_ = thorough
	return scs
}

func findScenario(name string) *scenario {
	for _, sc := range scenarios(true) {
		if sc.name == name {
			return sc
		}
	}
	return nil
}

func (sc *scenario) opIndex(js string) int {
	for i := range sc.ops {
		if sc.ops[i].js == js {
			return i
		}
	}
	return -1
}

func (sc *scenario) describe() string {
	var cls []string
	seen := map[string]bool{}
	for _, o := range sc.ops {
		if !seen[o.class] {
			seen[o.class] = true
			cls = append(cls, o.class)
		}
	}
	return fmt.Sprintf("%s: %s; %d letters (%s); probes %s", sc.name, sc.about, len(sc.ops), strings.Join(cls, ","), joinU(sc.probes))
}

func joinU(u []uint64) string {
	s := make([]string, len(u))
	for i, x := range u {
		s[i] = strconv.FormatUint(x, 10)
	}
	return strings.Join(s, ",")
}
