package c05

import (
	"fmt"
	"math"
	"strings"

	nm "verif/ref/nummodel"

	"github.com/dop251/goja"
)

// Oracle (iii): integer-taking built-in argument positions. Each position is an expression in v; its observable
// result (rendered by __show, exceptions by name) for a pool value v must equal the result for the Number
// ToNumber(v), and - where the specification starts with ToIntegerOrInfinity / ToLength / ToIndex - also the result
// for ToIntegerOrInfinity(ToNumber(v)); both references are computed by the model and passed as canonical Numbers.
type position struct {
	name     string  // also the expression
	optUndef bool    // undefined means "argument absent": skip v = undefined
	intPos   bool    // starts with ToIntegerOrInfinity-like truncation: also compare with the integer
	nanInf   bool    // NaN is special-cased by the specification before truncation (lastIndexOf position): no integer reference for NaN
	maxN     float64 // allocation / loop guard: apply only if the model integer is <= maxN (0 = no guard)
	small    bool
	noObj    bool // objects are not converted at this position
	numOnly  bool // only Number operands are converted at this position
}

const showHelper = `function __show(x){
  if (x === undefined) return "u";
  if (x === null) return "null";
  switch (typeof x) {
  case "number": return Object.is(x,-0) ? "-0" : String(x);
  case "string": return JSON.stringify(x);
  case "boolean": return String(x);
  case "bigint": return x+"n";
  case "object":
    if (x instanceof ArrayBuffer) return "AB("+x.byteLength+")";
    if (x instanceof DataView) return "DV("+x.byteOffset+","+x.byteLength+")";
    if (Array.isArray(x) || ArrayBuffer.isView(x)) { var s="["; for (var i=0;i<Math.min(x.length,12);i++){ s+=(i in x ? __show(x[i]) : "hole")+","} return s+"len="+x.length+"]"; }
    return "obj";
  }
  return typeof x;
}
var __S="abcdef", __buf=function(){return new Uint8Array([1,2,3,4,5,6,7,8]).buffer}, __ta=function(){return new Uint8Array([1,2,3,4])}, __dv=function(){return new DataView(__buf())};
`

func posSource(p position) string {
	return "(function(v){ try { return __show(" + p.name + ") } catch(e) { return 'throw:'+(e&&e.name) } })"
}

var positions = []position{
	// String.prototype
	{name: `__S.charAt(v)`, intPos: true}, {name: `__S.charCodeAt(v)`, intPos: true}, {name: `__S.codePointAt(v)`, intPos: true}, {name: `__S.at(v)`, intPos: true},
	{name: `__S.substring(v)`, intPos: true}, {name: `__S.substring(1,v)`, intPos: true, optUndef: true}, {name: `__S.substr(v)`, intPos: true}, {name: `__S.substr(1,v)`, intPos: true, optUndef: true},
	{name: `__S.slice(v)`, intPos: true}, {name: `__S.slice(1,v)`, intPos: true, optUndef: true},
	{name: `"abcabc".indexOf("c",v)`, intPos: true}, {name: `"abcabc".lastIndexOf("c",v)`, intPos: true, nanInf: true}, {name: `"abcabc".includes("c",v)`, intPos: true},
	{name: `"abcabc".startsWith("c",v)`, intPos: true}, {name: `"abcabc".endsWith("c",v)`, intPos: true, optUndef: true},
	{name: `"".repeat(v)`, intPos: true}, {name: `"ab".repeat(v)`, intPos: true, maxN: 1000}, {name: `"ab".padStart(v,"x")`, intPos: true, maxN: 1000}, {name: `"ab".padEnd(v,"x")`, intPos: true, maxN: 1000},
	{name: `"a,b,c".split(",",v)`, optUndef: true}, {name: `String.fromCharCode(v)`}, {name: `String.fromCodePoint(v)`},
	// Array.prototype
	{name: `[1,2,3,4].at(v)`, intPos: true}, {name: `[1,2,3,4].slice(v)`, intPos: true}, {name: `[1,2,3,4].slice(1,v)`, intPos: true, optUndef: true},
	{name: `[1,2,3,4].splice(v)`, intPos: true}, {name: `[1,2,3,4].splice(1,v)`, intPos: true},
	{name: `[1,2,3,3].indexOf(3,v)`, intPos: true}, {name: `[1,3,3,4].lastIndexOf(3,v)`, intPos: true}, {name: `[1,2,3,4].includes(3,v)`, intPos: true},
	{name: `[1,2,3,4].fill(0,v)`, intPos: true}, {name: `[1,2,3,4].fill(0,1,v)`, intPos: true, optUndef: true},
	{name: `[1,2,3,4].copyWithin(v,1)`, intPos: true}, {name: `[1,2,3,4].copyWithin(0,v)`, intPos: true}, {name: `[1,2,3,4].copyWithin(0,1,v)`, intPos: true, optUndef: true},
	{name: `[[1,[2,[3]]]].flat(v).length`, intPos: true, optUndef: true}, {name: `[1,2,3,4].with(v,9)`, intPos: true}, {name: `[1,2,3,4].toSpliced(v,1)`, intPos: true}, {name: `[1,2,3,4].toSpliced(1,v)`, intPos: true},
	{name: `(function(){var a=[1,2,3]; a.length=v; return a})()`}, {name: `Object.defineProperty([1,2,3],"length",{value:v})`},
	{name: `Array.prototype.slice.call({length:v,0:7,1:8,2:9},0,2)`, intPos: true}, {name: `Array.prototype.at.call({length:v,0:7,1:8,2:9},-1)`, intPos: true},
	{name: `Array.prototype.indexOf.call({length:v,0:7,1:8},8)`, intPos: true}, {name: `Array.prototype.includes.call({length:v,0:7},7)`, intPos: true},
	{name: `Array.from({length:v}).length`, intPos: true, maxN: 1000, small: true},
	// %TypedArray%.prototype and constructors
	{name: `__ta().at(v)`, intPos: true}, {name: `__ta().slice(v)`, intPos: true}, {name: `__ta().slice(1,v)`, intPos: true, optUndef: true},
	{name: `__ta().subarray(v)`, intPos: true}, {name: `__ta().subarray(1,v)`, intPos: true, optUndef: true},
	{name: `__ta().fill(0,v)`, intPos: true}, {name: `__ta().fill(0,1,v)`, intPos: true, optUndef: true},
	{name: `__ta().copyWithin(v,1)`, intPos: true}, {name: `__ta().copyWithin(0,v)`, intPos: true}, {name: `__ta().copyWithin(0,1,v)`, intPos: true, optUndef: true},
	{name: `new Uint8Array([1,2,3,3]).indexOf(3,v)`, intPos: true}, {name: `new Uint8Array([1,3,3,4]).lastIndexOf(3,v)`, intPos: true}, {name: `__ta().includes(3,v)`, intPos: true},
	{name: `(function(){var t=__ta(); t.set([9],v); return t})()`, intPos: true}, {name: `__ta().with(v,9)`, intPos: true},
	{name: `new Uint8Array(v).length`, intPos: true, maxN: 1000, noObj: true}, {name: `new Uint8Array(__buf(),v).length`, intPos: true}, {name: `new Uint8Array(__buf(),0,v).length`, intPos: true, optUndef: true},
	{name: `new Float64Array(__buf(),v).length`, intPos: true},
	// ArrayBuffer / DataView
	{name: `new ArrayBuffer(v).byteLength`, intPos: true, maxN: 1000}, {name: `__buf().slice(v).byteLength`, intPos: true}, {name: `__buf().slice(1,v).byteLength`, intPos: true, optUndef: true},
	{name: `new DataView(__buf(),v).byteOffset`, intPos: true}, {name: `new DataView(__buf(),1,v).byteLength`, intPos: true, optUndef: true},
	{name: `__dv().getInt8(v)`, intPos: true}, {name: `__dv().getUint16(v)`, intPos: true}, {name: `__dv().getFloat64(v)`, intPos: true}, {name: `__dv().getUint32(v,true)`, intPos: true},
	{name: `(function(){var d=__dv(); d.setInt8(v,99); return new Uint8Array(d.buffer)})()`, intPos: true}, {name: `(function(){var d=__dv(); d.setUint32(v,0xAABBCCDD); return new Uint8Array(d.buffer)})()`, intPos: true},
	// Number.prototype
	{name: `(123.456).toFixed(v)`, intPos: true}, {name: `(123.456).toExponential(v)`, intPos: true, optUndef: true}, {name: `(123.456).toPrecision(v)`, intPos: true, optUndef: true}, {name: `(255).toString(v)`, intPos: true, optUndef: true},
	{name: `(0.000001234).toFixed(v)`, intPos: true},
	// others
	{name: `BigInt.asIntN(v,5n)`, intPos: true, maxN: 1000, small: true}, {name: `BigInt.asUintN(v,-1n)`, intPos: true, maxN: 1000, small: true},
	{name: `(function(){var re=/b/g; re.lastIndex=v; var r=re.test("abcb"); return [r,re.lastIndex]})()`, intPos: true},
	{name: `(function(){var re=/b/y; re.lastIndex=v; var r=re.exec("abcb"); return [r&&r.index,re.lastIndex]})()`, intPos: true},
	{name: `JSON.stringify([1],null,v)`, intPos: true, numOnly: true},
	{name: `new Array(v).length`, numOnly: true, maxN: 1000}, {name: `Array(v).length`, numOnly: true, maxN: 1000},
}

func (w *worker) callPos(i int, v goja.Value) (out string) {
	defer func() {
		if x := recover(); x != nil {
			out = fmt.Sprintf("GO PANIC: %v", x) // a host crash is property C01's subject; here both sides must merely agree
		}
	}()
	res, err := w.posFn(i)(goja.Undefined(), v)
	if err != nil {
		return "harness-error:" + err.Error()
	}
	return res.String()
}

// argClass: operand class for argument-position signatures
func argClass(v *value) string {
	c := hypClass(probeMathMax, v)
	if strings.HasPrefix(c, "noncanonical-float") {
		return "noncanonical-float"
	}
	if strings.HasPrefix(c, "ascii string (any") {
		return convClass(v)
	}
	return c
}

// posGroup names the family of built-ins a position belongs to (used in signatures).
func posGroup(name string) string {
	has := func(subs ...string) bool {
		for _, x := range subs {
			if strings.Contains(name, x) {
				return true
			}
		}
		return false
	}
	switch {
	case has("BigInt."):
		return "BigInt.asIntN/asUintN"
	case has("lastIndex"):
		return "RegExp lastIndex"
	case has("JSON.stringify"):
		return "JSON.stringify space"
	case has("new Array(v)", " Array(v)", "a.length=v", `"length",{value:v}`) || name == "Array(v).length":
		return "Array length"
	case has("{length:v"):
		return "array-like length (ToLength)"
	case has("__dv()", "new DataView", "new ArrayBuffer", "__buf().slice"):
		return "ArrayBuffer/DataView"
	case has("__ta()", "new Uint8Array", "new Float64Array"):
		return "%TypedArray%"
	case has("(123.456)", "(255)", "(0.000001234)"):
		return "Number.prototype"
	case has("String.from"):
		return "String.fromCharCode/fromCodePoint"
	case has(`__S.`, `"abcabc"`, `"".`, `"ab".`, `"a,b,c"`):
		return "String.prototype"
	}
	return "Array.prototype"
}

// checkPosition applies position i to v and to the model-derived references: a value that is not already the
// canonical Number ToNumber(v) must behave like that Number; a canonical Number must behave like its
// ToIntegerOrInfinity at the positions that truncate.
func (w *worker) checkPosition(i int, v *value) (fs [][2]string) {
	p := &positions[i]
	m := v.m
	if m.K == nm.Undefined && p.optUndef {
		return nil
	}
	if m.K == nm.Object && p.noObj {
		return nil
	}
	if p.numOnly && m.K != nm.Number {
		return nil
	}
	n := v.num
	in := nm.ToIntegerOrInfinity(n)
	if p.maxN > 0 && in > p.maxN {
		return nil
	}
	isCanonNumber := false
	if m.K == nm.Number {
		isCanonNumber, _ = canonical(v.key)
	}
	if !isCanonNumber {
		w.evals++
		got := w.callPos(i, w.mat(v))
		want := w.callPos(i, w.rt.ToValue(n))
		if got != want {
			sig := fmt.Sprintf("argpos|integer-valued argument of a built-in|%s|differs from ToNumber(v)", argClass(v))
			note := ""
			// explained by the engine's own ToNumber(v)?
			if f, ok := w.probe(v, probeNumber); ok && !nm.SameNum(f, n) && w.callPos(i, w.rt.ToValue(f)) == got {
				gc, wc := convResult(f, n), convResult(n, f)
				if gc == wc {
					gc = "a different " + gc
				}
				sig = fmt.Sprintf("conversion|%s|%s|gives %s want %s", probeNames[probeNumber], convClass(v), gc, wc)
				note = fmt.Sprintf(" [explained by the engine's own %s of it, which gives %s]", probeNames[probeNumber], nm.ShowNum(f))
			}
			fs = append(fs, [2]string{sig, fmt.Sprintf("[%s] with v = %s: %s gives %s, but with v = ToNumber(v) = %s it gives %s%s", posGroup(p.name), v.desc(), p.name, got, nm.ShowNum(n), want, note)})
		}
		return fs
	}
	if p.intPos && !(p.nanInf && math.IsNaN(n)) && !nm.SameNum(n, in) {
		w.evals++
		got := w.callPos(i, w.mat(v))
		want := w.callPos(i, w.rt.ToValue(in))
		if got != want {
			fs = append(fs, [2]string{
				fmt.Sprintf("argpos|%s|%s|differs from ToIntegerOrInfinity(v)", p.name, numClass(n)),
				fmt.Sprintf("with v = %s: %s gives %s, but with v = ToIntegerOrInfinity(v) = %s it gives %s", v.desc(), p.name, got, nm.ShowNum(in), want)})
		}
	}
	return fs
}

// runArgPositions: every position x (every leaf + every non-canonical / boundary Number reached at depth 1).
func runArgPositions(ex *explorer, leaves, new1 []*value) bool {
	vals := append([]*value{}, leaves...)
	nonCanon := 0
	for _, v := range new1 {
		if v.m.K != nm.Number {
			continue
		}
		if ok, _ := canonical(v.key); !ok {
			vals = append(vals, v)
			nonCanon++
		}
	}
	// plus one representative per class of the canonical depth-1 numbers (fractions near integers etc.)
	vals = append(vals, representatives(filter(new1, func(v *value) bool {
		if v.m.K != nm.Number {
			return false
		}
		ok, _ := canonical(v.key)
		return ok
	}), 2)...)
	total := int64(len(positions)) * int64(len(vals))
	var workers = map[*worker]bool{}
	ok := ex.r.Parallel(total, 512, func(wk int, lo, hi int64) {
		w := newWorkerCached(ex.r, wk)
		for idx := lo; idx < hi; idx++ {
			pi, vi := int(idx/int64(len(vals))), int(idx%int64(len(vals)))
			for _, f := range w.checkPosition(pi, vals[vi]) {
				w.fail(idx, f[0], f[1], Case{Kind: "argpos", Pos: positions[pi].name, Arg: vals[vi].expr, Text: positions[pi].name + " with v = " + vals[vi].desc(), Sig: f[0]})
			}
		}
		wcMu.Lock()
		workers[w] = true
		wcMu.Unlock()
	})
	for w := range workers {
		ex.r.Eval(w.evals)
		ex.r.NontrivialN(w.evals)
		ex.r.Add("argument_position_cases", w.evals)
		w.evals = 0
		ex.mergeWorkerFails(w)
	}
	ex.bounds["argument positions"] = fmt.Sprintf("%d positions x %d values (all leaves, %d non-canonical Numbers and class representatives of the depth-1 Numbers), complete=%v", len(positions), len(vals), nonCanon, ok)
	ex.flushFails("argpos")
	return ok
}
