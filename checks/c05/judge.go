package c05

import (
	"fmt"
	"strings"

	nm "verif/ref/nummodel"

	"github.com/dop251/goja"
)

// numMask: which operands (bit 0 = a, bit 1 = b) enter the specified result only through ToNumber(operand), so
// that a wrong result can be tested against the hypothesis "the engine mis-converted that operand".
func numMask(op *Op, a, b *value) int {
	all := 1
	if op.Ar == 2 {
		all = 3
	}
	if op.MN != nil {
		return all
	}
	prim := func(v *value, def bool) nm.Kind {
		if v == nil {
			return nm.Undefined
		}
		return nm.ToPrimitive(v.m, def).K
	}
	switch op.Fam {
	case "binary", "compound":
		if op.Sig == "a+b" && (prim(a, true) == nm.String || prim(b, true) == nm.String) {
			return 0
		}
		return all
	case "compare":
		switch op.Sig {
		case "(_ < _)", "(_ > _)", "(_ <= _)", "(_ >= _)":
			if prim(a, false) == nm.String && prim(b, false) == nm.String {
				return 0
			}
			return all
		case "(_ == _)", "(_ != _)":
			ka, kb := prim(a, true), prim(b, true)
			nullish := func(k nm.Kind) bool { return k == nm.Undefined || k == nm.Null }
			if nullish(ka) || nullish(kb) || (ka == nm.String && kb == nm.String) || (a.m.K == nm.Object && b.m.K == nm.Object) {
				return 0
			}
			return all
		}
		return 0
	case "date":
		return all
	case "roundtrip":
		if k := prim(a, true); k == nm.String || k == nm.Number {
			return 1
		}
	case "number":
		if op.Sig == "parseInt" && op.Ar == 2 {
			return 2
		}
	}
	return 0
}

// int32Mask: which operands the specification passes through ToInt32/ToUint32/ToInt16/... (bit 0 = a, bit 1 = b).
func int32Mask(op *Op) int {
	switch op.Fam {
	case "binary", "compound":
		switch op.Sig {
		case "a&b", "a|b", "a^b", "a<<b", "a>>b", "a>>>b":
			return 3
		}
	case "unary":
		if op.Sig == "~a" {
			return 1
		}
	case "math":
		switch op.Sig {
		case "Math.imul(_, _)":
			return 3
		case "Math.clz32(_)":
			return 1
		}
	case "number":
		if op.Sig == "parseInt" && op.Ar == 2 {
			return 2
		}
	case "typedarray", "dataview":
		if strings.Contains(op.Sig, "Float") || strings.Contains(op.Sig, "Clamped") {
			return 0
		}
		return 1
	}
	return 0
}

type probeKey struct {
	v     *value
	which int
}
type probeRes struct {
	f  float64
	ok bool
}

const (
	probeNumber = iota
	probeMathMax
	probeOr0
)

var probeNames = []string{"ToNumber (as observed through Number(x))", "float conversion used by Math.* (as observed through Math.max(x))", "ToInt32 (as observed through x|0)"}

// probe asks the engine itself how it converts x.
func (w *worker) probe(x *value, which int) (float64, bool) {
	if w.probes == nil {
		w.probes = map[probeKey]probeRes{}
	}
	k := probeKey{x, which}
	if r, ok := w.probes[k]; ok {
		return r.f, r.ok
	}
	var res goja.Value
	var err error
	switch which {
	case probeNumber:
		res, err = w.fn(opByName["Number(%s)"].idx)(goja.Undefined(), w.mat(x))
	case probeMathMax:
		res, err = w.fn(opByName["Math.max(%s)"].idx)(goja.Undefined(), w.mat(x))
	case probeOr0:
		if w.or0 == nil {
			w.or0 = mustFn(w.rt, "(function(x){return x|0})")
		}
		res, err = w.or0(goja.Undefined(), w.mat(x))
	}
	r := probeRes{}
	if w.probeKeys == nil {
		w.probeKeys = map[probeKey]rkey{}
	}
	if err == nil {
		if rk, m := classify(res); m.K == nm.Number {
			r = probeRes{m.N, true}
			w.probeKeys[k] = rk
		}
	}
	if len(w.probes) >= 1<<16 { // bounded memo
		w.probes = map[probeKey]probeRes{}
		w.probeKeys = map[probeKey]rkey{k: w.probeKeys[k]}
	}
	w.probes[k] = r
	return r.f, r.ok
}

func modelVals(op *Op, va, vb nm.Val) (nm.Expect, bool) {
	if op.MN != nil {
		if op.Ar == 1 {
			return op.MN(nm.ToNumber(va), 0), true
		}
		return op.MN(nm.ToNumber(va), nm.ToNumber(vb)), true
	}
	if op.Ar == 1 {
		return op.MV(&va, nil)
	}
	return op.MV(&va, &vb)
}

func agrees(got outcome, exp nm.Expect) bool {
	switch {
	case exp.V.K == nm.Throw || got.thrown != "":
		return exp.V.K == nm.Throw && got.thrown == exp.V.Err
	case exp.Approx && exp.V.K == nm.Number && got.m.K == nm.Number:
		return nm.ApproxEqual(got.m.N, exp.V.N)
	}
	return nm.Same(got.m, exp.V)
}

// coarse operand class for conversion signatures: representation family + lexical class
func convClass(x *value) string {
	if x.cConv == "" {
		x.cConv = convClass0(x)
	}
	return x.cConv
}

func convClass0(x *value) string {
	m := x.m
	if m.K == nm.Object {
		m = *m.Prim // wrappers / valueOf objects delegate to the primitive
	}
	switch m.K {
	case nm.Number:
		if x.m.K == nm.Number && x.key.tag == tFloat {
			if ok, _ := canonical(x.key); !ok {
				return "noncanonical-float " + numClassCoarse(m.N)
			}
		}
		return numClass(m.N)
	case nm.String:
		rep := "ascii"
		if !isASCIIUnits(m.S) {
			rep = "utf16"
		}
		return rep + " string " + convShape(m.S)
	}
	return strings.TrimPrefix(x.class(), "object->")
}

// convShape: coarse lexical class of a string as a numeric literal
func convShape(u []uint16) string {
	sh := bodyShape(nm.TrimUnits(u))
	for _, r := range []string{"hex", "bin", "oct"} {
		sh = strings.Replace(sh, r+" literal", "radix literal", 1)
	}
	for _, r := range []string{"0x", "0b", "0o"} {
		sh = strings.Replace(sh, r+" followed by sign", "radix prefix followed by sign", 1)
		sh = strings.Replace(sh, "signed "+r+" literal", "signed radix literal", 1)
		sh = strings.Replace(sh, "malformed "+r+" literal", "malformed radix literal", 1)
	}
	switch sh {
	case "radix literal", "radix literal >2^53", "decimal integer", "decimal integer >2^53", "decimal float", "decimal underflowing to 0":
		return "numeric"
	case "decimal integer >=2^63", "decimal float >=2^63", "decimal overflowing to Infinity", "Infinity":
		return "numeric, magnitude >=2^63"
	}
	return sh
}

// hypClass: operand class in a conversion signature, as coarse as the conversion in question allows.
func hypClass(which int, x *value) string {
	switch which {
	case probeOr0:
		// ToInt32 acts on ToNumber(x): only the magnitude class of that Number matters
		return magClass(x.num)
	case probeMathMax:
		m := x.m
		if m.K == nm.Object {
			m = *m.Prim
		}
		if m.K == nm.String && x.num == x.num {
			rep := "ascii"
			if !isASCIIUnits(m.S) {
				rep = "utf16"
			}
			sh := convShape(m.S)
			if sh == "numeric" || sh == "-0" || sh == "-0 written with several zeros" || sh == "empty" || sh == "numeric, magnitude >=2^63" {
				return rep + " string (any valid numeric text)"
			}
		}
	}
	return convClass(x)
}

// magClass: unsigned magnitude class
func magClass(f float64) string {
	a := f
	if a < 0 {
		a = -a
	}
	switch {
	case f != f:
		return "NaN"
	case a >= 1<<63:
		return "|x|>=2^63"
	case a > 1<<53:
		return "2^53<|x|<2^63"
	}
	return "|x|<=2^53"
}

// coarse class of a conversion result f, given the other side of the comparison
func convResult(f, other float64) string {
	switch {
	case f != f:
		return "NaN"
	case other != other:
		return "number"
	case f == 0:
		return numClass(f)
	}
	return "number"
}

// arithClass: sign + magnitude class used for defects of the arithmetic itself
func arithClass(f float64) string {
	c := numClass(f)
	for _, r := range []string{"int<2^31", "int<2^32", "int<2^53", "2^53"} {
		c = strings.Replace(c, r, "int", 1)
	}
	for _, r := range []string{"frac<1", "frac<2^31", "frac>=2^31"} {
		c = strings.Replace(c, r, "frac", 1)
	}
	return c
}

// sub returns x with its content replaced by the Number f (a canonical Number value made by ToValue).
func (w *worker) sub(x *value, f float64) *value {
	t := &value{m: nm.Num(f), num: f, v: w.rt.ToValue(f), expr: x.expr}
	t.key, _ = classify(t.v)
	return t
}

type hypothesis struct {
	which int
	mask  int
	want  func(x *value) float64
}

func (w *worker) hypotheses(op *Op, a, b *value) []hypothesis {
	var hs []hypothesis
	toNum := func(x *value) float64 { return x.num }
	if m := numMask(op, a, b); m != 0 {
		hs = append(hs, hypothesis{probeNumber, m, toNum}, hypothesis{probeMathMax, m, toNum})
	}
	if m := int32Mask(op); m != 0 {
		hs = append(hs, hypothesis{probeOr0, m, func(x *value) float64 { return float64(nm.ToInt32(x.num)) }})
	}
	return hs
}

// note formats an explanatory note (skipped on the hot path); *value arguments are rendered as their derivation.
func (w *worker) note(format string, args ...interface{}) string {
	if w.noText {
		return ""
	}
	return fmt.Sprintf(format, args...)
}

// sameOutcome compares two outcomes by content (representation defects are oracle (ii)'s business).
func sameOutcome(x, y outcome) bool {
	if x.thrown != "" || y.thrown != "" {
		return x.thrown == y.thrown
	}
	return nm.Same(x.m, y.m)
}

// explainedBy tests the hypothesis "the operation is faithful, but the engine converts an operand wrongly": the
// engine's own conversion of the operand (observed through a probe) differs from the specified one, and feeding
// the probe's result instead of the operand leaves the operation's outcome unchanged.
func (w *worker) explainedBy(op *Op, a, b *value, got outcome, h hypothesis) (offender *value, gives, want float64, ok bool) {
	operands := []*value{a, b}
	subs := []*value{a, b}
	for i := 0; i < op.Ar; i++ {
		x := operands[i]
		if h.mask&(1<<uint(i)) == 0 || (h.which != probeOr0 && x.m.K == nm.Number) {
			continue
		}
		f, pok := w.probe(x, h.which)
		if !pok {
			return nil, 0, 0, false
		}
		subs[i] = w.sub(x, f)
		if offender == nil && !nm.SameNum(f, h.want(x)) {
			offender, gives, want = x, f, h.want(x)
		}
	}
	if offender == nil {
		return nil, 0, 0, false
	}
	// cheap test first: the specified semantics applied to the probe's results give the observed outcome
	var mb nm.Val
	if op.Ar == 2 {
		mb = subs[1].m
	}
	if e2, mok := modelVals(op, subs[0].m, mb); mok && agrees(got, e2) {
		return offender, gives, want, true
	}
	// otherwise ask the engine itself (covers the interplay with other defects of the operation)
	return offender, gives, want, sameOutcome(w.apply(op, subs[0], subs[1]), got)
}

// explainedByToString: string concatenation whose Number operand is rendered wrongly by the engine's own
// Number::toString (observed through String(x)).
func (w *worker) explainedByToString(op *Op, a, b *value, got outcome) (sig, note string, ok bool) {
	if op.Sig != "a+b" || got.m.K != nm.String {
		return
	}
	if w.str == nil {
		w.str = mustFn(w.rt, "(function(x){return String(x)})")
	}
	operands := []*value{a, b}
	subs := []*value{a, b}
	var offender *value
	var gives string
	for i, x := range operands {
		if x.m.K != nm.Number {
			continue
		}
		res, err := w.str(goja.Undefined(), w.mat(x))
		if err != nil {
			return
		}
		k, m := classify(res)
		subs[i] = &value{key: k, v: res, m: m, num: nm.ToNumber(m), expr: x.expr}
		if offender == nil && m.GoString() != nm.NumberToString(x.m.N) {
			offender, gives = x, m.GoString()
		}
	}
	if offender == nil || !sameOutcome(w.apply(op, subs[0], subs[1]), got) {
		return
	}
	return fmt.Sprintf("conversion|Number::toString (as observed through String(x))|%s", strings.TrimLeft(numClass(offender.m.N), "+-")),
		w.note(" [explained by the engine's own String(%s), which gives %q instead of %q]", offender, gives, nm.NumberToString(offender.m.N)), true
}

func (w *worker) engineString(x *value) (string, bool) {
	if w.str == nil {
		w.str = mustFn(w.rt, "(function(x){return String(x)})")
	}
	res, err := w.str(goja.Undefined(), w.mat(x))
	if err != nil {
		return "", false
	}
	_, m := classify(res)
	return m.GoString(), m.K == nm.String
}

// operandLabel: the class of operand i used in "value" signatures.
func operandLabel(op *Op, i int, x *value) string {
	if i == 1 && op.ClassB != nil {
		return op.ClassB(x)
	}
	if i == 0 && op.ClassA != nil {
		if c := op.ClassA(x); c != "" {
			return c
		}
	}
	return convClass(x)
}

// valueSig classifies a wrong result by root cause: a mis-conversion of an operand (see explainedBy), a defect of
// the operation on correctly converted Numbers ("arith"), or the operation on this operand class ("value").
func (w *worker) valueSig(op *Op, a, b *value, got outcome, exp nm.Expect) (sig, note string) {
	for _, h := range w.hypotheses(op, a, b) {
		if offender, gives, want, ok := w.explainedBy(op, a, b, got, h); ok {
			gc, wc := convResult(gives, want), convResult(want, gives)
			if gc == wc {
				gc = "a different " + gc
			}
			return fmt.Sprintf("conversion|%s|%s|gives %s want %s", probeNames[h.which], hypClass(h.which, offender), gc, wc),
				w.note(" [explained by the engine's own %s of %s, which gives %s instead of %s]", probeNames[h.which], offender, nm.ShowNum(gives), nm.ShowNum(want))
		}
	}
	if sig, note, ok := w.explainedByToString(op, a, b, got); ok {
		return sig, note
	}
	if op.ViaStr && a.m.K == nm.Number {
		// the operation renders its Number operand with Number::toString first; the engine's own String(x) is wrong
		if s, ok := w.engineString(a); ok && s != nm.NumberToString(a.m.N) {
			return fmt.Sprintf("conversion|Number::toString (as observed through String(x))|%s", strings.TrimLeft(numClass(a.m.N), "+-")),
				w.note(" [the engine's own String(%s) is %q instead of %q]", a, s, nm.NumberToString(a.m.N))
		}
	}
	operands := []*value{a, b}
	if got.thrown == "" && exp.V.K != nm.Throw && got.m.K != exp.V.K {
		return fmt.Sprintf("resultkind|%s|want %s", op.Sig, kindName(exp.V.K)), ""
	}
	// hypothesis "the operands are converted correctly and the operation itself is wrong on these Numbers":
	// the same (wrong) outcome is obtained with the canonical Numbers ToNumber(a), ToNumber(b) as operands.
	mask := numMask(op, a, b)
	if op.Fam == "bigint" {
		mask = 1
	}
	subs := []*value{a, b}
	classes := make([]string, op.Ar)
	same := true
	for i := 0; i < op.Ar; i++ {
		classes[i] = operandLabel(op, i, operands[i])
		if mask&(1<<uint(i)) != 0 {
			subs[i] = w.sub(operands[i], operands[i].num)
			if subs[i].key != operands[i].key {
				same = false
			}
			if !(op.ClassB != nil && i == 1) {
				classes[i] = arithClass(operands[i].num)
			}
		}
	}
	if mask != 0 && (same || sameOutcome(w.apply(op, subs[0], subs[1]), got)) {
		if op.Fam == "bigint" {
			c := magClass(a.num)
			if c == "|x|<=2^53" && a.num < 0 {
				c = "negative"
			}
			return fmt.Sprintf("arith|%s|%s", op.Sig, c), ""
		}
		return fmt.Sprintf("arith|%s|%s|got %s want %s", op.Sig, strings.Join(classes, " , "), resultClass(got.m), resultClass(exp.V)), ""
	}
	for i := 0; i < op.Ar; i++ {
		classes[i] = operandLabel(op, i, operands[i])
	}
	if op.Fam == "compare" {
		// conversions inside == and <: only the lexical class of the string operand(s) matters
		var strs []string
		for i := 0; i < op.Ar; i++ {
			if p := nm.ToPrimitive(operands[i].m, true); p.K == nm.String {
				strs = append(strs, strings.Replace(strings.Replace(convClass(operands[i]), "string -0 written with several zeros", "string numeric", 1), "string -0", "string numeric", 1))
			}
		}
		if len(strs) == 1 {
			return fmt.Sprintf("value|%s|%s compared with a non-string", op.Sig, strs[0]), ""
		}
	}
	return fmt.Sprintf("value|%s|%s|got %s want %s", op.Sig, strings.Join(classes, " , "), coarseResult(got.m), coarseResult(exp.V)), ""
}

// coarseResult: result class without magnitude detail
func coarseResult(v nm.Val) string {
	if v.K == nm.Number {
		switch {
		case v.N != v.N:
			return "NaN"
		case v.N == 0:
			return numClass(v.N)
		}
		return "number"
	}
	return resultClass(v)
}

func kindName(k nm.Kind) string {
	return map[nm.Kind]string{nm.Undefined: "undefined", nm.Null: "null", nm.Bool: "boolean", nm.Number: "number", nm.String: "string", nm.Object: "object"}[k]
}

// judge evaluates oracles (i) and (ii) on one application; it returns the failures (signature, text).
func (w *worker) judge(op *Op, a, b *value, got outcome, exp nm.Expect, modelled bool) (fs [][2]string) {
	text := func() string {
		if w.noText {
			return ""
		}
		if op.Ar == 2 {
			return op.show(a.desc(), b.desc())
		}
		return op.show(a.desc())
	}
	if modelled && !agrees(got, exp) {
		sig, note := w.valueSig(op, a, b, got, exp)
		what := ""
		if !w.noText {
			what = fmt.Sprintf("%s evaluates to %s, ECMAScript requires %s", text(), got.m.Show(), exp.V.Show())
			if exp.Approx {
				what += " (approximately)"
			}
		}
		fs = append(fs, [2]string{sig, what + note})
	}
	if got.thrown == "" && (got.key.tag == tInt || got.key.tag == tFloat) {
		if ok, why := canonical(got.key); !ok {
			// a non-canonical operand that is merely handed through is not this operation's defect
			passthrough := a.key == got.key || (b != nil && b.key == got.key)
			if !passthrough {
				fs = append(fs, w.nonCanonicalSig(op, a, b, got, why, text()))
			}
		}
	}
	if got.thrown == "" && got.key.tag >= tObject && (!modelled || agrees(got, exp)) {
		fs = append(fs, [2]string{fmt.Sprintf("resultkind|%s|want primitive", op.Sig), fmt.Sprintf("%s returns a value of unexpected kind %s", text(), goja.VerifRepr(got.val))})
	}
	return
}

// nonCanonicalSig attributes a non-canonical result: to the engine's ToNumber of an operand if that already has this
// representation, else to the operation (with the operand kinds after conversion if the conversion does not matter).
func (w *worker) nonCanonicalSig(op *Op, a, b *value, got outcome, why, text string) [2]string {
	what := ""
	if !w.noText {
		what = fmt.Sprintf("%s yields %s in a non-canonical representation (%s): it is distinguishable from the equal canonical Number", text, got.m.Show(), why)
	}
	operands := []*value{a, b}
	m := numMask(op, a, b)
	for i := 0; i < op.Ar; i++ {
		x := operands[i]
		if m&(1<<uint(i)) == 0 || x.m.K == nm.Number {
			continue
		}
		if _, ok := w.probe(x, probeNumber); ok && w.probeKeys[probeKey{x, probeNumber}] == got.key {
			if why == "2^53 held as float" {
				return [2]string{"noncanonical|2^53 held as float|ToNumber(string)", what + w.note(" [it is the engine's ToNumber(%s) that has this representation]", x)}
			}
			return [2]string{fmt.Sprintf("noncanonical|%s|%s|%s", probeNames[probeNumber], convClass(x), why),
				what + w.note(" [it is the engine's ToNumber(%s) that has this representation]", x)}
		}
	}
	subs := []*value{a, b}
	for i := 0; i < op.Ar; i++ {
		if m&(1<<uint(i)) != 0 {
			subs[i] = w.sub(operands[i], operands[i].num)
		}
	}
	if m != 0 && w.apply(op, subs[0], subs[1]).key == got.key {
		operands = subs // the same happens with the converted operands: name their kinds
	}
	if why == "2^53 held as float" {
		// one root cause for every integer-path producer: an int64 result of magnitude 2^53+1 is rounded into a float
		return [2]string{"noncanonical|2^53 held as float|" + producerFamily(op), what}
	}
	kinds := make([]string, op.Ar)
	for i := 0; i < op.Ar; i++ {
		kinds[i] = operands[i].kindWord()
		if i == 1 && op.ClassB != nil {
			kinds[i] = "_"
		}
		if op.Fam == "update" && kinds[i] != "int" {
			kinds[i] = "non-int operand"
		}
	}
	if op.Fam == "update" {
		why = "integral value / +0 held as float"
	}
	return [2]string{fmt.Sprintf("noncanonical|%s|%s|%s", op.Sig, strings.Join(kinds, ","), why), what}
}

func producerFamily(op *Op) string {
	switch op.Fam {
	case "binary", "compound", "unary", "update":
		return "operators"
	case "number":
		if strings.HasPrefix(op.Sig, "parseInt") {
			return "parseInt"
		}
	case "bigint":
		return "Number(bigint)"
	}
	return op.Sig
}

// kindWord: int | float | noncanonical-float | string | boolean | null | undefined | object
func (x *value) kindWord() string {
	switch x.m.K {
	case nm.Number:
		switch x.key.tag {
		case tInt:
			return "int"
		case tFloat:
			if ok, _ := canonical(x.key); !ok {
				return "noncanonical-float"
			}
			return "float"
		}
		return "number"
	case nm.String:
		return "string"
	case nm.Bool:
		return "boolean"
	case nm.Null:
		return "null"
	case nm.Undefined:
		return "undefined"
	}
	return "object"
}
