// Package c05 holds the check for property C05.
package c05
