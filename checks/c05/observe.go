package c05

import (
	"fmt"
	"math"
	"sort"
	"strings"

	nm "verif/ref/nummodel"

	"github.com/dop251/goja"
)

// The behavioural observers of oracle (ii). observerSource returns a bit mask: bit i set = observer i tells a and b
// apart although they are the same Number (same mathematical value, same zero sign; both NaN in the NaN bucket).
var observerNames = []string{
	"Object.is(a,b)", "Object.is(b,a)", "a===b", "b===a", "a==b", "switch(a){case b}", "switch(b){case a}",
	"new Map([[a,1]]).get(b)", "new Map([[b,1]]).get(a)", "new Set([a]).has(b)", "new Set([b]).has(a)", "new Set([a,b]).size", "map.set(a);map.set(b);size",
	"[a].includes(b)", "[b].includes(a)", "[a].indexOf(b)", "[b].indexOf(a)", "[a].lastIndexOf(b)",
	"o[a]=1;o[b]", "o[b]=1;o[a]", "({[a]:1})[b]",
	"String(a)===String(b)", "''+a", "`${a}`", "a.toString()", "JSON.stringify(a)", "JSON.stringify([a])", "typeof",
	"Number.isInteger", "Number.isSafeInteger", "[10,20,30][a]", "'xyz'[a]", "'xyz'.charAt(a)",
	"Float64Array round trip", "new Float64Array([a]).includes(b)", "toFixed(2)", "Object.is(-a,-b)", "Object.is(a*1,b*1)", "Object.is(a|0,b|0)", "Object.is(Math.abs(a),Math.abs(b))",
	"a.toString(2)", "Object.is(a+0,b+0)", "new Set([b,a]).size", "[a,b].indexOf(b)", "Array.from(new Set([a,b])).length",
}

const observerSource = `(function(a,b){
  var m=0, bit=1;
  function t(ok){ if(!ok) m+=bit; bit*=2; }
  var nan = a!==a;
  var r;
  t(Object.is(a,b)); t(Object.is(b,a));
  t(nan ? b!==b : a===b); t(nan ? a!==a : b===a);
  t(nan ? !(a==b) : a==b);
  switch(a){case b: r=true; break; default: r=false} t(nan ? !r : r);
  switch(b){case a: r=true; break; default: r=false} t(nan ? !r : r);
  t(new Map([[a,1]]).get(b)===1); t(new Map([[b,1]]).get(a)===1);
  t(new Set([a]).has(b)); t(new Set([b]).has(a));
  t(new Set([a,b]).size===1);
  var mm=new Map(); mm.set(a,1); mm.set(b,2); t(mm.size===1 && mm.get(a)===2);
  t([a].includes(b)); t([b].includes(a));
  t(nan ? [a].indexOf(b)===-1 : [a].indexOf(b)===0); t(nan ? [b].indexOf(a)===-1 : [b].indexOf(a)===0);
  t(nan ? [a].lastIndexOf(b)===-1 : [a].lastIndexOf(b)===0);
  var o={}; o[a]=1; t(o[b]===1); o={}; o[b]=1; t(o[a]===1);
  t(({[a]:1})[b]===1);
  t(String(a)===String(b)); t((''+a)===(''+b)); t(` + "`${a}`===`${b}`" + `); t(a.toString()===b.toString());
  t(JSON.stringify(a)===JSON.stringify(b)); t(JSON.stringify([a])===JSON.stringify([b]));
  t(typeof a===typeof b);
  t(Number.isInteger(a)===Number.isInteger(b)); t(Number.isSafeInteger(a)===Number.isSafeInteger(b));
  var arr=[10,20,30]; t(arr[a]===arr[b]); t("xyz"[a]==="xyz"[b]); t("xyz".charAt(a)==="xyz".charAt(b));
  t(Object.is(new Float64Array([a])[0], new Float64Array([b])[0]));
  t(new Float64Array([a]).includes(b));
  t(a.toFixed(2)===b.toFixed(2));
  t(Object.is(-a,-b)); t(Object.is(a*1,b*1)); t(Object.is(a|0,b|0)); t(Object.is(Math.abs(a),Math.abs(b)));
  t(a.toString(2)===b.toString(2));
  t(Object.is(a+0,b+0));
  t(new Set([b,a]).size===1);
  t(nan ? [a,b].indexOf(b)===-1 : [a,b].indexOf(b)===0);
  t(Array.from(new Set([a,b])).length===1);
  return m;
})`

func maskNames(m uint64) []string {
	var res []string
	for i, n := range observerNames {
		if m&(1<<uint(i)) != 0 {
			res = append(res, n)
		}
	}
	return res
}

func bucketOf(f float64) uint64 {
	if math.IsNaN(f) {
		return canonNaNBits
	}
	return math.Float64bits(f)
}

func reprName(k rkey) string {
	ok, why := canonical(k)
	if ok {
		if k.tag == tInt {
			return "canonical int"
		}
		return "canonical float"
	}
	return why
}

// goObservers compares two values through the public Go API.
func goObservers(a, b goja.Value) []string {
	var d []string
	if !a.SameAs(b) {
		d = append(d, "Value.SameAs(a,b)")
	}
	if !b.SameAs(a) {
		d = append(d, "Value.SameAs(b,a)")
	}
	nan := math.IsNaN(a.ToFloat())
	if !nan && !a.StrictEquals(b) {
		d = append(d, "Value.StrictEquals(a,b)")
	}
	if !nan && !b.StrictEquals(a) {
		d = append(d, "Value.StrictEquals(b,a)")
	}
	if !nan && !a.Equals(b) {
		d = append(d, "Value.Equals(a,b)")
	}
	if a.String() != b.String() {
		d = append(d, "Value.String()")
	}
	if a.ExportType() != b.ExportType() {
		d = append(d, "Value.ExportType()")
	}
	if fmt.Sprintf("%T", a.Export()) != fmt.Sprintf("%T", b.Export()) {
		d = append(d, "type of Value.Export()")
	}
	return d
}

// observeOne runs all observers on v against the canonical twin made by Runtime.ToValue(float64) and against every
// other given representation of the same Number.
func (w *worker) observeOne(v *value, others []*value) (fs [][2]string) {
	av := w.mat(v)
	cmp := func(bv goja.Value, bk rkey, bdesc string) {
		res, err := w.observer()(goja.Undefined(), av, bv)
		if err != nil {
			fs = append(fs, [2]string{"observe|exception", fmt.Sprintf("observer function threw for a=%s: %v", v.desc(), err)})
			return
		}
		mask := uint64(res.ToFloat())
		names := maskNames(mask)
		names = append(names, goObservers(av, bv)...)
		if len(names) == 0 {
			return
		}
		ra, rb := reprName(v.key), reprName(bk)
		pair := []string{ra, rb}
		sort.Strings(pair)
		sig := fmt.Sprintf("observable|%s vs %s|%s", pair[0], pair[1], numClassCoarse(v.m.N))
		what := fmt.Sprintf("a = %s (%s, %s) and b = %s (%s) are the same Number %s but are told apart by: %s", v.desc(), goja.VerifRepr(av), ra, bdesc, rb, v.m.Show(), strings.Join(names, "; "))
		fs = append(fs, [2]string{sig, what})
	}
	twin := w.rt.ToValue(v.m.N)
	tk, tm := classify(twin)
	if !nm.Same(tm, v.m) {
		fs = append(fs, [2]string{"observe|twin", fmt.Sprintf("ToValue(float64 %s) is %s", v.m.Show(), tm.Show())})
		return
	}
	cmp(twin, tk, "Runtime.ToValue(float64("+v.m.Show()+"))")
	for _, o := range others {
		if o.key == v.key || o.key == tk {
			continue
		}
		cmp(w.mat(o), o.key, o.desc())
	}
	return
}

func numClassCoarse(f float64) string {
	switch {
	case math.IsNaN(f):
		return "NaN"
	case f == 0:
		return "zero"
	case math.Abs(f) == 1<<53:
		return "2^53"
	case math.IsInf(f, 0):
		return "infinity"
	case f == math.Trunc(f):
		return "integer"
	}
	return "fraction"
}

// observe runs the behavioural observers on every newly reached Number representation (single-threaded: a few µs each).
func (ex *explorer) observe(newVals []*value, label string) {
	w := newWorkerCached(ex.r, 0)
	buckets := map[uint64][]*value{}
	for _, v := range ex.all {
		if v.m.K == nm.Number && v.lf == nil || v.lf != nil && v.lf.kind == "num" {
			b := bucketOf(v.m.N)
			buckets[b] = append(buckets[b], v)
		}
	}
	n := int64(0)
	multi := int64(0)
	for i, v := range newVals {
		if v.m.K != nm.Number {
			continue
		}
		if i%256 == 0 && ex.r.Expired() {
			ex.bounds["observers "+label] = fmt.Sprintf("cut by the deadline after %d of %d values", i, len(newVals))
			break
		}
		var others []*value
		for _, o := range buckets[bucketOf(v.m.N)] {
			if o != v && o.key != v.key {
				others = append(others, o)
			}
		}
		if len(others) > 0 {
			multi++
		}
		n++
		if fs := w.observeOne(v, others); fs != nil {
			var args []*Expr
			for _, o := range others {
				args = append(args, o.expr)
			}
			for _, f := range fs {
				w.fail(int64(i), f[0], f[1], Case{Kind: "observe", Expr: v.expr, Args: args, Text: v.desc(), Sig: f[0]})
			}
		}
	}
	ex.r.Eval(n)
	ex.r.Add("observer_runs", n)
	ex.r.Add("values_with_several_representations_in_bucket", multi)
	ex.mergeWorkerFails(w)
	ex.flushFails("observe-" + label)
}

func (ex *explorer) mergeWorkerFails(w *worker) {
	for sig, f := range w.fails {
		if old, ok := ex.fails[sig]; ok {
			old.count += f.count
			if f.idx < old.idx && old.idx >= 0 {
				old.idx, old.what, old.cs = f.idx, f.what, f.cs
			}
		} else {
			ex.fails[sig] = f
		}
	}
	w.fails = map[string]*failRec{}
}
