package c05

import (
	"fmt"
	"testing"

	"github.com/dop251/goja"
)

// TestStackLeak reports operations whose call from Go leaves operand-stack slots behind.
func TestStackLeak(t *testing.T) {
	u := getUniverse()
	w := newWorker(nil)
	seen := map[string]bool{}
	for _, op := range u.ops {
		for i, l := range u.leaves {
			if op.Ar == 2 && !l.mid {
				continue
			}
			v := leafValue(w, i)
			before := goja.VerifIdle(w.rt).SP
			_, err := w.fn(op.idx)(goja.Undefined(), w.mat(v), w.mat(v))
			if after := goja.VerifIdle(w.rt).SP; after != before && !seen[op.Name] {
				seen[op.Name] = true
				fmt.Printf("LEAK %s arg=%s err=%v sp %d -> %d\n", op.Name, l.name, err, before, after)
			}
		}
	}
}
