package c05

import (
	"fmt"
	"math"
	"strconv"
	"strings"
	"unicode/utf16"

	nm "verif/ref/nummodel"

	"github.com/dop251/goja"
)

// A leaf is one member of the boundary pool. Leaves are re-created on every worker's runtime (objects belong to a
// runtime; lazily scanned imported strings are re-created for every single evaluation so that the unscanned path
// is taken each time).
type leaf struct {
	name  string // stable identifier (also used in replay files)
	m     nm.Val // model content
	kind  string // num | bool | null | undef | str | obj
	rep   string // representation requested: "", native, imported, imported-scanned
	core  bool   // member of the reduced partner pool used for the deep levels of the quick tier
	mid   bool   // member of the partner pool of the thorough tier (all non-strings + representative string contents in every representation)
	fresh bool   // make a new value for every evaluation
	mk    func(w *worker) goja.Value
	js    string // JS source text of the value if it can be written as a literal expression ("" = cannot)
}

func p2(e int) float64 { return math.Ldexp(1, e) }

var poolNumbers = []float64{
	0, math.Copysign(0, -1), 1, -1, 2, -2, 0.5, -0.5, 1.5, -1.5, 2.5, 0.1, 3, 10, 31, 32, 33, 63, 64,
	127, 128, -128, -129, 254.5, 255, 255.5, 256, 32767, 32768, -32768, -32769, 65535, 65536, 16777217,
	2147483647, 2147483648, 2147483649, -2147483648, -2147483649, 4294967295, 4294967296, 4294967297, -4294967295, -4294967296,
	4503599627370495.5, 0.49999999999999994,
	p2(53) - 2, p2(53) - 1, p2(53), p2(53) + 2, -(p2(53) - 1), -p2(53), -(p2(53) + 2),
	p2(63), p2(63) + 2048, -p2(63), -(p2(63) + 2048), p2(64), p2(64) + 4096, -(p2(64) + 4096), 8.64e15, 8.64e15 + 2, 1e21, 1e300,
	5e-324, -5e-324, p2(-1022), 1e-7, 1.1802209130120813e-308, 2.225073858507201e-308, 1e-310, 4.94065645841e-320, math.MaxFloat64, -math.MaxFloat64,
	math.NaN(), math.Inf(1), math.Inf(-1),
}

// numeric texts (ASCII); every one also appears padded with white space of several kinds, see below.
var poolTexts = []string{
	"", " ", "0", "-0", "+0", "-00", "-000", "00", "1", "-1", "+1", "12", " 12 ", "\t12\n", "\v\f12\r", "1.5", "-1.5", ".5", "5.", "-.5", "+.5e1", "0.5", "-0.5", "0.", ".0", "-0.0", "1.0", "1.50",
	"010", "-010", "08", "00012", "0012.50", "1e3", "1E3", "1e+3", "1e-3", "0e0", "-0e-400", "1e21", "1e30", "1e400", "-1e400", "1e-400", "-1e-400", "1e1000",
	"5e-324", "2e-324", "3e-324", "4.9e-324", "2.2250738585072014e-308", "1.7976931348623157e308", "1.7976931348623158e308", "1.7976931348623159e308", "0.1", "0.0000001",
	"2147483647", "2147483648", "-2147483648", "-2147483649", "4294967295", "4294967296", "4294967297",
	"9007199254740991", "9007199254740992", "9007199254740993", "9007199254740995", "-9007199254740993",
	"9223372036854775807", "9223372036854775808", "9223372036854777856", "-9223372036854775808", "-9223372036854775809", "18446744073709551615", "18446744073709551616", "18446744073709555712",
	"123456789012345678901234567890", "255.5", "254.5", "31", "32", "33", "16", "36", "37", "2",
	"Infinity", "-Infinity", "+Infinity", "infinity", "INFINITY", "Inf", "inf", "-inf", "+inf", "Infinit", "Infinityx", "NaN", "nan", "-nan",
	"1_0", "1_000", "_1", "0x1_0",
	"0x10", "0X10", "0x1f", "0x", "0x-1", "0x+1", "-0x10", "+0x10", "0x1p3", "0x1.8", "0x1g", "0xg",
	"0b11", "0B11", "0b2", "0b", "-0b11", "0b-1", "0o17", "0O17", "0o8", "0o", "-0o17", "0o-1",
	"0x1FFFFFFFFFFFFF", "0x20000000000001", "0x20000000000003", "0x7FFFFFFFFFFFFFFF", "0x8000000000000000", "0x8000000000000400", "0x8000000000000401", "0x8000000000000C00",
	"0xFFFFFFFFFFFFFFFF", "0x10000000000000000", "0x1FFFFFFFFFFFFFFFF", "0xFFFFFFFFFFFFFFFFFF", "0x100000000000000001000",
	"0b" + strings.Repeat("1", 63), "0b" + strings.Repeat("1", 64), "0b" + strings.Repeat("1", 65), "0b1" + strings.Repeat("0", 64),
	"0o777777777777777777777", "0o1777777777777777777777", "0o3777777777777777777777", "0o2000000000000000000000",
	"1e", "1e+", "e5", ".", "+", "-", "+-1", "--1", "1 2", "12px", "px", "1,5", "1n", "0n", "1.2.3", "..5", ".e5", "1.e3", "true", "null", "undefined",
}

// white space (and look-alike non-white-space) code units used to pad numeric texts
var padWS = []uint16{0x00A0, 0xFEFF, 0x2028, 0x2029, 0x1680, 0x2000, 0x200A, 0x202F, 0x205F, 0x3000}
var padNonWS = []uint16{0x0085, 0x180E, 0x200B, 0x001C, 0x001F, 0x0000}

// texts that are padded with every white space kind
var paddedTexts = []string{"", "12", "-1.5", "0x10", "Infinity", "-Infinity", "1e400", "-0", "9007199254740993", "0xFFFFFFFFFFFFFFFFFF", "1e30", "nan", "12px", ".5"}

func u16(s string) []uint16 { return utf16.Encode([]rune(s)) }

func isASCIIUnits(u []uint16) bool {
	for _, c := range u {
		if c >= 0x80 {
			return false
		}
	}
	return true
}

func quoteUnits(u []uint16) string {
	var sb strings.Builder
	sb.WriteByte('"')
	for _, c := range u {
		switch {
		case c == '"' || c == '\\':
			sb.WriteByte('\\')
			sb.WriteByte(byte(c))
		case c >= 0x20 && c < 0x7f:
			sb.WriteByte(byte(c))
		default:
			fmt.Fprintf(&sb, "\\u%04x", c)
		}
	}
	sb.WriteByte('"')
	return sb.String()
}

// numLit is the JS source text of a number (a unary minus / division is used where no literal exists).
func numLit(f float64) string {
	switch {
	case math.IsNaN(f):
		return "NaN"
	case math.IsInf(f, 1):
		return "Infinity"
	case math.IsInf(f, -1):
		return "-Infinity"
	case f == 0 && math.Signbit(f):
		return "-0"
	}
	return strconv.FormatFloat(f, 'g', -1, 64)
}

// string contents of the pool as UTF-16
func poolStringContents() [][]uint16 {
	var res [][]uint16
	seen := map[string]bool{}
	add := func(u []uint16) {
		k := string(utf16.Decode(u)) + fmt.Sprint(len(u))
		if !seen[k] {
			seen[k] = true
			res = append(res, u)
		}
	}
	for _, t := range poolTexts {
		add(u16(t))
	}
	for _, t := range paddedTexts {
		for _, ws := range padWS {
			add(append(append([]uint16{ws}, u16(t)...), ws))
		}
		for _, c := range padNonWS {
			add(append([]uint16{c}, u16(t)...))
		}
	}
	// mixed / one-sided / inner
	add(append(append([]uint16{0x00A0, 0x0085}, u16("12")...), 0x0085, 0x00A0)) // NBSP NEL 12 NEL NBSP
	add(append([]uint16{0x0085, 0x00A0}, u16("12")...))
	add(append(u16("12"), 0x00A0))
	add(append(u16("12"), 0x0085))
	add([]uint16{'1', 0x00A0, '2'})
	add([]uint16{0x00A0, 0x2028, 0xFEFF, '7', 0x3000, 0x2029})
	add([]uint16{0x0085})
	add([]uint16{0x0085, 0x0085})
	add([]uint16{0x00A0, 0x0085, 0x00A0})
	add([]uint16{0x0661, 0x0662})           // ARABIC-INDIC digits
	add([]uint16{0xFF11, 0xFF12})           // FULLWIDTH digits
	add([]uint16{0x00A0, '0', 0xFF58, '1'}) // fullwidth x
	add([]uint16{'1', 0xFF45, '3'})         // fullwidth e
	add([]uint16{0x221E})                   // the infinity sign
	add([]uint16{0x2212, '1'})              // MINUS SIGN
	add([]uint16{0xD835, 0xDFCF})           // MATHEMATICAL DOUBLE-STRUCK DIGIT ONE (astral)
	add([]uint16{0xD800, '1'})              // lone surrogate
	return res
}

func padTo17(u []uint16) []uint16 {
	// pad with ASCII spaces (white space, so the numeric meaning is unchanged) until the UTF-8 form exceeds 16 bytes,
	// which is what makes Runtime.ToValue produce a lazily scanned imported string
	r := append([]uint16{}, u...)
	for len(string(utf16.Decode(r))) <= 16 {
		r = append(r, ' ')
	}
	return r
}

func validUTF16(u []uint16) bool {
	for i := 0; i < len(u); i++ {
		c := u[i]
		if c >= 0xD800 && c <= 0xDBFF {
			if i+1 < len(u) && u[i+1] >= 0xDC00 && u[i+1] <= 0xDFFF {
				i++
				continue
			}
			return false
		}
		if c >= 0xDC00 && c <= 0xDFFF {
			return false
		}
	}
	return true
}

func nativeString(w *worker, u []uint16) goja.Value {
	args := make([]goja.Value, len(u))
	for i, c := range u {
		args[i] = w.rt.ToValue(int(c))
	}
	v, err := w.fromCharCode(goja.Undefined(), args...)
	if err != nil {
		panic(err)
	}
	return v
}

// coreNumber: member of the small partner pool
func coreNumber(f float64) bool {
	for _, c := range []float64{0, math.Copysign(0, -1), 1, -1, 2, 0.5, -1.5, 32, 255.5, 2147483648, -2147483648, 4294967295,
		p2(53), p2(53) + 2, -p2(53), p2(63), p2(64) + 4096, -(p2(63) + 2048), 5e-324, 1.1802209130120813e-308, math.Inf(1), math.Inf(-1)} {
		if c == f && math.Signbit(c) == math.Signbit(f) {
			return true
		}
	}
	return f != f
}

var importedCore = map[string]bool{" 12 ": true, "0x10": true, "1e400": true, "0xFFFFFFFFFFFFFFFFFF": true, "\u00a012\u00a0": true, "\u008512": true}

var coreTexts = map[string]bool{"": true, "12": true, " 12 ": true, "-0": true, "1.5": true, "0x10": true, "1e400": true, "Infinity": true, "nan": true, "0xFFFFFFFFFFFFFFFFFF": true, "9007199254740993": true, "1e30": true, "12px": true}

func buildLeaves() []*leaf {
	var ls []*leaf
	ls = append(ls,
		&leaf{name: "undefined", m: nm.Val{K: nm.Undefined}, kind: "undef", core: true, js: "undefined", mk: func(w *worker) goja.Value { return goja.Undefined() }},
		&leaf{name: "null", m: nm.Val{K: nm.Null}, kind: "null", core: true, js: "null", mk: func(w *worker) goja.Value { return goja.Null() }},
		&leaf{name: "true", m: nm.Boolean(true), kind: "bool", core: true, js: "true", mk: func(w *worker) goja.Value { return w.rt.ToValue(true) }},
		&leaf{name: "false", m: nm.Boolean(false), kind: "bool", core: true, js: "false", mk: func(w *worker) goja.Value { return w.rt.ToValue(false) }},
	)
	for _, f := range poolNumbers {
		f := f
		ls = append(ls, &leaf{name: "num:" + nm.ShowNum(f), m: nm.Num(f), kind: "num", core: coreNumber(f), js: numLit(f), mk: func(w *worker) goja.Value { return w.rt.ToValue(f) }})
	}
	contents := poolStringContents()
	for _, u := range contents {
		u := u
		q := quoteUnits(u)
		isCore := isASCIIUnits(u) && coreTexts[string(utf16.Decode(u))]
		if !isASCIIUnits(u) && ((len(u) == 4 && u[0] == 0x00A0 && u[1] == '1' && u[2] == '2') || (len(u) == 3 && u[0] == 0x0085 && u[1] == '1')) {
			isCore = true // NBSP 12 NBSP, NEL 12
		}
		ls = append(ls, &leaf{name: "str:native:" + q, m: nm.StrU(u), kind: "str", rep: "native", core: isCore, js: q, mk: func(w *worker) goja.Value { return nativeString(w, u) }})
		if !validUTF16(u) {
			continue // a Go string cannot hold a lone surrogate (documented: invalid UTF-8 is out of scope)
		}
		gs := string(utf16.Decode(u))
		if len(gs) <= 16 && !isASCIIUnits(u) {
			// short non-ASCII Go string: imported, eagerly scanned
			ls = append(ls, &leaf{name: "str:imported-short:" + q, m: nm.StrU(u), kind: "str", rep: "imported", mid: isCore, mk: func(w *worker) goja.Value { return w.rt.ToValue(gs) }})
		}
		pu := padTo17(u)
		pq := quoteUnits(pu)
		pgs := string(utf16.Decode(pu))
		if len(gs) > 16 {
			pu, pq, pgs = u, q, gs
		} else {
			// native twin of the padded content
			if isCore { // the native twin of the padded content
				ls = append(ls, &leaf{name: "str:native:" + pq, m: nm.StrU(pu), kind: "str", rep: "native", mid: isCore, js: pq, mk: func(w *worker) goja.Value { return nativeString(w, pu) }})
			}
		}
		ls = append(ls, &leaf{name: "str:imported:" + pq, m: nm.StrU(pu), kind: "str", rep: "imported", fresh: true, core: isCore && importedCore[string(utf16.Decode(u))], mk: func(w *worker) goja.Value { return w.rt.ToValue(pgs) }})
		if !isCore {
			continue // the already-scanned variant only for the core contents (after the scan both behave alike)
		}
		ls = append(ls, &leaf{name: "str:imported-scanned:" + pq, m: nm.StrU(pu), kind: "str", rep: "imported-scanned", fresh: true, mid: isCore, mk: func(w *worker) goja.Value {
			v := w.rt.ToValue(pgs)
			v.(goja.String).Length() // forces the scan
			return v
		}})
	}
	{
		seen := map[string]bool{}
		var dedup []*leaf
		for _, l := range ls {
			if !seen[l.name] {
				seen[l.name] = true
				dedup = append(dedup, l)
			}
		}
		ls = dedup
	}
	for _, l := range ls {
		if l.kind != "str" || l.core {
			l.mid = true
		}
	}
	// objects: valueOf / toString / Symbol.toPrimitive / wrapper objects around representative primitives
	type inner struct {
		name string
		m    nm.Val
		mk   func(w *worker) goja.Value
	}
	var inners []inner
	for _, f := range []float64{math.Copysign(0, -1), 1.5, p2(53) + 2, p2(64) + 4096, math.NaN(), -1, 5e-324} {
		f := f
		inners = append(inners, inner{"num:" + nm.ShowNum(f), nm.Num(f), func(w *worker) goja.Value { return w.rt.ToValue(f) }})
	}
	for _, s := range []string{"", " 12 ", "-0", "0x10", "1e400", "0xFFFFFFFFFFFFFFFFFF", "nan", "1.5"} {
		u := u16(s)
		inners = append(inners, inner{"str:native:" + quoteUnits(u), nm.StrU(u), func(w *worker) goja.Value { return nativeString(w, u) }})
	}
	for _, u := range [][]uint16{{0x00A0, '1', '2', 0x00A0}, {0x00A0, '1', '.', '5', 0xFEFF}, {0x0085, '1', '2'}} {
		u := u
		inners = append(inners, inner{"str:native:" + quoteUnits(u), nm.StrU(u), func(w *worker) goja.Value { return nativeString(w, u) }})
		pgs := string(utf16.Decode(padTo17(u)))
		pu := padTo17(u)
		inners = append(inners, inner{"str:imported:" + quoteUnits(pu), nm.StrU(pu), func(w *worker) goja.Value { return w.rt.ToValue(pgs) }})
	}
	inners = append(inners,
		inner{"true", nm.Boolean(true), func(w *worker) goja.Value { return w.rt.ToValue(true) }},
		inner{"null", nm.Val{K: nm.Null}, func(w *worker) goja.Value { return goja.Null() }},
		inner{"undefined", nm.Val{K: nm.Undefined}, func(w *worker) goja.Value { return goja.Undefined() }},
	)
	for i, in := range inners {
		in := in
		for _, how := range []string{"valueOf", "toString", "toPrimitive"} {
			how := how
			if how != "valueOf" && i%3 != 0 {
				continue // the other two routes for every third inner value
			}
			ls = append(ls, &leaf{name: "obj:" + how + ":" + in.name, m: nm.Obj(in.m), kind: "obj", mid: true, fresh: strings.HasPrefix(in.name, "str:imported"), // a lazily scanned inner string must not carry state between evaluations core: how == "valueOf" && (i == 0 || i == 1 || i == 3 || i == 8 || i == 9 || i == 12 || i == 15 || i == 16),
				mk: func(w *worker) goja.Value {
					v, err := w.mkObj[how](goja.Undefined(), in.mk(w))
					if err != nil {
						panic(err)
					}
					return v
				}})
		}
		if in.m.K == nm.Number || in.m.K == nm.String || in.m.K == nm.Bool {
			ls = append(ls, &leaf{name: "obj:wrapper:" + in.name, m: nm.Obj(in.m), kind: "obj", mid: true, fresh: strings.HasPrefix(in.name, "str:imported"),
				mk: func(w *worker) goja.Value {
					v, err := w.mkObj["wrapper"](goja.Undefined(), in.mk(w))
					if err != nil {
						panic(err)
					}
					return v
				}})
		}
	}
	return ls
}

const objFactories = `({
 valueOf: function(v){ return {valueOf: function(){ return v }} },
 toString: function(v){ return {toString: function(){ return v }} },
 toPrimitive: function(v){ var o = {}; o[Symbol.toPrimitive] = function(hint){ return v }; return o },
 wrapper: function(v){ return Object(v) }
})`
