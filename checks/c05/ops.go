package c05

import (
	"fmt"
	"math"
	"math/big"
	"strings"

	nm "verif/ref/nummodel"
)

// Op is one number-producing (or number-converting) operation of the engine together with its reference model.
type Op struct {
	Name   string // display form with %s placeholders for the operands
	Sig    string // label of the code path, used in violation signatures (variants of one VM instruction share it)
	Fam    string
	Ar     int
	JS     string                               // source of a function(a,b)
	MN     func(x, y float64) nm.Expect         // model on ToNumber(a), ToNumber(b) (operands converted independently)
	MV     func(a, b *nm.Val) (nm.Expect, bool) // general model; ok=false: not modelled for these operands (skipped)
	Deep   bool                                 // root operator at depth >= 2 as well
	ClassB func(b *value) string                // class of the second operand in signatures (default: its operand class)
	ClassA func(a *value) string                // class of the first operand in signatures ("" = default)
	ViaStr bool                                 // the operation first renders a Number operand with Number::toString
	idx    int
}

func (o *Op) show(args ...string) string {
	a := make([]interface{}, len(args))
	for i := range args {
		a[i] = args[i]
	}
	return fmt.Sprintf(o.Name, a...)
}

func ex(f float64) nm.Expect { return nm.Expect{V: nm.Num(f)} }
func exB(b bool) nm.Expect   { return nm.Expect{V: nm.Boolean(b)} }

var binOps = []string{"+", "-", "*", "/", "%", "**", "&", "|", "^", "<<", ">>", ">>>"}

var math1 = []string{"abs", "acos", "acosh", "asin", "asinh", "atan", "atanh", "cbrt", "ceil", "clz32", "cos", "cosh", "exp", "expm1", "floor", "fround", "log", "log10", "log1p", "log2", "round", "sign", "sin", "sinh", "sqrt", "tan", "tanh", "trunc", "max", "min", "hypot"}
var math2 = []string{"atan2", "pow", "imul", "max", "min", "hypot"}

type taType struct {
	name string
	conv func(f float64) float64
}

var taTypes = []taType{
	{"Int8", func(f float64) float64 { return float64(nm.ToInt8(f)) }},
	{"Uint8", func(f float64) float64 { return float64(nm.ToUint8(f)) }},
	{"Uint8Clamped", func(f float64) float64 { return float64(nm.ToUint8Clamp(f)) }},
	{"Int16", func(f float64) float64 { return float64(nm.ToInt16(f)) }},
	{"Uint16", func(f float64) float64 { return float64(nm.ToUint16(f)) }},
	{"Int32", func(f float64) float64 { return float64(nm.ToInt32(f)) }},
	{"Uint32", func(f float64) float64 { return float64(nm.ToUint32(f)) }},
	{"Float32", func(f float64) float64 { return float64(float32(f)) }},
	{"Float64", func(f float64) float64 { return f }},
}

// update targets: how the variable that is updated / compound-assigned is held
var targets = []struct{ name, pre, ref, post string }{
	{"var", "var x=a;", "x", ""},
	{"closure", "var x=a; var g=function(){return x};", "x", ""},
	{"prop", "var o={p:a};", "o.p", ""},
	{"elem", "var o=[a];", "o[0]", ""},
	{"strict-var", "'use strict'; var x=a;", "x", ""},
}

// looselyEqual is IsLooselyEqual (7.2.13); ok=false: both operands are objects (identity is not modelled).
func looselyEqual(a, b nm.Val) (res, ok bool) {
	nullish := func(v nm.Val) bool { return v.K == nm.Undefined || v.K == nm.Null }
	switch {
	case a.K == nm.Object && b.K == nm.Object:
		return false, false
	case nullish(a) || nullish(b):
		return nullish(a) && nullish(b), true
	case a.K == b.K:
		if a.K == nm.String {
			return nm.SameUnits(a.S, b.S), true
		}
		return a.N == b.N, true // Number (IEEE ==) or Boolean
	case a.K == nm.Bool:
		return looselyEqual(nm.Num(a.N), b)
	case b.K == nm.Bool:
		return looselyEqual(a, nm.Num(b.N))
	case a.K == nm.Object:
		return looselyEqual(nm.ToPrimitive(a, true), b)
	case b.K == nm.Object:
		return looselyEqual(a, nm.ToPrimitive(b, true))
	}
	// Number vs String
	return nm.ToNumber(a) == nm.ToNumber(b), true
}

func cmpUnits(a, b []uint16) int {
	for i := 0; i < len(a) && i < len(b); i++ {
		if a[i] != b[i] {
			if a[i] < b[i] {
				return -1
			}
			return 1
		}
	}
	return len(a) - len(b)
}

// relational: returns (result, defined); undefined (NaN involved) => false for all four operators
func lessThan(a, b nm.Val) (lt, defined bool) {
	pa, pb := nm.ToPrimitive(a, false), nm.ToPrimitive(b, false)
	if pa.K == nm.String && pb.K == nm.String {
		return cmpUnits(pa.S, pb.S) < 0, true
	}
	x, y := nm.ToNumber(pa), nm.ToNumber(pb)
	if math.IsNaN(x) || math.IsNaN(y) {
		return false, false
	}
	return x < y, true
}

func isIntegral(f float64) bool { return !math.IsNaN(f) && !math.IsInf(f, 0) && f == math.Trunc(f) }

func bigIntOf(v nm.Val) (*big.Int, string) {
	p := nm.ToPrimitive(v, false)
	switch p.K {
	case nm.Number:
		if bi, ok := nm.NumberToBigInt(p.N); ok {
			return bi, ""
		}
		return nil, "RangeError"
	case nm.Bool:
		return big.NewInt(int64(p.N)), ""
	case nm.String:
		if bi, ok := nm.StringToBigInt(p.S); ok {
			return bi, ""
		}
		return nil, "SyntaxError"
	}
	return nil, "TypeError"
}

func jsonParseModel(a *nm.Val) (nm.Expect, bool) {
	if a.K == nm.Object {
		return nm.Expect{}, false
	}
	s := nm.ToStringUnits(*a)
	for len(s) > 0 && nm.IsJSONWhiteSpace(s[0]) {
		s = s[1:]
	}
	for len(s) > 0 && nm.IsJSONWhiteSpace(s[len(s)-1]) {
		s = s[:len(s)-1]
	}
	switch string(utf16Dec(s)) {
	case "null":
		return nm.Expect{V: nm.Val{K: nm.Null}}, true
	case "true":
		return exB(true), true
	case "false":
		return exB(false), true
	}
	if nm.IsJSONNumber(s) {
		return ex(nm.StringToNumber(s)), true
	}
	return nm.Expect{V: nm.Thrown("SyntaxError")}, true
}

func buildOps() []*Op {
	var ops []*Op
	add := func(o *Op) {
		if o.Sig == "" {
			o.Sig = strings.ReplaceAll(o.Name, "%s", "_")
		}
		o.idx = len(ops)
		ops = append(ops, o)
	}
	fn := func(body string) string { return "(function(a,b){" + body + "})" }

	// ---- operators ----
	for _, op := range binOps {
		op := op
		mv := func(a, b *nm.Val) (nm.Expect, bool) { return nm.Binary(op, *a, *b), true }
		var mn func(x, y float64) nm.Expect
		if op != "+" {
			mv = nil // every operator but + is a function of ToNumber(a), ToNumber(b)
			mn = func(x, y float64) nm.Expect { return nm.Binary(op, nm.Num(x), nm.Num(y)) }
		}
		sig := "a" + op + "b"
		add(&Op{Name: "(%s " + op + " %s)", Sig: sig, Fam: "binary", Ar: 2, JS: fn("return a " + op + " b"), MV: mv, MN: mn, Deep: true})
		for _, t := range targets {
			add(&Op{Name: "(" + t.name + " x=%s; x" + op + "=%s; x)", Sig: sig, Fam: "compound", Ar: 2, JS: fn(t.pre + t.ref + " " + op + "= b; return " + t.ref), MV: mv, MN: mn})
		}
		add(&Op{Name: "(x=%s, x" + op + "=%s)", Sig: sig, Fam: "compound", Ar: 2, JS: fn("var x=a; return (x " + op + "= b)"), MV: mv, MN: mn})
	}
	for _, op := range []string{"-", "+", "~"} {
		op := op
		add(&Op{Name: "(" + op + "%s)", Sig: op + "a", Fam: "unary", Ar: 1, JS: fn("return " + op + "a"), MN: func(x, _ float64) nm.Expect { return nm.Unary(op, nm.Num(x)) }, Deep: true})
	}
	for _, op := range []string{"++", "--"} {
		op := op
		newVal := func(x, _ float64) nm.Expect { return nm.Unary(op, nm.Num(x)) }
		oldVal := func(x, _ float64) nm.Expect { return ex(x) }
		for ti, t := range targets {
			deep := ti == 0
			add(&Op{Name: "(" + t.name + " x=%s; " + op + "x)", Sig: op, Fam: "update", Ar: 1, JS: fn(t.pre + "return " + op + t.ref), MN: newVal, Deep: deep})
			add(&Op{Name: "(" + t.name + " x=%s; " + op + "x; x)", Sig: op, Fam: "update", Ar: 1, JS: fn(t.pre + op + t.ref + "; return " + t.ref), MN: newVal})
			add(&Op{Name: "(" + t.name + " x=%s; x" + op + ")", Sig: "x" + op + " (old value)", Fam: "update", Ar: 1, JS: fn(t.pre + "return " + t.ref + op), MN: oldVal, Deep: deep})
			add(&Op{Name: "(" + t.name + " x=%s; x" + op + "; x)", Sig: op, Fam: "update", Ar: 1, JS: fn(t.pre + t.ref + op + "; return " + t.ref), MN: newVal})
		}
	}
	// ---- comparisons (conversions inside == and <) ----
	add(&Op{Name: "(%s == %s)", Fam: "compare", Ar: 2, JS: fn("return a == b"), MV: func(a, b *nm.Val) (nm.Expect, bool) { r, ok := looselyEqual(*a, *b); return exB(r), ok }, Deep: true})
	add(&Op{Name: "(%s != %s)", Sig: "(_ == _)", Fam: "compare", Ar: 2, JS: fn("return a != b"), MV: func(a, b *nm.Val) (nm.Expect, bool) { r, ok := looselyEqual(*a, *b); return exB(!r), ok }})
	add(&Op{Name: "(%s < %s)", Fam: "compare", Ar: 2, JS: fn("return a < b"), MV: func(a, b *nm.Val) (nm.Expect, bool) { r, _ := lessThan(*a, *b); return exB(r), true }, Deep: true})
	add(&Op{Name: "(%s > %s)", Sig: "(_ < _)", Fam: "compare", Ar: 2, JS: fn("return a > b"), MV: func(a, b *nm.Val) (nm.Expect, bool) { r, _ := lessThan(*b, *a); return exB(r), true }})
	add(&Op{Name: "(%s <= %s)", Sig: "(_ < _)", Fam: "compare", Ar: 2, JS: fn("return a <= b"), MV: func(a, b *nm.Val) (nm.Expect, bool) { r, d := lessThan(*b, *a); return exB(d && !r), true }, Deep: true})
	add(&Op{Name: "(%s >= %s)", Sig: "(_ < _)", Fam: "compare", Ar: 2, JS: fn("return a >= b"), MV: func(a, b *nm.Val) (nm.Expect, bool) { r, d := lessThan(*a, *b); return exB(d && !r), true }})
	add(&Op{Name: "isNaN(%s)", Fam: "compare", Ar: 1, JS: fn("return isNaN(a)"), MN: func(x, _ float64) nm.Expect { return exB(math.IsNaN(x)) }, Deep: true})
	add(&Op{Name: "isFinite(%s)", Fam: "compare", Ar: 1, JS: fn("return isFinite(a)"), MN: func(x, _ float64) nm.Expect { return exB(!math.IsNaN(x) && !math.IsInf(x, 0)) }, Deep: true})
	numOnly := func(f func(x float64) bool) func(a, b *nm.Val) (nm.Expect, bool) {
		return func(a, _ *nm.Val) (nm.Expect, bool) {
			if a.K != nm.Number {
				return exB(false), true
			}
			return exB(f(a.N)), true
		}
	}
	add(&Op{Name: "Number.isInteger(%s)", Fam: "compare", Ar: 1, JS: fn("return Number.isInteger(a)"), MV: numOnly(isIntegral), Deep: true})
	add(&Op{Name: "Number.isSafeInteger(%s)", Fam: "compare", Ar: 1, JS: fn("return Number.isSafeInteger(a)"), MV: numOnly(func(x float64) bool { return isIntegral(x) && math.Abs(x) <= nm.MaxSafe }), Deep: true})
	add(&Op{Name: "Number.isFinite(%s)", Fam: "compare", Ar: 1, JS: fn("return Number.isFinite(a)"), MV: numOnly(func(x float64) bool { return !math.IsNaN(x) && !math.IsInf(x, 0) })})
	add(&Op{Name: "Number.isNaN(%s)", Fam: "compare", Ar: 1, JS: fn("return Number.isNaN(a)"), MV: numOnly(math.IsNaN)})

	// ---- Math ----
	for _, name := range math1 {
		name := name
		add(&Op{Name: "Math." + name + "(%s)", Fam: "math", Ar: 1, JS: fn("return Math." + name + "(a)"), MN: func(x, _ float64) nm.Expect { return nm.Math1(name, x) }, Deep: true})
	}
	for _, name := range math2 {
		name := name
		add(&Op{Name: "Math." + name + "(%s, %s)", Fam: "math", Ar: 2, JS: fn("return Math." + name + "(a,b)"), MN: func(x, y float64) nm.Expect { return nm.Math2(name, x, y) }, Deep: true})
	}
	// ---- Number / parse* ----
	ident := func(x, _ float64) nm.Expect { return ex(x) }
	add(&Op{Name: "Number(%s)", Fam: "number", Ar: 1, JS: fn("return Number(a)"), MN: ident, Deep: true})
	add(&Op{Name: "new Number(%s).valueOf()", Sig: "new Number(_)", Fam: "number", Ar: 1, JS: fn("return new Number(a).valueOf()"), MN: ident})
	parseF := func(a, _ *nm.Val) (nm.Expect, bool) {
		if a.K == nm.Object {
			return nm.Expect{}, false // ToString of an object uses hint string, not modelled
		}
		return ex(nm.ParseFloat(nm.ToStringUnits(*a))), true
	}
	add(&Op{Name: "parseFloat(%s)", ViaStr: true, Fam: "number", Ar: 1, JS: fn("return parseFloat(a)"), MV: parseF, Deep: true})
	add(&Op{Name: "Number.parseFloat(%s)", ViaStr: true, Sig: "parseFloat(_)", Fam: "number", Ar: 1, JS: fn("return Number.parseFloat(a)"), MV: parseF})
	parseI := func(a, b *nm.Val) (nm.Expect, bool) {
		if a.K == nm.Object {
			return nm.Expect{}, false
		}
		radix := int32(0)
		if b != nil {
			radix = nm.ToInt32(nm.ToNumber(*b))
		}
		v, exact := nm.ParseInt(nm.ToStringUnits(*a), radix)
		return nm.Expect{V: nm.Num(v), Approx: !exact}, true
	}
	parseIntClassA := func(a *value) string {
		if a.m.K == nm.Object {
			return ""
		}
		if v, _ := nm.ParseInt(nm.ToStringUnits(a.m), 10); v == 0 && math.Signbit(v) {
			return "text that parses to -0"
		}
		if v16, _ := nm.ParseInt(nm.ToStringUnits(a.m), 16); math.Abs(v16) >= 1<<63 {
			return "digits denoting an integer of magnitude >=2^63"
		}
		return ""
	}
	add(&Op{Name: "parseInt(%s)", Sig: "parseInt", Fam: "number", Ar: 1, JS: fn("return parseInt(a)"), MV: func(a, _ *nm.Val) (nm.Expect, bool) { return parseI(a, nil) }, Deep: true, ClassA: parseIntClassA, ViaStr: true})
	add(&Op{Name: "parseInt(%s, %s)", Sig: "parseInt", Fam: "number", Ar: 2, JS: fn("return parseInt(a, b)"), MV: parseI, ClassA: parseIntClassA, ViaStr: true, ClassB: func(b *value) string {
		if r := nm.ToInt32(b.num); r == 0 || (r >= 2 && r <= 36) {
			return "valid radix"
		}
		return "invalid radix"
	}})
	// round trips through Number.prototype and String
	viaString := func(allowObj bool) func(a, _ *nm.Val) (nm.Expect, bool) {
		return func(a, _ *nm.Val) (nm.Expect, bool) {
			if a.K == nm.Object && !allowObj {
				return nm.Expect{}, false // String(object) uses hint string, which the model's objects do not define
			}
			return ex(nm.StringToNumber(nm.ToStringUnits(nm.ToPrimitive(*a, true)))), true
		}
	}
	add(&Op{Name: "Number(String(%s))", ViaStr: true, Fam: "roundtrip", Ar: 1, JS: fn("return Number(String(a))"), MV: viaString(false), Deep: true})
	add(&Op{Name: "Number(''+%s)", ViaStr: true, Fam: "roundtrip", Ar: 1, JS: fn("return Number(''+a)"), MV: viaString(true)})
	unsignedZero := func(x, _ float64) nm.Expect { // Number::toString and friends print -0 as "0"
		if x == 0 {
			return ex(0)
		}
		return ex(x)
	}
	add(&Op{Name: "Number((+%s).toString())", ViaStr: true, Fam: "roundtrip", Ar: 1, JS: fn("return Number((+a).toString())"), MN: unsignedZero})
	add(&Op{Name: "Number((+%s).toExponential())", ViaStr: true, Fam: "roundtrip", Ar: 1, JS: fn("return Number((+a).toExponential())"), MN: unsignedZero, Deep: true})
	add(&Op{Name: "Number((+%s).toPrecision(17))", ViaStr: true, Fam: "roundtrip", Ar: 1, JS: fn("return Number((+a).toPrecision(17))"), MN: unsignedZero, Deep: true})
	add(&Op{Name: "Object(+%s).valueOf()", Fam: "roundtrip", Ar: 1, JS: fn("return Object(+a).valueOf()"), MN: ident})
	add(&Op{Name: "[+%s].concat()[0]", Fam: "roundtrip", Ar: 1, JS: fn("return [+a].concat()[0]"), MN: ident})
	// ---- JSON ----
	jsonNum := func(x, _ float64) nm.Expect {
		if math.IsNaN(x) || math.IsInf(x, 0) {
			return nm.Expect{V: nm.Val{K: nm.Null}}
		}
		if x == 0 {
			return ex(0) // -0 is serialised as "0"
		}
		return ex(x)
	}
	add(&Op{Name: "JSON.parse(JSON.stringify(+%s))", ViaStr: true, Fam: "json", Ar: 1, JS: fn("return JSON.parse(JSON.stringify(+a))"), MN: jsonNum, Deep: true})
	add(&Op{Name: "JSON.parse(JSON.stringify([+%s]))[0]", ViaStr: true, Fam: "json", Ar: 1, JS: fn("return JSON.parse(JSON.stringify([+a]))[0]"), MN: jsonNum})
	add(&Op{Name: "JSON.parse(JSON.stringify({k:+%s})).k", ViaStr: true, Fam: "json", Ar: 1, JS: fn("return JSON.parse(JSON.stringify({k:+a})).k"), MN: jsonNum})
	add(&Op{Name: "JSON.parse(%s)", ViaStr: true, Fam: "json", Ar: 1, JS: fn("return JSON.parse(a)"), MV: func(a, _ *nm.Val) (nm.Expect, bool) { return jsonParseModel(a) }, Deep: true})
	add(&Op{Name: "JSON.parse('['+%s+']')[0]", ViaStr: true, Sig: "JSON.parse(_)", Fam: "json", Ar: 1, JS: fn("return JSON.parse('['+a+']')[0]"), MV: func(a, _ *nm.Val) (nm.Expect, bool) {
		if a.K != nm.String && a.K != nm.Number {
			return nm.Expect{}, false
		}
		s := nm.ToStringUnits(*a)
		for len(s) > 0 && nm.IsJSONWhiteSpace(s[0]) {
			s = s[1:]
		}
		for len(s) > 0 && nm.IsJSONWhiteSpace(s[len(s)-1]) {
			s = s[:len(s)-1]
		}
		if nm.IsJSONNumber(s) {
			return ex(nm.StringToNumber(s)), true
		}
		return nm.Expect{}, false
	}})
	// ---- typed arrays: store + load through every route ----
	for _, t := range taTypes {
		t := t
		mn := func(x, _ float64) nm.Expect { return ex(t.conv(x)) }
		T := t.name + "Array"
		sig := T + " store/load"
		add(&Op{Name: "(t=new " + T + "(1), t[0]=%s, t[0])", Sig: sig, Fam: "typedarray", Ar: 1, JS: fn("var t=new " + T + "(1); t[0]=a; return t[0]"), MN: mn, Deep: true})
		add(&Op{Name: "new " + T + "(1).fill(%s)[0]", Sig: sig, Fam: "typedarray", Ar: 1, JS: fn("return new " + T + "(1).fill(a)[0]"), MN: mn})
		add(&Op{Name: "new " + T + "([%s])[0]", Sig: sig, Fam: "typedarray", Ar: 1, JS: fn("return new " + T + "([a])[0]"), MN: mn})
		add(&Op{Name: T + ".of(%s)[0]", Sig: sig, Fam: "typedarray", Ar: 1, JS: fn("return " + T + ".of(a)[0]"), MN: mn})
		add(&Op{Name: T + ".from([%s])[0]", Sig: sig, Fam: "typedarray", Ar: 1, JS: fn("return " + T + ".from([a])[0]"), MN: mn})
		add(&Op{Name: "(t=new " + T + "(1), t.set([%s]), t[0])", Sig: sig, Fam: "typedarray", Ar: 1, JS: fn("var t=new " + T + "(1); t.set([a]); return t[0]"), MN: mn})
		add(&Op{Name: "(t=new " + T + "(1), t[0]=%s, t.at(0))", Sig: sig, Fam: "typedarray", Ar: 1, JS: fn("var t=new " + T + "(1); t[0]=a; return t.at(0)"), MN: mn})
		add(&Op{Name: "(t=new " + T + "([%s]), t[0]++, t[0])", Sig: T + " element ++", Fam: "typedarray", Ar: 1, JS: fn("var t=new " + T + "([a]); t[0]++; return t[0]"), MN: func(x, _ float64) nm.Expect { return ex(t.conv(t.conv(x) + 1)) }})
		if t.name != "Uint8Clamped" {
			for _, le := range []string{"true", "false"} {
				add(&Op{Name: "(dv.set" + t.name + "(0,%s," + le + "), dv.get" + t.name + "(0," + le + "))", Sig: "DataView " + t.name + " set/get", Fam: "dataview", Ar: 1,
					JS: fn("var dv=new DataView(new ArrayBuffer(8)); dv.set" + t.name + "(0,a," + le + "); return dv.get" + t.name + "(0," + le + ")"), MN: mn, Deep: le == "true"})
			}
		}
	}
	// ---- BigInt round trips (number <-> bigint conversions) ----
	// only Number operands: NumberToBigInt and Number(bigint) are the numeric conversions in scope here
	// (StringToBigInt and the BigInt constructor's error cases belong to the BigInt built-ins)
	bigRT := func(wrap func(*big.Int) *big.Int) func(a, _ *nm.Val) (nm.Expect, bool) {
		return func(a, _ *nm.Val) (nm.Expect, bool) {
			if a.K != nm.Number {
				return nm.Expect{}, false
			}
			bi, errc := bigIntOf(*a)
			if errc != "" {
				return nm.Expect{V: nm.Thrown(errc)}, true
			}
			return ex(nm.BigToFloat(wrap(bi))), true
		}
	}
	two64 := new(big.Int).Lsh(big.NewInt(1), 64)
	two63 := new(big.Int).Lsh(big.NewInt(1), 63)
	asUint64 := func(b *big.Int) *big.Int { return new(big.Int).Mod(b, two64) }
	asInt64 := func(b *big.Int) *big.Int {
		m := new(big.Int).Mod(b, two64)
		if m.Cmp(two63) >= 0 {
			m.Sub(m, two64)
		}
		return m
	}
	add(&Op{Name: "Number(BigInt(%s))", Fam: "bigint", Ar: 1, JS: fn("return Number(BigInt(a))"), MV: bigRT(func(b *big.Int) *big.Int { return b }), Deep: true})
	add(&Op{Name: "(t=new BigInt64Array(1), t[0]=BigInt(%s), Number(t[0]))", Sig: "BigInt64Array store/load", Fam: "bigint", Ar: 1, JS: fn("var t=new BigInt64Array(1); t[0]=BigInt(a); return Number(t[0])"), MV: bigRT(asInt64)})
	add(&Op{Name: "(t=new BigUint64Array(1), t[0]=BigInt(%s), Number(t[0]))", Sig: "BigUint64Array store/load", Fam: "bigint", Ar: 1, JS: fn("var t=new BigUint64Array(1); t[0]=BigInt(a); return Number(t[0])"), MV: bigRT(asUint64)})
	// ---- Date (time values; arguments that overflow Go's int are a documented incompatibility and are skipped) ----
	dateOK := func(x float64) bool { return math.IsNaN(x) || math.IsInf(x, 0) || math.Abs(x) < p2(62) }
	dateOp := func(name, js string, f func(t float64) float64) {
		add(&Op{Name: name, Fam: "date", Ar: 1, JS: fn(js), MV: func(a, _ *nm.Val) (nm.Expect, bool) {
			x := nm.ToNumber(*a)
			if !dateOK(x) {
				return nm.Expect{}, false
			}
			return ex(f(x)), true
		}, Deep: true})
	}
	dateOp("new Date(+%s).getTime()", "return new Date(+a).getTime()", nm.TimeClip)
	dateOp("new Date(0).setTime(%s)", "return new Date(0).setTime(a)", nm.TimeClip)
	dateOp("(+new Date(+%s))", "return +new Date(+a)", nm.TimeClip)
	dateOp("Date.UTC(1970,0,1,0,0,0,%s)", "return Date.UTC(1970,0,1,0,0,0,a)", func(x float64) float64 {
		if math.IsNaN(x) || math.IsInf(x, 0) {
			return math.NaN()
		}
		return nm.TimeClip(nm.ToIntegerOrInfinity(x))
	})
	posMod := func(x, m float64) float64 {
		r := math.Mod(x, m)
		if r < 0 {
			r += m
		}
		if r == 0 {
			return 0
		}
		return r
	}
	dateOp("new Date(+%s).getUTCMilliseconds()", "return new Date(+a).getUTCMilliseconds()", func(x float64) float64 {
		t := nm.TimeClip(x)
		if math.IsNaN(t) {
			return t
		}
		return posMod(t, 1000)
	})
	dateOp("new Date(+%s).getUTCSeconds()", "return new Date(+a).getUTCSeconds()", func(x float64) float64 {
		t := nm.TimeClip(x)
		if math.IsNaN(t) {
			return t
		}
		return posMod(math.Floor(t/1000), 60)
	})
	dateOp("new Date(+%s).getUTCDay()", "return new Date(+a).getUTCDay()", func(x float64) float64 {
		t := nm.TimeClip(x)
		if math.IsNaN(t) {
			return t
		}
		return posMod(math.Floor(t/86400000)+4, 7)
	})
	return ops
}

// nullary producers: constants, NaN payloads read from buffers, number-valued built-in results
type constOp struct {
	name, js string
	want     float64
}

// constSig groups the nullary producers that exercise one conversion
func constSig(name string) string {
	if strings.Contains(name, "n") && (strings.HasPrefix(name, "Number(") || strings.Contains(name, "via Object")) && strings.ContainsAny(name, "0123456789") && strings.Contains(name, "n)") {
		return "Number(bigint)"
	}
	return name
}

var constOps = []constOp{
	{"Math.PI", "Math.PI", math.Pi}, {"Math.E", "Math.E", math.E}, {"Math.SQRT2", "Math.SQRT2", math.Sqrt2},
	{"Number.MAX_SAFE_INTEGER", "Number.MAX_SAFE_INTEGER", nm.MaxSafe}, {"Number.MIN_SAFE_INTEGER", "Number.MIN_SAFE_INTEGER", -nm.MaxSafe},
	{"Number.MAX_VALUE", "Number.MAX_VALUE", math.MaxFloat64}, {"Number.MIN_VALUE", "Number.MIN_VALUE", 5e-324}, {"Number.EPSILON", "Number.EPSILON", p2(-52)},
	{"Number.NaN", "Number.NaN", math.NaN()}, {"NaN", "NaN", math.NaN()}, {"Infinity", "Infinity", math.Inf(1)},
	{"Number.POSITIVE_INFINITY", "Number.POSITIVE_INFINITY", math.Inf(1)}, {"Number.NEGATIVE_INFINITY", "Number.NEGATIVE_INFINITY", math.Inf(-1)},
	{"Number()", "Number()", 0}, {"new Number().valueOf()", "new Number().valueOf()", 0}, {"Number.prototype.valueOf()", "Number.prototype.valueOf()", 0},
	{"Math.max()", "Math.max()", math.Inf(-1)}, {"Math.min()", "Math.min()", math.Inf(1)}, {"Math.hypot()", "Math.hypot()", 0},
	{"Math.max(-0,0)", "Math.max(-0,0)", 0}, {"Math.min(0,-0)", "Math.min(0,-0)", math.Copysign(0, -1)}, {"Math.max(-0,-0)", "Math.max(-0,-0)", math.Copysign(0, -1)},
	{"Math.hypot(3,4,12)", "Math.hypot(3,4,12)", 13}, {"Math.hypot(NaN,Infinity)", "Math.hypot(NaN,Infinity)", math.Inf(1)},
	{"F64 NaN payload 7ff8..01", "new Float64Array(new Uint8Array([1,0,0,0,0,0,0xf8,0x7f]).buffer)[0]", math.NaN()},
	{"F64 NaN payload 7ff8..00", "new Float64Array(new Uint8Array([0,0,0,0,0,0,0xf8,0x7f]).buffer)[0]", math.NaN()},
	{"F64 negative NaN", "new Float64Array(new Uint8Array([0,0,0,0,0,0,0xf8,0xff]).buffer)[0]", math.NaN()},
	{"F64 signalling NaN", "new Float64Array(new Uint8Array([1,0,0,0,0,0,0xf0,0x7f]).buffer)[0]", math.NaN()},
	{"F32 NaN payload", "new Float32Array(new Uint8Array([1,0,0xc0,0x7f]).buffer)[0]", math.NaN()},
	{"F32 negative NaN", "new Float32Array(new Uint8Array([0,0,0xc0,0xff]).buffer)[0]", math.NaN()},
	{"DataView F64 NaN payload", "new DataView(new Uint8Array([0x7f,0xf8,0,0,0,0,0,2]).buffer).getFloat64(0)", math.NaN()},
	{"DataView F32 negative NaN", "new DataView(new Uint8Array([0xff,0xc0,0,1]).buffer).getFloat32(0)", math.NaN()},
	{"F64 1.0 from bytes", "new Float64Array(new Uint8Array([0,0,0,0,0,0,0xf0,0x3f]).buffer)[0]", 1},
	{"F64 -0 from bytes", "new Float64Array(new Uint8Array([0,0,0,0,0,0,0,0x80]).buffer)[0]", math.Copysign(0, -1)},
	{"F64 2^53 from bytes", "new Float64Array(new Uint8Array([0,0,0,0,0,0,0x40,0x43]).buffer)[0]", p2(53)},
	{"F32 -0 from bytes", "new Float32Array(new Uint8Array([0,0,0,0x80]).buffer)[0]", math.Copysign(0, -1)},
	{"U32 max from bytes", "new Uint32Array(new Uint8Array([255,255,255,255]).buffer)[0]", 4294967295},
	{"I32 min from bytes", "new Int32Array(new Uint8Array([0,0,0,0x80]).buffer)[0]", -2147483648},
	{"Number(2n**53n)", "Number(2n**53n)", p2(53)}, {"Number(2n**53n+1n)", "Number(2n**53n+1n)", p2(53)}, {"Number(2n**53n+3n)", "Number(2n**53n+3n)", p2(53) + 4},
	{"Number(2n**63n)", "Number(2n**63n)", p2(63)}, {"Number(2n**64n)", "Number(2n**64n)", p2(64)}, {"Number(-(2n**64n))", "Number(-(2n**64n))", -p2(64)}, {"Number(2n**64n+4096n)", "Number(2n**64n+4096n)", p2(64) + 4096},
	{"Number(10n**30n)", "Number(10n**30n)", 1e30}, {"Number(2n**1024n)", "Number(2n**1024n)", math.Inf(1)}, {"Number(-0n)", "Number(-0n)", 0},
	{"+new Number(2n**64n) via Object", "Number(Object(2n**64n))", p2(64)},
	{"'abc'.length", "'abc'.length", 3}, {"[1,2].length", "[1,2].length", 2}, {"'abc'.indexOf('z')", "'abc'.indexOf('z')", -1}, {"'a'.charCodeAt(0)", "'a'.charCodeAt(0)", 97}, {"'a'.charCodeAt(5)", "'a'.charCodeAt(5)", math.NaN()},
	{"[].push(1,2)", "[].push(1,2)", 2}, {"new Array(4294967295).length", "new Array(4294967295).length", 4294967295}, {"(function(a,b){}).length", "(function(a,b){}).length", 2},
	{"Date.UTC(1970,0,1)", "Date.UTC(1970,0,1)", 0}, {"new Date(NaN).getTime()", "new Date(NaN).getTime()", math.NaN()}, {"new Date(8.64e15).getTime()", "new Date(8.64e15).getTime()", 8.64e15},
	{"new Date(-1).getUTCFullYear()", "new Date(-1).getUTCFullYear()", 1969},
	{"[5,1].sort()[0]", "[5,1].sort()[0]", 1}, {"[,1].findIndex(function(x){return x===1})", "[,1].findIndex(function(x){return x===1})", 1},
}
