package c05

import (
	_ "embed"
	"encoding/json"
	"fmt"
	"math"
	"math/big"
	"sort"
	"strings"

	nm "verif/ref/nummodel"

	"github.com/dop251/goja"
)

// ---------- nullary producers ----------

func checkConst(w *worker, name string) (fs [][2]string) {
	_, fs = evalConst(w, name)
	return
}

func evalConst(w *worker, name string) (*value, [][2]string) {
	for _, c := range constOps {
		if c.name != name {
			continue
		}
		v, err := w.rt.RunString(c.js)
		if err != nil {
			return nil, [][2]string{{"const|" + name + "|throws", fmt.Sprintf("%s throws %s", c.js, excName(w, err))}}
		}
		k, m := classify(v)
		var fs [][2]string
		if m.K != nm.Number || !nm.SameNum(m.N, c.want) {
			fs = append(fs, [2]string{fmt.Sprintf("value|const %s", constSig(name)), fmt.Sprintf("%s evaluates to %s, ECMAScript requires %s", c.js, m.Show(), nm.ShowNum(c.want))})
		}
		if ok, why := canonical(k); !ok {
			sig := fmt.Sprintf("noncanonical|const %s|%s", constSig(name), why)
			if why == "2^53 held as float" {
				sig = "noncanonical|2^53 held as float|" + constSig(name)
			}
			fs = append(fs, [2]string{sig, fmt.Sprintf("%s yields %s in a non-canonical representation (%s)", c.js, m.Show(), why)})
		}
		if m.K != nm.Number {
			return nil, fs
		}
		return &value{key: k, v: v, m: m, num: m.N, depth: 1, expr: &Expr{Op: "const:" + name}}, fs
	}
	return nil, [][2]string{{"replay|bad", "unknown constant " + name}}
}

func runConsts(ex *explorer) []*value {
	w := newWorkerCached(ex.r, 0)
	var res []*value
	for i, c := range constOps {
		v, fs := evalConst(w, c.name)
		for _, f := range fs {
			w.fail(int64(i), f[0], f[1], Case{Kind: "const", Name: c.name, Text: c.js, Sig: f[0]})
		}
		if v != nil {
			v.first = int64(i) - 1<<30
			if _, ok := ex.known[v.key]; !ok {
				ex.known[v.key] = v
				ex.all = append(ex.all, v)
				res = append(res, v)
			}
		}
	}
	ex.r.Eval(int64(len(constOps)))
	ex.r.NontrivialN(int64(len(constOps)))
	ex.mergeWorkerFails(w)
	ex.flushFails("const")
	ex.bounds["nullary producers"] = fmt.Sprintf("%d constants / buffer reads / BigInt conversions", len(constOps))
	return res
}

// ---------- source literals and constant-folded expressions ----------

type litForm struct {
	text string
	want float64
}

func litShape(t string) string {
	if len(t) > 1 && t[0] == '0' && t[1] >= '0' && t[1] <= '9' {
		return "legacy octal-like literal"
	}
	return strShape(u16(t))
}

func stripSep(s string) string { return strings.ReplaceAll(s, "_", "") }

func literalForms() []litForm {
	var res []litForm
	sn := func(s string) float64 { return nm.StringToNumber(u16(stripSep(s))) }
	for _, t := range []string{"0", "0.0", ".5", "5.", "0.5e1", "5e-1", "1e3", "1E3", "1e+3", "1e-7", "1e21", "1e400", "1e-400", "0x10", "0X1f", "0b11", "0B11", "0o17", "0O17",
		"0x1FFFFFFFFFFFFF", "0x20000000000001", "0x20000000000003", "0x7FFFFFFFFFFFFFFF", "0x8000000000000000", "0x8000000000000400", "0x8000000000000401", "0xFFFFFFFFFFFFFFFF", "0x10000000000000000", "0xFFFFFFFFFFFFFFFFFF", "0x100000000000000001000",
		"0b" + strings.Repeat("1", 63), "0b" + strings.Repeat("1", 64), "0b" + strings.Repeat("1", 65), "0o777777777777777777777", "0o1777777777777777777777", "0o3777777777777777777777",
		"9007199254740991", "9007199254740992", "9007199254740993", "9007199254740995", "9223372036854775807", "9223372036854775808", "9223372036854777856", "18446744073709551615", "18446744073709551616", "123456789012345678901234567890",
		"2147483647", "2147483648", "4294967295", "4294967296", "5e-324", "2e-324", "3e-324", "1.7976931348623157e308", "1.7976931348623159e308", "0.1", "1.5", ".1e1", "1.e1", "1.0", "4503599627370495.5", "0.49999999999999994",
		"1_0", "1_000.5_5", "0x1_0", "0b1_1", "1e1_0"} {
		res = append(res, litForm{t, sn(t)})
	}
	res = append(res, litForm{"017", 15}, litForm{"00", 0}, litForm{"0777777777777777777777", sn("0o777777777777777777777")}, litForm{"01777777777777777777777", sn("0o1777777777777777777777")})
	return res
}

// literal route: operations written out with literal operands (constant folding, literal parsing), compared with the
// same model as the argument route. form: "expr" | "assign" | "pre" | "post" | "preval" | "postval".
func literalSource(op *Op, form string, a, b *leaf) (string, bool) {
	if a.js == "" || (b != nil && b.js == "") {
		return "", false
	}
	sym := strings.TrimSpace(strings.NewReplacer("(", "", ")", "", "%s", "").Replace(op.Name))
	switch form {
	case "expr":
		if b != nil {
			return "((" + a.js + ") " + sym + " (" + b.js + "))", true
		}
		return "(" + sym + " (" + a.js + "))", true
	case "assign":
		return "var x=(" + a.js + "); x " + sym + "= (" + b.js + "); x", true
	}
	return "", false
}

type litCase struct {
	op   *Op
	form string
	a, b int // leaf indices, b = -1
}

func checkLiteral(w *worker, text, name string) [][2]string {
	// name: "lit" for a literal form, else "<form>|<op name>|<leaf a>|<leaf b>"
	if name == "lit" {
		for _, lf := range literalForms() {
			if lf.text == text {
				return judgeLiteralForm(w, lf)
			}
		}
		return [][2]string{{"replay|bad", "unknown literal " + text}}
	}
	parts := strings.Split(name, "\x00")
	if len(parts) != 4 {
		return [][2]string{{"replay|bad", "bad literal case"}}
	}
	op := opByName[parts[1]]
	ai, aok := leafByName[parts[2]]
	bi, bok := leafByName[parts[3]]
	if op == nil || !aok || (op.Ar == 2 && !bok) {
		return [][2]string{{"replay|bad", "bad literal case"}}
	}
	if op.Ar == 1 {
		bi = -1
	}
	return judgeLiteral(w, litCase{op, parts[0], ai, bi})
}

func judgeLiteralForm(w *worker, lf litForm) (fs [][2]string) {
	for _, strict := range []bool{false, true} {
		if strict && len(lf.text) > 1 && lf.text[0] == '0' && lf.text[1] >= '0' && lf.text[1] <= '9' {
			continue // legacy octal-like literals are a SyntaxError in strict mode
		}
		src := lf.text
		if strict {
			src = "'use strict'; " + src
		}
		v, err := w.rt.RunString(src)
		if err != nil {
			if strings.Contains(lf.text, "_") {
				continue // numeric separators not supported by the parser: a missing feature, not a conversion defect
			}
			fs = append(fs, [2]string{fmt.Sprintf("value|src literal|%s|rejected", litShape(lf.text)), fmt.Sprintf("numeric literal %s is rejected: %s", lf.text, excName(w, err))})
			continue
		}
		k, m := classify(v)
		if m.K != nm.Number || !nm.SameNum(m.N, lf.want) {
			fs = append(fs, [2]string{fmt.Sprintf("value|src literal|%s", litShape(lf.text)), fmt.Sprintf("numeric literal %s evaluates to %s, ECMAScript requires %s", lf.text, m.Show(), nm.ShowNum(lf.want))})
		}
		if ok, why := canonical(k); !ok {
			sig := fmt.Sprintf("noncanonical|src literal|%s|%s", strShape(u16(lf.text)), why)
			if why == "2^53 held as float" {
				sig = "noncanonical|2^53 held as float|source literal"
			}
			fs = append(fs, [2]string{sig, fmt.Sprintf("numeric literal %s yields %s in a non-canonical representation (%s)", lf.text, m.Show(), why)})
		}
	}
	return
}

func judgeLiteral(w *worker, c litCase) [][2]string {
	la := w.u.leaves[c.a]
	var lb *leaf
	if c.b >= 0 {
		lb = w.u.leaves[c.b]
	}
	src, ok := literalSource(c.op, c.form, la, lb)
	if !ok {
		return nil
	}
	av := leafValue(w, c.a)
	var bv *value
	if lb != nil {
		bv = leafValue(w, c.b)
	}
	var got outcome
	v, err := w.rt.RunString(src)
	if err != nil {
		n := excName(w, err)
		got = outcome{thrown: n, m: nm.Thrown(n), key: rkey{tag: tOther, s: "throw " + n}}
	} else {
		k, m := classify(v)
		got = outcome{key: k, val: v, m: m}
	}
	exp, modelled := w.model(c.op, av, bv)
	pseudo := *c.op
	if argGot := w.apply(c.op, av, bv); argGot.key != got.key {
		// only the source-text route behaves like this (constant folding / literal parsing)
		pseudo.Sig = "src-only " + c.form + " " + c.op.Sig
	}
	fs := w.judge(&pseudo, av, bv, got, exp, modelled)
	for i := range fs {
		fs[i][1] = "source text `" + src + "`: " + fs[i][1]
	}
	return fs
}

func leafValue(w *worker, i int) *value {
	l := w.u.leaves[i]
	v := &value{key: rkey{tag: tObject, bits: uint64(i)}, lf: l, lfIdx: i, m: l.m, num: nm.ToNumber(l.m), expr: &Expr{Leaf: l.name}}
	if l.kind != "obj" {
		v.key, _ = classify(l.mk(w))
		if l.kind == "str" {
			v.key.bits = uint64(i)
		}
	}
	return v
}

func runLiterals(ex *explorer, extended bool) bool {
	w0 := newWorkerCached(ex.r, 0)
	forms := literalForms()
	if !extended {
		for i, lf := range forms {
			fs := judgeLiteralForm(w0, lf)
			for _, f := range fs {
				w0.fail(int64(i), f[0], f[1], Case{Kind: "literal", Text: lf.text, Name: "lit", Sig: f[0]})
			}
			ex.r.Outcome(fmt.Sprintf("literal|%s|%d", litShape(lf.text), len(fs)))
			if i%9 == 0 {
				ex.r.Sample(map[string]interface{}{"literal": lf.text, "model_value": nm.ShowNum(lf.want)})
			}
		}
		ex.r.Eval(int64(2 * len(forms)))
		ex.r.NontrivialN(int64(2 * len(forms)))
		ex.mergeWorkerFails(w0)
	}
	// operations with literal operands: quick: partner-pool scalars and strings x themselves, plus every scalar x
	// a few partners; thorough: every literal-capable leaf x every scalar / core string
	var lits, small []int
	for i, l := range ex.u.leaves {
		if l.js == "" {
			continue
		}
		if l.kind != "str" || l.core || extended {
			lits = append(lits, i)
		}
		if l.core {
			small = append(small, i)
		}
	}
	if extended {
		small = nil
		for _, i := range lits {
			if l := ex.u.leaves[i]; l.kind != "str" || l.core {
				small = append(small, i)
			}
		}
	}
	few := []int{leafByName["num:0"], leafByName["num:-0"], leafByName["num:1"], leafByName["num:-1"], leafByName["num:0.5"], leafByName["num:32"], leafByName["num:9007199254740992"], leafByName["num:NaN"]}
	var cases []litCase
	pairs := map[[2]int]bool{}
	addPair := func(a, b int) {
		if !pairs[[2]int{a, b}] {
			pairs[[2]int{a, b}] = true
		}
	}
	for _, a := range small {
		for _, b := range small {
			addPair(a, b)
		}
	}
	for _, a := range lits {
		for _, b := range few {
			addPair(a, b)
			addPair(b, a)
		}
		if extended {
			for _, b := range small {
				addPair(a, b)
				addPair(b, a)
			}
		}
	}
	var plist [][2]int
	for pr := range pairs {
		plist = append(plist, pr)
	}
	sort.Slice(plist, func(i, j int) bool {
		return plist[i][0] < plist[j][0] || (plist[i][0] == plist[j][0] && plist[i][1] < plist[j][1])
	})
	for _, op := range ex.u.ops {
		if op.Fam == "binary" {
			for _, pr := range plist {
				cases = append(cases, litCase{op, "expr", pr[0], pr[1]}, litCase{op, "assign", pr[0], pr[1]})
			}
		}
		if op.Fam == "unary" {
			for _, a := range lits {
				cases = append(cases, litCase{op, "expr", a, -1})
			}
		}
	}
	workers := map[*worker]bool{}
	ok := ex.r.Parallel(int64(len(cases)), 1024, func(wk int, lo, hi int64) {
		w := newWorkerCached(ex.r, wk)
		for idx := lo; idx < hi; idx++ {
			c := cases[idx]
			w.evals++
			for _, f := range judgeLiteral(w, c) {
				bn := ""
				if c.b >= 0 {
					bn = ex.u.leaves[c.b].name
				}
				w.fail(idx, f[0], f[1], Case{Kind: "literal", Name: strings.Join([]string{c.form, c.op.Name, ex.u.leaves[c.a].name, bn}, "\x00"), Text: f[1], Sig: f[0]})
			}
		}
		wcMu.Lock()
		workers[w] = true
		wcMu.Unlock()
	})
	for w := range workers {
		ex.r.Eval(w.evals)
		ex.r.NontrivialN(w.evals)
		ex.r.Add("literal_route_programs", w.evals)
		w.evals = 0
		ex.mergeWorkerFails(w)
	}
	label := "source literals"
	if extended {
		label = "source literals (extended)"
	}
	ex.bounds[label] = fmt.Sprintf("%d numeric literal spellings (sloppy+strict); %d compiled programs: every binary operator (expression and compound-assignment form) over %d operand pairs and every unary operator over %d literal operands, complete=%v", len(forms), len(cases), len(plist), len(lits), ok)
	ex.flushFails("literal")
	return ok
}

// ---------- Go numeric kinds through Runtime.ToValue ----------

type (
	nInt    int
	nInt8   int8
	nInt64  int64
	nUint   uint
	nUint8  uint8
	nUint32 uint32
	nUint64 uint64
	nF32    float32
	nF64    float64
)

type goKind struct {
	name string
	v    interface{}
	want float64
}

func bigF(s string) float64 {
	i, ok := new(big.Int).SetString(s, 10)
	if !ok {
		panic(s)
	}
	return nm.BigToFloat(i)
}

func goKinds() []goKind {
	var ks []goKind
	add := func(name string, v interface{}, want float64) {
		ks = append(ks, goKind{fmt.Sprintf("%s(%s)", name, fmt.Sprint(v)), v, want})
	}
	for _, i := range []int64{0, 1, -1, 127, -128} {
		add("int8", int8(i), float64(i))
		add("named int8", nInt8(i), float64(i))
	}
	for _, i := range []int64{0, 255} {
		add("uint8", uint8(i), float64(i))
		add("named uint8", nUint8(i), float64(i))
	}
	for _, i := range []int64{-32768, 32767} {
		add("int16", int16(i), float64(i))
	}
	add("uint16", uint16(65535), 65535)
	for _, i := range []int64{math.MinInt32, math.MaxInt32, 0} {
		add("int32", int32(i), float64(i))
	}
	add("uint32", uint32(math.MaxUint32), math.MaxUint32)
	add("named uint32", nUint32(math.MaxUint32), math.MaxUint32)
	for _, s := range []string{"0", "-1", "9007199254740991", "9007199254740992", "9007199254740993", "9007199254740995", "-9007199254740992", "-9007199254740993", "9223372036854775807", "-9223372036854775808", "9223372036854774784", "4611686018427387905"} {
		i, _ := new(big.Int).SetString(s, 10)
		add("int64", i.Int64(), bigF(s))
		add("int", int(i.Int64()), bigF(s))
		add("named int64", nInt64(i.Int64()), bigF(s))
		add("named int", nInt(i.Int64()), bigF(s))
	}
	for _, s := range []string{"0", "9007199254740992", "9007199254740993", "9223372036854775807", "9223372036854775808", "9223372036854775809", "9223372036854777856", "18446744073709551615", "18446744073709549568", "18446744073709550592"} {
		i, _ := new(big.Int).SetString(s, 10)
		add("uint64", i.Uint64(), bigF(s))
		add("uint", uint(i.Uint64()), bigF(s))
		add("uintptr", uintptr(i.Uint64()), bigF(s))
		add("named uint64", nUint64(i.Uint64()), bigF(s))
		add("named uint", nUint(i.Uint64()), bigF(s))
	}
	negz := math.Copysign(0, -1)
	for _, f := range []float64{0, negz, 1, -1, 0.5, 1.5, 16777216, 9007199254740992, 9007199254740994, -9007199254740992, 1e21, 5e-324, math.MaxFloat64, math.Inf(1), math.Inf(-1), math.NaN(), math.Float64frombits(0x7ff8000000000000), math.Float64frombits(0xfff8000000000001), 4294967296, 2147483648.5} {
		ks = append(ks, goKind{"float64(" + nm.ShowNum(f) + fmt.Sprintf("/%x)", math.Float64bits(f)), f, f})
		ks = append(ks, goKind{"named float64(" + nm.ShowNum(f) + fmt.Sprintf("/%x)", math.Float64bits(f)), nF64(f), f})
	}
	for _, f := range []float32{0, float32(negz), 1, 0.1, 16777216, 3.4028235e38, 1e-45, float32(math.Inf(1)), float32(math.NaN()), math.Float32frombits(0xffc00001), 2147483648} {
		ks = append(ks, goKind{"float32(" + nm.ShowNum(float64(f)) + fmt.Sprintf("/%x)", math.Float32bits(f)), f, float64(f)})
		ks = append(ks, goKind{"named float32(" + nm.ShowNum(float64(f)) + fmt.Sprintf("/%x)", math.Float32bits(f)), nF32(f), float64(f)})
	}
	return ks
}

func checkGoKind(w *worker, name string) (fs [][2]string) {
	for _, k := range goKinds() {
		if k.name == name {
			return judgeGoKind(w, k)
		}
	}
	return [][2]string{{"replay|bad", "unknown Go kind case " + name}}
}

func judgeGoKind(w *worker, k goKind) (fs [][2]string) {
	kn := k.name[:strings.IndexByte(k.name, '(')]
	plus := w.fn(opByName["(+%s)"].idx)
	routes := []struct {
		name string
		get  func() (goja.Value, error)
	}{
		{"ToValue", func() (goja.Value, error) { return w.rt.ToValue(k.v), nil }},
		{"global binding", func() (goja.Value, error) { w.rt.Set("__g", k.v); return w.rt.RunString("__g") }},
		{"[]interface{} element", func() (goja.Value, error) {
			w.rt.Set("__g", []interface{}{k.v})
			return w.rt.RunString("__g[0]")
		}},
		{"map value", func() (goja.Value, error) {
			w.rt.Set("__g", map[string]interface{}{"k": k.v})
			return w.rt.RunString("__g.k")
		}},
		{"func result", func() (goja.Value, error) {
			w.rt.Set("__g", func() interface{} { return k.v })
			return w.rt.RunString("__g()")
		}},
	}
	for _, rt := range routes {
		v, err := rt.get()
		if err != nil {
			fs = append(fs, [2]string{"gokind|" + kn + "|" + rt.name + "|throws", fmt.Sprintf("%s of Go value %s throws %v", rt.name, k.name, err)})
			continue
		}
		how := rt.name
		if goja.VerifRepr(v) == "object" {
			// named numeric types become host objects that "behave similar to a Number": observe through unary plus
			pv, err := plus(goja.Undefined(), v)
			if err != nil {
				fs = append(fs, [2]string{"gokind|" + kn + "|" + rt.name + "|throws", fmt.Sprintf("+(%s of Go value %s) throws %v", rt.name, k.name, err)})
				continue
			}
			v = pv
			how = "+(" + rt.name + ")"
		}
		key, m := classify(v)
		if m.K != nm.Number || !nm.SameNum(m.N, k.want) {
			fs = append(fs, [2]string{fmt.Sprintf("gokind|%s|value", kn), fmt.Sprintf("%s of Go value %s is the Number %s, the nearest Number to its mathematical value is %s", how, k.name, m.Show(), nm.ShowNum(k.want))})
			continue
		}
		if ok, why := canonical(key); !ok {
			sig := fmt.Sprintf("gokind|%s|noncanonical|%s", kn, why)
			if why == "2^53 held as float" {
				sig = "noncanonical|2^53 held as float|ToValue(Go integer)"
			}
			fs = append(fs, [2]string{sig, fmt.Sprintf("%s of Go value %s yields %s in a non-canonical representation (%s)", how, k.name, m.Show(), why)})
		}
	}
	return
}

func runGoKinds(ex *explorer) {
	w := newWorkerCached(ex.r, 0)
	ks := goKinds()
	for i, k := range ks {
		for _, f := range judgeGoKind(w, k) {
			w.fail(int64(i), f[0], f[1], Case{Kind: "gokind", Name: k.name, Text: k.name, Sig: f[0]})
		}
	}
	ex.r.Eval(int64(5 * len(ks)))
	ex.r.NontrivialN(int64(5 * len(ks)))
	ex.mergeWorkerFails(w)
	ex.bounds["Go numeric kinds"] = fmt.Sprintf("%d Go values (every numeric kind incl. named types, boundaries around 2^53 / 2^63 / 2^64, NaN payloads) x 5 routes into the runtime", len(ks))
	ex.flushFails("gokind")
}

// ---------- regression corpus: the minimal case of every listed finding, run first ----------

//go:embed regress.json
var regressJSON []byte

type regressEntry struct {
	Signature string `json:"signature"`
	What      string `json:"what"`
	Case      Case   `json:"case"`
}

func loadRegress() []regressEntry {
	var es []regressEntry
	if len(regressJSON) > 0 {
		if err := json.Unmarshal(regressJSON, &es); err != nil {
			panic("regress.json: " + err.Error())
		}
	}
	return es
}

func runRegression(ex *explorer) {
	es := loadRegress()
	n := 0
	for _, e := range es {
		hit := false
		for _, f := range replayCase(ex.r, e.Case) {
			if f[0] == e.Signature && !hit {
				ex.r.Violation(f[0], f[1], e.Case)
				hit = true
				n++
			}
		}
	}
	ex.r.Eval(int64(len(es)))
	ex.r.Set("regression_corpus", fmt.Sprintf("%d recorded minimal cases re-executed first, %d still fail", len(es), n))
}
